"""Writes MANIFEST.json from the table below (kept in one place so that it always validates)."""
import json

CHECKS = {
    "C17": dict(
        text="Lean 4 theorems over the executable model of uniform_quantize_tensor.py: scale positive/finite-or-rejected, symmetric zero point 0, zero exactly representable, codes in (narrow) range, monotonicity under IEEE rounding (all for every rational input, float32/float64), and the exact half-step / identity / coverage laws in ideal arithmetic; the model is tied bit-exactly to the code by the arith correspondence (incl. all 4/8-bit codes).",
        note="IEEE-rounded versions of the round-trip laws (dq_q, q_dq) and the zero-point range under rounding are currently covered by the correspondence+oracle only, the proved versions are ideal-arithmetic; trusted base in evidence.trusted_base",
        design="§6 C17",
    ),
}
CHECKS.update({
    "C11": dict(
        text="Lean 4 theorems: for every recipe state, regex semantics (re.search is a parameter) and query, the nested loops of get_quantization_configs equal 'the last applicable rule in scope/insertion order wins, default no-quantize' (resolve_eq_spec); whatever is resolved passes the support check (resolve_sound); a failed add is a ValueError and leaves the state unchanged; '*' resets a scope. The state reached by a history is tied to the code by step-by-step correspondence over all histories of length <= 2 (reduced alphabet) and sampled longer ones, plus an independent declarative oracle.",
        note="the declarative characterisation of the state after an arbitrary history (survivor rules) is not yet a theorem; it is covered by the exhaustive/sampled correspondence and the independent oracle",
        design="§6 C11",
    ),
    "C12": dict(
        text="Lean 4 theorems: every constructible OpQuantizationConfig survives to_dict -> from_dict (cfg_roundtrip, all field values), every exported rule reloads as the same add call (rule_reload), every shipped recipe loads and the default recipes are fixpoints of load;get (kernel evaluation over the recipe table regenerated from the live tree). Reload equality of whole recipes, equal resolution and byte-identical quantize() output are checked on the real code for generated histories.",
        note="full-state reload theorem (induction over scopes under the reachable-state invariant) not proved yet; byte-identical output also relies on the flatbuffer writer being deterministic (external)",
        design="§6 C12",
    ),
    "C13": dict(
        text="Lean 4 theorems over tables regenerated from the live registries/policy: the unrolling code is verified by kernel evaluation (unroll_matches); accepted without skip_checks => a legal runtime mode for that operator, for every config (accepted_minmax_legal, accepted_float_casting); unsupported => ValueError at update time, accepted => never refused; '*' rules that fail the check are never resolved (C11.resolve_sound). The model's acceptance function is compared with the code on the full 24-op x 960-config x 2-algorithm lattice exhaustively.",
        note="'the interpreter prepares every accepted pair and tracks the float model' is runtime behaviour: not proved; executed on generated single-op models by the C01/C06/C07 checks",
        design="§6 C13",
    ),
})
PENDING = {}
ALL = [f"C{i:02d}" for i in range(1, 20)]

m = {
    "version": 1,
    "setup_cmd": "cd lean/QVerif && lake build QModel QProofs QProps driver",
    "hooks": {
        "guard": "AI_EDGE_QUANTIZER_VERIF",
        "enable": "checks export AI_EDGE_QUANTIZER_VERIF=1 (see ./check); /repo is pure Python, nothing to rebuild",
        "baseline_off_cmd": "cd /repo && env -u AI_EDGE_QUANTIZER_VERIF /venv/bin/python -m pytest -ra -q -p no:cacheprovider --timeout=900 --continue-on-collection-errors",
        "source_commits": [],
        "add_only": True,
    },
    "engines": [
        {"name": "qverif-lean", "path": "lean/QVerif", "serves_properties": sorted(CHECKS),
         "kind_free_text": "Lean 4 model (QModel), proofs (QProofs/QProps) and compiled JSON-lines driver"},
        {"name": "harness", "path": "harness", "serves_properties": sorted(CHECKS),
         "kind_free_text": "Python correspondence harness, generators, oracles, table extractor"},
    ],
    "checks": [],
    "notes": "Technique family: machine-checked proof in Lean 4 + checked model/code correspondence. See DESIGN.md.",
    "not_applicable": [],
}
for pid in ALL:
    if pid in CHECKS:
        c = CHECKS[pid]
        m["checks"].append({
            "property_id": pid,
            "quick_cmd": f"./check {pid} --tier quick",
            "thorough_cmd": f"./check {pid} --tier thorough",
            "evidence_file": f"evidence/{pid}.json",
            "replay_cmd_template": f"./check {pid} --replay {{path}}",
            "engine": "qverif-lean",
            "level_claimed": {"category": "proof", "text": c["text"], "design_ref": c["design"]},
            "level_note": c["note"],
            "technique": "Lean 4 theorems over a hand-written executable model + exact differential correspondence with the Python code",
        })
    else:
        m["not_applicable"].append({"property_id": pid, "reason": PENDING.get(pid, "not claimed yet: model and check under construction (see DESIGN.md build order)")})
json.dump(m, open("MANIFEST.json", "w"), indent=1)
print("ok", len(m["checks"]), "checks")
