"""Writes MANIFEST.json from the table below (kept in one place so that it always validates)."""
import json

CHECKS = {
    "C17": dict(
        text="Lean 4 theorems over the executable model of uniform_quantize_tensor.py: scale positive/finite-or-rejected, symmetric zero point 0, zero exactly representable, codes in (narrow) range, monotonicity under IEEE rounding (all for every rational input, float32/float64), and the exact half-step / identity / coverage laws in ideal arithmetic; the model is tied bit-exactly to the code by the arith correspondence (incl. all 4/8-bit codes).",
        note="IEEE-rounded versions of the round-trip laws (dq_q, q_dq) and the zero-point range under rounding are currently covered by the correspondence+oracle only, the proved versions are ideal-arithmetic; trusted base in evidence.trusted_base",
        design="§6 C17",
    ),
}
PENDING = {}
ALL = [f"C{i:02d}" for i in range(1, 20)]

m = {
    "version": 1,
    "setup_cmd": "cd lean/QVerif && lake build QModel QProofs QProps driver",
    "hooks": {
        "guard": "AI_EDGE_QUANTIZER_VERIF",
        "enable": "checks export AI_EDGE_QUANTIZER_VERIF=1 (see ./check); /repo is pure Python, nothing to rebuild",
        "baseline_off_cmd": "cd /repo && env -u AI_EDGE_QUANTIZER_VERIF /venv/bin/python -m pytest -ra -q -p no:cacheprovider --timeout=900 --continue-on-collection-errors",
        "source_commits": [],
        "add_only": True,
    },
    "engines": [
        {"name": "qverif-lean", "path": "lean/QVerif", "serves_properties": sorted(CHECKS),
         "kind_free_text": "Lean 4 model (QModel), proofs (QProofs/QProps) and compiled JSON-lines driver"},
        {"name": "harness", "path": "harness", "serves_properties": sorted(CHECKS),
         "kind_free_text": "Python correspondence harness, generators, oracles, table extractor"},
    ],
    "checks": [],
    "notes": "Technique family: machine-checked proof in Lean 4 + checked model/code correspondence. See DESIGN.md.",
    "not_applicable": [],
}
for pid in ALL:
    if pid in CHECKS:
        c = CHECKS[pid]
        m["checks"].append({
            "property_id": pid,
            "quick_cmd": f"./check {pid} --tier quick",
            "thorough_cmd": f"./check {pid} --tier thorough",
            "evidence_file": f"evidence/{pid}.json",
            "replay_cmd_template": f"./check {pid} --replay {{path}}",
            "engine": "qverif-lean",
            "level_claimed": {"category": "proof", "text": c["text"], "design_ref": c["design"]},
            "level_note": c["note"],
            "technique": "Lean 4 theorems over a hand-written executable model + exact differential correspondence with the Python code",
        })
    else:
        m["not_applicable"].append({"property_id": pid, "reason": PENDING.get(pid, "not claimed yet: model and check under construction (see DESIGN.md build order)")})
json.dump(m, open("MANIFEST.json", "w"), indent=1)
print("ok", len(m["checks"]), "checks")
