"""Writes MANIFEST.json from the table below (kept in one place so that it always validates)."""
import json

CHECKS = {
    "C17": dict(
        text="Lean 4 theorems over the executable model of uniform_quantize_tensor.py: scale positive/finite-or-rejected, symmetric zero point 0, zero exactly representable, codes in (narrow) range, monotonicity under IEEE rounding (all for every rational input, float32/float64), and the exact half-step / identity / coverage laws in ideal arithmetic; the model is tied bit-exactly to the code by the arith correspondence (incl. all 4/8-bit codes).",
        note="both ideal-arithmetic (QProps/C17) and IEEE-rounded (QProps/C17b: zp_in_range, q_dq_rounded, dq_q_rounded with explicit float32 slack) versions are proved; C17c: 64-bit codes (bias of 16-bit-activation ops) stay in range and saturation keeps the sign (q_in_range_64, saturates_high_64) after repair D34 (pinned behaviour d34_pinned_wraps); C17d: the BLOCKWISE arithmetic (QModel/Blockwise.lean, tied bit-exactly by the family fam_blockwise): success iff the block size divides the reduction dimension, shapes and layout, BLOCKWISE = CHANNELWISE up to the data layout (blockwise_is_channelwise: finding D41 as a theorem, closed witness replayed on the real code), half-step law with the channel's step for every element of the range (sym_half_step_f32), laws of the per-block reference; finding D14 (scale=inf when max-min overflows float32) is recorded, call-site keyed",
        design="§6 C17",
    ),
}
CHECKS.update({
    "C11": dict(
        text="Lean 4 theorems: for every recipe state, regex semantics (re.search is a parameter) and query, the nested loops of get_quantization_configs equal 'the last applicable rule in scope/insertion order wins, default no-quantize' (resolve_eq_spec); whatever is resolved passes the support check (resolve_sound); a failed add is a ValueError and leaves the state unchanged; '*' resets a scope. The state reached by a history is tied to the code by step-by-step correspondence over all histories of length <= 2 (reduced alphabet) and sampled longer ones, plus an independent declarative oracle.",
        note="history theorems (QProps/C11b): the state after ANY history of add calls is characterised declaratively (history_rules, history_scope_order, history_invariant) and resolution after a history equals the spec (history_resolve); re.search is a parameter of the model (assumed to be a function of pattern and string); histories are also exported and LOADED into a second object, which must export and resolve alike (the load path rebuilds every config from its dictionary)",
        design="§6 C11",
    ),
    "C12": dict(
        text="Lean 4 theorems: every constructible OpQuantizationConfig survives to_dict -> from_dict (cfg_roundtrip, all field values), every exported rule reloads as the same add call (rule_reload), every shipped recipe loads and the default recipes are fixpoints of load;get (kernel evaluation over the recipe table regenerated from the live tree). Reload equality of whole recipes, equal resolution and byte-identical quantize() output are checked on the real code for generated histories.",
        note="C12.reload_reachable: every state reachable by a history reloads (get -> JSON -> load) to itself; byte-identical quantize() output additionally relies on the flatbuffer writer being deterministic (external, executed)",
        design="§6 C12",
    ),
    "C13": dict(
        text="Lean 4 theorems over tables regenerated from the live registries/policy: the unrolling code is verified by kernel evaluation (unroll_matches); accepted without skip_checks => a legal runtime mode for that operator, for every config (accepted_minmax_legal, accepted_float_casting); unsupported => ValueError at update time, accepted => never refused; '*' rules that fail the check are never resolved (C11.resolve_sound). The model's acceptance function is compared with the code on the full lattice (27 200 points: 25 operator names x 544 configs x 2 algorithms) exhaustively.",
        note="'the interpreter prepares every accepted pair and tracks the float model' is runtime behaviour: not proved; executed for every accepted (algorithm, operator, config) point on a generated model built around that operator (C06/C07 oracles); both orientations (adj_y) of a constant BATCH_MATMUL operand and configs spelt with strings (as recipe files deliver them) are built, CONCATENATION also with constant operands; the lattice includes BLOCKWISE weight configs (usable / unusable block size: all refused without skip_checks); findings D23-D27, D33 recorded",
        design="§6 C13",
    ),
})
CHECKS.update({
    "C01": dict(
        text="Lean 4 theorems: every single graph transformation (insert QUANTIZE / insert DEQUANTIZE / quantize tensor) preserves the decidable well-formedness predicate WF.modelOK (indices in range, unique names, single producer, valid execution order, valid graph/signature I/O); the whole transformation performer with its op-id maps preserves it for consistent chain-free instruction lists (performer_wf); instruction generation + performer preserve it for every request set of the closed shape the registered algorithms produce (modify_wf); inserted names are fresh, opcode indices valid. The interpreter clause is executed in a sandboxed child on every generated case.",
        note="end-to-end theorem C01.quantize_wf: for every model/recipe state in the converter normal form NF (QProofs/PipelineWF.NF: well-formed tagged input, no blockwise weights, graph inputs not constants, slot-role/mandatory-operand conditions), every regex semantics and statistics, quantize() raises or returns a WF.modelOK graph; the pipeline correspondence additionally evaluates WF.modelOK on the model's own output for every generated case (also outside NF); C01b (runtime clause at the level of operand TYPES): every operator of the output has a signature of the explicit, ASSUMED kernel table KernelSig.accepts (kernel_signatures_ok; hypotheses NF, no skip_checks, float input, runtime data operands, constant 16-bit convolution weights -- the last two necessary: closed witnesses replayed as runtime failures, finding D39); the table is a definition validated by execution (the driver evaluates it on every output, the same bytes are allocated and invoked in the interpreter), never proved; parameter-level kernel constraints (findings D26, D29, D33) are outside the theorem; C01c: the operator-replacing transformation for BLOCKWISE weights (emulated_subchannel.py) is modelled on its own (QModel/Emulated.lean, correspondence family fam_emulated: the real function on its own TransformationInput vs the model, field by field) and proved to preserve WF.modelOK with the frame and op-id bookkeeping the performer assumes (emulated_wf, _frame, _bookkeeping, _result_tensor, _tensors; hypotheses one result, non-negative tensor id, constant weight, each necessary) -- its integration into the performer and the blockwise arithmetic are exercised by the BLOCKWISE probe only (findings D37, D41; fixed D38, D40); interpreter allocate/invoke is runtime behaviour (executed, not proved)",
        design="§6 C01",
    ),
    "C02": dict(
        text="Lean 4 theorems: erasing the inserted QUANTIZE/DEQUANTIZE ops from the performer's result and mapping derived tensors back gives exactly the input graph (same ops, order, operands, results; no tensor renamed/reshaped/dropped; inputs unchanged; graph outputs and signature outputs denote the same original tensors; signature keys/argument names kept) — performer_skeleton / modify_skeleton, for every well-formed input and every request set of the registered algorithms' shape. Independent Python skeleton/IO oracle on every generated case.",
        note="END TO END incl. the I/O contract (QProps/C02b): graph inputs never retargeted; every output position holds the original tensor or a same-shaped new tensor standing for it, created by an inserted QUANTIZE/DEQUANTIZE and named <name>_quantized/_dequant made unique (io_counts_names_shapes, uniqueName_form/_fresh); signatures keep key/subgraph/argument names and follow a retargeted output (io_signatures, sig_outputs_aligned); INPUT resp. OUTPUT resolved to no-quantize => graph inputs keep their records resp. every output position has the original dtype and no parameters (io_float_unless_covered, io_dtype_unless_covered). Skeleton: quantize_skeleton. Operator options are represented by the orig tag (untouched by construction of the model) and compared by execution",
        design="§6 C02",
    ),
    "C03": dict(
        text="Lean 4 theorems on the materialisation model: which transformation each mode requests per operand (static range / dynamic range / weight only), non-float operands always receive NO_QUANTIZE (nonfloat_never_quantized), tensor type produced per bit width; combined with the wiring theorems of C01/C02. The materialisation and the whole pipeline are compared bit-exactly with the code; an independent per-operand dtype oracle runs on every generated case.",
        note="END TO END (QProps/C03d): for every original operator of a successful quantizePure under NF, by resolved mode: no-quantize => results/operands untouched or float32 through exactly one inserted DEQUANTIZE, constants with unchanged buffers (noquant_op_untouched); static range => integer tensors of the activation width with parameters, integer constants, 32/64-bit bias (srq_op_typed, srq_bias_typed); dynamic range / weight only / float16 (drq_op_typed, wo_op_typed, f16_op_typed); every untagged operator is a well-typed QUANTIZE/DEQUANTIZE (inserted_ops_typed). Earlier layers: per-step (C03b) and whole-performer (C03c) typing. Byte identity of untouched constants is 'same abstract buffer content' in the model; bytes are compared by execution; executed cases include INTEGER data branches (MEAN / ADD / TRANSPOSE / CONCATENATION over INT32 tensors beside the float graph) and an independent reading of the default policy as data: an operator in a quantized mode must be listed there with its config",
        design="§6 C03",
    ),
    "C04": dict(
        text="Lean 4 theorems: bias parameters (scale = input scale x weight scale per channel, zero point 0, 32/64 bit), fixed output ranges of softmax/logistic/tanh, parameters handed to another runtime tensor are carried unchanged (same-as-input / same-as-output rules), plus C17's scalar laws under IEEE rounding (positive finite scale, zero point in range, symmetric => 0). Materialisation compared bit-exactly with the code; independent oracle re-derives the reference parameters from statistics the check recomputes with its own interpreter run.",
        note="END TO END (QProps/C04c): every tensor of quantizePure's output that carries parameters -- originals, constants, outputs of inserted QUANTIZE ops -- carries (values-equal to) the reference formula on the statistics in force when its producer / reader was materialised (the caller's entry, or what a same-as-input / fixed-range operator wrote back), lent parameters, the fixed range, or quantizeBias of the reader's data and weight parameters (quantized_tensor_params, param_kinds, stats_in_force); well formed or a bias (output_params_wellformed); per-channel only on constants of weight operators on the kernel's dimension or biases; same-scale operators, concatenation, fixed ranges and the bias rule as they appear in the output (same_scale_ops_in_output, concat_inputs_in_output, fixed_range_in_output, bias_in_output). Per operator: C04b (constants use their TRUE min/max whatever the statistics dictionary holds: false before repair D36). granularity BLOCKWISE (skip_checks only) is probed against a per-block reference and is NOT honoured by the library (finding D41: one scale per output channel). Not claimed: positivity of a bias scale in general (the float product of two scales may underflow; excluded for generated scales by the 1e-4 floor, C08d)",
        design="§6 C04",
    ),
    "C05": dict(
        text="Lean 4 theorems: int4 nibble packing round trip for every list of codes incl. odd lengths (unpack_pack), packed length, little-endian round trip, and the value laws (C17.dq_q_ideal, C17.dq_q_rounded: dequantized value within half a step + explicit float32 slack; C17.cover_ideal: a constant quantized with its own min/max is in range). Independent decoder on every rewritten constant of every generated case.",
        note="END TO END (QProps/C05c): every rewritten constant of a successful quantizePure stems from an original constant through one of four sources (stored_source); its stored bytes have the length implied by dtype and element count (stored_length), decode to exactly the codes and dequantize to within scale*(1/2 + 2^(bits+4)*2^-24) of the original, symmetric and asymmetric, clipped elements included (stored_decodes_all, new scalar law decode_minmax); bias = round(bias/scale) inside the symmetric range with the sign kept on saturation (stored_bias); float16 = round-to-nearest binary16 (stored_f16). The flatbuffer writer is external; the length clause for parameters LENT by another tensor needs a shape condition that calibrate() always delivers (closed witness NeedsFits.length_needs_fits with hand-made statistics)",
        design="§6 C05",
    ),
    "C08": dict(
        text="Lean 4 theorems: (1) over regenerated tables: the model's materialisation dispatch covers every registered (algorithm, op, function); shipped recipes load, are single '.*'/'*' rules and carry policy-accepted configs; (2) TOTALITY of the graph stage (QProps/C08b): for every well-formed model and every request set of the closed shape whose parameters are in the table and which does not mix 'unquantized' with 'quantize in place' on one tensor, instruction generation + performer cannot raise (modify_total, performer_total) and return a well-formed graph (modify_total_wf); each added hypothesis is shown necessary by a kernel-checked counterexample. Rejection-freedom of the whole pipeline is executed: all shipped recipes x generated normal-form models (incl. reshape-to-scalar, bool outputs, unnamed single signatures).",
        note="C08c + C08d: complete inventory of the raise sites of the materialisation stage; under Hyp (normal form, complete statistics as delivered by calibrate(), no skip_checks, converter operand shapes), Unshared (no tied constants) and Bounded (constants and statistics within 2^63 with all-ones statistic shapes -- delivered by calibrate() on float32 contents --, biases of the channel count, float16-cast weights within 65504) quantizePure RETURNS a well-formed model (quantize_total, no remaining disjunct); every hypothesis shown necessary by a closed run; for every shipped recipe and operator name resolution selects no-quantize or a registered legal function (shipped_resolution, shipped_coverage); graph stage total (C08b). C08e: statistics produced by ANY list of (subgraph, samples) calibration sessions (several signatures, resumed sessions) and statistics restored from json (.exact format) are bounded and complete, so quantize_total_of_sessions / quantize_total_restored return a well-formed model for them; the rank-1 branch of fix_quantization_params_rank is unreachable from calibrated statistics (fixRank_calibrated, fixRank_expand_fails). Remaining restriction: PassRuntime (a selected RESHAPE/TRANSPOSE acts on a runtime tensor); runtime acceptance of the returned model is C01's executed clause",
        design="§6 C08",
    ),
    "C09": dict(
        text="Lean 4 theorems on the calibration model: resumption (calibrate on D1 then continue on D2 from the result = one pass over D1++D2, for every model/recipe/data; C09c lifts it by induction to ANY number of resumed sessions and shows the cut points irrelevant: resume_many, split_irrelevant), first sample initialises, statistics complete after >=1 sample. Calibrator compared bit-exactly (float32 EMA arithmetic included) with the model on contents captured by the harness's own interpreter; all ways of splitting 1..4 samples into sessions; independent EMA / true-min-max oracle; previous result unmodified.",
        note="C09b: EXACTNESS is proved: the entry recorded for a runtime tensor is the left fold of the 0.95 moving average over its per-sample min/max in dataset order, each sample counted once (runtime_stats_exact / _unique under the model-wide unique names the library requires; necessity witness Collision.not_exact replayed on the real code), constants carry their true min/max (const_stats_exact/_minmax), resumed = single pass (resumed_stats_exact), order matters (order_matters); the interpreter producing tensor contents is external (input of the model)",
        design="§6 C09",
    ),
    "C10": dict(
        text="Lean 4 theorem stats_complete: after calibrate() on >=1 sample every non-constant operand/result of every op selected for min/max quantization has recorded min/max (so quantize() cannot find them missing), lifted to any sequence of resumed calibration sessions (C10c.stats_complete_after_sessions via C09c.resume_many); both stages use one scope function in the model and both real scope builders are compared per op; calibrate-then-quantize executed over regex-heavy recipes incl. multi-signature models.",
        note="C10b: with a recorded entry the materialisation wrapper takes neither missing-statistics raise site (wrapper_uses_recorded_stats) and after calibrate() every selected operator's runtime operand is looked up successfully (calibrated_lookup_never_missing); equality of the two Python scope builders is established by execution on every op of every generated model, not by proof",
        design="§6 C10",
    ),
    "C14": dict(
        text="Lean 4 theorems: the statistics object handed to quantize() is unchanged; quantize() and calibrate() of a Quantizer reached by ANY history of recipe updates equal those of a fresh Quantizer that loads the exported recipe (via the reload theorem); two histories of resumed calibration sessions over the same samples in the same order give quantize() the same statistics and hence the same result (quantize_after_sessions_depends_on_samples_only). Executed: random interleavings of update/load/calibrate/quantize/validate on two Quantizers sharing results with deep equality of all caller-owned arguments, sha256 vs fresh Quantizer, and fresh processes under other PYTHONHASHSEED values.",
        note="process-level determinism and hash-seed independence are CPython/runtime behaviour: executed, not proved; validate() is only called in-process on models the runtime survives in a child process (a few models make it abort, cf. finding D29)",
        design="§6 C14",
    ),
    "C15": dict(
        text="Lean 4 theorems on the buffer-sharing decision: compatible requests read a shared constant through the same source class and, when quantizing, with ==-equal parameters; writing the same packed data twice is idempotent. Executed on generated tied-constant models (within/across subgraphs, one tensor with 2..3 consumers) x equal/different/no quantization: every buffer decoded against every referent, rejection allowed.",
        note="END TO END (QProps/C15c, quantize_shared_consistent): for every model in normal form, recipe state, regex semantics and statistics, quantizePure raises or returns a model in which every original constant buffer is untouched with all referents untouched, or holds the packed data of ONE parameter and every tensor referencing it is typed by it; derived from the soundness of both passes of the sharing check (C15b + unreadOwn_sound) through instruction generation and the performer, each hypothesis of the graph-stage theorem shown necessary by a closed witness; FALSE before repair D35 (Defect.pinned). Not covered by the theorem: numeric values observed by consumers (C05/C06/C07 checks)",
        design="§6 C15",
    ),
    "C19": dict(
        text="Lean 4 theorems: every single graph transformation leaves all other subgraphs literally unchanged (other_subgraphs_untouched); the WHOLE graph-rewriting stage is local (performer_local): for every model, instruction list and subgraph j whose operators point into the opcode table, running the performer on the model extracted around subgraph j with the instructions of j succeeds whenever the full run does and yields the same tensors, operators (opcodes resolved through the table), inputs, outputs and signatures; the hypothesis is shown necessary by a kernel-checked counterexample (hcodes_needed). Executed: subgraph i of quantize(multi-subgraph model) vs subgraph 0 of quantize(extracted model) with restricted statistics, structurally and by constant hashes.",
        note="END TO END (QProps/C19c, quantize_local_full): whenever quantizePure succeeds on the multi-subgraph model it succeeds on the model extracted around subgraph j and subgraph j of the result equals the stand-alone result (tensors, dtypes, parameters, operators, wiring, I/O, signatures) up to an injective renaming of parameter ids with ==-equal parameter objects; locality of materialisation incl. both passes of the sharing check (generate_local_full) and of instruction generation (genInsts_local) are proved; the converse is false (shared_constant_rejected, the C15 caveat); buffer contents are compared by execution",
        design="§6 C19",
    ),
})
CHECKS.update({
    "C06": dict(
        text="PARTIAL proof. Proved in Lean 4: weight-only / float16 / dynamic-range modes request only DEQUANTIZE-on-constant or in-place constant quantization (C03.xfs_wo, xfs_drq), the rewritten graph keeps the exact operator skeleton of the input (C02.quantize_skeleton), and every stored constant dequantizes to within half a step (+ float32 slack) of the original (C17.dq_q_rounded). The pipeline model is compared bit-exactly with the code on every case. The statement's observable (interpreter(quantized) = interpreter(reference built from the INPUT model + independently decoded constants)) is executed on every generated (model, recipe, input): float32-rounding tolerance for weight-only/float16, generous bound for dynamic range, with localisation of the first operator that is off.",
        note="LiteRT kernels (incl. hybrid kernels' dynamic 8-bit activation quantization) are outside the model: output equality is exploration-level evidence; C06c: the operator pattern that REPLACES a FULLY_CONNECTED with BLOCKWISE weights (emulated sub-channel) computes, over exact rationals and for all shapes, FULLY_CONNECTED on the dequantized weight -- both scale layouts, bias and fused RELU (emulated_pattern_computes_fc, _act, _close_to_float; QModel/EmuSem.lean; the SUM axis and the transpose-then-reshape layout of the codes are load-bearing: closed counter-instances); C06b: the analytic error bound of the SPECIFIED hybrid (dynamic-range) kernel is proved and shown attained (per-row input quantization to 8 bits, exact integer accumulation, rescaling); two recorded findings D23, D27 are call-site keyed",
        design="§6 C06",
    ),
    "C07": dict(
        text="PARTIAL proof. Proved in Lean 4: what the quantizer contributes to the integer numerics — scale positive/finite, zero point in range, value round-trip within half a step under IEEE rounding (C17.*), bias scale = input scale x weight scale with zero point 0 (C04.bias_params), per-operand transformations of static-range ops (C03.xfs_srq). Pipeline compared bit-exactly with the code. The statement's observable (dequantized interpreter outputs near the float outputs on the calibration input; never constant/non-finite when the float output is not) is executed on generated models of depth 1-4 for every static config family with a deliberately generous bound and localisation of the first operator that is off.",
        note="LiteRT fixed-point kernels are outside the model: closeness is exploration-level evidence; C07b: for ONE operator under the integer kernel of the TFLite quantization spec over exact rationals the dequantized result is within sy/2 + sum(|x_i| sw/2 + |w_i| sx/2 + sx sw/4) + sx sw/2 of the float result inside the output range and the nearest bound outside (fc_row_error, _sat), with the fixed fractions per width (0.59 % a8w8, 7.4 % a8w4, 0.40 % a16w8, 7.1 % a16w4) and the not-constant clause; the executed bound additionally accounts for the 512-cell tables of the 16-bit GELU/TANH/LOGISTIC kernels; the theorem's hypothesis (stored weight / bias codes within a step of the float values) is evaluated on every executed case; recorded findings D24, D25, D33, D39 are call-site keyed",
        design="§6 C07",
    ),
    "C16": dict(
        text="Lean 4 theorems over the model of the large-model serializer (constants appended behind the flatbuffer, 16-byte aligned): for every buffer list, offsets are aligned, inside the file, pairwise disjoint and in order, every external buffer's (offset,size) fields point at exactly its bytes, small/empty buffers stay inline (C16.layout, C16.fields_point_to_data); C16b lifts the adjacent statement to ANY two external constants by induction over their distance (C16b.pairwise_disjoint), shows the final flatbuffer is a byte-for-byte prefix of the output (C16b.flatbuffer_prefix) and that the writer hypothesis is satisfiable (C16b.toyFb_lenInvariant). Executed: quantize() forced through the large-model path (hook: threshold override) on generated models: raw offset/size fields parsed independently, offsets compared with the model, both serializations canonically equal and identical interpreter outputs.",
        note="the flatbuffers writer and the 2 GiB threshold itself are external; the hook only lowers the threshold",
        design="§6 C16",
    ),
    "C18": dict(
        text="Lean 4 theorems on the validation model: mse / median-diff-ratio are 0 on identical tensors, non-negative, symmetric where stated; comparison produces exactly one entry per common tensor name, inputs are filed under their names; self-comparison is all-zero. Executed: validate() on generated models vs the model's metric arithmetic (exact), float-vs-float self comparison, one entry per flatbuffer tensor.",
        note="C18b: the whole compare_model is specified and proved on the model: which names are reported, in which single group, with which value (mean in sample order of the metric of the dequantized contents), self comparison files 0 everywhere, non-negativity, MSE symmetry, and an iff characterisation of success and of every failure; the interpreter runs are external inputs of the model; interpreter-internal scratch tensors are ignored; cases hit by finding D27 (runtime results depend on uninitialised memory) are not compared numerically; references holding quantized tensors (the quantized model against itself / as the reference of the float model) are executed too; models on which the runtime aborts in a child process are skipped",
        design="§6 C18",
    ),
})
PENDING = {}
ALL = [f"C{i:02d}" for i in range(1, 20)]

m = {
    "version": 1,
    "setup_cmd": "cd lean/QVerif && lake build QModel QProofs QProps driver",
    "hooks": {
        "guard": "AI_EDGE_QUANTIZER_VERIF",
        "enable": "checks export AI_EDGE_QUANTIZER_VERIF=1 (see ./check); /repo is pure Python, nothing to rebuild",
        "baseline_off_cmd": "cd /repo && env -u AI_EDGE_QUANTIZER_VERIF /venv/bin/python -m pytest -ra -q -p no:cacheprovider --timeout=900 --continue-on-collection-errors",
        "source_commits": ["60815a513dae9062d0ff87dbb19546cc3598d09f"],
        "add_only": True,
    },
    "engines": [
        {"name": "qverif-lean", "path": "lean/QVerif", "serves_properties": sorted(CHECKS),
         "kind_free_text": "Lean 4 model (QModel), proofs (QProofs/QProps) and compiled JSON-lines driver"},
        {"name": "harness", "path": "harness", "serves_properties": sorted(CHECKS),
         "kind_free_text": "Python correspondence harness, generators, oracles, table extractor"},
    ],
    "checks": [],
    "notes": "Technique family: machine-checked proof in Lean 4 + checked model/code correspondence. See DESIGN.md.",
    "not_applicable": [],
}
for pid in ALL:
    if pid in CHECKS:
        c = CHECKS[pid]
        m["checks"].append({
            "property_id": pid,
            "quick_cmd": f"./check {pid} --tier quick",
            "thorough_cmd": f"./check {pid} --tier thorough",
            "evidence_file": f"evidence/{pid}.json",
            "replay_cmd_template": f"./check {pid} --replay {{path}}",
            "engine": "qverif-lean",
            "level_claimed": {"category": "proof", "text": c["text"], "design_ref": c["design"]},
            "level_note": c["note"],
            "technique": "Lean 4 theorems over a hand-written executable model + exact differential correspondence with the Python code",
        })
    else:
        m["not_applicable"].append({"property_id": pid, "reason": PENDING.get(pid, "not claimed yet: model and check under construction (see DESIGN.md build order)")})
json.dump(m, open("MANIFEST.json", "w"), indent=1)
print("ok", len(m["checks"]), "checks")
