"""Runs EVERY registered quick check against every kept seeded change (patch applied to /repo, reverted afterwards)
and records the full row in seeded/<id>/meta.json["matrix"].   usage: seed_matrix.py [parallel] [seed ids...]"""
import json, os, pathlib, subprocess, sys, time
from concurrent.futures import ThreadPoolExecutor

REPO = os.environ.get("VERIF_REPO", "/repo")   # the tree the patches are applied to (a scratch clone when set)

ROOT = pathlib.Path(__file__).resolve().parent.parent
par = int(sys.argv[1]) if len(sys.argv) > 1 else 6
only = sys.argv[2:]
props = [c["property_id"] for c in json.load(open(ROOT / "MANIFEST.json"))["checks"]]


def sh(cmd, cwd=None, timeout=2400, env=None):
    p = subprocess.run(cmd, cwd=cwd, shell=isinstance(cmd, str), capture_output=True, text=True, timeout=timeout, env=env)
    return p.returncode, p.stdout + p.stderr


def run(p):
    t = time.time()
    rc, o = sh(["./check", p, "--tier", "quick"], cwd=str(ROOT), env=dict(os.environ, VERIF_EVIDENCE_DIR="/tmp/seed_matrix_evidence"))
    lines = [l for l in o.splitlines() if l.startswith("VIOLATION")]
    return p, {"exit": rc, "violations": len(lines), "nfi": any(l.endswith("no-failing-input-found") for l in lines), "wall_s": round(time.time() - t, 1)}


assert sh("git status --porcelain --untracked-files=no", cwd=REPO)[1].strip() == "", "/repo is not clean"
for d in sorted((ROOT / "seeded").iterdir()):
    if only and d.name not in only:
        continue
    mp = d / "meta.json"
    if not mp.exists():
        continue
    meta = json.loads(mp.read_text())
    rc, o = sh(["git", "apply", str(d / "patch.diff")], cwd=REPO)
    if rc != 0:
        print(d.name, "patch does not apply:", o[:200])
        continue
    try:
        with ThreadPoolExecutor(par) as ex:
            row = dict(ex.map(run, props))
    finally:
        sh("git checkout -- .", cwd=REPO)
    meta["matrix"] = row
    meta["detected_by"] = [p for p in props if row[p]["exit"] == 1]
    mp.write_text(json.dumps(meta, indent=1))
    print(d.name, "caught by", meta["detected_by"], "exit2:", [p for p in props if row[p]["exit"] not in (0, 1)], flush=True)
