"""Run the repo's pinned suite (guard OFF) and compare passing tests with /root/.vp/BASELINE.json."""
import json, os, subprocess, sys, tempfile
import xml.etree.ElementTree as ET
env = dict(os.environ); env.pop("AI_EDGE_QUANTIZER_VERIF", None); env["TF_CPP_MIN_LOG_LEVEL"] = "3"
out = tempfile.mktemp(suffix=".xml")
subprocess.run(["/venv/bin/python", "-m", "pytest", "-q", "-p", "no:cacheprovider", "--timeout=900",
                "--continue-on-collection-errors", f"--junitxml={out}"], cwd="/repo", env=env,
               stdout=subprocess.DEVNULL, stderr=subprocess.DEVNULL)
passed = set()
for tc in ET.parse(out).getroot().iter("testcase"):
    if not any(ch.tag in ("failure", "error", "skipped") for ch in tc):
        passed.add(f"{tc.get('classname')}::{tc.get('name')}")
os.unlink(out)
base = set(json.load(open("/root/.vp/BASELINE.json"))["stable_pass"])
missing = sorted(base - passed)
print(f"baseline stable_pass={len(base)} passed_now={len(passed)} missing={len(missing)}")
for m in missing[:20]:
    print("  MISSING", m)
sys.exit(1 if missing else 0)
