"""Rewrites the block between <!-- SEED-TABLE-BEGIN --> and <!-- SEED-TABLE-END --> of DESIGN.md with the output of tools/seed_table.py."""
import pathlib, subprocess, sys

root = pathlib.Path(__file__).resolve().parent.parent
table = subprocess.run([sys.executable, str(root / "tools" / "seed_table.py")], capture_output=True, text=True, cwd=root).stdout
p = root / "DESIGN.md"
s = p.read_text()
a, b = s.index("<!-- SEED-TABLE-BEGIN -->") + len("<!-- SEED-TABLE-BEGIN -->"), s.index("<!-- SEED-TABLE-END -->")
p.write_text(s[:a] + "\n" + table.strip("\n") + "\n" + s[b:])
print(len(table.splitlines()), "lines")
