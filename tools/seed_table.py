"""Prints the markdown table 'seeded change -> checks that catch it' from seeded/*/meta.json (used for DESIGN.md §12)."""
import json
import pathlib
import re

rows = []
for d in sorted(pathlib.Path(__file__).resolve().parent.parent.joinpath("seeded").iterdir()):
    mp = d / "meta.json"
    if not mp.exists():
        continue
    m = json.loads(mp.read_text())
    patch = (d / "patch.diff").read_text() if (d / "patch.diff").exists() else ""
    files = sorted({re.sub(r"^ai_edge_quantizer/", "", f) for f in re.findall(r"^\+\+\+ b/(\S+)", patch, re.M)})
    what = ""
    for line in (m.get("needs_to_manifest") or "").splitlines():
        line = line.strip("# ").strip()
        if line and not line.lower().startswith("change"):
            what = line
            break
    what = re.sub(r"^C\d\d\s*(regression|seed|change)?\s*\d*\s*[-—:]*\s*", "", what, flags=re.I)[:150].replace("|", "/")
    rc = m.get("recheck")
    if rc is None:
        now = "not re-run"
    elif rc["exit"] == 1:
        now = "caught (failing input)" if rc.get("concrete") else "caught (no-failing-input-found)"
    else:
        now = "**not caught**"
    if m.get("note_current_tree"):
        now += " — " + m["note_current_tree"][:160].replace("|", "/")
    first = ", ".join(m.get("detected_by") or []) or "none"
    rows.append(f"| {m['seed_id']} | {m['breaks_property']} | {', '.join(files)} | {what} | {first} | {now} |")
print("| seed | breaks | file(s) | change | caught by (all checks run when the seed was imported) | own check, current /verif on the repaired tree |")
print("|---|---|---|---|---|---|")
print("\n".join(rows))
