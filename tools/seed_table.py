"""Prints the markdown table 'seeded change -> checks that catch it' from seeded/*/meta.json (used for DESIGN.md §12)."""
import json
import pathlib
import re

rows = []
for d in sorted(pathlib.Path(__file__).resolve().parent.parent.joinpath("seeded").iterdir()):
    mp = d / "meta.json"
    if not mp.exists():
        continue
    m = json.loads(mp.read_text())
    patch = (d / "patch.diff").read_text() if (d / "patch.diff").exists() else ""
    files = sorted({re.sub(r"^ai_edge_quantizer/", "", f) for f in re.findall(r"^\+\+\+ b/(\S+)", patch, re.M)})
    what = ""
    for line in (m.get("needs_to_manifest") or "").splitlines():
        line = line.strip("# ").strip()
        if line and not line.lower().startswith("change"):
            what = line
            break
    what = re.sub(r"^C\d\d\s*(regression|seed|change)?\s*\d*\s*[-—:]*\s*", "", what, flags=re.I)[:150].replace("|", "/")
    ran = ", ".join(f"{r['check']}→{r['exit']}" for r in m.get("ran", []))
    rows.append(f"| {m['seed_id']} | {m['breaks_property']} | {', '.join(files)} | {what} | {ran} | {', '.join(m.get('detected_by') or []) or '**none**'} |")
print("| seed | breaks | file(s) | change | checks run → exit | caught by |")
print("|---|---|---|---|---|---|")
print("\n".join(rows))
