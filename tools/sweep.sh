#!/bin/bash
# usage: tools/sweep.sh <tier> <parallel> <seed> [Cxx ...]   — runs the listed (default: all) checks, prints one line each
tier=${1:-quick}; par=${2:-4}; seed=${3:-0}; shift 3
cd "$(dirname "$0")/.."
props=${@:-$(python3 -c "import json;print(' '.join(c['property_id'] for c in json.load(open('MANIFEST.json'))['checks']))")}
(cd lean/QVerif && lake build QModel QProofs QProps driver) > /tmp/sweep_build_$$.log 2>&1 || { echo "BUILD FAILED"; tail -20 /tmp/sweep_build_$$.log; exit 2; }
mkdir -p sweep_logs
run_one() { p=$1; VERIF_SEED=$3 ./check $p --tier $2 > sweep_logs/$p.$2.$3.log 2>&1; rc=$?
  echo "$p tier=$2 seed=$3 exit=$rc known=$(grep -c '^KNOWN-FINDING' sweep_logs/$p.$2.$3.log) $(grep '^VIOLATION' sweep_logs/$p.$2.$3.log | tr '\n' ' ')"; }
export -f run_one
echo $props | tr ' ' '\n' | xargs -P $par -I{} bash -c "run_one {} $tier $seed"
