"""Re-runs, for every kept seeded change, the quick check of the property it breaks (plus any extra checks named) against a
scratch clone of the repository with the change applied, several clones in parallel, and records the outcome in
seeded/<id>/meta.json["recheck"].   usage: seed_recheck.py <n_clones> [seed ids...]
The clones are git worktrees of /repo's HEAD under /tmp/eval/rc<k> (created and removed by this tool)."""
import json, os, pathlib, subprocess, sys, time
from concurrent.futures import ThreadPoolExecutor
from queue import Queue

ROOT = pathlib.Path(__file__).resolve().parent.parent
n = int(sys.argv[1]) if len(sys.argv) > 1 else 4
only = sys.argv[2:]


def sh(cmd, cwd=None, timeout=2400, env=None):
    p = subprocess.run(cmd, cwd=cwd, shell=isinstance(cmd, str), capture_output=True, text=True, timeout=timeout, env=env)
    return p.returncode, p.stdout + p.stderr


clones = Queue()
for k in range(n):
    d = f"/tmp/eval/rc{k}"
    sh(["git", "-C", "/repo", "worktree", "remove", "--force", d])
    rc, o = sh(["git", "-C", "/repo", "worktree", "add", "--detach", d, "HEAD"])
    assert rc == 0, o
    clones.put(d)


def one(d):
    meta = json.loads((d / "meta.json").read_text())
    prop = meta["breaks_property"]
    repo = clones.get()
    try:
        rc, o = sh(["git", "apply", str(d / "patch.diff")], cwd=repo)
        if rc != 0:
            return d.name, "patch does not apply"
        t = time.time()
        env = dict(os.environ, VERIF_REPO=repo, VERIF_EVIDENCE_DIR=f"/tmp/seed_recheck_evidence_{os.path.basename(repo)}")
        rc, o = sh(["./check", prop, "--tier", "quick"], cwd=str(ROOT), env=env)
        lines = [l for l in o.splitlines() if l.startswith("VIOLATION")]
        meta["recheck"] = {"check": prop, "exit": rc, "violations": len(lines),
                           "concrete": any(not l.endswith("no-failing-input-found") for l in lines), "wall_s": round(time.time() - t, 1),
                           "verif_commit": sh("git rev-parse --short HEAD", cwd=str(ROOT))[1].strip()}
        (d / "meta.json").write_text(json.dumps(meta, indent=1))
        return d.name, f"{prop} exit={rc} concrete={meta['recheck']['concrete']}"
    finally:
        sh("git checkout -- .", cwd=repo)
        clones.put(repo)


seeds = [d for d in sorted((ROOT / "seeded").iterdir()) if (d / "meta.json").exists() and (not only or d.name in only) and d.name != "harmless"]
with ThreadPoolExecutor(n) as ex:
    for name, res in ex.map(one, seeds):
        print(name, res, flush=True)
for k in range(n):
    sh(["git", "-C", "/repo", "worktree", "remove", "--force", f"/tmp/eval/rc{k}"])
