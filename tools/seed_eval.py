"""Confirm a seeded change (in its scratch worktree) and run /verif checks against it in /repo.

usage: seed_eval.py <out_dir> <worktree> <seed_id> <prop> [<more props to run>...]
 1. worktree: apply patch -> whole test suite must still match the baseline -> demo must exit != 0 ; revert -> demo must exit 0
 2. /repo: git apply, run ./check <prop> (quick) for every listed property, git checkout -- .
 3. copy patch/demo/README + meta.json to /verif/seeded/<seed_id>/
"""
import json, os, shutil, subprocess, sys, time
import xml.etree.ElementTree as ET

VERIF = os.path.dirname(os.path.dirname(os.path.abspath(__file__)))
REPO = os.environ.get("VERIF_REPO", "/repo")   # the tree the patches are applied to (a scratch clone when set)

out_dir, wt, seed_id, props = sys.argv[1], sys.argv[2], sys.argv[3], sys.argv[4:]
patch = os.path.join(out_dir, "patch.diff")
demo = os.path.join(out_dir, "demo.py")
ENV = dict(os.environ, TF_CPP_MIN_LOG_LEVEL="3")
ENV.pop("AI_EDGE_QUANTIZER_VERIF", None)


def sh(cmd, cwd=None, env=None, timeout=1800):
    p = subprocess.run(cmd, cwd=cwd, env=env or ENV, shell=isinstance(cmd, str), capture_output=True, text=True, timeout=timeout)
    return p.returncode, p.stdout + p.stderr


def suite(cwd):
    x = f"/tmp/seed_{os.getpid()}.xml"
    sh(["/venv/bin/python", "-m", "pytest", "-q", "-p", "no:cacheprovider", "--timeout=900", "--continue-on-collection-errors", f"--junitxml={x}"], cwd=cwd)
    passed = set()
    for tc in ET.parse(x).getroot().iter("testcase"):
        if not any(ch.tag in ("failure", "error", "skipped") for ch in tc):
            passed.add(f"{tc.get('classname')}::{tc.get('name')}")
    os.unlink(x)
    base = set(json.load(open("/root/.vp/BASELINE.json"))["stable_pass"])
    return sorted(base - passed)


def run_demo(cwd):
    return sh(["/venv/bin/python", demo], cwd=cwd, env=dict(ENV, PYTHONPATH=cwd), timeout=600)


meta = {"seed_id": seed_id, "breaks_property": props[0], "source": out_dir, "ran": []}
sh("git checkout -- .", cwd=wt)
rc, o = sh(["git", "apply", patch], cwd=wt)
assert rc == 0, "patch does not apply in worktree: " + o
missing = suite(wt)
meta["tests_missing_with_patch"] = missing
rc1, o1 = run_demo(wt)
meta["demo_exit_with_patch"] = rc1
meta["demo_output_with_patch"] = o1[-1500:]
sh("git checkout -- .", cwd=wt)
rc0, o0 = run_demo(wt)
meta["demo_exit_clean"] = rc0
confirmed = (not missing) and rc1 != 0 and rc0 == 0
meta["confirmed"] = confirmed
print(f"[{seed_id}] tests_missing={len(missing)} demo_with_patch={rc1} demo_clean={rc0} confirmed={confirmed}")
if confirmed:
    rc, o = sh(["git", "apply", patch], cwd=REPO)
    assert rc == 0, "patch does not apply in /repo: " + o
    try:
        for p in props:
            t = time.time()
            rc, o = sh(["./check", p, "--tier", "quick"], cwd=VERIF, env=dict(os.environ, VERIF_EVIDENCE_DIR="/tmp/seed_eval_evidence"), timeout=1500)
            lines = [l for l in o.splitlines() if l.startswith(("VIOLATION", "KNOWN-FINDING"))]
            meta["ran"].append({"check": p, "exit": rc, "lines": lines[:5], "wall_s": round(time.time() - t, 1)})
            print(f"   ./check {p} -> exit {rc} {lines[:2]}")
    finally:
        sh("git checkout -- .", cwd=REPO)
    meta["detected_by"] = [r["check"] for r in meta["ran"] if r["exit"] == 1]
dst = f"{VERIF}/seeded/{seed_id}"
os.makedirs(dst, exist_ok=True)
for f in ("patch.diff", "demo.py", "README.md"):
    if os.path.exists(os.path.join(out_dir, f)):
        shutil.copy(os.path.join(out_dir, f), dst)
readme = open(os.path.join(out_dir, "README.md")).read() if os.path.exists(os.path.join(out_dir, "README.md")) else ""
meta["needs_to_manifest"] = readme[:1200]
json.dump(meta, open(os.path.join(dst, "meta.json"), "w"), indent=1)
