#!/bin/bash
# usage: tools/multi_seed.sh <Cxx> [tier] seed...   — runs the check once per seed in parallel, one summary line each
p=$1; tier=$2; shift 2
cd "$(dirname "$0")/.."
for sd in "$@"; do
  ( VERIF_SEED=$sd timeout 7200 ./check $p --tier $tier > /tmp/ms_${p}_$sd.log 2>&1; rc=$?
    echo "$p seed=$sd exit=$rc known=$(grep -c '^KNOWN-FINDING' /tmp/ms_${p}_$sd.log) $(grep '^VIOLATION' /tmp/ms_${p}_$sd.log | tr '\n' ' ')" ) &
done 2>/dev/null
wait
