"""Applies behaviour-preserving refactorings (out_dir/<k>/patch.diff) to /repo one at a time, runs EVERY registered quick
check, reverts, and stores patch + result row under /verif/seeded/harmless/HR-<k>/.   usage: hr_eval.py <out_dir> [parallel] [k ...]"""
import json, os, pathlib, shutil, subprocess, sys, time
from concurrent.futures import ThreadPoolExecutor

REPO = os.environ.get("VERIF_REPO", "/repo")   # the tree the patches are applied to (a scratch clone when set)

ROOT = pathlib.Path(__file__).resolve().parent.parent
out_dir = pathlib.Path(sys.argv[1])
par = int(sys.argv[2]) if len(sys.argv) > 2 else 6
only = sys.argv[3:]
props = [c["property_id"] for c in json.load(open(ROOT / "MANIFEST.json"))["checks"]]


def sh(cmd, cwd=None, timeout=2400, env=None):
    p = subprocess.run(cmd, cwd=cwd, shell=isinstance(cmd, str), capture_output=True, text=True, timeout=timeout, env=env)
    return p.returncode, p.stdout + p.stderr


def run(p):
    t = time.time()
    rc, o = sh(["./check", p, "--tier", "quick"], cwd=str(ROOT), env=dict(os.environ, VERIF_EVIDENCE_DIR="/tmp/hr_eval_evidence"))
    lines = [l for l in o.splitlines() if l.startswith("VIOLATION")]
    detail = ""
    if lines:
        try:
            rp = lines[0].split("replay=")[1].split()[0]
            d = json.load(open(rp))
            detail = (d.get("what") or json.dumps([b.get("name") for b in d.get("broken", [])]))[:300]
        except Exception as e:  # noqa: BLE001
            detail = repr(e)
    return p, {"exit": rc, "violations": len(lines), "nfi": any(l.endswith("no-failing-input-found") for l in lines), "detail": detail,
               "wall_s": round(time.time() - t, 1), "tail": "" if rc in (0, 1) else o[-600:]}


assert sh("git status --porcelain --untracked-files=no", cwd=REPO)[1].strip() == "", "/repo is not clean"
for d in sorted([x for x in out_dir.iterdir() if x.is_dir() and x.name.isdigit()], key=lambda x: int(x.name)):
    if only and d.name not in only:
        continue
    rc, o = sh(["git", "apply", str(d / "patch.diff")], cwd=REPO)
    if rc != 0:
        print(d.name, "patch does not apply:", o[:200])
        continue
    try:
        with ThreadPoolExecutor(par) as ex:
            row = dict(ex.map(run, props))
    finally:
        sh("git checkout -- .", cwd=REPO)
    dst = ROOT / "seeded" / "harmless" / f"HR-{d.name}"
    dst.mkdir(parents=True, exist_ok=True)
    for f in ("patch.diff", "README.md"):
        if (d / f).exists():
            shutil.copy(d / f, dst)
    alarms = [p for p in props if row[p]["exit"] != 0]
    (dst / "meta.json").write_text(json.dumps({"id": f"HR-{d.name}", "kind": "behaviour-preserving refactoring", "matrix": row, "alarms": alarms}, indent=1))
    print(f"HR-{d.name}", "alarms:", {p: (row[p]["exit"], row[p]["detail"][:120]) for p in alarms}, flush=True)
