"""Correspondence family `validate.*`: model_validator.compare_model vs QModel/Validate.lean, with tensor
contents captured by the harness's own interpreter instances; plus the independent C18 oracle."""
from __future__ import annotations

import math
from fractions import Fraction

import numpy as np
from ai_edge_litert import interpreter as tfl
from ai_edge_litert import schema_py_generated as s

from . import common
from . import fam_arith as fa
from . import pipeline as pl
from .common import rat, unrat

from ai_edge_quantizer import model_validator  # noqa: E402
from ai_edge_quantizer.utils import tfl_interpreter_utils as tiu  # noqa: E402
from ai_edge_quantizer.utils import validation_utils  # noqa: E402

TT = s.TensorType


REF_KERNEL = [False]   # which kernel set the harness's own interpreters use (follows the use_reference_kernel argument under test)


def capture(mb, sig, sample):
    """contents + details of every named tensor of the signature's main subgraph (own interpreter instance;
    the input is fed the way the library feeds it, quantized inputs included)"""
    it = tfl.Interpreter(model_content=bytes(mb), experimental_preserve_all_tensors=True,
                         experimental_op_resolver_type=tfl.OpResolverType.BUILTIN_REF if REF_KERNEL[0]
                         else tfl.OpResolverType.BUILTIN_WITHOUT_DEFAULT_DELEGATES)
    it.allocate_tensors()
    tiu.invoke_interpreter_signature(it, sample, sig)
    sgi = it.get_signature_runner(sig)._subgraph_index
    out = []
    model_names = {pl.tname(t) for t in pl.read(mb).subgraphs[sgi].tensors}
    for td in it.get_tensor_details(sgi):
        if not td["name"] or td["dtype"] == np.object_:
            continue
        if td["name"] not in model_names:
            continue  # interpreter-created temporaries (e.g. BatchMatMul_scratch_buffer) are not tensors of the model
        if 0 in list(td["shape"]):
            continue  # a tensor without elements has no content (the interpreter refuses to return it; the library skips it too)
        out.append((td["name"], np.array(it.get_tensor(td["index"], sgi)), td))
    runner = it.get_signature_runner(sig)
    ins = [d["name"] for d in runner.get_input_details().values()]
    outs = [d["name"] for d in runner.get_output_details().values()]
    return sgi, out, ins, outs


def tdata_json(name, arr, td):
    qp = td["quantization_parameters"]
    if len(qp["scales"]):
        bits = {np.dtype("int8"): 8, np.dtype("int16"): 16, np.dtype("int32"): 32, np.dtype("int64"): 64}[arr.dtype]
        zps = np.asarray(qp["zero_points"])
        if len(zps) == 1 and len(qp["scales"]) > 1:
            # a prepared kernel may report its per-tensor scale expanded per channel with ONE zero point (cf. D32): numpy broadcasts the
            # single zero point against the scales, the model takes lists of equal length
            zps = np.repeat(zps, len(qp["scales"]))
        return {"name": name, "kind": "quant", "q": fa.iarr(arr),
                "qp": {"bits": bits, "qdim": int(qp["quantized_dimension"]), "sym": bool(np.sum(np.abs(zps)) == 0),
                       "scale": fa.farr(np.asarray(qp["scales"])), "zp": fa.iarr(zps)}}
    with np.errstate(all="ignore"):
        v = np.nan_to_num(np.array(arr, dtype=np.float32).flatten(), nan=1e-9, neginf=-1e9, posinf=1e9)
    return {"name": name, "kind": "float", "data": [rat(float(x)) for x in v]}


def const_names(mb, sgi):
    m = pl.read(mb)
    sg = m.subgraphs[sgi]
    out = []
    for t in sg.tensors:
        b = m.buffers[t.buffer].data
        if b is not None and len(b) >= 1 and t.type != TT.STRING:
            out.append(pl.tname(t))
    return out


def real_compare(ref_mb, tgt_mb, data, metric):
    if REF_KERNEL[0]:
        r = model_validator.compare_model(ref_mb, tgt_mb, data, metric, validation_utils.get_validation_func(metric), use_reference_kernel=True)
    else:
        r = model_validator.compare_model(ref_mb, tgt_mb, data, metric, validation_utils.get_validation_func(metric))
    out = {}
    m = pl.read(ref_mb)
    sigs = {sd.signatureKey.decode(): sd.subgraphIndex for sd in (m.signatureDefs or [])}
    for sig in r.available_signature_keys():
        g = r.get_signature_comparison_result(sig)
        names = {pl.tname(t) for t in m.subgraphs[sigs.get(sig, 0)].tensors}
        # entries for interpreter-created temporaries (uninitialised scratch memory) are outside the property
        keep = lambda d: {k: v for k, v in d.items() if k in names}  # noqa: E731
        out[sig] = {"inputs": keep(g.input_tensors), "outputs": keep(g.output_tensors), "constants": keep(g.constant_tensors),
                    "intermediates": keep(g.intermediate_tensors)}
    return out


def close(a: float, b: Fraction) -> bool:
    b = float(b)
    if not (math.isfinite(a) and math.isfinite(b)):
        return False
    return abs(a - b) <= 2e-4 * max(abs(a), abs(b)) + 1e-30


def cmp_validate(ctx, drv, ref_mb, tgt_mb, data, metric, family="validate"):
    """returns real result dict or ('raise', cls)"""
    try:
        real = real_compare(ref_mb, tgt_mb, data, metric)
        rr = ("ok", real)
    except Exception as e:  # noqa: BLE001
        rr = ("raise", type(e).__name__)
    for sig, samples in data.items():
        smp_json = []
        f32_overflow = set()
        ins = outs = None
        sgi = 0
        for smp in samples:
            sgi, rc, ins, outs = capture(ref_mb, sig, smp)
            _, tc, _, _ = capture(tgt_mb, sig, smp)
            smp_json.append({"ref": [tdata_json(n, a, td) for n, a, td in rc], "target": [tdata_json(n, a, td) for n, a, td in tc]})
            # tensors on which the documented formula, evaluated in float32 as numpy does, overflows to +inf (contents near the float32 maximum)
            tm_ = {n: (a, td) for n, a, td in tc}
            for n, a, td in rc:
                if n in tm_:
                    with np.errstate(all="ignore"):
                        v32 = _metric(metric, _deq(*tm_[n]).astype(np.float32), _deq(a, td).astype(np.float32))
                    if not math.isfinite(v32):
                        f32_overflow.add(n)
        rq = {"op": "validate", "metric": "mse" if metric == "mse" else "mdr", "samples": smp_json, "inputs": ins, "outputs": outs,
              "constants": const_names(ref_mb, sgi)}
        m = drv.ask(rq)
        small = {"sig": sig, "metric": metric, "n_samples": len(samples), "inputs": ins, "outputs": outs}
        if rr[0] == "raise":
            if m.get("err") != rr[1] and m.get("err") != "nonfinite":
                ctx.disagree(family, small, str(m)[:200], rr[1])
            continue
        if "ok" not in m:
            if m.get("err") != "nonfinite":
                sizes = []
                for sj in smp_json:
                    tm = {t["name"]: t for t in sj["target"]}
                    for t in sj["ref"]:
                        u = tm.get(t["name"])
                        if u is not None:
                            nr, nt = len(t.get("data", t.get("q", {}).get("data", []))), len(u.get("data", u.get("q", {}).get("data", [])))
                            if nr != nt:
                                sizes.append([t["name"], nr, nt])
                ctx.disagree(family, dict(small, element_counts_differ=sizes[:4]), str(m)[:200], "ok")
            continue
        got = rr[1][sig]
        for grp in ("inputs", "outputs", "constants", "intermediates"):
            mg = {k: unrat(v) for k, v in m["ok"][grp]}
            if sorted(mg) != sorted(got[grp]):
                ctx.disagree(family, small, {grp: sorted(mg)}, {grp: sorted(got[grp])})
                break
            # numpy evaluates the metric in float32: a squared difference above 3.4e38 overflows to +inf where the model's ideal
            # arithmetic yields a huge finite mean (tensors have far fewer than 1e8 elements, so a mean below 1e30 cannot overflow)
            overflow = lambda k: float(got[grp][k]) == math.inf and (float(mg[k]) >= 1e30 or k in f32_overflow)  # noqa: E731
            if any(overflow(k) for k in mg):
                ctx.tag("metric_float32_overflow")
            bad = [k for k in mg if not close(float(got[grp][k]), mg[k]) and not overflow(k)]
            if bad:
                ctx.disagree(family, small, {bad[0]: float(mg[bad[0]])}, {bad[0]: float(got[grp][bad[0]])})
                break
    return rr


def oracle(ctx, ref_mb, tgt_mb, data, metric, real, fail, self_compare=False):
    """independent: exactly one entry per common tensor name in exactly one group; value = metric of the two
    interpreters' (dequantized) contents averaged over the samples; self comparison reports 0 everywhere"""
    for sig, samples in data.items():
        g = real[sig]
        allnames = [n for grp in g.values() for n in grp]
        if len(allnames) != len(set(allnames)):
            dup = sorted({n for n in allnames if allnames.count(n) > 1})
            return fail(f"tensor filed in more than one group: {dup[:3]}", "dup-entry")
        per = {}
        overflow32 = set()
        common_names = None
        for smp in samples:
            sgi, rc, ins, outs = capture(ref_mb, sig, smp)
            _, tc, _, _ = capture(tgt_mb, sig, smp)
            tmap = {n: (a, td) for n, a, td in tc}
            names = []
            for n, a, td in rc:
                if n not in tmap:
                    continue
                names.append(n)
                x = _deq(a, td)
                y = _deq(*tmap[n])
                per.setdefault(n, []).append(_metric(metric, y, x))
                # the same documented formula evaluated in float32 (what numpy does on float32 tensors): values near the float32 maximum make
                # differences, squares or ratios overflow to +inf where the exact value is finite -- such an inf is arithmetic, not a defect
                with np.errstate(all="ignore"):
                    v32 = _metric(metric, y.astype(np.float32), x.astype(np.float32))
                if not math.isfinite(v32):
                    overflow32.add(n)
            common_names = names
        if sorted(set(common_names)) != sorted(allnames):
            missing = sorted(set(common_names) - set(allnames))[:3]
            extra = sorted(set(allnames) - set(common_names))[:3]
            return fail(f"reported tensor set differs from the tensors common to both models (missing {missing}, extra {extra})", "tensor-set")
        for grp, names in (("inputs", ins), ("outputs", [o for o in outs if o not in ins])):
            for n in names:
                if n in per and n not in g[grp]:
                    return fail(f"{n} is a signature {grp[:-1]} but is not filed under {grp}", "wrong-group")
        flat = {n: v for grp in g.values() for n, v in grp.items()}
        for n, vals in per.items():
            want = float(np.mean(vals))
            got = float(flat[n])
            if self_compare and got != 0.0:
                return fail(f"comparing a model with itself reports {got} for {n}", "self-nonzero")
            if not math.isfinite(got):
                # the library evaluates in float32: only a mean of squares beyond ~1e30 can overflow; anything else non-finite is not a metric value
                # (median_diff_ratio divides by |ref| + 1e-6: a ratio beyond 3.4e38 overflows in float32 just the same)
                if got == math.inf and (want >= 1e30 or n in overflow32):
                    ctx.tag("metric_float32_overflow_in_oracle")
                    continue
                return fail(f"value reported for {n} is {got} (the documented metric of the sanitised contents is {want})", "value-nonfinite")
            if got < 0:
                return fail(f"negative metric value for {n}", "negative")
            if abs(got - want) > 2e-4 * max(abs(got), abs(want)) + 1e-30:
                return fail(f"value reported for {n} ({got}) is not the metric of the tensor contents averaged over the samples ({want})", "value")


def _deq(a, td):
    qp = td["quantization_parameters"]
    if len(qp["scales"]):
        sc = np.asarray(qp["scales"], dtype=np.float64)
        zp = np.asarray(qp["zero_points"], dtype=np.float64)
        if len(sc) > 1:
            shp = [1] * a.ndim
            shp[qp["quantized_dimension"]] = len(sc)
            if len(zp) == 1:   # a prepared kernel may report its per-tensor scale expanded per channel with ONE zero point (cf. D32)
                zp = np.repeat(zp, len(sc))
            sc, zp = sc.reshape(shp), zp.reshape(shp)
        a = (a.astype(np.float64) - zp) * sc
    with np.errstate(all="ignore"):
        return np.nan_to_num(np.array(a, dtype=np.float32).flatten(), nan=1e-9, neginf=-1e9, posinf=1e9).astype(np.float64)


def _metric(metric, target, ref):
    if target.size == 0:
        return 0.0
    if metric == "mse":
        return float(np.mean((target - ref) ** 2))
    return float(np.median(np.abs(target - ref) / (np.abs(ref) + 1e-6)))
