"""Stand-alone correspondence check `blockwise`: the BLOCKWISE (emulated sub-channel) weight quantization of the library
(`init_tensor_min_max` BLOCKWISE branch, `_get_tensor_quant_params` BLOCKWISE branch, `uniform_quantize_for_emulated_subchannel`,
`check_subchannel_config`) against QModel/Blockwise.lean, BIT-EXACTLY (values as exact rationals, dtypes, shapes, error classes).

run:  PYTHONPATH=/verif:/repo /venv/bin/python /tmp/agents/A17/fam_blockwise.py [seed] [cases]
"""
from __future__ import annotations

import json
import random
import subprocess
import sys
import warnings
from fractions import Fraction
from types import SimpleNamespace

import numpy as np

warnings.filterwarnings("ignore")
np.seterr(all="ignore")

from ai_edge_quantizer import qtyping  # noqa: E402
from ai_edge_quantizer.algorithms.uniform_quantize import uniform_quantize_tensor as uqt  # noqa: E402
from ai_edge_quantizer.algorithms.utils import min_max_quantize_utils as mmu  # noqa: E402

from harness import common as _common  # noqa: E402

DRIVER = str(_common.DRIVER)
PR = {np.dtype("float16"): "f16", np.dtype("float32"): "f32", np.dtype("float64"): "f64"}
IW = {np.dtype("int8"): 8, np.dtype("int16"): 16, np.dtype("int32"): 32, np.dtype("int64"): 64}
FC = qtyping.TFLOperationName.FULLY_CONNECTED
BLOCKWISE = qtyping.QuantGranularity.BLOCKWISE


# --------------------------------------------------------------------------- conventions of /verif/harness/fam_arith.py

def rat(x) -> str:
    if isinstance(x, (int, np.integer)):
        return f"{int(x)}/1"
    f = float(x)
    if f != f or f in (float("inf"), float("-inf")):
        raise ValueError("nonfinite")
    fr = Fraction(f)
    return f"{fr.numerator}/{fr.denominator}"


def unrat(s: str) -> Fraction:
    n, d = s.split("/")
    return Fraction(int(n), int(d))


def finite(a) -> bool:
    return bool(np.all(np.isfinite(np.asarray(a, dtype=np.float64))))


def farr(a) -> dict:
    a = np.asarray(a)
    return {"shape": list(a.shape), "data": [rat(float(x)) for x in a.flatten()], "pr": PR[a.dtype]}


def iarr(a) -> dict:
    a = np.asarray(a)
    return {"shape": list(a.shape), "data": [int(x) for x in a.flatten()], "w": IW[a.dtype]}


def same_farr(model: dict, real) -> bool:
    real = np.asarray(real)
    if list(real.shape) != model["shape"] or PR.get(real.dtype) != model["pr"]:
        return False
    if not finite(real):
        return False
    return [Fraction(float(x)) for x in real.flatten()] == [unrat(s) for s in model["data"]]


def same_iarr(model: dict, real) -> bool:
    real = np.asarray(real)
    return list(real.shape) == model["shape"] and IW.get(real.dtype) == model["w"] and [int(x) for x in real.flatten()] == model["data"]


def qp_json(p) -> dict:
    d = {"bits": int(p.num_bits), "scale": farr(p.scale), "zp": iarr(p.zero_point), "sym": bool(p.symmetric)}
    if p.quantized_dimension is not None:
        d["qdim"] = int(p.quantized_dimension)
    return d


class Driver:
    def __init__(self):
        self.p = subprocess.Popen([DRIVER], stdin=subprocess.PIPE, stdout=subprocess.PIPE, text=True, bufsize=1 << 20)

    def ask(self, obj) -> dict:
        self.p.stdin.write(json.dumps(obj, separators=(",", ":")) + "\n")
        self.p.stdin.flush()
        line = self.p.stdout.readline()
        if not line:
            raise RuntimeError("driver died on " + json.dumps(obj)[:300])
        return json.loads(line)


# --------------------------------------------------------------------------- the real code

def real_run(w: np.ndarray, bs: int, bits: int, sym: bool):
    """what the library computes for a BLOCKWISE weight: (min, max, UniformQuantParams with quantized_data)"""
    # the configuration check comes first in the library (check_op_quantization_config); its symmetry clause is a policy, not
    # arithmetic, so it is always asked with symmetric=True: what matters here is the block-size guard
    guard = qtyping.OpQuantizationConfig(
        weight_tensor_config=qtyping.TensorQuantizationConfig(num_bits=bits, symmetric=True, granularity=BLOCKWISE, block_size=bs))
    mmu.check_subchannel_config(FC, guard)
    wcfg = qtyping.TensorQuantizationConfig(num_bits=bits, symmetric=sym, granularity=BLOCKWISE, block_size=bs)
    cfg = qtyping.OpQuantizationConfig(weight_tensor_config=wcfg)
    tensor = SimpleNamespace(buffer=0, type=0, shape=list(w.shape), name=b"w")
    buffers = [SimpleNamespace(data=w.tobytes())]
    gi = qtyping.GraphInfo(subgraph_tensors=[tensor], buffers=buffers)
    oi = qtyping.OpInfo(op=None, op_name=FC, subgraph_op_index=0, op_quant_config=cfg)
    mm = mmu.init_tensor_min_max(tensor, gi, oi)
    qp = mmu._get_tensor_quant_params(oi, mm, wcfg, tensor_content=w)
    return mm["min"], mm["max"], qp


def channelwise(w: np.ndarray, bits: int, sym: bool):
    """the ordinary per-channel (quantized dimension 0) quantization of the same weight"""
    mn = np.min(w, axis=(1,), keepdims=True)
    mx = np.max(w, axis=(1,), keepdims=True)
    zp, scale = uqt.tensor_zp_scale_from_min_max(mn, mx, bits, sym)
    qp = qtyping.UniformQuantParams(scale=scale, zero_point=zp, num_bits=bits, symmetric=sym, quantized_dimension=0)
    return scale, zp, uqt.uniform_quantize(w, qp)


# --------------------------------------------------------------------------- generators

def f32(x) -> np.float32:
    return np.float32(x)


def gen_mag(rng) -> float:
    return 10.0 ** rng.uniform(-6, 4)


def gen_block(rng, n, kind, mag):
    if kind == "zero":
        return [rng.choice([0.0, -0.0]) for _ in range(n)]
    if kind == "subnormal":
        return [rng.choice([-1, 1]) * rng.randint(1, 2 ** 23 - 1) * 2.0 ** -149 for _ in range(n)]
    if kind == "tinyfloor":  # around the 1e-4 range floor
        return [rng.choice([-1, 1]) * rng.choice([1e-4, 9.99e-5, 1.0001e-4, 5e-5, 1.27e-2, 1e-4 * rng.random()]) for _ in range(n)]
    if kind == "int":
        return [float(rng.randint(-130, 130)) for _ in range(n)]
    if kind == "pos":
        return [mag * rng.random() for _ in range(n)]
    if kind == "neg":
        return [-mag * rng.random() for _ in range(n)]
    if kind == "half":  # ties of the rounding
        return [mag * (rng.randint(-254, 254) / 254.0) for _ in range(n)]
    return [mag * rng.uniform(-1, 1) for _ in range(n)]


def gen_weight(rng, o, f, bs_hint):
    """[o, f] float32; rows are built block by block (block size bs_hint) so that blocks can differ wildly"""
    bs = max(1, min(bs_hint, f)) if f else 1
    style = rng.choice(["uniform", "blocks", "blocks", "zero_channel", "zero_blocks", "subnormal", "floor", "int", "mixed"])
    rows = []
    for c in range(o):
        row = []
        cmag = gen_mag(rng)
        zero_channel = style == "zero_channel" and (c == 0 or rng.random() < 0.4)
        j = 0
        while j < f:
            n = min(bs, f - j)
            if zero_channel:
                kind, mag = "zero", 0.0
            elif style == "uniform":
                kind, mag = "unit", cmag
            elif style == "blocks":  # blocks of very different magnitude inside one channel
                kind, mag = rng.choice(["unit", "pos", "neg", "half"]), cmag * 10.0 ** rng.choice([-4, -3, -2, -1, 0, 0])
            elif style == "zero_blocks":
                kind, mag = (("zero", 0.0) if rng.random() < 0.5 else ("unit", cmag))
            elif style == "subnormal":
                kind, mag = (("subnormal", 0.0) if rng.random() < 0.7 else rng.choice([("zero", 0.0), ("unit", 1e-30), ("unit", cmag)]))
            elif style == "floor":
                kind, mag = "tinyfloor", 0.0
            elif style == "int":
                kind, mag = "int", 0.0
            else:
                kind, mag = rng.choice(["unit", "zero", "subnormal", "tinyfloor", "int", "pos", "neg", "half"]), gen_mag(rng)
            row += gen_block(rng, n, kind, mag)
            j += n
        rows.append(row)
    with np.errstate(all="ignore"):
        a = np.array(rows, dtype=np.float32).reshape((o, f))
    a[~np.isfinite(a)] = 1.0
    return a


def gen_case(rng):
    o = rng.choice([1, 1, 2, 3, 4, 5])
    bs = rng.choice([1, 2, 2, 16, 16, 32, 32, "f", "f", 3, 5, 0])
    k = rng.random()
    if bs == "f":
        f = rng.choice([1, 2, 3, 4, 7, 16, 32, 48])
        bs = f
    elif bs == 0:
        f = rng.choice([1, 4, 16])
    elif k < 0.72:  # divisible
        f = bs * rng.choice([1, 1, 2, 3, 4] if bs <= 5 else [1, 2, 3] if bs == 16 else [1, 2])
    else:  # not divisible
        f = bs * rng.choice([0, 1, 2]) + rng.randint(1, max(1, bs - 1)) if bs > 1 else rng.choice([1, 2, 5])
    bits = rng.choice([4, 8, 8])
    sym = rng.random() < 0.8
    w = gen_weight(rng, o, f, bs if bs else 1)
    return w, bs, bits, sym


# --------------------------------------------------------------------------- comparison

class Ctx:
    def __init__(self):
        self.cases = 0
        self.bad = []
        self.tags = {}

    def tag(self, t):
        self.tags[t] = self.tags.get(t, 0) + 1

    def disagree(self, what, inp, model, real):
        self.bad.append((what, inp, model, real))
        if len(self.bad) <= 8:
            print("DISAGREE", what, json.dumps({k: v for k, v in inp.items() if k != "w"})[:300], "w.shape", inp["w"]["shape"],
                  "\n   model:", json.dumps(model)[:600], "\n   real :", str(real)[:600], flush=True)


def cmp_run(ctx: Ctx, drv: Driver, w, bs, bits, sym):
    ctx.cases += 1
    inp = {"op": "blockwise", "w": farr(w), "block": bs, "bits": bits, "sym": sym}
    try:
        real = ("ok",) + real_run(w, bs, bits, sym)
    except Exception as e:  # noqa: BLE001
        real = ("err", type(e).__name__)
    m = drv.ask(inp)
    if real[0] == "err":
        ctx.tag("err:" + real[1])
        if m.get("err") != real[1]:
            ctx.disagree("error class", inp, m, real[1])
        return None
    _, mn, mx, qp = real
    if not (finite(qp.scale) and finite(mn) and finite(mx)):
        ctx.tag("nonfinite")
        if m.get("err") != "nonfinite":
            ctx.disagree("nonfinite", inp, m, "nonfinite")
        return None
    ok = "ok" in m
    if ok:
        r = m["ok"]
        ok = (same_farr(r["min"], mn) and same_farr(r["max"], mx) and same_farr(r["qp"]["scale"], qp.scale)
              and same_iarr(r["qp"]["zp"], qp.zero_point) and r["qp"]["bits"] == qp.num_bits and r["qp"]["qdim"] == qp.quantized_dimension
              and r["qp"]["sym"] == qp.symmetric and same_iarr(r["q"], qp.quantized_data))
    if not ok:
        ctx.disagree("values", inp, m, {"min": farr(mn), "max": farr(mx), "scale": farr(qp.scale), "zp": iarr(qp.zero_point),
                                        "q": iarr(qp.quantized_data), "qdim": qp.quantized_dimension})
        return None
    ctx.tag(f"ok:bits{bits}:{'sym' if sym else 'asym'}")
    o, f = w.shape
    ctx.tag("ok:bs=f" if bs == f else f"ok:bs={bs}")
    # shape facts (C17d (a)) on the real outputs
    if list(np.shape(mn)) != [1, 1, 1, o] or list(qp.quantized_data.shape) != [1, f // bs, bs, o]:
        ctx.disagree("shape fact", inp, m, [np.shape(mn), qp.quantized_data.shape])
    # D41 on the REAL code: the blockwise codes are the channelwise codes, transposed
    sc, zp, qcw = channelwise(w, bits, sym)
    same = (np.array_equal(qcw.T.reshape(1, f // bs, bs, o), qp.quantized_data)
            and np.array_equal(np.asarray(sc).reshape(-1), np.asarray(qp.scale).reshape(-1))
            and np.array_equal(np.asarray(zp).reshape(-1), np.asarray(qp.zero_point).reshape(-1)))
    ctx.tag("real:blockwise==channelwise" if same else "real:blockwise!=channelwise")
    return qp


def cmp_with(ctx: Ctx, drv: Driver, w, bs, p, label):
    """`uniform_quantize_for_emulated_subchannel` alone, on given parameters"""
    ctx.cases += 1
    inp = {"op": "blockwise", "w": farr(w), "block": bs, "qp": qp_json(p)}
    try:
        real = ("ok", uqt.uniform_quantize_for_emulated_subchannel(w, p, bs))
    except Exception as e:  # noqa: BLE001
        real = ("err", type(e).__name__)
    m = drv.ask(inp)
    if real[0] == "err":
        ctx.tag(f"with[{label}]:err:" + real[1])
        if m.get("err") != real[1]:
            ctx.disagree("with: error class", inp, m, real[1])
        return
    if m.get("err") == "nonfinite":
        ctx.tag(f"with[{label}]:nonfinite-out-of-model")
        return
    if "ok" not in m or not same_iarr(m["ok"], real[1]):
        ctx.disagree("with: values", inp, m, iarr(real[1]))
        return
    ctx.tag(f"with[{label}]:ok")


def per_block_params(w, bs, bits, sym):
    """the reference a library honouring the granularity would use: statistics over the block axis only"""
    o, f = w.shape
    r = np.reshape(np.transpose(w, (1, 0)), (1, f // bs, bs, o))
    mn = np.min(r, axis=(0, 2), keepdims=True)
    mx = np.max(r, axis=(0, 2), keepdims=True)
    zp, scale = uqt.tensor_zp_scale_from_min_max(mn, mx, bits, sym)
    return qtyping.UniformQuantParams(scale=scale, zero_point=zp, num_bits=bits, symmetric=sym, quantized_dimension=None)


def cmp_blockwise(pctx, n):
    """the family as a part of a check run (C17): every difference is a disagreement of the correspondence `blockwise`"""
    drv = Driver()
    ctx = Ctx()
    rng = pctx.rng
    try:
        wd = np.array([[1 / 128, -3 / 512, 1.0, -0.75]], dtype=np.float32)
        for bs in (2, 4, 3, 0):
            cmp_run(ctx, drv, wd, bs, 8, True)
        for _ in range(n):
            if pctx.left() < 15:
                break
            w, bs, bits, sym = gen_case(rng)
            qp = cmp_run(ctx, drv, w, bs, bits, sym)
            o, f = w.shape
            pctx.case({"blockwise": [list(w.shape), bs, bits, sym]}, True)
            if qp is not None and rng.random() < 0.3:
                cmp_with(ctx, drv, w, bs, per_block_params(w, bs, bits, sym), "per-block")
                cmp_with(ctx, drv, w, rng.choice([1, 2, 3, f, 16]), qp, "other block size")
    finally:
        drv.p.stdin.close()
        drv.p.wait()
    for k, v in ctx.tags.items():
        pctx.tags["blockwise:" + k] = pctx.tags.get("blockwise:" + k, 0) + v
    for what, inp, model, real in ctx.bad:
        pctx.disagree("blockwise", {"what": what, "request": {k: v for k, v in inp.items()}}, str(model)[:400], str(real)[:400])
    return ctx


def main():
    seed = int(sys.argv[1]) if len(sys.argv) > 1 else 20260930
    n = int(sys.argv[2]) if len(sys.argv) > 2 else 600
    rng = random.Random(seed)
    drv = Driver()
    assert drv.ask({"op": "ping"}) == {"ok": "pong"}
    ctx = Ctx()

    # the closed witness of the theorem C17.blockwise_granularity_not_honoured, on the REAL code
    wd = np.array([[1 / 128, -3 / 512, 1.0, -0.75]], dtype=np.float32)
    _, _, qpw = real_run(wd, 2, 8, True)
    assert [int(v) for v in qpw.quantized_data.flatten()] == [1, -1, 127, -95] and list(qpw.quantized_data.shape) == [1, 2, 2, 1]
    assert [Fraction(float(v)) for v in qpw.scale.flatten()] == [Fraction(2113665, 268435456)] and list(qpw.scale.shape) == [1, 1, 1, 1]
    pbw = per_block_params(wd, 2, 8, True)
    assert [Fraction(float(v)) for v in pbw.scale.flatten()] == [Fraction(2113665, 268435456) / 128, Fraction(2113665, 268435456)]
    assert [int(v) for v in uqt.uniform_quantize_for_emulated_subchannel(wd, pbw, 2).flatten()] == [127, -95, 127, -95]
    print("witnessD on the real code: stored codes [1, -1, 127, -95] with ONE scale float32(1/127); per-block reference [127, -95, 127, -95]")

    # fixed corner cases first
    z = np.zeros((2, 4), dtype=np.float32)
    fixed = [
        (z, 2, 8, True), (z, 4, 4, True), (z, 1, 8, False),
        (np.array([[0.01, -0.005, 1.0, -0.7]], dtype=np.float32), 2, 8, True),           # the D41 witness
        (np.array([[0.01, -0.005, 1.0, -0.7]], dtype=np.float32), 2, 4, True),
        (np.array([[1e-45, -1e-45, 0, 0], [1e4, -1e4, 1e-6, 0]], dtype=np.float32), 2, 8, True),
        (np.array([[1.0, 2.0, 3.0]], dtype=np.float32), 2, 8, True),                      # not divisible
        (np.array([[1.0, 2.0, 3.0]], dtype=np.float32), 0, 8, True),                      # block size 0
        (np.array([[1.0, 2.0, 3.0, 4.0]], dtype=np.float32), -2, 8, True),                # negative block size
        (np.array([[1 / 128, -3 / 512, 1.0, -0.75]], dtype=np.float32), 2, 8, True),      # C17.witnessD
        (np.array([[1 / 128, -3 / 512, 1.0, -0.75]], dtype=np.float32), 4, 8, True),
        (np.array([[1 / 128, -3 / 512, 1.0, -0.75]], dtype=np.float32), 3, 8, True),
        (np.zeros((2, 0), dtype=np.float32), 2, 8, True),                                 # empty constant
        (np.zeros((0, 4), dtype=np.float32), 2, 8, True),
        (np.arange(24, dtype=np.float32).reshape(2, 3, 4), 2, 8, True),                   # not 2-D
        (np.arange(4, dtype=np.float32), 2, 8, True),
        (np.array([[127.0, -127.0, 63.5, 0.5, 1.5, 2.5, -0.5, -1.5]], dtype=np.float32), 4, 8, True),
    ]
    for w, bs, bits, sym in fixed:
        cmp_run(ctx, drv, w, bs, bits, sym)

    for _ in range(n):
        w, bs, bits, sym = gen_case(rng)
        qp = cmp_run(ctx, drv, w, bs, bits, sym)
        o, f = w.shape
        if qp is not None and rng.random() < 0.5:
            # the quantizer function alone: per-block parameters (what D41 says the library should have used), scalar parameters,
            # the library's own parameters with another block size, parameters that do not broadcast
            cmp_with(ctx, drv, w, bs, per_block_params(w, bs, bits, sym), "per-block")
            s0 = np.array(f32(gen_mag(rng) / 127))
            cmp_with(ctx, drv, w, bs, qtyping.UniformQuantParams(scale=s0, zero_point=np.array(np.int8(rng.randint(-3, 3))), num_bits=bits,
                                                                 symmetric=True, quantized_dimension=None), "0-d")
            cmp_with(ctx, drv, w, bs, qtyping.UniformQuantParams(scale=s0.reshape(1), zero_point=np.zeros((1,), dtype=np.int32), num_bits=bits,
                                                                 symmetric=False, quantized_dimension=None), "1-d,int32 zp")
            bs2 = rng.choice([1, 2, 3, f, 16])
            cmp_with(ctx, drv, w, bs2, qp, "other block size")
            bad = qtyping.UniformQuantParams(scale=np.ones((1, 1, 1, o + 1), dtype=np.float32), zero_point=np.zeros((1, 1, 1, o + 1), dtype=np.int8),
                                             num_bits=bits, symmetric=True, quantized_dimension=None)
            cmp_with(ctx, drv, w, bs, bad, "no broadcast")

    print(f"blockwise: {ctx.cases} cases, {len(ctx.bad)} disagreements (seed {seed})")
    for k in sorted(ctx.tags):
        print(f"  {k:45s} {ctx.tags[k]}")
    sys.exit(1 if ctx.bad else 0)


if __name__ == "__main__":
    main()
