"""Entry point: ./check <Cxx> [--tier quick|thorough] [--replay FILE]"""
import argparse
import importlib
import os
import sys
import traceback

from . import common


def main():
    ap = argparse.ArgumentParser()
    ap.add_argument("prop")
    ap.add_argument("--tier", default=os.environ.get("VERIF_TIER", "quick"), choices=["quick", "thorough"])
    ap.add_argument("--replay", default=None)
    a = ap.parse_args()
    os.environ["VERIF_TIER"] = a.tier
    seed = int(os.environ.get("VERIF_SEED", "0") or 0)
    try:
        mod = importlib.import_module(f"harness.props.{a.prop}")
    except ModuleNotFoundError:
        print(f"unknown property {a.prop}", file=sys.stderr)
        return 2
    ctx = common.Ctx(a.prop, a.tier, seed)
    try:
        if a.replay:
            return mod.replay(ctx, a.replay)
        return mod.run(ctx)
    except common.Timeout:
        print("time-out", file=sys.stderr)
        return 2
    except Exception:  # noqa: BLE001
        # The harness could not complete against this tree (typically: an internal entry point it drives was renamed
        # or changed shape). That is a broken correspondence, not by itself a violation: concrete failures found so far
        # are reported as such; otherwise the verdict is "no longer shown to hold" (no-failing-input-found).
        tb = traceback.format_exc()
        print(tb, file=sys.stderr)
        ctx.obligation("correspondence:harness-completed", "correspondence", False, tb)
        try:
            return common.finish(ctx)
        except Exception:  # noqa: BLE001
            traceback.print_exc()
            return 2


if __name__ == "__main__":
    sys.exit(main())
