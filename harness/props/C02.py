"""C02 — quantization preserves the graph skeleton and the model I/O contract."""
import json

from .. import common
from .. import fam_pipeline as fp
from .. import pipeline as pl

THEOREMS = ["C02.rewire_only_target", "C02.performer_skeleton", "C02.modify_skeleton", "C02.quantize_skeleton", "NFCheckProofs.nfOK_sound"]


def run(ctx):
    ctx.rule = ("generated float models in converter normal form (typed DAG grower over the 21 supported op types + unsupported float ops; "
                "multi-consumer tensors, repeated operands, consumed graph outputs, inputs that are outputs, dead outputs, name hazards, "
                "1-3 subgraphs/signatures, tied constants) x recipes (shipped, uniform per policy entry, random mixed rule sequences with "
                "regexes built from the model's tensor names) x random calibration data; every case goes through the real pipeline, the "
                "graph stage is compared with the Lean model, the returned bytes are compared with the input graph after erasing inserted QUANTIZE/DEQUANTIZE ops "
                "(independent Python implementation), signatures vs subgraph IO, float IO unless INPUT/OUTPUT is covered; distinct = distinct (model, recipe) pairs")
    common.proof_side(ctx, THEOREMS, modules=["QProps.C02", "QProofs.NFCheckProofs"])
    drv = common.Driver()
    def per_case(case, res):
        if res["status"] == "ok":
            fp.oracle_c02(ctx, case, res)
    # graph stage (instructions + performer on abstract parameter classes) AND the whole pipeline (bit-exact output, WF.modelOK /
    # skeleton evaluated on the model's own output, NF membership) are compared with the Lean model on every case
    def gen(rng, i):
        # constants exported as graph outputs (frozen variables returned next to the activations) in every fourth case
        return fp.gen_case(rng, i, const_output=0.5, dup_output=0.25) if i % 4 == 2 else fp.gen_case(rng, i)
    fp.explore(ctx, drv, 600 if ctx.tier == "quick" else 4000, per_case, gen=gen, graph_corr=True, pipe_corr=True)
    drv.close()
    return common.finish(ctx)


def replay(ctx, path):
    print(open(path).read()[:3000])
    return 0
