"""C02 — quantization preserves the graph skeleton and the model I/O contract."""
import json

from .. import common
from .. import fam_pipeline as fp
from .. import pipeline as pl

THEOREMS = ["C02.rewire_only_target", "C02.performer_skeleton", "C02.modify_skeleton", "C02.quantize_skeleton", "NFCheckProofs.nfOK_sound",
            # C02b: the I/O contract END TO END
            "C02.io_counts_names_shapes", "C02.uniqueName_form", "C02.uniqueName_fresh", "C02.io_signatures", "C02.sig_outputs_aligned",
            "C02.io_float_unless_covered", "C02.io_dtype_unless_covered", "C02.outputNoQuant_of_nomatch",
            "C02.E2E.shape_instance", "C02.E2E.sig_instance", "C02.E2E.float_instance", "C02.E2E.shipped_io_integer"]


def with_custom_op(case, rng):
    """appends 1-2 CUSTOM operators (unary, on tensors some operator produced) whose operator codes come LAST in the table"""
    import numpy as np
    from ai_edge_litert import schema_py_generated as s
    from tensorflow.lite.tools import flatbuffer_utils
    m = pl.read(case.mb)
    sg = m.subgraphs[0]
    prods = [o for op in sg.operators for o in op.outputs if o != -1 and sg.tensors[o].type == s.TensorType.FLOAT32]
    if not prods:
        return case
    for k in range(rng.randint(1, 2)):
        oc = s.OperatorCodeT()
        oc.builtinCode, oc.deprecatedBuiltinCode, oc.customCode, oc.version = s.BuiltinOperator.CUSTOM, s.BuiltinOperator.CUSTOM, ("VerifCustom%d" % k).encode(), 1
        m.operatorCodes.append(oc)
        src = rng.choice(prods)
        b = s.BufferT()
        m.buffers.append(b)
        t = s.TensorT()
        t.name, t.shape, t.type, t.buffer, t.quantization = ("custom_result%d" % k).encode(), list(sg.tensors[src].shape), s.TensorType.FLOAT32, len(m.buffers) - 1, None
        sg.tensors.append(t)
        op = s.OperatorT()
        op.opcodeIndex, op.inputs, op.outputs = len(m.operatorCodes) - 1, [src], [len(sg.tensors) - 1]
        op.customOptions = np.frombuffer(bytes([k + 1, 2, 3]), dtype=np.uint8)
        sg.operators.append(op)
        sg.outputs = list(sg.outputs) + [len(sg.tensors) - 1]
        for sd in (m.signatureDefs or []):
            if sd.subgraphIndex == 0:
                tm = s.TensorMapT()
                tm.name, tm.tensorIndex = ("custom_out%d" % k).encode(), len(sg.tensors) - 1
                sd.outputs.append(tm)
    case.mb = bytes(flatbuffer_utils.convert_object_to_bytearray(m))
    case.info["tags"].add("custom_operator_code_last")
    case.info["subgraphs"][0]["ops"] = list(case.info["subgraphs"][0]["ops"]) + ["CUSTOM"]
    return case


def run(ctx):
    ctx.rule = ("generated float models in converter normal form (typed DAG grower over the 21 supported op types + unsupported float ops; "
                "multi-consumer tensors, repeated operands, consumed graph outputs, inputs that are outputs, dead outputs, name hazards, "
                "1-3 subgraphs/signatures, tied constants) x recipes (shipped, uniform per policy entry, random mixed rule sequences with "
                "regexes built from the model's tensor names) x random calibration data; every case goes through the real pipeline, the "
                "graph stage is compared with the Lean model, the returned bytes are compared with the input graph after erasing inserted QUANTIZE/DEQUANTIZE ops "
                "(independent Python implementation), signatures vs subgraph IO, float IO unless INPUT/OUTPUT is covered; distinct = distinct (model, recipe) pairs")
    ctx.explanation = ("END TO END on the model, for every model in normal form, recipe state, regex semantics and statistics on which quantizePure "
                       "succeeds: erasing the inserted operators gives back the input graph (quantize_skeleton); graph inputs are never "
                       "retargeted and keep name/shape/buffer; every output position holds the original tensor or a new tensor of the same shape "
                       "standing for it, created by an inserted QUANTIZE/DEQUANTIZE and named <name>_quantized/_dequant made unique "
                       "(io_counts_names_shapes, uniqueName_form/_fresh); every signature keeps key, subgraph, argument names and follows a "
                       "retargeted output at every position (io_signatures, sig_outputs_aligned); if INPUT resolves to no-quantize every graph "
                       "input keeps its record, if OUTPUT does every output position has the original dtype and no parameters "
                       "(io_float_unless_covered, io_dtype_unless_covered); OUTPUT has the empty scope, so a rule covers it only if its regex "
                       "matches the empty string (outputNoQuant_of_nomatch). Operator options are represented by the orig tag (untouched by "
                       "construction of the model) and compared by execution.")
    common.proof_side(ctx, THEOREMS, modules=["QProps.C02", "QProps.C02b", "QProofs.NFCheckProofs"])
    drv = common.Driver()
    def per_case(case, res):
        if res["status"] == "ok":
            fp.oracle_c02(ctx, case, res)
            fp.oracle_io_covered(ctx, case, res)
    # graph stage (instructions + performer on abstract parameter classes) AND the whole pipeline (bit-exact output, WF.modelOK /
    # skeleton evaluated on the model's own output, NF membership) are compared with the Lean model on every case
    def gen(rng, i):
        if i % 12 == 7:
            # a CUSTOM operator (its code sits at the END of the operator-code table, with a custom_code string) next to operators
            # whose weights are quantized without calibration (the interpreter cannot run a custom op): inserted DEQUANTIZE operators add
            # codes to that table; every original operator must keep resolving to its own code
            from .. import gen_models as gm
            mb, info = gm.gen_model(rng, n_ops=rng.randint(2, 6), n_subgraphs=1, kinds=gm.WEIGHT_HEAVY, alias_sig=0.0)
            cfg = rng.choice([pl.UNIFORM["wo8"], pl.UNIFORM["wo4"], pl.FP16])
            cmds = [{"k": "add", "regex": ".*", "operation": "FULLY_CONNECTED" if cfg is pl.FP16 else "*", "cfg": cfg,
                     "alg": "float_casting" if cfg is pl.FP16 else "min_max_uniform_quantize"}]
            case = fp.Case(mb, info, cmds=cmds, data=gm.random_inputs(mb, rng, n=1), desc=[("custom op", cfg["cp"], cfg["weight"]["bits"])])
            return with_custom_op(case, rng)
        # constants exported as graph outputs (frozen variables returned next to the activations) in every fourth case
        return fp.gen_case(rng, i, const_output=0.5, dup_output=0.25) if i % 4 == 2 else fp.gen_case(rng, i)
    fp.explore(ctx, drv, 600 if ctx.tier == "quick" else 4000, per_case, gen=gen, graph_corr=True, pipe_corr=True)
    drv.close()
    return common.finish(ctx)


def replay(ctx, path):
    print(open(path).read()[:3000])
    return 0
