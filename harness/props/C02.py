"""C02 — quantization preserves the graph skeleton and the model I/O contract."""
import json

from .. import common
from .. import fam_pipeline as fp
from .. import pipeline as pl

THEOREMS = ["C02.rewire_only_target", "C02.performer_skeleton", "C02.modify_skeleton", "C02.quantize_skeleton"]


def run(ctx):
    ctx.rule = ("generated float models in converter normal form (typed DAG grower over the 21 supported op types + unsupported float ops; "
                "multi-consumer tensors, repeated operands, consumed graph outputs, inputs that are outputs, dead outputs, name hazards, "
                "1-3 subgraphs/signatures, tied constants) x recipes (shipped, uniform per policy entry, random mixed rule sequences with "
                "regexes built from the model's tensor names) x random calibration data; every case goes through the real pipeline, the "
                "graph stage is compared with the Lean model, the returned bytes are compared with the input graph after erasing inserted QUANTIZE/DEQUANTIZE ops "
                "(independent Python implementation), signatures vs subgraph IO, float IO unless INPUT/OUTPUT is covered; distinct = distinct (model, recipe) pairs")
    common.proof_side(ctx, THEOREMS)
    drv = common.Driver()
    rng = ctx.rng
    n = 220 if ctx.tier == "quick" else 4000
    for i in range(n):
        if ctx.left() < 25:
            break
        case = fp.gen_case(rng, i)
        res = fp.run_case(ctx, drv, case)
        fp.count_tags(ctx, case, res)
        ctx.case({"ops": [sg["ops"] for sg in case.info["subgraphs"]], "recipe": case.desc}, res["status"] != "empty")
        if res["status"] == "ok":
            fp.oracle_c02(ctx, case, res)
    drv.close()
    return common.finish(ctx)


def replay(ctx, path):
    print(open(path).read()[:3000])
    return 0
