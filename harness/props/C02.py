"""C02 — quantization preserves the graph skeleton and the model I/O contract."""
import json

from .. import common
from .. import fam_pipeline as fp
from .. import pipeline as pl

THEOREMS = ["C02.rewire_only_target", "C02.performer_skeleton", "C02.modify_skeleton", "C02.quantize_skeleton", "NFCheckProofs.nfOK_sound",
            # C02b: the I/O contract END TO END
            "C02.io_counts_names_shapes", "C02.uniqueName_form", "C02.uniqueName_fresh", "C02.io_signatures", "C02.sig_outputs_aligned",
            "C02.io_float_unless_covered", "C02.io_dtype_unless_covered", "C02.outputNoQuant_of_nomatch",
            "C02.E2E.shape_instance", "C02.E2E.sig_instance", "C02.E2E.float_instance", "C02.E2E.shipped_io_integer"]


def run(ctx):
    ctx.rule = ("generated float models in converter normal form (typed DAG grower over the 21 supported op types + unsupported float ops; "
                "multi-consumer tensors, repeated operands, consumed graph outputs, inputs that are outputs, dead outputs, name hazards, "
                "1-3 subgraphs/signatures, tied constants) x recipes (shipped, uniform per policy entry, random mixed rule sequences with "
                "regexes built from the model's tensor names) x random calibration data; every case goes through the real pipeline, the "
                "graph stage is compared with the Lean model, the returned bytes are compared with the input graph after erasing inserted QUANTIZE/DEQUANTIZE ops "
                "(independent Python implementation), signatures vs subgraph IO, float IO unless INPUT/OUTPUT is covered; distinct = distinct (model, recipe) pairs")
    ctx.explanation = ("END TO END on the model, for every model in normal form, recipe state, regex semantics and statistics on which quantizePure "
                       "succeeds: erasing the inserted operators gives back the input graph (quantize_skeleton); graph inputs are never "
                       "retargeted and keep name/shape/buffer; every output position holds the original tensor or a new tensor of the same shape "
                       "standing for it, created by an inserted QUANTIZE/DEQUANTIZE and named <name>_quantized/_dequant made unique "
                       "(io_counts_names_shapes, uniqueName_form/_fresh); every signature keeps key, subgraph, argument names and follows a "
                       "retargeted output at every position (io_signatures, sig_outputs_aligned); if INPUT resolves to no-quantize every graph "
                       "input keeps its record, if OUTPUT does every output position has the original dtype and no parameters "
                       "(io_float_unless_covered, io_dtype_unless_covered); OUTPUT has the empty scope, so a rule covers it only if its regex "
                       "matches the empty string (outputNoQuant_of_nomatch). Operator options are represented by the orig tag (untouched by "
                       "construction of the model) and compared by execution.")
    common.proof_side(ctx, THEOREMS, modules=["QProps.C02", "QProps.C02b", "QProofs.NFCheckProofs"])
    drv = common.Driver()
    def per_case(case, res):
        if res["status"] == "ok":
            fp.oracle_c02(ctx, case, res)
    # graph stage (instructions + performer on abstract parameter classes) AND the whole pipeline (bit-exact output, WF.modelOK /
    # skeleton evaluated on the model's own output, NF membership) are compared with the Lean model on every case
    def gen(rng, i):
        # constants exported as graph outputs (frozen variables returned next to the activations) in every fourth case
        return fp.gen_case(rng, i, const_output=0.5, dup_output=0.25) if i % 4 == 2 else fp.gen_case(rng, i)
    fp.explore(ctx, drv, 600 if ctx.tier == "quick" else 4000, per_case, gen=gen, graph_corr=True, pipe_corr=True)
    drv.close()
    return common.finish(ctx)


def replay(ctx, path):
    print(open(path).read()[:3000])
    return 0
