from .. import common
from .. import fam_pipeline as fp
from .. import gen_models as gm
from .. import oracles as orc

THEOREMS = ["C05.pack4_length", "C05.unpack_pack", "C05.decode_encode8", "C05.encodeAll8", "C05.decode_encode", "C05.decode_encode_wrap", "C05.decodeAll_encodeAll", "C05.encodeAllLE_length", "C05.f16Val_f16Bits", "C17.dq_q_ideal", "C17.cover_ideal", "C17.dq_q_rounded", "C17.q_in_range", "C17.q_in_range_64", "C17.saturates_high_64",
            # C05c: END TO END on quantizePure under NF: what the stored bytes of every rewritten constant are, their length, and what they decode to
            "C05.storedBytes_uniform", "C05.storedBytes_f16", "C05.rewritten_of_inr", "C05.stored_source", "C05.src_kinds", "C05.stored_length",
            "C05.stored_decodes_within_step", "C05.decode_minmax", "C05.stored_decodes_all", "C05.stored_bias", "C05.stored_f16"]


def big_constants(ctx):
    """constants of more than 2^20 elements (real layers are this large; every generated model is tiny): decoded element by element by
    the independent decoder only (the exact-rational model would need minutes for a million elements)"""
    import numpy as np
    from ai_edge_litert import schema_py_generated as s
    from .. import pipeline as pl
    rng = ctx.rng
    shapes = [("FULLY_CONNECTED", [rng.choice([1100, 1030, 1280]), 1024]), ("EMBEDDING_LOOKUP", [rng.choice([9000, 8300]), 128])]
    for kind, shp in shapes[: (2 if ctx.tier == "thorough" else 1)] if rng.random() < 0.5 else shapes[::-1][: (2 if ctx.tier == "thorough" else 1)]:
        g = gm.G()
        g.subgraph()
        r = np.random.RandomState(rng.randrange(2 ** 31))
        w = r.randn(*shp).astype(np.float32)
        if kind == "FULLY_CONNECTED":
            x = g.tensor("x", [1, shp[1]])
            wt = g.tensor("w_big", shp, data=w)
            y = g.tensor("y", [1, shp[0]])
            g.op(gm.BO.FULLY_CONNECTED, [x, wt, -1], [y], gm.OPT.FullyConnectedOptions, s.FullyConnectedOptionsT())
            g.io([x], [y], sig="serving_default")
        else:
            ids = g.tensor("ids", [2], gm.TT.INT32)
            wt = g.tensor("table_big", shp, data=w)
            y = g.tensor("y", [2, shp[1]])
            g.op(gm.BO.EMBEDDING_LOOKUP, [ids, wt], [y])
            g.io([ids], [y], sig="serving_default")
        mb = g.bytes()
        info = {"tags": {"constant_over_2^20_elements"}, "subgraphs": [{"sig": "serving_default", "int_inputs": [], "ops": [kind]}]}
        cfg = pl.UNIFORM[rng.choice(["drq8", "drq8t", "wo8"] if kind == "FULLY_CONNECTED" else ["drq8", "drq8t"])]
        cmds = [{"k": "add", "regex": ".*", "operation": kind, "cfg": cfg, "alg": "min_max_uniform_quantize"}]
        case = fp.Case(mb, info, cmds=cmds, data=None, desc=[("big constant", kind, shp, cfg["weight"]["gran"])])
        case.replay = lambda kind=kind, shp=shp, cfg=cfg: {"big_constant": kind, "shape": shp, "cfg": cfg}   # (the model itself is megabytes)
        res = fp.run_case(ctx, None, case, graph_corr=False)
        ctx.case({"big_constant": kind, "shape": shp}, res["status"] == "ok")
        ctx.tag("constant_over_2^20_elements")
        if res["status"] == "ok":
            orc.oracle_c05(ctx, case, res, fp.failer(ctx, case, prefix=f"[{kind} {shp}] "))
        else:
            ctx.fail(f"quantizing a {shp} {kind} constant raised {res.get('exc')}", case.replay(), "big-constant-raises")


def run(ctx):
    ctx.rule = ("every rewritten constant of every generated model x recipe (weights of fc/conv/depthwise/transpose-conv/batch-matmul/embedding, constant operands of elementwise ops and concatenations, biases; 4/8/16 bit, symmetric/asymmetric, per-tensor/per-channel, odd element counts) decoded by an independent decoder and compared with the float original; the arithmetic and the whole pipeline are compared bit-exactly with the Lean model; distinct = distinct (model, recipe) pairs")
    ctx.explanation = ("END TO END on the model (QProps/C05c), for every model in normal form, recipe state and statistics on which quantizePure "
                       "succeeds: every tensor of the output whose buffer was rewritten stems from an original constant d through one of four "
                       "sources (own parameters = reference formula on d's true min/max; parameters lent by another tensor; bias; float16 cast) "
                       "(stored_source, src_kinds); its stored bytes -- the driver's 'store' / 'f16' composition, int4 two per byte low nibble "
                       "first -- have the length implied by dtype and element count (stored_length), decode to exactly the codes, and the codes "
                       "dequantize with the tensor's own parameters to within scale*(1/2 + 2^(bits+4)*2^-24) of d, element by element, symmetric "
                       "and asymmetric alike, clipped elements included, for 2..16 bits and |d| <= 2^99 (stored_decodes_all via the new scalar "
                       "law decode_minmax); biases are round(bias/scale) inside the symmetric range and keep their sign on saturation "
                       "(stored_bias, 32 and 64 bit); float16 constants are the round-to-nearest binary16 of d (stored_f16). The length clause "
                       "for parameters LENT by another tensor needs a shape condition (Fits) that calibrate() always delivers; hand-made "
                       "statistics of another shape break it (NeedsFits.length_needs_fits, a closed witness; not a flow of the library). "
                       "The flatbuffer writer that embeds the bytes is external; the independent decoder runs on every rewritten constant of "
                       "every generated case.")
    common.proof_side(ctx, THEOREMS, modules=["QProps.C05", "QProps.C05b", "QProps.C17", "QProps.C17b", "QProps.C17c", "QProps.C05c"])
    drv = common.Driver()

    def per_case(case, res):
        if res["status"] == "ok":
            orc.oracle_c05(ctx, case, res, fp.failer(ctx, case))
    def gen(rng, i):
        # every 8th case: constants around the float16 overflow threshold (a float16 cast must round to nearest, incl. to inf)
        if i % 8 != 5:
            return fp.gen_case(rng, i)
        case = fp.gen_case(rng, i, const_kinds=gm.HUGE_KINDS, kinds=["FULLY_CONNECTED", "CONV_2D", "CONV_2D_TRANSPOSE", "DEPTHWISE_CONV_2D", "TANH", "RESHAPE"])
        if rng.random() < 0.6:
            # ... under a float16 cast of the weights (the only mode in which these magnitudes are stored as floats)
            from .. import pipeline as pl
            case.recipe, case.late = None, None
            case.cmds = [{"k": "add", "regex": ".*", "operation": rng.choice(["*", "FULLY_CONNECTED", "CONV_2D"]), "cfg": pl.FP16, "alg": "float_casting"}]
            case.desc = [("float16 cast", case.cmds[0]["operation"])]
            case.info["tags"].add("float16_cast_of_huge_constants")
        return case
    big_constants(ctx)
    fp.explore(ctx, drv, 600 if ctx.tier == "quick" else 4000, per_case, gen=gen, graph_corr=False, pipe_corr=True)
    drv.close()
    return common.finish(ctx)


def replay(ctx, path):
    print(open(path).read()[:3000])
    return 0
