"""C13 — every accepted (op, config) pair is runtime-sound; unsupported ones are refused."""
import json

from .. import common
from .. import fam_numeric as fnum
from .. import fam_pipeline as fp
from .. import fam_recipe as fr
from .. import gen_models as gm
from .. import oracles as orc
from .. import pipeline as pl
from ai_edge_quantizer import quantizer

THEOREMS = ["C13.unroll_matches", "C13.registered_policies", "C13.registries_consistent", "C13.skip_accepts",
            "C13.refuse_update", "C13.accept_update", "C13.accepts_unfold", "C13.policy_entries_legal",
            "C13.accepted_minmax_legal", "C13.accepted_float_casting"]


def run(ctx):
    ctx.rule = ("the full finite lattice: every TFLOperationName x activation {none,8,16 bit x sym/asym} x weight {4,8,16} x {sym,asym} x "
                "{tensor,channel}wise x {INT,FLOAT} x compute precision x explicit_dequantize x 2 algorithms (plus BLOCKWISE weights with a usable "
                "and an unusable block size), enumerated exhaustively: "
                "model vs algorithm_manager.check_op_quantization_config, update-time refusal through Quantizer.update_quantization_recipe, "
                "and resolution-time skipping under '*'; distinct = distinct lattice points")
    ctx.explanation = ("Decision logic is proved over the regenerated tables (accepted => legal runtime mode for every config, refuse/accept at "
                       "update time, unrolling verified by kernel evaluation). The interpreter clause (runtime prepares every accepted pair "
                       "and its outputs track the float model) is runtime behaviour: it is executed for every accepted (algorithm, operator, config) "
                       "point on a generated model built around that operator (C06/C07 oracles), not proved.")
    common.proof_side(ctx, THEOREMS)
    drv = common.Driver()
    m = drv.ask({"op": "unroll_policy"})
    if m.get("ok") is not True:
        ctx.disagree("policy.unroll", {"op": "unroll_policy"}, m, True)
    triples = [(a, o, d) for a in fr.ALGS for o in fr.OPS for d in fr.lattice()]
    outs = fr.cmp_accepts_batch(ctx, drv, triples)
    ctx.exhaustive = True
    accepted = [(t, r) for t, r in zip(triples, outs) if r == ("ok", True)]
    ctx.extra["lattice_points"] = len(triples)
    ctx.extra["accepted_points"] = len(accepted)
    ctx.extra["ctor_rejected"] = sum(1 for r in outs if r[0] == "ctor")
    for (a, o, d), r in zip(triples, outs):
        ctx.distinct.add(common.canon_hash((a, o, d)))
    ctx.samples = [{"alg": t[0], "op": t[1], "cfg": t[2], "accepted": True} for t, _ in accepted[:3]] + \
                  [{"alg": t[0], "op": t[1], "cfg": t[2], "outcome": list(r)} for t, r in list(zip(triples, outs))[:2]]
    # update-time behaviour through the public API (specific operator) and '*' behaviour at resolution
    step = 1 if ctx.tier == "thorough" else 7
    n_upd = 0
    q_per_op = {}
    q_long = quantizer.Quantizer(fr.model_bytes())   # ONE object whose '*' rule is replaced again and again (verdicts must not be remembered)
    for i, ((a, o, d), r) in enumerate(zip(triples, outs)):
        if r[0] == "ctor" or (i % step and r != ("ok", True)):
            continue
        if o == "*":
            continue
        if ctx.left() < 15:
            break
        q = quantizer.Quantizer(fr.model_bytes())
        cfg = fr.mk_cfg(d)
        try:
            q.update_quantization_recipe(".*", o, cfg, a)
            upd = True
        except ValueError:
            upd = False
        except Exception as e:  # noqa: BLE001
            ctx.fail(f"update raised {type(e).__name__} instead of ValueError", {"alg": a, "op": o, "cfg": d}, "update-raised-other")
            continue
        n_upd += 1
        if upd != (r == ("ok", True)):
            ctx.fail("update-time acceptance differs from the support check", {"alg": a, "op": o, "cfg": d, "update_accepted": upd}, "update-vs-check")
        # under '*': accepted at update, silently unquantized at resolution iff unsupported
        q2 = quantizer.Quantizer(fr.model_bytes())
        q2.update_quantization_recipe(".*", "*", cfg, a)
        alg, rcfg = q2._recipe_manager.get_quantization_configs(o, "x;")
        selected = str(getattr(alg, "value", alg)) != "no_quantize"
        if selected != (r == ("ok", True)):
            ctx.fail("'*' rule selected for an unsupported pair (or skipped for a supported one)", {"alg": a, "op": o, "cfg": d, "selected": selected}, "star-vs-check")
        # ... and the same on a long-lived object whose '*' rule under this regex has been replaced many times and resolved in between
        q_long.update_quantization_recipe(".*", "*", cfg, a)
        alg_l, _ = q_long._recipe_manager.get_quantization_configs(o, "x;")
        sel_l = str(getattr(alg_l, "value", alg_l)) != "no_quantize"
        if sel_l != (r == ("ok", True)):
            ctx.fail("'*' rule selected for an unsupported pair (or skipped for a supported one) on an object whose '*' rule was replaced after use",
                     {"alg": a, "op": o, "cfg": d, "selected": sel_l, "history": "the same Quantizer received and resolved other '*' rules before"}, "star-vs-check-after-replacement")
        # an accepted update for a specific operator REPLACES whatever rule that operator had under the regex (other algorithm included):
        # what resolution then returns is exactly the accepted (algorithm, config)
        if upd:
            ql = q_per_op.setdefault(o, quantizer.Quantizer(fr.model_bytes()))
            ql.update_quantization_recipe(".*", o, cfg, a)
            alg_s, cfg_s = ql._recipe_manager.get_quantization_configs(o, "x;")
            if str(getattr(alg_s, "value", alg_s)) != a or cfg_s != cfg:
                ctx.fail("after an accepted update for a specific operator, resolution returns another (algorithm, config) than the accepted one "
                         "(the operator's earlier rule under this regex, set on the same object, shines through)",
                         {"alg": a, "op": o, "cfg": d, "resolved_alg": str(getattr(alg_s, "value", alg_s)), "history": "same Quantizer, same regex and operator updated before"},
                         "accepted-update-not-in-force")
        ctx.tag("accepted" if upd else "refused")
    ctx.extra["update_and_star_checked"] = n_upd
    runtime_half(ctx, drv, accepted)
    drv.close()
    return common.finish(ctx)


def runtime_half(ctx, drv, accepted):
    """every accepted (algorithm, specific operator, config): a generated model built around that operator is quantized
    with a rule for exactly that operator; the interpreter must prepare and run it and the outputs must track the float
    model (C06 / C07 oracles). INPUT / OUTPUT pseudo-operators are exercised on a one-op model; '*' and CUSTOM_OP have
    no operator to build."""
    interp = pl.Interp()
    reps = 3 if ctx.tier == "thorough" else 1
    n = 0
    skipped = set()
    try:
        for (a, o, d), _ in accepted:
            if o in ("*", "CUSTOM_OP"):
                skipped.add(o)
                continue
            # BATCH_MATMUL: the weight's channel axis depends on adj_y, so both orientations of a constant right-hand side are built;
            # operators whose channel axis is not 0 (DEPTHWISE_CONV_2D, BATCH_MATMUL) also get the config spelt with STRINGS, as a recipe
            # file / from_dict delivers it (the granularity and dtype are str-valued enums: equal to, not identical with, their members)
            # operators with a bias and per-output-channel weights additionally get a weight with a (nearly) DEAD output channel next to an
            # ordinary bias (pruned channels): the channel's scale sits on the range floor and the bias must still fit its integer type
            variants = [(None, True, gm.BENIGN_KINDS)]
            if o == "BATCH_MATMUL":
                variants = [((False, True), True, gm.BENIGN_KINDS), ((True, True), False, gm.BENIGN_KINDS)]
            elif o == "DEPTHWISE_CONV_2D":
                variants = [(None, True, gm.BENIGN_KINDS), (None, False, gm.BENIGN_KINDS)]
            elif o in ("FULLY_CONNECTED", "CONV_2D", "CONV_2D_TRANSPOSE") and d.get("act") is not None:
                variants = [(None, True, gm.BENIGN_KINDS), (None, True, ["deadrow"])]
            # operators that hand THEIR parameters down to their operands (same scale as the output) get a variant whose other operands are
            # CONSTANTS: the constants must come out with the output's parameters, or the runtime refuses the operator
            need_tag = None
            if o == "CONCATENATION":
                variants = [(None, True, gm.BENIGN_KINDS), (None, True, gm.BENIGN_KINDS, "concat_multi_const")]
            for rep in range(reps * len(variants)):
                bmm_force, use_enum, const_kinds = variants[rep % len(variants)][:3]
                need_tag = variants[rep % len(variants)][3] if len(variants[rep % len(variants)]) > 3 else None
                if need_tag:
                    ctx.tag("runtime_" + need_tag)
                if const_kinds != gm.BENIGN_KINDS:
                    ctx.tag("runtime_dead_channel_weights")
                if ctx.left() < 25:
                    ctx.extra["runtime_truncated_at"] = n
                    return
                kinds = [o] if o in gm.Grower.SUPPORTED else [ctx.rng.choice(["FULLY_CONNECTED", "TANH", "ADD"])]
                for _try in range(20 if need_tag is None else 60):   # the random graph inputs must have a rank the operator template accepts
                    mb, info = gm.gen_model(ctx.rng, n_ops=1, n_subgraphs=1, kinds=kinds, p_unsupported=0.0, const_kinds=const_kinds, alias_sig=0.0,
                                            allow_dead=0.0, bmm_force=bmm_force)
                    if (o in info["subgraphs"][0]["ops"] or o not in gm.Grower.SUPPORTED) and (need_tag is None or need_tag in info["tags"] or _try == 59):
                        break
                if o not in info["subgraphs"][0]["ops"] and o in gm.Grower.SUPPORTED:
                    ctx.tag("runtime_not_built:" + o)
                    continue
                data = gm.random_inputs(mb, ctx.rng, n=1, scale=1.0)
                cmds = [{"k": "add", "regex": ".*", "operation": o, "cfg": d, "alg": a, "use_enum": use_enum}]
                ctx.tag("runtime_config_as_" + ("enums" if use_enum else "strings"))
                case = fp.Case(mb, info, cmds=cmds, data=data, desc=[(o, a, json.dumps(d, sort_keys=True))])
                res = fp.run_case(ctx, drv, case, graph_corr=False)
                n += 1
                ctx.tag("runtime_" + res["status"])
                fail = fp.failer(ctx, case, prefix=f"accepted pair ({a}, {o}): ")
                if res["status"] != "ok":
                    fail(f"quantization raises {res.get('exc')} at stage {res.get('stage')} although the config was accepted",
                         f"accepted-then-raises:{o}:{res.get('exc')}")
                    continue
                wf = pl.wf_violations(res["out"])
                if wf:
                    fail("output model is not well formed: " + wf[0], f"accepted-then-illformed:{o}")
                    continue
                r = interp.run(res["out"], {k: v[:1] for k, v in data.items()})
                ctx.interp_runs += 1
                if r[0] != "ok":
                    fail(f"the interpreter does not run the model: {r[0]} {str(r[1])[:160]}", f"accepted-then-rejected-by-runtime:{o}:" + pl.interp_err_class(r, res["out"]))
                    continue
                fnum.compare_float_modes(ctx, interp, case, res, fail)
                fnum.compare_static(ctx, interp, case, res, fail)
                # "tracks the float model": the stored constants themselves must decode to within one step of the originals
                orc.oracle_c05(ctx, case, res, fail)
    finally:
        interp.close()
        ctx.extra["runtime_cases"] = n
        ctx.extra["runtime_skipped_selectors"] = sorted(skipped)


def replay(ctx, path):
    print(open(path).read()[:4000])
    return 0
