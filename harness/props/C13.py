"""C13 — every accepted (op, config) pair is runtime-sound; unsupported ones are refused."""
import json

from .. import common
from .. import fam_recipe as fr
from ai_edge_quantizer import quantizer

THEOREMS = ["C13.unroll_matches", "C13.registered_policies", "C13.registries_consistent", "C13.skip_accepts",
            "C13.refuse_update", "C13.accept_update", "C13.accepts_unfold", "C13.policy_entries_legal",
            "C13.accepted_minmax_legal", "C13.accepted_float_casting"]


def run(ctx):
    ctx.rule = ("the full finite lattice: every TFLOperationName x activation {none,8,16 bit x sym/asym} x weight {4,8,16} x {sym,asym} x "
                "{tensor,channel}wise x {INT,FLOAT} x compute precision x explicit_dequantize x 2 algorithms, enumerated exhaustively: "
                "model vs algorithm_manager.check_op_quantization_config, update-time refusal through Quantizer.update_quantization_recipe, "
                "and resolution-time skipping under '*'; distinct = distinct lattice points")
    ctx.explanation = ("Decision logic is proved over the regenerated tables (accepted => legal runtime mode for every config, refuse/accept at "
                       "update time, unrolling verified by kernel evaluation). The interpreter clause (runtime prepares every accepted pair) is "
                       "runtime behaviour executed by the C01/C06/C07 machinery on generated single-op models, not proved.")
    common.proof_side(ctx, THEOREMS)
    drv = common.Driver()
    m = drv.ask({"op": "unroll_policy"})
    if m.get("ok") is not True:
        ctx.disagree("policy.unroll", {"op": "unroll_policy"}, m, True)
    triples = [(a, o, d) for a in fr.ALGS for o in fr.OPS for d in fr.lattice()]
    outs = fr.cmp_accepts_batch(ctx, drv, triples)
    ctx.exhaustive = True
    accepted = [(t, r) for t, r in zip(triples, outs) if r == ("ok", True)]
    ctx.extra["lattice_points"] = len(triples)
    ctx.extra["accepted_points"] = len(accepted)
    ctx.extra["ctor_rejected"] = sum(1 for r in outs if r[0] == "ctor")
    for (a, o, d), r in zip(triples, outs):
        ctx.distinct.add(common.canon_hash((a, o, d)))
    ctx.samples = [{"alg": t[0], "op": t[1], "cfg": t[2], "accepted": True} for t, _ in accepted[:3]] + \
                  [{"alg": t[0], "op": t[1], "cfg": t[2], "outcome": list(r)} for t, r in list(zip(triples, outs))[:2]]
    # update-time behaviour through the public API (specific operator) and '*' behaviour at resolution
    step = 1 if ctx.tier == "thorough" else 7
    n_upd = 0
    for i, ((a, o, d), r) in enumerate(zip(triples, outs)):
        if r[0] == "ctor" or (i % step and r != ("ok", True)):
            continue
        if o == "*":
            continue
        if ctx.left() < 15:
            break
        q = quantizer.Quantizer(fr.model_bytes())
        cfg = fr.mk_cfg(d)
        try:
            q.update_quantization_recipe(".*", o, cfg, a)
            upd = True
        except ValueError:
            upd = False
        except Exception as e:  # noqa: BLE001
            ctx.fail(f"update raised {type(e).__name__} instead of ValueError", {"alg": a, "op": o, "cfg": d}, "update-raised-other")
            continue
        n_upd += 1
        if upd != (r == ("ok", True)):
            ctx.fail("update-time acceptance differs from the support check", {"alg": a, "op": o, "cfg": d, "update_accepted": upd}, "update-vs-check")
        # under '*': accepted at update, silently unquantized at resolution iff unsupported
        q2 = quantizer.Quantizer(fr.model_bytes())
        q2.update_quantization_recipe(".*", "*", cfg, a)
        alg, rcfg = q2._recipe_manager.get_quantization_configs(o, "x;")
        selected = str(getattr(alg, "value", alg)) != "no_quantize"
        if selected != (r == ("ok", True)):
            ctx.fail("'*' rule selected for an unsupported pair (or skipped for a supported one)", {"alg": a, "op": o, "cfg": d, "selected": selected}, "star-vs-check")
        ctx.tag("accepted" if upd else "refused")
    ctx.extra["update_and_star_checked"] = n_upd
    drv.close()
    return common.finish(ctx)


def replay(ctx, path):
    print(open(path).read()[:4000])
    return 0
