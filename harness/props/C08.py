"""C08 — shipped default recipes quantize every supported-op graph without rejection."""
from .. import common
from .. import fam_pipeline as fp
from .. import gen_models as gm
from .. import pipeline as pl

THEOREMS = ["C08.dispatch_total", "C08.shipped_load_ok", "C08.shipped_star_only", "C08.shipped_configs_accepted_somewhere",
            "C08.performer_total", "C08.modify_total", "C08.genInsts_total", "C08.modify_total_wf"]


def gen(rng, i):
    # NFunshared: no tied constants (C15 allows rejecting those), everything else allowed
    mb, info = gm.gen_model(rng, n_subgraphs=1 if i % 5 else 2, share=0.0, name_hazard=0.1, p_unsupported=0.3)
    data = gm.random_inputs(mb, rng, n=1)
    name, rec = pl.shipped_recipes()[i % len(pl.shipped_recipes())]
    return fp.Case(mb, info, recipe=rec, data=data, desc=name)


def run(ctx):
    ctx.rule = ("every shipped recipe (5 JSON files + recipe.py helpers, loaded unchanged, calibrated when required) x generated float models "
                "in converter normal form without tied constants (any DAG over the 21 supported ops + unsupported float ops: shared inputs, "
                "concatenations of shared tensors, squared tensors, exported intermediates, dead outputs, 1-2 subgraphs); calibrate()/quantize() "
                "must not raise; pipeline compared with the Lean model; distinct = distinct (model, recipe)")
    ctx.explanation = ("Proved: the materialisation dispatch of the model covers every registered (algorithm, op, function) of the live registry, "
                       "shipped recipes load, consist of '*' rules only and carry configs the policy accepts for at least one op. The totality "
                       "theorem proper (no raise site reachable) is not proved; rejection-freedom is established by execution on generated models.")
    common.proof_side(ctx, THEOREMS, modules=["QProps.C08", "QProps.C08b"])
    drv = common.Driver()

    def per_case(case, res):
        if res["status"] == "raise":
            ctx.fail(f"shipped recipe {case.desc} rejected a supported-op graph: {res['exc']} at {res['stage']} {res.get('msg', '')}", case.replay(),
                     f"shipped-reject:{res['exc']}@{res['stage']}")
        ctx.tag("recipe_" + str(case.desc))
    fp.explore(ctx, drv, 700 if ctx.tier == "quick" else 5000, per_case, gen=gen, graph_corr=False, pipe_corr=True)
    drv.close()
    return common.finish(ctx)


def replay(ctx, path):
    print(open(path).read()[:3000])
    return 0
