"""C08 — shipped default recipes quantize every supported-op graph without rejection."""
from .. import common
from .. import fam_pipeline as fp
from .. import gen_models as gm
from .. import pipeline as pl

THEOREMS = ["C08.dispatch_total", "C08.shipped_load_ok", "C08.shipped_star_only", "C08.shipped_configs_accepted_somewhere",
            "C08.performer_total", "C08.modify_total", "C08.genInsts_total", "C08.modify_total_wf",
            # C08c: inventory of every raise site of the materialisation stage and totality up to the numeric sites
            "C08.generate_error_sites", "C08.generate_structural_excluded", "C08.generate_total_partial", "C08.numeric_site_fails",
            "C08.generate_total_of_numericOK", "C08.quantize_total_partial", "C08.quantize_total_of_numericOK", "C08.stats_of_calibration",
            "C08.resolved_registered", "C08.shipped_resolution", "C08.shipped_coverage", "C08.registry_kinds", "C08.Inst.hyp",
            "C08.Inst.unshared", "C08.Inst.numericOK", "C08.Inst.quantize_runs", "C08.Inst.big_numeric_site", "C08.Inst.st_shipped",
            # C08d: the numeric sites are impossible on bounded data: quantize_total has no remaining disjunct
            "C08.zpScale1_total", "C08.zpScale_total", "C08.uniformQuantize_total", "C08.quantize_own_total", "C08.quantizeBias_total",
            "C08.f16_total", "C08.numericOK_of_bounded", "C08.generate_total", "C08.quantize_total", "C08.ema_ordered",
            "C08.stats_bounded_of_calibration", "C08.Inst.bounded", "C08.InstB.quantize_ok",
            # C08e: the statistics a user really has in hand -- any list of (subgraph, samples) sessions incl. resumed ones and several
            # signatures, statistics that went through json (.exact format) -- are bounded and complete: quantizePure returns a model
            "C08.sessions_invariant", "C08.sessions_stats_good", "C08.sessions_subgraph_complete", "C08.sessions_stats_complete",
            "C08.ema_ordered_any", "C08.quantize_total_of_sessions", "C08.quantize_total_of_fresh_sessions", "C08.zpScale1_total_exact",
            "C08.statGood_exact", "C08.quantize_total_restored", "C08.restored_resumable", "C08.fixRank_calibrated", "C08.concat_of_rank",
            "C08.fixRank_expand_fails", "C08.Inst2.quantize_ok", "C08.Inst2.restored_ok", "C08.Inst2.quantize_runs", "C08.Inst2.rank1_stat_fails"]


def gen_dynamic_batch(rng, i):
    """models whose inputs have a dynamic batch dimension, calibrated with batches of 2-4 samples at once"""
    mb, info = gm.gen_model(rng, n_ops=rng.randint(1, 4), n_subgraphs=1, kinds=["FULLY_CONNECTED", "FULLY_CONNECTED", "TANH", "LOGISTIC", "ADD", "MUL"],
                            p_unsupported=0.0, dynamic_batch=1.0, alias_sig=0.0, bool_mask=0.0)
    data = gm.random_inputs(mb, rng, n=2, batch=rng.choice([2, 3, 4]))
    name, rec = pl.shipped_recipes()[i % len(pl.shipped_recipes())]
    info["tags"].add("batched_calibration_of_dynamic_batch_model")
    return fp.Case(mb, info, recipe=rec, data=data, desc=name + " (batched calibration)")


def gen(rng, i):
    if i % 10 == 9:
        return gen_dynamic_batch(rng, i)
    # NFunshared: no tied constants (C15 allows rejecting those), everything else allowed
    # (one result exported under two output names, fused activations, dynamic batch dimensions, BATCH_MATMUL with either operand constant:
    # all of it is converter output, none of it may make a shipped recipe raise)
    mb, info = gm.gen_model(rng, n_subgraphs=1 if i % 5 else 2, share=0.0, name_hazard=0.1, p_unsupported=0.3, dup_output=0.15, fused_act=0.2,
                            dynamic_batch=0.1, bmm_const_lhs=0.15)
    data = gm.random_inputs(mb, rng, n=1)
    name, rec = pl.shipped_recipes()[i % len(pl.shipped_recipes())]
    return fp.Case(mb, info, recipe=rec, data=data, desc=name)


def run(ctx):
    ctx.rule = ("every shipped recipe (5 JSON files + recipe.py helpers, loaded unchanged, calibrated when required) x generated float models "
                "in converter normal form without tied constants (any DAG over the 21 supported ops + unsupported float ops: shared inputs, "
                "concatenations of shared tensors, squared tensors, exported intermediates, dead outputs, 1-2 subgraphs); calibrate()/quantize() "
                "must not raise; pipeline compared with the Lean model; distinct = distinct (model, recipe)")
    ctx.explanation = ("Proved: the materialisation dispatch of the model covers every registered (algorithm, op, function) of the live registry, "
                       "shipped recipes load, consist of '*' rules only and carry configs the policy accepts for at least one op. The totality "
                       "theorem proper (no raise site reachable) is not proved; rejection-freedom is established by execution on generated models.")
    ctx.explanation = ("C08d closes the numeric half: under Hyp, Unshared and Bounded (constants and statistics within 2^63 in float32/64 with all-ones "
                       "statistic shapes -- which calibrate() delivers on float32 contents: stats_bounded_of_calibration --, biases of the "
                       "channel count, float16-cast weights within 65504, shape-compatible concatenation constants) no numeric site is "
                       "reachable (numericOK_of_bounded), so quantizePure RETURNS a well-formed model (quantize_total); each clause of Bounded "
                       "is shown necessary by a closed run; the 1e-4 range floor keeps every scale >= 2^-30, so scale products never underflow. "
                       "Proved earlier (QProps/C08c): every way Mat.generate can fail is one of an explicit inventory of "
                       "sites (generate_error_sites); under Hyp (normal form, float model, unique names, statistics given and complete -- which "
                       "calibrate() delivers: stats_of_calibration --, no skip_checks rule, operator shapes as the converter emits them) and "
                       "Unshared (no tied constants, C08's reading of its quantifier) every STRUCTURAL site is impossible "
                       "(generate_structural_excluded), so generate / quantizePure return, with a well-formed model, or stop at a NUMERIC site "
                       "-- zpScale / uniformQuantize / quantizeBias / float16 cast overflowing on the actual data -- and such a site is a real "
                       "failure (numeric_site_fails); with the graph-stage totality of C08b this gives quantize_total_partial. Each hypothesis "
                       "is shown necessary by a closed run; for every shipped recipe, resolution selects no-quantize or a registered, modelled "
                       "function with a legal mode for every operator name (shipped_resolution, shipped_coverage, kernel evaluation over the "
                       "regenerated tables). Not proved: that the numeric primitives succeed on finite, ordered data (NumericOK stays a "
                       "hypothesis); covered by execution over all shipped recipes x generated models.")
    common.proof_side(ctx, THEOREMS, modules=["QProps.C08", "QProps.C08b", "QProps.C08c", "QProps.C08d", "QProps.C08e"])
    drv = common.Driver()

    def per_case(case, res):
        if res["status"] == "raise":
            ctx.fail(f"shipped recipe {case.desc} rejected a supported-op graph: {res['exc']} at {res['stage']} {res.get('msg', '')}", case.replay(),
                     f"shipped-reject:{res['exc']}@{res['stage']}")
        ctx.tag("recipe_" + str(case.desc))
    fp.explore(ctx, drv, 700 if ctx.tier == "quick" else 5000, per_case, gen=gen, graph_corr=False, pipe_corr=True)
    drv.close()
    return common.finish(ctx)


def replay(ctx, path):
    print(open(path).read()[:3000])
    return 0
