from .. import common
from .. import fam_pipeline as fp
from .. import oracles as orc

THEOREMS = ["C15.compat_same_class", "C15.compat_params", "C15.shared_write_idempotent",
            "C15.sharing_pairwise", "C15.sharing_single", "C15.sharing_unread", "C15.single_consumers_agree", "C15.single_consumers_params",
            # C15c: graph stage, request stage and END TO END (quantizePure under NF): every original constant buffer is untouched with
            # all referents untouched, or holds the packed data of ONE parameter and every referent is typed by it
            "C15.performer_buffer_weak", "C15.performer_buffer_agrees", "C15.performer_sharers_equal", "C15.unreadOwn_sound",
            "C15.sharersAgree_of_check", "C15.constData_of_generate", "C15.quantize_shared_consistent", "C15.quantizeSharedConsistent",
            "C15.quantize_shared_insts", "C15.quantize_sharers_equal", "C15.Tied.all_needed", "C15.Tied.same_needed",
            "C15.Tied.constData_needed", "C15.E2E.consistent_instance", "C15.Defect.refused_now", "C15.Defect.pinned",
            "C15.Defect.accepted_instance"]


def exported_constants(ctx, case, res, fail):
    """the graph output is one more reader of a constant it exports: unless the recipe covers OUTPUT it must keep observing
    the float values (a float reader never reads integer bytes)"""
    from .. import pipeline as pl
    mi, mo = pl.read(case.mb), pl.read(res["out"])
    alg, _ = orc.resolve(res["q"], "OUTPUT", "")
    if str(getattr(alg, "value", alg)) != "no_quantize":
        return
    for si, (gi, go) in enumerate(zip(mi.subgraphs, mo.subgraphs)):
        for pos, ti in enumerate(gi.outputs):
            t = gi.tensors[ti]
            if mi.buffers[t.buffer].data is None or pos >= len(go.outputs):
                continue
            ctx.tag("exported_constant_checked")
            to = go.tensors[go.outputs[pos]]
            if to.type != t.type:
                return fail(f"constant {pl.tname(t)} is a graph output and no rule covers OUTPUT, yet the output tensor now has type "
                            f"{pl.TT_NAME.get(to.type)} instead of {pl.TT_NAME.get(t.type)}", "exported-constant-retyped")


def gen_cross_dtype(rng, i):
    """converters alias constants with IDENTICAL BYTES whatever their types: an all-zero float32 constant (a zero bias, a zero addend) and
    an all-zero int32 index operand (`begin` of a STRIDED_SLICE) over ONE buffer, under recipes that rewrite the float constant"""
    import numpy as np
    from ai_edge_litert import schema_py_generated as s
    from .. import gen_models as gm
    g = gm.G()
    g.subgraph()
    gr = gm.Grower(g, rng, "")
    b, k = rng.randint(1, 3), rng.randint(2, 4)
    x = gr.add_input([b, k])
    cur, width = x, k
    if rng.random() < 0.6:
        w = gr.const([2, k], kind="normal")
        zb = g.tensor(gr.name("zero_bias"), [2], data=np.zeros([2], np.float32))
        y = gr.new_act([b, 2])
        g.op(gm.BO.FULLY_CONNECTED, [x, w, zb], [y], gm.OPT.FullyConnectedOptions, s.FullyConnectedOptionsT())
        cur, width, zero_f = y, 2, zb
    else:
        x2 = gr.add_input([b, 2]) if k != 2 else x
        zc = g.tensor(gr.name("zero_addend"), [2], data=np.zeros([2], np.float32))
        y = gr.new_act([b, 2])
        if rng.random() < 0.5:
            g.op(gm.BO.ADD, [x2, zc], [y], gm.OPT.AddOptions, s.AddOptionsT())
        else:
            g.op(gm.BO.SUB, [x2, zc], [y], gm.OPT.SubOptions, s.SubOptionsT())
        cur, width, zero_f = y, 2, zc
    shared = g.sg.tensors[zero_f].buffer
    begin = g.tensor(gr.name("begin"), [2], gm.TT.INT32, buffer=shared)          # 8 zero bytes read as int32[2]
    end = g.tensor(gr.name("end"), [2], gm.TT.INT32, data=np.array([b, rng.randint(1, 2)], np.int32))
    strides = g.tensor(gr.name("strides"), [2], gm.TT.INT32, data=np.array([1, 1], np.int32))
    e = int(np.frombuffer(bytes(g.m.buffers[g.sg.tensors[end].buffer].data), dtype=np.int32)[1])
    z = gr.new_act([b, e])
    g.op(gm.BO.STRIDED_SLICE, [cur, begin, end, strides], [z], gm.OPT.StridedSliceOptions, s.StridedSliceOptionsT())
    g.io(gr.inputs, [z] + ([cur] if rng.random() < 0.4 else []), sig="serving_default")
    mb = g.bytes()
    info = {"tags": {"cross_dtype_shared_buffer"}, "subgraphs": [{"sig": "serving_default", "int_inputs": [], "ops": ["FULLY_CONNECTED", "STRIDED_SLICE"]}]}
    if rng.random() < 0.5:
        name, rec = rng.choice([r for r in pl_shipped() if "a8w8" in r[0] or "a16w8" in r[0]])
        return fp.Case(mb, info, recipe=rec, data=gm.random_inputs(mb, rng, n=1), desc=name + " (cross-dtype alias)")
    cfg = pl_uniform()[rng.choice(["a8w8", "a16w8", "a8sw8t"])]
    cmds = [{"k": "add", "regex": ".*", "operation": "*", "cfg": cfg, "alg": "min_max_uniform_quantize"}]
    return fp.Case(mb, info, cmds=cmds, data=gm.random_inputs(mb, rng, n=1), desc=[("cross-dtype alias", cfg["act"]["bits"])])


def gen_twin_concat(rng, i):
    """two signatures that are copies of each other (same operators, same calibration data): the CONSTANT operand of a CONCATENATION --
    which borrows its parameters from the operator's result -- is ONE buffer behind one tensor per signature, with equal requests"""
    import numpy as np
    from ai_edge_litert import schema_py_generated as s
    from .. import gen_models as gm
    g = gm.G()
    n = rng.choice([4, 8, 8, 12])
    cdata = np.random.RandomState(rng.randrange(2 ** 31)).randn(1, n).astype(np.float32)
    shared = None
    for si in range(2):
        g.subgraph(("sg%d" % si).encode())
        gr = gm.Grower(g, rng, "s%d/" % si)
        x = gr.add_input([1, n])
        if shared is None:
            c = g.tensor(gr.name("c"), [1, n], data=cdata)
            shared = g.sg.tensors[c].buffer
        else:
            c = g.tensor(gr.name("c"), [1, n], buffer=shared)
        y = gr.new_act([2, n])
        co = s.ConcatenationOptionsT()
        co.axis = 0
        g.op(gm.BO.CONCATENATION, [x, c], [y], gm.OPT.ConcatenationOptions, co)
        z = gr.new_act([2, n])
        g.op(gm.BO.TANH, [y], [z])
        g.io(gr.inputs, [z], sig="sig%d" % si)
    mb = g.bytes()
    one = gm.random_inputs(mb, rng, n=1)
    first = next(iter(one.values()))
    data = {sig: [dict(zip(smp.keys(), first[0].values())) for smp in samples] for sig, samples in one.items()}   # the SAME sample for both
    info = {"tags": {"twin_signatures_tied_concat_constant"}, "subgraphs": [{"sig": "sig%d" % si, "int_inputs": [], "ops": ["CONCATENATION", "TANH"]} for si in range(2)]}
    cfg = pl_uniform()[rng.choice(["a8w8", "a8sw8t", "a16w8"])]
    cmds = [{"k": "add", "regex": ".*", "operation": "*", "cfg": cfg, "alg": "min_max_uniform_quantize"}]
    return fp.Case(mb, info, cmds=cmds, data=data, desc=[("twin concat constant", cfg["act"]["bits"], n)])


def pl_shipped():
    from .. import pipeline as pl
    return pl.shipped_recipes()


def pl_uniform():
    from .. import pipeline as pl
    return pl.UNIFORM


def run(ctx):
    ctx.rule = ("generated models with tied constants (one buffer referenced by several tensors within a subgraph and across subgraphs, one constant tensor with 2..3 consumers, shared constant feeding fc and elementwise ops) x recipes assigning equal, different or no quantization to the sharers (shipped, per-op regex rules, float casting, no_quantize); every buffer of the output is decoded against every tensor referencing it; rejections are allowed; the pipeline is compared with the Lean model; distinct = distinct (model, recipe) pairs")
    ctx.explanation = ("END TO END on the model (C15.quantize_shared_consistent): for every model in normal form, recipe state, regex semantics and "
                       "statistics, quantizePure raises or returns a model in which every original constant buffer is either untouched with all "
                       "its referents untouched, or holds the packed data of ONE parameter object and every tensor referencing it is an original "
                       "referent typed by that parameter (quantized exactly once; a float tensor never sits over integer bytes or vice versa). "
                       "Derived from the soundness of both passes of the sharing check (sharing_pairwise/_single/_unread, unreadOwn_sound) through "
                       "instruction generation (sharersAgree_of_check) and the performer (performer_buffer_agrees; each hypothesis shown necessary "
                       "by a closed witness). The statement was FALSE before repair D35 (Defect.pinned, replayed on the real code). Not covered by "
                       "the theorem: the numeric values consumers observe (C05/C06/C07), parameters of float16 casts beyond the dtype.")
    common.proof_side(ctx, THEOREMS, modules=["QProps.C15", "QProps.C15b", "QProps.C15c"])
    drv = common.Driver()

    def per_case(case, res):
        if res["status"] == "ok":
            orc.oracle_c15(ctx, case, res, fp.failer(ctx, case))
            # "a float consumer never reads integer bytes and an integer consumer never reads float bytes": every operand of
            # every original operator has the dtype its resolved mode prescribes (the C03 oracle, run on the tied models)
            orc.oracle_c03(ctx, case, res, fp.failer(ctx, case, prefix="[consumer dtype] "))
            # a constant read by several operators must suit EVERY reader: e.g. one bias tensor shared by two operators has to carry
            # input scale x weight scale of each of them (the op-level rules of C04, which need no statistics)
            orc.oracle_c04(ctx, case, res, fp.failer(ctx, case, prefix="[every reader's rule] "), {})
            exported_constants(ctx, case, res, fp.failer(ctx, case))
    n = 600 if ctx.tier == "quick" else 4000
    fp.explore(ctx, drv, n // 2, per_case, gen=fp.gen_tied_case, graph_corr=True, pipe_corr=True)
    fp.explore(ctx, drv, n // 2, per_case, gen=lambda rng, i: fp.gen_case(rng, i, share_every=1, const_output=0.35 if i % 2 else 0.0), graph_corr=False, pipe_corr=True)
    # one buffer behind tensors of DIFFERENT types (identical bytes aliased by the converter): rejected, or every referent still agrees with it
    fp.explore(ctx, drv, 30 if ctx.tier == "quick" else 300, per_case, gen=gen_cross_dtype, graph_corr=False, pipe_corr=True)
    fp.explore(ctx, drv, 16 if ctx.tier == "quick" else 150, per_case, gen=gen_twin_concat, graph_corr=False, pipe_corr=True)
    # BLOCKWISE weights (emulated sub-channel pattern, reachable with skip_checks only; outside the Lean model): the weight's buffer also
    # backs a tensor nobody reads / the weight of a second operator the rule does not cover — rejected, or every referent agrees with the bytes
    from .. import pipeline as pl
    interp = pl.Interp()
    try:
        fp.blockwise_probe(ctx, drv, interp, 12 if ctx.tier == "quick" else 60, sharing=True)
    except Exception as e:  # noqa: BLE001
        ctx.fail(f"the BLOCKWISE sharing probe could not run ({type(e).__name__}: {str(e)[:100]})", {}, "blockwise-probe-crash")
    interp.close()
    drv.close()
    return common.finish(ctx)


def replay(ctx, path):
    print(open(path).read()[:3000])
    return 0
