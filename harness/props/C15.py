from .. import common
from .. import fam_pipeline as fp
from .. import oracles as orc

THEOREMS = ["C15.compat_same_class", "C15.compat_params", "C15.shared_write_idempotent"]


def run(ctx):
    ctx.rule = ("generated models with tied constants (one buffer referenced by several tensors within a subgraph and across subgraphs, one constant tensor with 2..3 consumers, shared constant feeding fc and elementwise ops) x recipes assigning equal, different or no quantization to the sharers (shipped, per-op regex rules, float casting, no_quantize); every buffer of the output is decoded against every tensor referencing it; rejections are allowed; the pipeline is compared with the Lean model; distinct = distinct (model, recipe) pairs")
    common.proof_side(ctx, THEOREMS)
    drv = common.Driver()

    def per_case(case, res):
        if res["status"] == "ok":
            orc.oracle_c15(ctx, case, res, fp.failer(ctx, case))
    n = 600 if ctx.tier == "quick" else 4000
    fp.explore(ctx, drv, n // 2, per_case, gen=fp.gen_tied_case, graph_corr=True, pipe_corr=True)
    fp.explore(ctx, drv, n // 2, per_case, gen=lambda rng, i: fp.gen_case(rng, i, share_every=1), graph_corr=False, pipe_corr=True)
    drv.close()
    return common.finish(ctx)


def replay(ctx, path):
    print(open(path).read()[:3000])
    return 0
