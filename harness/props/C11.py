"""C11 — recipe resolution follows the documented last-applicable-rule-wins model."""
import itertools
import json

from .. import common
from .. import fam_recipe as fr

THEOREMS = ["C11.resolve_eq_spec", "C11.resolve_default", "C11.resolve_sound",
            "C11.failed_add_is_valueError", "C11.add_star_resets", "C11.foldl_last",
            "C11.history_rules", "C11.history_scope_order", "C11.history_invariant", "C11.history_resolve"]


def oracle(ctx, cmds, routs):
    """independent declarative spec (harness/fam_recipe.spec_resolve) vs the real resolve results"""
    adds_ok = []
    for c, r in zip(cmds, routs):
        if c["k"] == "add":
            if r == "ok":
                adds_ok.append((c["regex"], c["operation"], c["alg"], c["cfg"]))
            elif r not in ("ValueError", "ctor:ValueError"):
                ctx.fail(f"update_quantization_recipe raised {r}", {"cmds": cmds}, "add-raised-" + r)
        elif c["k"] == "load":
            if r == "ok" and c["recipe_plain"] == []:
                adds_ok = []          # a load is "reset, then add": loading the empty recipe leaves no rule
            elif r != "ok":
                ctx.fail(f"load_quantization_recipe([]) raised {r}", {"cmds": cmds}, "load-raised-" + str(r))
        elif c["k"] == "resolve":
            alg, cfg = fr.spec_resolve(adds_ok, c["opname"], c["scope"])
            want = {"alg": alg, "cfg": fr.plain(fr.mk_cfg(cfg).to_dict())}
            if json.dumps(want, sort_keys=True) != json.dumps(r, sort_keys=True):
                ctx.fail("resolved (algorithm, config) is not the last applicable rule",
                         {"cmds": [x for x in cmds if x["k"] in ("add", "load")], "query": c, "got": r, "want": want}, "resolve-not-last-applicable")
                return False
    return True


def history(adds, rng=None):
    cmds = []
    reset_at = rng.randrange(len(adds)) if (rng is not None and adds and rng.random() < 0.3) else None
    for j, a in enumerate(adds):
        if j == reset_at:
            cmds.append({"k": "load", "recipe_plain": []})   # loading an empty recipe resets the rules
        cmds.append(a)
        if rng is not None and rng.random() < 0.5:
            # observations between updates: exports, resolutions, need_calibration (must not influence anything)
            cmds.append(rng.choice([{"k": "get"}, {"k": "need_cal"}]))
            cmds += rng.sample(fr.queries(), 4)
    cmds.append({"k": "get"})
    cmds += fr.queries()
    cmds.append({"k": "get"})  # resolution must not change the recipe
    return cmds


def check_fresh(ctx, cmds, routs):
    """resolution and export are pure functions of the rule list: a fresh Quantizer that only replays the
    updates (no observations in between) gives the same final export and the same resolutions"""
    adds = [c for c in cmds if c["k"] in ("add", "load")]
    if any(c["k"] == "load" for c in adds):   # only what follows the last reset matters to a fresh object
        last = max(i for i, c in enumerate(adds) if c["k"] == "load")
        adds = adds[last + 1:]
    tail = [{"k": "get"}] + fr.queries()
    fresh = fr.RealRecipe()
    for a in adds:
        fresh.step(a)
    fouts = [fresh.step(c) for c in tail]
    n = len(tail)
    # the history ends with: get, queries..., get
    mine = routs[-(n + 1):-1]
    if json.dumps(mine) != json.dumps(fouts):
        k = next(i for i, (x, y) in enumerate(zip(mine, fouts)) if json.dumps(x) != json.dumps(y))
        ctx.fail("the recipe / resolution depends on observations made between updates (not a pure function of the rule list)",
                 {"cmds": cmds, "step": tail[k], "got": mine[k], "fresh": fouts[k]}, "history-dependent")


def check_load(ctx, drv, cmds, routs):
    """'for any sequence of recipe updates AND LOADS ... resolution is a pure function of the rule list': a second object that LOADS the
    exported rule list (the load path rebuilds every config from its dictionary) exports the same list and resolves every query alike"""
    exported = routs[-1]
    if not isinstance(exported, list) or not exported:
        return
    n = len(fr.queries())
    cmds2 = [{"k": "load", "recipe_plain": exported}, {"k": "get"}] + fr.queries()
    routs2, _ = fr.run_history(ctx, drv, cmds2, family="recipe.load_history")
    ctx.tag("export_then_load")
    if any(e.get("op_config", {}).get("skip_checks") for e in exported if isinstance(e, dict)):
        ctx.tag("export_then_load_skip_checks")
    if routs2[0] != "ok":
        return ctx.fail(f"loading a recipe exported by get_quantization_recipe() raised {routs2[0]}", {"cmds": cmds, "exported": exported}, "load-of-export-raised")
    if json.dumps(routs2[1]) != json.dumps(exported):
        return ctx.fail("a rule list that was LOADED is exported differently from the list that was loaded",
                        {"cmds": [c for c in cmds if c["k"] in ("add", "load")], "exported": exported, "after_load": routs2[1]}, "load-changes-rules")
    before = routs[-(n + 1):-1]
    for q, x, y in zip(fr.queries(), before, routs2[2:]):
        if json.dumps(x) != json.dumps(y):
            return ctx.fail("the same rule list resolves differently when it was loaded than when it was built by updates",
                            {"cmds": [c for c in cmds if c["k"] in ("add", "load")], "query": q, "updates": x, "loaded": y}, "load-resolves-differently")


def check_pure(ctx, cmds, routs):
    gets = [r for c, r in zip(cmds, routs) if c["k"] == "get"]
    if len(gets) >= 2 and json.dumps(gets[-1]) != json.dumps(gets[-2]):
        ctx.fail("resolution changed the recipe", {"cmds": cmds}, "resolve-not-pure")


def run(ctx):
    ctx.rule = ("histories of update_quantization_recipe calls over regex x operator selector x config (supported, unsupported, skip_checks, "
                "ctor-invalid, default) x algorithm (incl. no_quantize and an unknown key), exhaustively up to length 2 over a reduced alphabet and "
                "sampled up to length 8 over the full one; each history is queried at 55 (operator, scope) pairs; compared step by step with the "
                "Lean model and checked against an independent declarative spec; distinct = distinct histories")
    ctx.explanation = ("resolve_eq_spec proves, for every state, regex semantics and query, that the code's nested loops equal 'last applicable rule "
                       "in scope order wins, else no-quantize'; the state after a history is tied to the code by the correspondence.")
    common.proof_side(ctx, THEOREMS, modules=["QProps.C11", "QProps.C11b"])
    drv = common.Driver()
    rng = ctx.rng
    # exhaustive: all histories of length <= 2 over a reduced alphabet
    regs = [".*", "a", "b;$"]
    ops = ["*", "FULLY_CONNECTED", "ADD", "INPUT", "CUSTOM_OP"]
    cfgs = [c for n, c in fr.CFG_ALPHABET if n in ("wo8", "srq88", "bad_asym_w", "skip_weird")]
    algs = ["min_max_uniform_quantize", "no_quantize"]
    alpha = [{"k": "add", "regex": r, "operation": o, "cfg": c, "alg": a} for r in regs for o in ops for c in cfgs for a in algs]
    if ctx.tier == "quick":
        alpha2 = [a for a in alpha if a["regex"] != "b;$" and a["operation"] in ("*", "FULLY_CONNECTED", "ADD")]
    else:
        alpha2 = alpha
    n_ex = 0
    for a in alpha:
        cmds = history([a])
        routs, _ = fr.run_history(ctx, drv, cmds)
        oracle(ctx, cmds, routs)
        check_pure(ctx, cmds, routs)
        ctx.case({"adds": [(a["regex"], a["operation"], a["alg"])]}, True)
        n_ex += 1
    for a, b in itertools.product(alpha2, alpha2):
        if ctx.left() < 60:
            ctx.exhaustive = False
            break
        cmds = history([a, b])
        routs, _ = fr.run_history(ctx, drv, cmds)
        oracle(ctx, cmds, routs)
        ctx.case({"adds": [(x["regex"], x["operation"], x["alg"], json.dumps(x["cfg"])[:40]) for x in (a, b)]}, True)
        n_ex += 1
        if a["regex"] == b["regex"]:
            ctx.tag("same_regex")
            if b["operation"] == "*":
                ctx.tag("star_reset")
            elif a["operation"] == b["operation"]:
                ctx.tag("replace_in_place")
    else:
        ctx.exhaustive = True
    ctx.extra["exhaustive_histories_len_le_2"] = n_ex
    # '*' reset after observations: every ordered pair of configs, all queries in between (a support verdict
    # remembered from before the reset must not survive it)
    n_pairs = 0
    for (na, ca), (nb, cb) in itertools.product(fr.CFG_ALPHABET, fr.CFG_ALPHABET):
        if na == nb or ctx.left() < 45 or na.startswith("ctor") or nb.startswith("ctor"):
            continue
        if ctx.tier == "quick" and (hash((na, nb, ctx.seed)) % 3):
            continue
        alg_a = "float_casting" if na == "fp16" else "min_max_uniform_quantize"
        alg_b = "float_casting" if nb == "fp16" else "min_max_uniform_quantize"
        cmds = [{"k": "add", "regex": ".*", "operation": "*", "cfg": ca, "alg": alg_a}] + fr.queries(scopes=["a;"]) + \
               [{"k": "add", "regex": ".*", "operation": "*", "cfg": cb, "alg": alg_b}, {"k": "get"}] + fr.queries() + [{"k": "get"}]
        routs, _ = fr.run_history(ctx, drv, cmds)
        oracle(ctx, cmds, routs)
        check_fresh(ctx, cmds, routs)
        check_load(ctx, drv, cmds, routs)
        ctx.case({"star_reset": (na, nb)}, True)
        n_pairs += 1
    ctx.extra["star_reset_after_query_pairs"] = n_pairs
    # a REJECTED update must leave no trace: rejected add under a fresh regex, accepted adds under other regexes, then an accepted add
    # under the first regex (its place in the scan order is that of its first ACCEPTED insertion)
    cfg_of = dict(fr.CFG_ALPHABET)
    n_rej = 0
    for r1, r2 in itertools.permutations(fr.REGEXES[:6], 2):
        if ctx.left() < 45:
            break
        if ctx.tier == "quick" and (hash((r1, r2, ctx.seed)) % 2):
            continue
        op = rng.choice(["FULLY_CONNECTED", "CONV_2D", "ADD"])
        rejected = rng.choice([
            {"k": "add", "regex": r1, "operation": op, "cfg": cfg_of[rng.choice(["bad_asym_w", "bad_a16asym"])], "alg": "min_max_uniform_quantize"},
            {"k": "add", "regex": r1, "operation": op, "cfg": cfg_of["ctor_bad"], "alg": "min_max_uniform_quantize"},
            {"k": "add", "regex": r1, "operation": "CUSTOM_OP", "cfg": cfg_of["wo8"], "alg": "min_max_uniform_quantize"},
            {"k": "add", "regex": r1, "operation": op, "cfg": cfg_of["wo8"], "alg": "bogus_alg"}])
        mid = {"k": "add", "regex": r2, "operation": rng.choice(["*", op]), "cfg": cfg_of[rng.choice(["wo8", "drq8", "srq88"])], "alg": "min_max_uniform_quantize"}
        last = {"k": "add", "regex": r1, "operation": rng.choice(["*", op]), "cfg": cfg_of[rng.choice(["wo4a", "drq4", "srq168"])], "alg": "min_max_uniform_quantize"}
        cmds = history([rejected, mid, last], rng if n_rej % 2 else None)
        routs, _ = fr.run_history(ctx, drv, cmds)
        oracle(ctx, cmds, routs)
        check_fresh(ctx, cmds, routs)
        ctx.case({"rejected_then_reused": (r1, r2, rejected["operation"], rejected["alg"])}, True)
        ctx.tag("rejected_then_reused")
        n_rej += 1
    ctx.extra["rejected_then_reused_histories"] = n_rej
    # "a rule is applicable iff ... its config passes the algorithm's support check": the check in force when the rule is RESOLVED. Rules are
    # added under the default policy, then a stricter policy is loaded (no weight-only, no 4-bit dynamic range), then everything is resolved
    from .. import oracles as orc
    from .. import fam_pipeline as fp_
    n_pol = 0
    for j in range(24 if ctx.tier == "quick" else 300):
        if ctx.left() < 40:
            break
        adds = []
        for _ in range(rng.randint(2, 5)):
            a = fr.gen_add(rng, small=True)
            if rng.random() < 0.6:   # rules for a NAMED operator under configs the stricter policy drops
                a = dict(a, operation=rng.choice(["FULLY_CONNECTED", "CONV_2D", "EMBEDDING_LOOKUP"]), cfg=cfg_of[rng.choice(["wo8", "wo4a", "drq4", "drq8", "srq88"])],
                         alg="min_max_uniform_quantize")
            adds.append(a)
        real = fr.RealRecipe()
        routs = [real.step(a) for a in adds]
        adds_ok = [(a["regex"], a["operation"], a["alg"], a["cfg"]) for a, r in zip(adds, routs) if r == "ok"]
        try:
            real.q.load_config_policy(orc.strict_policy_file())
            for qy in fr.queries():
                got = real.step(qy)
                alg, cfg = fr.spec_resolve(adds_ok, qy["opname"], qy["scope"])   # the support check it calls is the one now in force
                want = {"alg": alg, "cfg": fr.plain(fr.mk_cfg(cfg).to_dict())}
                if json.dumps(want, sort_keys=True) != json.dumps(got, sort_keys=True):
                    ctx.fail("after a stricter config-check policy was loaded, the resolved (algorithm, config) is not the last rule that passes "
                             "the support check now in force", {"adds": adds, "policy": "default policy without weight-only and 4-bit dynamic range",
                                                                "query": qy, "got": got, "want": want}, "resolve-after-policy-change")
                    break
        finally:
            fp_.restore_policy({"policy": True})
        ctx.case({"policy_change": [(a["regex"], a["operation"], a["alg"]) for a in adds]}, True)
        ctx.tag("policy_changed_between_add_and_resolve")
        n_pol += 1
    ctx.extra["policy_change_histories"] = n_pol
    # sampled longer histories over the full alphabet
    n = 150 if ctx.tier == "quick" else 3000
    for i in range(n):
        if ctx.left() < 20:
            break
        adds = [fr.gen_add(rng) for _ in range(rng.randint(3, 8))]
        cmds = history(adds, rng if i % 2 else None)
        routs, _ = fr.run_history(ctx, drv, cmds)
        oracle(ctx, cmds, routs)
        check_pure(ctx, cmds, routs)
        check_fresh(ctx, cmds, routs)
        check_load(ctx, drv, cmds, routs)
        ctx.case({"adds": [(x["regex"], x["operation"], x["alg"]) for x in adds]}, True)
        for c, r in zip(cmds, routs):
            if c["k"] == "add":
                ctx.errkinds[r] = ctx.errkinds.get(r, 0) + 1
        ctx.tag("long_history")
    # "which operators are quantized in quantize() output": the scope an operator is matched with is ALL its result names joined by
    # ';' (multi-result operators, the INPUT pseudo-operator of multi-input graphs), for calibration and quantization alike
    from .. import fam_pipeline as fp
    from .. import gen_models as gm
    from .. import oracles as orc
    from .. import pipeline as pl

    def gen(rng_, i):
        mb, info = gm.gen_model(rng_, n_ops=rng_.randint(1, 4), n_subgraphs=1, kinds=["SPLIT", "SPLIT", "TANH", "FULLY_CONNECTED", "ADD", "RESHAPE"],
                                p_unsupported=0.0, alias_sig=0.0)
        data = gm.random_inputs(mb, rng_, n=1)
        cmds = pl.gen_recipe(rng_, mb, kind="mixed")
        m_ = pl.read(mb)
        seconds = [pl.tname(sg.tensors[op.outputs[1]]) for sg in m_.subgraphs for op in sg.operators if len(op.outputs) > 1]
        if seconds and rng_.random() < 0.7:
            # a rule that reaches a multi-result operator ONLY through the name of its second result
            import re as _re
            cmds = [c for c in cmds if c["regex"] != ".*"] + [{"k": "add", "regex": _re.escape(rng_.choice(seconds)) + ";", "operation": "*",
                                                             "cfg": pl.UNIFORM[rng_.choice(["a8w8", "a16w8", "wo8"])], "alg": "min_max_uniform_quantize"}]
        return fp.Case(mb, info, cmds=cmds, data=data, desc=[(c["regex"], c["operation"], c["alg"]) for c in cmds])

    def per_case(case, res):
        if res["status"] == "ok":
            orc.oracle_c03(ctx, case, res, fp.failer(ctx, case, prefix="quantize() output vs resolved rule: "))
    if ctx.left() > 40:
        fp.explore(ctx, drv, 150 if ctx.tier == "quick" else 2500, per_case, gen=gen, graph_corr=False, pipe_corr=True, reserve_s=15)
    drv.close()
    return common.finish(ctx)


def replay(ctx, path):
    print(open(path).read()[:4000])
    return 0
