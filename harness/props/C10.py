"""C10 — calibration and quantization select the same ops; stats are never missing."""
import copy
import re

from .. import common
from .. import fam_calib as fc
from .. import fam_mat as fmat
from .. import fam_pipeline as fp
from .. import fam_recipe as fr
from .. import gen_models as gm
from .. import pipeline as pl
from .. import oracles as orc

from ai_edge_quantizer import calibrator, params_generator

THEOREMS = ["C10.stats_complete", "C10.wrapper_uses_recorded_stats", "C10.params_from_stats", "C10.calibrated_lookup_never_missing", "C09.resume",
            # … after ANY sequence of resumed calibration sessions (C10c, via C09c.resume_many)
            "C10c.stats_complete_after_sessions", "C09c.resume_many"]


def gen(rng, i):
    """regex-heavy recipes with static-range rules: anchored, with separators, prefixes"""
    mb, info = gm.gen_model(rng, n_subgraphs=1 if i % 3 else 2)
    data = gm.random_inputs(mb, rng, n=1)
    names = [n for sc in pl.scopes_of(mb) for n in sc.split(";") if n]
    cmds = []
    for _ in range(rng.randint(1, 4)):
        n = re.escape(rng.choice(names))
        regex = rng.choice([n, "^" + n, n + ";", n + "$", n + ";$", "^" + n + ";$", n[: max(1, len(n) // 2)], ".*", ";", "^$", n + "|zzz"])
        cfg = pl.UNIFORM[rng.choice(["a8w8", "a16w8", "a8sw8t", "a8w4", "drq8", "wo8"])]
        present = sorted({k for sg in info["subgraphs"] for k in sg["ops"] if k in gm.Grower.SUPPORTED})
        op = rng.choice(["*", "*", "*", "INPUT", "OUTPUT", "FULLY_CONNECTED"] + present + present)   # op-specific rules for what the model holds
        cmds.append({"k": "add", "regex": regex, "operation": op, "cfg": cfg, "alg": "min_max_uniform_quantize"})
    if rng.random() < 0.3:
        # the object first lives with rules that need no calibration and is used (need_calibration gets evaluated, quantize() runs);
        # the static-range rules come afterwards
        first = {"k": "add", "regex": ".*", "operation": rng.choice(["*", "FULLY_CONNECTED"]), "cfg": pl.UNIFORM[rng.choice(["drq8", "wo8", "drq4"])],
                 "alg": "min_max_uniform_quantize"}
        cmds = [first, {"k": "quantize"}] + cmds
        info["tags"].add("upgraded_from_no_calibration")
    return fp.Case(mb, info, cmds=cmds, data=data, desc=[(c.get("regex"), c.get("operation") or c.get("k")) for c in cmds])


def selection_oracle(ctx, case, q):
    """both real scope builders give the same scope, hence the same resolution, for every op.
    Uses real Calibrator / ParamsGenerator objects; if their (private) scope builders are renamed by a
    refactor this oracle is skipped (the behavioural oracle and the correspondence remain)."""
    try:
        cal = calibrator.Calibrator(case.mb)
        pg = params_generator.ParamsGenerator(case.mb)
        # prime per-object state the way a real calibration does (initialisation walks all subgraphs)
        if q.need_calibration:
            cal._initialize_model_qsvs(q._recipe_manager)
        for (sgc, sgp) in zip(cal._flatbuffer_model.subgraphs, pg.flatbuffer_model.subgraphs):
            for opc, opp in zip(sgc.operators, sgp.operators):
                s1 = cal._get_op_scope(opc, sgc.tensors)
                s2 = pg._get_op_scope(opp, sgp.tensors)
                key = orc.op_key_of(pg.flatbuffer_model.operatorCodes[opp.opcodeIndex].builtinCode)
                if key is None:
                    continue
                a1, _ = q._recipe_manager.get_quantization_configs(key, s1)
                a2, _ = q._recipe_manager.get_quantization_configs(key, s2)
                if s1 != s2 or a1 != a2:
                    ctx.fail(f"calibration and quantization see different scopes/selection for an op: {s1!r} vs {s2!r}", case.replay(), "scope-differs")
                    return
        ctx.tag("scope_builders_compared")
    except (AttributeError, TypeError):
        ctx.tag("scope_oracle_unavailable")


def registered_algorithm(ctx):
    """`algorithm_key` accepts every algorithm registered through the public algorithm-manager API: an algorithm that is the min/max
    one under another name must calibrate and quantize exactly like it (runs LAST: registration is process-global; the model's
    tables were extracted before)"""
    import numpy as np
    from ai_edge_quantizer import algorithm_manager, default_policy, quantizer as qz, qtyping
    from ai_edge_quantizer.algorithms.uniform_quantize import naive_min_max_quantize as nmm
    key = "verif_min_max_clone"
    try:
        algorithm_manager.register_op_quant_config_validation_func(key, nmm.check_op_quantization_config)
        algorithm_manager.register_config_check_policy_func(key, default_policy.DEFAULT_CONFIG_CHECK_POLICY)
        for op_name, fn in ((qtyping.TFLOperationName.INPUT, nmm.materialize_input), (qtyping.TFLOperationName.OUTPUT, nmm.materialize_output),
                            (qtyping.TFLOperationName.FULLY_CONNECTED, nmm.materialize_fc_conv), (qtyping.TFLOperationName.TANH, nmm.materialize_tanh)):
            algorithm_manager.register_quantized_op(key, op_name, nmm.init_qsvs, calibration_func=nmm.min_max_calibrate, materialize_func=fn)
    except Exception:  # noqa: BLE001  (registration API renamed: the probe is skipped, everything else stands)
        ctx.tag("registered_algorithm_probe_unavailable")
        return
    rng = ctx.rng
    for j in range(6):
        mb, info = gm.gen_model(rng, n_ops=rng.randint(1, 3), n_subgraphs=1, kinds=["FULLY_CONNECTED", "TANH"], p_unsupported=0.0, alias_sig=0.0)
        data = gm.random_inputs(mb, rng, n=2)
        outs = {}
        for alg in ("min_max_uniform_quantize", key):
            q = qz.Quantizer(mb)
            for op in ("FULLY_CONNECTED", "TANH", "INPUT", "OUTPUT"):
                q.update_quantization_recipe(".*", op, fr.mk_cfg(pl.UNIFORM["a8w8"]), alg)
            replay = {"model_ops": info["subgraphs"][0]["ops"], "algorithm_key": alg, "registered_like": "min_max_uniform_quantize"}
            if not q.need_calibration:
                ctx.fail(f"need_calibration is False for static-range rules of the registered algorithm {alg!r}", replay, "registered-alg-need-calibration")
                return
            cr = None
            for sig, samples in data.items():
                cr = q.calibrate(samples, signature_key=sig, previous_calibration_result=cr)
            try:
                outs[alg] = bytes(q.quantize(cr).quantized_model)
            except Exception as e:  # noqa: BLE001
                ctx.fail(f"calibrate() then quantize() fails under the registered algorithm {alg!r}: {type(e).__name__}: {str(e)[:120]}", replay, "registered-alg-missing-stats")
                return
        ctx.case({"registered_algorithm": key, "ops": info["subgraphs"][0]["ops"]}, True)
        ctx.tag("registered_algorithm_compared")
        if outs["min_max_uniform_quantize"] != outs[key]:
            ctx.fail("an algorithm registered with the min/max functions under another key produces another model than min/max itself",
                     {"model_ops": info["subgraphs"][0]["ops"]}, "registered-alg-differs")
            return


def run(ctx):
    ctx.rule = ("generated single- and multi-signature models x recipes whose rules use regexes built from the model's tensor names (anchored, "
                "with ';' separators, prefixes, alternatives, non-matching) x op selectors x configs; calibrate() then quantize() with its "
                "result must never fail for missing statistics; both real scope builders are compared per op; calibration and the whole "
                "pipeline are compared with the Lean model; distinct = distinct (model, recipe)")
    common.proof_side(ctx, THEOREMS, modules=["QProps.C10", "QProps.C10b", "QProps.C09", "QProps.C10c"])
    drv = common.Driver()
    rng = ctx.rng
    n = 350 if ctx.tier == "quick" else 3000
    for i in range(n):
        if ctx.left() < 25:
            break
        case = gen(rng, i)
        try:
            q = fp.make_quantizer(case)
        except Exception:  # noqa: BLE001
            continue
        if not q.get_quantization_recipe():
            continue
        ctx.case({"ops": [sg["ops"] for sg in case.info["subgraphs"]], "recipe": case.desc}, True)
        for t in case.info["tags"]:
            ctx.tag(t)
        selection_oracle(ctx, case, q)
        cr = None
        try:
            if q.need_calibration:
                for sig, samples in case.data.items():
                    r = fc.cmp_calibrate(ctx, drv, case.mb, q, sig, samples, cr)
                    if r[0] != "ok":
                        raise RuntimeError("calibrate raised " + r[1])
                    cr = r[1]
                ctx.tag("calibrated")
        except RuntimeError as e:
            ctx.fail(str(e), case.replay(), "calibrate-raised")
            continue
        try:
            out = ("ok", bytes(q.quantize(copy.deepcopy(cr)).quantized_model))
        except Exception as e:  # noqa: BLE001
            out = ("raise", type(e).__name__)
            msg = str(e)
            if "not found in tensor_name_to_qsv" in msg or "QSVs" in msg or "min and max must be provided" in msg:
                ctx.fail("quantize() after calibrate() failed for missing statistics: " + msg[:160], case.replay(), "missing-stats")
            ctx.errkinds[type(e).__name__] = ctx.errkinds.get(type(e).__name__, 0) + 1
        fmat.cmp_pipeline(ctx, drv, case.mb, q, cr, out)
        if out[0] == "ok":
            # the INPUT / OUTPUT pseudo-operators that calibration honoured for a signature are honoured by quantization for THAT signature
            fp.oracle_io_covered(ctx, case, {"q": q, "out": out[1]})
    registered_algorithm(ctx)
    drv.close()
    return common.finish(ctx)


def replay(ctx, path):
    print(open(path).read()[:3000])
    return 0
