"""C04 — quantization parameters equal the TFLite-spec reference for the stats and config."""
import numpy as np

from .. import common
from .. import fam_calib as fc
from .. import fam_pipeline as fp
from .. import oracles as orc
from .. import pipeline as pl

THEOREMS = ["C04.bias_params", "C04.fixed_ranges", "C04.shared_params_kept",
            "C17.scale_pos", "C17.zp_in_range", "C17.sym_zp_zero",
            # C04b: what materialisation requests for a tensor IS the reference formula applied to that tensor's statistics
            "C04.act_params_reference", "C04.act_params_reference_any_gran", "C04.act_params_missing", "C04.act_params_wellformed",
            "C04.config_choice", "C04.weight_params_reference", "C04.weight_request_ignores_stats", "C04.calibrated_stats_recomputed",
            "C04.weight_stats_true_minmax", "C04.per_channel_only_weight_config", "C04.weight_params_shape",
            "C04.tensorQuantParams_wellformed", "C04.ref_params_wellformed", "C04.handed_params", "C04.same_as_input", "C04.same_as_input_srq",
            "C04.concat_same_as_output", "C04.bias_request", "C04.fixed_range_output", "C04.dispatch_table", "C04.dispatch_rules",
            "C04.dispatch_bias", "C04.Ex.w_request", "C04.Ex.x_request", "C04.Ex.stale_stats_ignored",
            "C04.Ex.const_data_operand_per_channel", "C04.Ex.channelwise_activation_witness",
            # C04c: END TO END on the output model of quantizePure
            "C04.quantized_tensor_params", "C04.param_kinds", "C04.stats_in_force", "C04.stats_given", "C04.stats_in_force_unique",
            "C04.output_params_wellformed", "C04.per_channel_only_weights_in_output", "C04.same_scale_ops_in_output",
            "C04.same_scale_const_operand_in_output", "C04.concat_inputs_in_output", "C04.fixed_range_in_output", "C04.bias_in_output",
            "C04.bias_values", "C04.E2E.const_operand_ids_differ"]


def recompute_stats(case):
    """min/max of every runtime tensor from the check's own float interpreter run, EMA(0.95) over the samples"""
    m = pl.read(case.mb)
    stats = {}
    for sig, samples in case.data.items():
        sgi, conts = fc.capture(case.mb, sig, samples)
        cur = stats.get(sgi, {})   # several signatures may export one subgraph: the moving average continues across them
        for c in conts:
            for name, v in c.items():
                if v.dtype != np.float32 or v.size == 0:
                    continue
                lo, hi = np.float32(v.min()), np.float32(v.max())
                if name not in cur:
                    cur[name] = (lo, hi)
                else:
                    cur[name] = (np.float32(0.95) * cur[name][0] + np.float32(1.0 - 0.95) * lo,
                                 np.float32(0.95) * cur[name][1] + np.float32(1.0 - 0.95) * hi)
        stats[sgi] = cur
    return stats


def run(ctx):
    ctx.rule = ("every quantized tensor of every output model for generated models x recipes x calibration inputs (degenerate constants: "
                "constant / all-positive / all-negative / tiny / huge); sanity (finite positive scales, equal lengths, zero point in range, "
                "per-channel only on weights on the kernel's dimension, symmetric => 0), op-level rules (bias, same-as-input, concatenation, "
                "fixed ranges) and the reference min/max formulas applied to statistics the check recomputes from its own interpreter run; "
                "materialisation compared bit-exactly with the Lean model; distinct = distinct (model, recipe)")
    ctx.explanation = ("Proved on the materialisation model, for every model / statistics / config: the request for a runtime tensor of a static-range "
                       "operator carries exactly the reference min/max formula applied to the recorded statistics (act_params_reference), the "
                       "request for a constant carries the formula applied to the constant's TRUE per-tensor / per-channel min/max under the "
                       "granularity configured now, with its quantized data, whatever the statistics dictionary holds (weight_params_reference, "
                       "weight_stats_true_minmax, weight_request_ignores_stats -- false before repair D36, Ex.stale_stats_ignored is the "
                       "regression); all such parameters are well formed by the C17 laws (finite positive scales, zero points in range, equal "
                       "lengths = 1 or the channel count, 0 when symmetric); per-channel parameters only on constants of weight ops under a "
                       "CHANNELWISE weight config on the kernel's dimension; outputs share the input's parameters / concatenation inputs the "
                       "output's / fixed ranges / bias = input scale x weight scale (same_as_input, concat_same_as_output, fixed_range_output, "
                       "bias_request) with the dispatch of each operator checked against the regenerated registry table. Witnessed "
                       "non-properties kept in the file: a CONSTANT data operand of FULLY_CONNECTED gets per-channel parameters "
                       "(Ex.const_data_operand_per_channel; such models are not generated, see DESIGN), a CHANNELWISE activation config would "
                       "put a quantized dimension on a runtime tensor (the shipped policy never produces one). END TO END (C04c): every "
                       "tensor of quantizePure's output that carries parameters -- originals, constants, outputs of inserted QUANTIZE ops -- "
                       "carries (values-equal to) the reference formula on the statistics IN FORCE when its producer / reader was materialised "
                       "(the caller's entry, or what a same-as-input / fixed-range operator wrote back), or lent parameters, the fixed range, or "
                       "quantizeBias of the reader's data and weight parameters (quantized_tensor_params, param_kinds, stats_in_force); all are "
                       "well formed or biases (output_params_wellformed); per-channel only on constants of weight operators on the kernel's "
                       "dimension or on biases (per_channel_only_weights_in_output); same-scale operators, concatenation, fixed ranges and the "
                       "bias rule as they appear in the output model (same_scale_ops_in_output, concat_inputs_in_output, fixed_range_in_output, "
                       "bias_in_output, bias_values).")
    common.proof_side(ctx, THEOREMS, modules=["QProps.C04", "QProps.C04b", "QProps.C04c", "QProps.C17", "QProps.C17b"])
    drv = common.Driver()

    def per_case(case, res):
        if res["status"] == "ok":
            stats = recompute_stats(case) if res.get("cr") is not None else {}
            orc.oracle_c04(ctx, case, res, fp.failer(ctx, case), stats)
    def gen(rng, i):
        if i % 10 == 7:
            # ranges a fraction of a percent apart meeting where parameters must be equal, calibrated on small magnitudes
            from .. import gen_models as gm
            mb, info = gm.gen_near_equal(rng)
            data = gm.random_inputs(mb, rng, n=rng.randint(1, 2), scale=rng.choice([0.003, 0.0004, 0.02, 1.0]))
            cfg = pl.UNIFORM[rng.choice(["a16w8", "a16w8", "a8w8", "a8sw8t"])]
            cmds = [{"k": "add", "regex": ".*", "operation": "*", "cfg": cfg, "alg": "min_max_uniform_quantize"}]
            return fp.Case(mb, info, cmds=cmds, data=data, desc=[("near-equal", ".*", "*", cfg["act"]["bits"])])
        if i % 10 == 3:
            # the operators whose output must share the input's parameters (or the other way round), with fused activations, under
            # static-range rules: the op-level rules of the spec do not depend on the operator's options
            from .. import gen_models as gm
            mb, info = gm.gen_model(rng, n_ops=rng.randint(2, 5), n_subgraphs=1, p_unsupported=0.0, fused_act=0.6, alias_sig=0.0,
                                    kinds=["AVERAGE_POOL_2D", "AVERAGE_POOL_2D", "CONV_2D", "RESHAPE", "TRANSPOSE", "STRIDED_SLICE", "SPLIT", "CONCATENATION",
                                           "FULLY_CONNECTED", "TANH"])
            data = gm.random_inputs(mb, rng, n=rng.randint(1, 2), spread=True)
            cfg = pl.UNIFORM[rng.choice(["a8w8", "a16w8", "a8sw8t"])]
            cmds = [{"k": "add", "regex": ".*", "operation": "*", "cfg": cfg, "alg": "min_max_uniform_quantize"}]
            info["tags"].add("same_scale_ops_with_fused_activations")
            return fp.Case(mb, info, cmds=cmds, data=data, desc=[("same-scale ops", ".*", "*", cfg["act"]["bits"])])
        if i % 25 == 6:
            # calibrated ranges on which the zero point formula lands EXACTLY on a half (qmin - min/scale = -127.5, ...): which neighbour is
            # taken is part of the arithmetic the model is tied to bit for bit
            import numpy as np
            from .. import gen_models as gm
            mb, info = gm.gen_model(rng, n_ops=1, n_subgraphs=1, kinds=["ADD"], p_unsupported=0.0, alias_sig=0.0, const_kinds=gm.BENIGN_KINDS, allow_dead=0.0)
            data = gm.random_inputs(mb, rng, n=1)
            k = rng.choice([1.0, 0.5, 4.0])
            for samples in data.values():
                for smp in samples:
                    for j, (name, arr) in enumerate(sorted(smp.items())):
                        if arr.dtype.kind == "f" and arr.size >= 2:
                            lo, hi = [(-1.0, 509.0), (-0.25, 127.25), (-3.0, 507.0)][j % 3]
                            flat = arr.reshape(-1)
                            flat[:] = np.linspace(lo * k, hi * k, flat.size, dtype=np.float32)
            cfg = pl.UNIFORM["a8w8"]
            cmds = [{"k": "add", "regex": ".*", "operation": "*", "cfg": cfg, "alg": "min_max_uniform_quantize"}]
            info["tags"].add("zero_point_exactly_on_a_half")
            return fp.Case(mb, info, cmds=cmds, data=data, desc=[("zero point ties", k)])
        if i % 10 == 9:
            # ONE constant tensor read by several operators (tied weights / a shared bias) under per-reader rules: every reader that is
            # quantized must find the parameters ITS config prescribes, or the recipe is refused
            return fp.gen_tied_case(rng, i)
        return fp.gen_case(rng, i)
    fp.explore(ctx, drv, 600 if ctx.tier == "quick" else 3000, per_case, gen=gen, graph_corr=False, mat_corr=True)
    # "... under the configured bit width, symmetry and GRANULARITY": BLOCKWISE weights (reachable with skip_checks only; emulated
    # sub-channel pattern) must carry one scale per (block of the reduction dimension, output channel): max|w| over the block / qmax
    import numpy as np

    def blockwise_scales(case, res):
        mi, mo = pl.read(case.mb), pl.read(res["out"])
        block = case.cmds[0]["cfg"]["weight"]["block"]
        bits = case.cmds[0]["cfg"]["weight"]["bits"]
        gi = mi.subgraphs[0]
        for op in gi.operators:
            if pl.BO_NAME.get(mi.operatorCodes[op.opcodeIndex].builtinCode) != "FULLY_CONNECTED":
                continue
            tw = gi.tensors[op.inputs[1]]
            if mi.buffers[tw.buffer].data is None:
                continue
            w = np.frombuffer(bytes(np.asarray(mi.buffers[tw.buffer].data, dtype=np.uint8)), dtype="<f4").astype(np.float64).reshape([int(x) for x in tw.shape])
            o, f = w.shape
            sc_t = next((t for t in mo.subgraphs[0].tensors if pl.tname(t).startswith(pl.tname(tw) + "_scale") and t.type == pl.TT.FLOAT32
                         and mo.buffers[t.buffer].data is not None and len(mo.buffers[t.buffer].data)), None)   # (not a name-hazard activation)
            if sc_t is None:
                continue
            sc = np.frombuffer(bytes(np.asarray(mo.buffers[sc_t.buffer].data, dtype=np.uint8)), dtype="<f4").astype(np.float64)
            want = np.maximum(np.abs(w.reshape(o, f // block, block)).max(axis=2).T, 1e-4) / (2 ** (bits - 1) - 1)   # [blocks, channels]
            ctx.tag("blockwise_scales_checked")
            if sc.size != want.size or np.any(np.abs(sc.reshape(-1) - want.reshape(-1)) > 1e-5 * want.reshape(-1)):
                return ctx.fail(f"BLOCKWISE weight {pl.tname(tw)} [{o},{f}] with block size {block} carries {sc.size} scale(s) {list(sc_t.shape)}; the configured "
                                f"granularity asks for one per (block, channel) = {want.size}: max|w| of each block / {2 ** (bits - 1) - 1}",
                                case.replay(), "blockwise-scales-per-channel" if sc.size == o else "blockwise-scales")
    interp = pl.Interp()
    try:
        fp.blockwise_probe(ctx, drv, interp, 6 if ctx.tier == "quick" else 40, extra=blockwise_scales, only_8_bits=True)
    except Exception as e:  # noqa: BLE001
        import traceback
        ctx.fail(f"the BLOCKWISE probe could not run ({type(e).__name__}: {str(e)[:100]})", {"traceback": traceback.format_exc()[-1500:]}, "blockwise-probe-crash")
    interp.close()
    drv.close()
    return common.finish(ctx)


def replay(ctx, path):
    print(open(path).read()[:3000])
    return 0
