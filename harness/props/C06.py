"""C06 — float-compute modes equal the float model run with dequantized constants."""
from .. import common
from .. import fam_numeric as fnum
from .. import fam_pipeline as fp
from .. import gen_models as gm
from .. import pipeline as pl
from ..fam_recipe import cdesc as fr_cdesc, tdesc as fr_tdesc

THEOREMS = ["C06.weight_only_equiv", "C06.weight_only_outputs", "C06.weight_only_equiv_conv", "C03.xfs_wo", "C03.xfs_drq", "C02.quantize_skeleton", "C17.dq_q_rounded",
            # C06b: the analytic bound of the SPECIFIED hybrid (dynamic-range) kernel, for any rounding rule
            "C06.drq_row_bound", "C06.drq_row_bound_rel", "C06.drq_row_bound_attained", "C06.drq_fc_bound", "C06.drq_fc_batch_bound",
            "C06.drq_within_check_tolerance", "C06.check_tolerance_not_analytic",
            # C06c: what the emulated sub-channel pattern (BLOCKWISE weights) COMPUTES, over exact rationals (QModel/EmuSem.lean)
            "C06.emulated_pattern_computes_fc", "C06.emulated_pattern_computes_fc_per_channel", "C06.emulated_pattern_computes_fc_per_block",
            "C06.emulated_pattern_computes_fc_act", "C06.emulated_pattern_bias_relu", "C06.emulated_pattern_close_to_float",
            "C06.emulated_pattern_stage_shapes", "C06.EmuWitness.axis0_differs", "C06.EmuWitness.no_transpose_differs"]


def gen_tied(rng, i):
    """a constant used by several operators (one tensor, or one buffer behind several tensors) x per-consumer float-compute rules"""
    import re
    mb, info = gm.gen_tied(rng)
    data = gm.random_inputs(mb, rng, n=1)
    names = [n for sc in pl.scopes_of(mb) for n in sc.split(";") if n]
    cmds = []
    if rng.random() < 0.35:
        # (identical weight settings in two modes: one stored copy serves both; different settings: the recipe has to be refused)
        pair = rng.choice([("drq8", "wo8"), ("wo8", "drq8"), ("drq4c", "wo4"), ("wo4", "drq4c"),
                           ("drq8", "wo8a"), ("wo8a", "drq8"), ("wo8", "drq4"), ("drq4", "wo8"), ("drq8t", "wo8"), ("wo4a", "drq4c")])
        for j, n in enumerate(names):
            cmds.append({"k": "add", "regex": re.escape(n), "operation": "*", "cfg": pl.UNIFORM[pair[j % 2]], "alg": "min_max_uniform_quantize"})
        names = []
    for n in names:
        if rng.random() < 0.25:
            continue
        if rng.random() < 0.2:
            cmds.append({"k": "add", "regex": re.escape(n), "operation": "FULLY_CONNECTED", "cfg": pl.FP16, "alg": "float_casting"})
        else:
            cmds.append({"k": "add", "regex": re.escape(n), "operation": rng.choice(["*", "FULLY_CONNECTED"]),
                         "cfg": pl.UNIFORM[rng.choice(["wo8", "wo8a", "wo4", "wo4a", "drq8", "drq4", "drq8t", "drq4c"])], "alg": "min_max_uniform_quantize"})
    return fp.Case(mb, info, cmds=cmds, data=data, desc=[(c["regex"], c["operation"], c["alg"], c["cfg"]["weight"]["bits"], c["cfg"]["weight"]["sym"]) for c in cmds])


def equal_channel_filters(mb):
    """every per-channel weight gets the SAME range in every channel (the same kernel replicated per channel: all per-channel scales and
    zero points come out equal, a numeric corner for whoever stores or reads per-channel parameters)"""
    import numpy as np
    from tensorflow.lite.tools import flatbuffer_utils
    m = pl.read(mb)
    changed = False
    for sg in m.subgraphs:
        for op in sg.operators:
            name = pl.BO_NAME.get(m.operatorCodes[op.opcodeIndex].builtinCode)
            qd = {"DEPTHWISE_CONV_2D": 3, "CONV_2D": 0, "FULLY_CONNECTED": 0, "TRANSPOSE_CONV": 0}.get(name)
            if qd is None or len(op.inputs) < 2 or op.inputs[1] == -1:
                continue
            t = sg.tensors[op.inputs[1]]
            b = m.buffers[t.buffer]
            if b.data is None or t.type != pl.TT.FLOAT32:
                continue
            w = np.frombuffer(bytes(np.asarray(b.data, dtype=np.uint8)), dtype="<f4").reshape([int(x) for x in t.shape]).copy()
            first = np.take(w, [0], axis=qd)
            w[...] = first
            b.data = np.frombuffer(w.astype("<f4").tobytes(), dtype=np.uint8)
            changed = True
    return bytes(flatbuffer_utils.convert_object_to_bytearray(m)) if changed else mb


def gen(rng, i):
    if i % 11 == 5:
        mb, info = gm.gen_model(rng, n_ops=rng.randint(1, 3), n_subgraphs=1, alias_sig=0.0, p_unsupported=0.0,
                                kinds=["DEPTHWISE_CONV_2D", "DEPTHWISE_CONV_2D", "CONV_2D", "FULLY_CONNECTED", "TANH"])
        mb = equal_channel_filters(mb)
        info["tags"].add("equal_channel_ranges")
        cfg = pl.UNIFORM[rng.choice(["drq8", "drq8", "wo8", "drq4c"])]   # per-channel weights
        cmds = [{"k": "add", "regex": ".*", "operation": "*", "cfg": cfg, "alg": "min_max_uniform_quantize"}]
        return fp.Case(mb, info, cmds=cmds, data=gm.random_inputs(mb, rng, n=1), desc=[("equal channel ranges", cfg["cp"], cfg["weight"]["bits"])])
    if i % 6 == 4:
        return gen_tied(rng, i)
    deep = {"n_ops": rng.randint(6, 12), "kinds": gm.WEIGHT_HEAVY} if i % 6 == 1 else {}   # many weight-bearing operators in a row
    mb, info = gm.gen_model(rng, n_subgraphs=1 if i % 5 else 2, alias_sig=0.0, **deep)
    if deep:
        info["tags"].add("deep_weight_chain")
    data = gm.random_inputs(mb, rng, n=1)
    names = list(pl.UNIFORM)
    r = rng.random()
    if r < 0.45:
        cfg = pl.UNIFORM[rng.choice(["wo8", "wo8a", "wo4", "wo4a", "drq8", "drq4", "drq8t", "drq4c"])]
        cmds = [{"k": "add", "regex": ".*", "operation": "*", "cfg": cfg, "alg": "min_max_uniform_quantize"}]
    elif r < 0.6:
        cmds = [{"k": "add", "regex": ".*", "operation": "*", "cfg": pl.FP16, "alg": "float_casting"}]
    else:
        cmds = []
        for op in rng.sample(["FULLY_CONNECTED", "CONV_2D", "DEPTHWISE_CONV_2D", "CONV_2D_TRANSPOSE", "BATCH_MATMUL", "EMBEDDING_LOOKUP"], 3):
            if rng.random() < 0.25:
                cmds.append({"k": "add", "regex": ".*", "operation": op, "cfg": pl.FP16, "alg": "float_casting"})
            else:
                cmds.append({"k": "add", "regex": ".*", "operation": op, "cfg": pl.UNIFORM[rng.choice(["wo8", "wo8a", "wo4", "wo4a", "drq8", "drq4", "drq8t", "drq4c"])],
                             "alg": "min_max_uniform_quantize"})
    if i % 7 == 3:
        # "for all ACCEPTED recipes": rules the policy is meant to refuse (asymmetric weights under dynamic range, a leftover block_size on
        # per-tensor / per-channel weights, 16-bit integer weights) are offered as well -- refused (at the update for a named operator, at
        # resolution under '*') nothing happens; should one of them be accepted, the outputs must still follow the dequantized constants
        odd = rng.choice([fr_cdesc(None, fr_tdesc(8, False, "CHANNELWISE", "INT", 0), "INTEGER", False),
                          fr_cdesc(None, fr_tdesc(8, False, "TENSORWISE", "INT", 32), "INTEGER", False),
                          fr_cdesc(None, fr_tdesc(8, True, "CHANNELWISE", "INT", 16), "INTEGER", False),
                          fr_cdesc(None, fr_tdesc(4, False, "TENSORWISE", "INT", 32), "INTEGER", False),
                          fr_cdesc(None, fr_tdesc(8, False, "CHANNELWISE", "INT", 32), "FLOAT", True)])
        cmds = cmds + [{"k": "add", "regex": ".*", "operation": rng.choice(["*", "FULLY_CONNECTED", "CONV_2D", "BATCH_MATMUL"]), "cfg": odd,
                        "alg": "min_max_uniform_quantize"}]
        info["tags"].add("policy_refused_rule_offered")
    if i % 5 == 2:
        # the same object has quantized before under other rules for the same selectors (later rules override them)
        pre = [{**c, "cfg": pl.UNIFORM[rng.choice(["wo8", "wo4a", "drq8", "drq4"])], "alg": "min_max_uniform_quantize"} for c in cmds]
        cmds = pre + [{"k": "quantize"}] + cmds
    return fp.Case(mb, info, cmds=cmds, data=data,
                   desc=[(c["operation"], c["alg"], c["cfg"]["cp"], c["cfg"]["weight"]["bits"]) if c.get("k") != "quantize" else "quantize()" for c in cmds])


def run(ctx):
    fp.BMM_CONST_LHS[0] = 0.2   # BATCH_MATMUL with the CONSTANT on the left is generated here (finding D42 is classified by this check)
    ctx.rule = ("generated float models x accepted weight-only / float16 / dynamic-range recipes (4- and 8-bit, symmetric/asymmetric, per-tensor/per-channel, uniform and per-op mixed) x random inputs: interpreter(quantized model) vs interpreter(reference model built by the check from the INPUT model + constants decoded by the independent decoder); float32-rounding tolerance for weight-only/float16, generous end-to-end bound for dynamic range; pipeline compared with the Lean model; distinct = distinct (model, recipe)")
    ctx.explanation = ("PARTIAL: proved for weight-only / float16 rewrites, for EVERY kernel semantics and EVERY input: the rewritten graph runs iff the input graph with dequantized constants runs, and both compute the same value for every original tensor, in particular every graph output (C06.weight_only_equiv, _outputs, _conv; hypotheses = skeleton preserved (C02.quantize_skeleton) + DEQUANTIZE-on-constant shape, evaluated by the driver on the model's output of every generated case). Also proved: these modes request only DEQUANTIZE on constants / in-place quantization of constants (C03.xfs_wo, xfs_drq) and the value law of the stored constants (C17.dq_q_rounded). Dynamic range (C06b): for the hybrid kernel AS SPECIFIED (activation scale max|x|/127, symmetric weights, any rounding with error <= 1/2) the row result differs from the float model with dequantized constants by at most (max|x|/254)*sum|dequantized weights|, the constant is attained (drq_row_bound, drq_row_bound_rel, drq_row_bound_attained; whole operator, per-channel scales, per batch row); the check's tolerance 0.08*magnitude per operator is NOT this bound: it is implied by it only when max|x|*||w||_1 <= 20.32*magnitude (drq_within_check_tolerance) and is violated by a spec-exact kernel on a closed witness (check_tolerance_not_analytic) -- the tolerance is heuristic, calibrated on the clean tree. The equality of interpreter outputs is runtime behaviour (LiteRT kernels, incl. the dynamic 8-bit activation quantization of hybrid kernels) that the model cannot exhibit: it is executed, not proved.")
    common.proof_side(ctx, THEOREMS, modules=["QProps.C06", "QProps.C06b", "QProps.C06c", "QProps.C03", "QProps.C02", "QProps.C17", "QProps.C17b"])
    drv = common.Driver()
    interp = pl.Interp()

    def per_case(case, res):
        if res["status"] == "ok":
            modes = fnum.modes_in(res["q"], case.mb) - {"none"}
            mr = res.get("model_resp")
            if modes and modes <= {"wo", "fp16"} and mr and "c06_shape" in mr:
                # hypotheses of C06.weight_only_equiv / _outputs / _conv, evaluated on the model's output graph
                # (which the pipeline correspondence has just compared with the real output)
                for si, sh in enumerate(mr["c06_shape"]):
                    ctx.tag("c06_hyp_checked")
                    if sh["ins"]:
                        ctx.tag("c06_hyp_nontrivial")
                    if not (sh["deq_on_const"] and sh["ins_before_use"] and sh["outputs_clean"]):
                        ctx.disagree("c06.theorem-hypotheses", {"subgraph": si, **case.replay()}, sh,
                                     "weight-only/float16 rewrite must be DEQUANTIZE-on-constant, placed before use, outputs underived")
            fnum.compare_float_modes(ctx, interp, case, res, fp.failer(ctx, case))
    try:
        fp.explore(ctx, drv, 400 if ctx.tier == "quick" else 2500, per_case, gen=gen, graph_corr=False, pipe_corr=True)
    finally:
        interp.close()
        drv.close()
    return common.finish(ctx)


def replay(ctx, path):
    print(open(path).read()[:3000])
    return 0
