"""C09 — calibration statistics are exact, order-faithful and resumable."""
import copy
import itertools

import numpy as np

from .. import common
from .. import fam_calib as fc
from .. import fam_pipeline as fp

THEOREMS = ["C09.resume", "C09.first_sample_initialises", "C10.stats_complete",
            # exactness (C09b): the recorded entry IS the left fold of ema over the per-sample min/max in dataset order
            "C09.runtime_stats_exact", "C09.runtime_stats_exact_of_init", "C09.runtime_stats_exact_unique", "C09.resumed_stats_exact",
            "C09.const_stats_exact", "C09.const_stats_minmax", "C09.emaArr_f32", "C09.weights", "C09.emaSpec_order",
            "C09.Ex.order_matters", "C09.Collision.not_exact", "C09.not_constNamed_of_unique",
            # any number of resumed sessions = one pass over the concatenation; the cut points do not matter (C09c)
            "C09c.resume_many", "C09c.split_irrelevant"]


def splits(n):
    """all ways of cutting range(n) into consecutive non-empty sessions"""
    for k in range(n):
        for cuts in itertools.combinations(range(1, n), k):
            b = [0, *cuts, n]
            yield [(b[i], b[i + 1]) for i in range(len(b) - 1)]


def run(ctx):
    ctx.rule = ("generated models (1-3 signatures) x recipes needing calibration x datasets of 1..4 samples x ALL ways of splitting the dataset "
                "into resumed sessions; every calibrate() call is compared bit-exactly with the Lean model fed with tensor contents captured by "
                "the harness's own interpreter; independent oracle: EMA(0.95) of true per-sample min/max in dataset order, true min/max of "
                "constants, resumed == single pass, previous result unmodified; distinct = distinct (model, recipe, dataset)")
    ctx.explanation = ("Proved on the calibration model for every model/recipe/dataset: the entry recorded for a runtime tensor is exactly the "
                       "left fold of the 0.95 moving average over that tensor's per-sample whole-tensor min/max in dataset order, each sample "
                       "counted once (runtime_stats_exact; needs no tensor of that name to be a constant elsewhere in the model, which follows "
                       "from the model-wide unique names the library itself requires: runtime_stats_exact_unique; the hypothesis is necessary, "
                       "Collision.not_exact, replayed on the real code); constants carry their true per-tensor/per-channel min/max "
                       "(const_stats_exact/_minmax); resumption equals the single pass (resume, resumed_stats_exact); order matters "
                       "(order_matters). The model is tied to Calibrator by exact comparison of every calibrate() call. The interpreter "
                       "producing the tensor contents is external (input of the model).")
    common.proof_side(ctx, THEOREMS, modules=["QProps.C09", "QProps.C09b", "QProps.C09c", "QProps.C10"])
    drv = common.Driver()
    rng = ctx.rng
    n = 150 if ctx.tier == "quick" else 1200
    done = 0
    for i in range(n * 4):
        if ctx.left() < 25 or done >= n:
            break
        nsmp = rng.randint(1, 4)
        case = fp.gen_case(rng, i, n_samples=nsmp, p_stateful=0.2 if i % 3 == 1 else 0.0)   # every third case may hold recurrent cells with variable state
        try:
            q = fp.make_quantizer(case)
        except Exception:  # noqa: BLE001
            continue
        if not q.need_calibration:
            continue
        done += 1
        ctx.case({"ops": [sg["ops"] for sg in case.info["subgraphs"]], "recipe": case.desc, "samples": nsmp}, True)
        for t in case.info["tags"]:
            ctx.tag(t)

        def fail(msg, key, case=case):
            ctx.fail(msg, case.replay(), key)
        # single pass over every signature in turn
        single = None
        ok = True
        for sig, samples in case.data.items():
            r = fc.cmp_calibrate(ctx, drv, case.mb, q, sig, samples, single)
            if r[0] != "ok":
                fail(f"calibrate() raised {r[1]} on a calibratable model", "calibrate-raised-" + r[1])
                ok = False
                break
            single = r[1]
            # several signatures: alias signatures continue one moving average, so only the PRESENCE of every entry is checked there
            fc.oracle_ema(ctx, case.mb, q, sig, samples, single, fail, values=(len(case.data) == 1))
        if not ok:
            continue
        # every split into resumed sessions gives exactly the same result
        for sp in list(splits(nsmp))[1:]:
            cur = None
            for sig, samples in case.data.items():
                for (a, b) in sp:
                    r = fc.cmp_calibrate(ctx, drv, case.mb, q, sig, samples[a:b], cur)
                    if r[0] != "ok":
                        fail("resumed calibrate() raised " + r[1], "resume-raised")
                        cur = None
                        break
                    cur = r[1]
                if cur is None:
                    break
            if cur is not None and not fc._same_qsvs(cur, single):
                fail(f"resumed calibration over sessions {sp} differs from the single pass", "resume-differs")
            ctx.tag("split_sessions_%d" % len(sp))
    drv.close()
    return common.finish(ctx)


def replay(ctx, path):
    print(open(path).read()[:3000])
    return 0
