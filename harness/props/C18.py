"""C18 — validate() reports the true per-tensor error, once per tensor."""
from .. import common
from .. import fam_pipeline as fp
from .. import fam_validate as fv
from .. import gen_models as gm

THEOREMS = ["C18.mse_nonneg", "C18.mse_refl", "C18.mse_symm", "C18.mdr_nonneg", "C18.mdr_refl", "C18.self_compare_zero",
            "C18.one_entry_per_tensor", "C18.inputs_filed",
            # C18b: the WHOLE compare_model: which names, which group, which value; self comparison; when it fails
            "C18.compare_spec", "C18.compare_spec_general", "C18.perSample_length", "C18.compare_nodup", "C18.self_compare",
            "C18.self_compare_ok_iff", "C18.compare_nonneg", "C18.compare_mse_symmetric", "C18.compare_mse_symmetric_mem",
            "C18.compare_ok_iff", "C18.pairVal_error_iff", "C18.compare_error_iff"]


def public_entry_point(ctx, q, data, metric, want, fail):
    """Quantizer.validate() is the public entry point: it must report what compare_model reports for the same models and data,
    whatever kind of iterable carries the samples (a list, or a one-shot iterator such as a generator)"""
    import numpy as np
    for kind in ("list", "generator"):
        td = {sig: (list(samples) if kind == "list" else (x for x in list(samples))) for sig, samples in data.items()}
        try:
            r = q.validate(td, error_metrics=metric, use_reference_kernel=True) if fv.REF_KERNEL[0] else q.validate(td, error_metrics=metric)
        except Exception as e:  # noqa: BLE001
            return fail(f"Quantizer.validate raised {type(e).__name__} on {kind} test data where compare_model succeeds", "validate-public-raised")
        ctx.tag("public_validate_" + kind)
        for sig in r.available_signature_keys():
            g = r.get_signature_comparison_result(sig)
            for grp, d in (("inputs", g.input_tensors), ("outputs", g.output_tensors), ("constants", g.constant_tensors),
                           ("intermediates", g.intermediate_tensors)):
                for name, v in want.get(sig, {}).get(grp, {}).items():
                    if name not in d:
                        return fail(f"Quantizer.validate ({kind} test data) does not report tensor {name}", "validate-public-missing")
                    a, b = float(d[name]), float(v)
                    if not (a == b or (np.isnan(a) and np.isnan(b)) or abs(a - b) <= 1e-6 * max(abs(a), abs(b))):
                        return fail(f"Quantizer.validate ({kind} test data) reports {a!r} for {name} where the same comparison on a list of the "
                                    f"same samples gives {b!r}", "validate-public-differs:" + kind)


def run(ctx):
    ctx.rule = ("generated float models (incl. inputs that are outputs, constants exported as outputs, multi-signature) and their quantized "
                "versions under generated recipes x test datasets of 1-3 samples x both metrics (mse, median_diff_ratio), plus self "
                "comparison; compare_model's groups are compared with the Lean model fed with tensor contents read by the harness's own "
                "interpreter instances (membership exactly, values within the float32 summation bound) and checked by an independent "
                "oracle; distinct = distinct (model, recipe, metric)")
    ctx.explanation = ("C18b, for the whole compare_model on the model: a name is reported iff in some sample it names a tensor on both sides; it is "
                       "filed in exactly one group (inputs, else outputs, else constants, else intermediates) with the mean, in sample order, of "
                       "the metric of the two (dequantized, flattened) contents over the samples in which it occurs on both sides "
                       "(compare_spec, compare_nodup, perSample_length); comparing a model with itself files 0 for every tensor "
                       "(self_compare); all values are >= 0; MSE groups are invariant under swapping the sides (compare_mse_symmetric); "
                       "success and every failure are characterised (compare_ok_iff, compare_error_iff). Also: metric laws and the one-entry-per-tensor partition are proved on the model for all inputs; the metric values are "
                       "modelled in ideal arithmetic (numpy evaluates in float32 with pairwise summation), so values are compared within "
                       "an explicit bound, not bit-exactly. The interpreter is external.")
    common.proof_side(ctx, THEOREMS, modules=["QProps.C18", "QProps.C18b"])
    drv = common.Driver()
    rng = ctx.rng
    import harness.pipeline as pl_
    interp = pl_.Interp()
    n = 120 if ctx.tier == "quick" else 900

    def per_case(case, res):
        # the documented use_reference_kernel=True path is a path like any other (the harness's own interpreters follow it)
        fv.REF_KERNEL[0] = rng.random() < 0.3
        if fv.REF_KERNEL[0]:
            ctx.tag("use_reference_kernel")
        try:
            return per_case_(case, res)
        finally:
            fv.REF_KERNEL[0] = False

    def survives(mb_out, data):
        for j in range(max((len(v) for v in data.values()), default=0)):
            r0 = interp.run(mb_out, {k: v[j:j + 1] for k, v in data.items() if len(v) > j})
            if r0[0] in ("abort", "timeout"):
                ctx.tag("skipped_runtime_aborts")
                return False
        return True

    def per_case_(case, res):
        if "const_is_output" in case.info["tags"]:
            # constants exported as signature outputs: group filing is exercised by comparing the float model with itself
            metric = "mse" if rng.random() < 0.5 else "median_diff_ratio"
            data = gm.random_inputs(case.mb, rng, n=1)
            fail = fp.failer(ctx, case, prefix=f"[{metric}] ")
            r2 = fv.cmp_validate(ctx, drv, case.mb, case.mb, data, metric)
            if r2[0] == "ok":
                fv.oracle(ctx, case.mb, case.mb, data, metric, r2[1], fail, self_compare=True)
            else:
                fail(f"self comparison raised {r2[1]}", "validate-raised-" + r2[1])
            ctx.tag("const_output_self_compare")
            return
        if res["status"] != "ok":
            return
        # finding D27 (hybrid depthwise kernel reading per-channel scales the model does not carry) makes the interpreter's results depend
        # on uninitialised memory: two interpreter instances disagree with each other, nothing can be said about validate()'s numbers
        from .. import fam_numeric as fnum
        from .. import pipeline as pl
        mo = pl.read(res["out"])
        if any("hybrid-tensorwise" in fnum.op_variant(mo, sg, op) for sg in mo.subgraphs for op in sg.operators):
            ctx.tag("skipped_nondeterministic_runtime_D27")
            return
        metric = "mse" if rng.random() < 0.5 else "median_diff_ratio"
        data = gm.random_inputs(case.mb, rng, n=rng.randint(1, 3))
        if not survives(res["out"], data):
            return
        if rng.random() < 0.25:
            # test samples with non-finite values: the float side then holds NaN / Inf in tensors where the integer side (saturating kernels,
            # quantized inputs) is finite, and vice versa; the documented metric replaces them (1e-9 / +-1e9) on BOTH sides
            import numpy as np
            for samples in data.values():
                smp = rng.choice(samples)
                for name, arr in smp.items():
                    if isinstance(arr, np.ndarray) and arr.dtype.kind == "f" and arr.size:
                        flat = arr.reshape(-1)
                        for pos, val in zip(rng.sample(range(flat.size), min(rng.randint(1, 3), flat.size)), rng.sample([np.nan, np.inf, -np.inf], 3)):
                            flat[pos] = val
            ctx.tag("nonfinite_test_samples")
            # a kernel may REFUSE such a sample at run time (the integer RSQRT: "only defined for positive values"): then there are no
            # tensor contents to compare, whoever runs the interpreter
            try:
                for sig_, samples_ in data.items():
                    for smp_ in samples_:
                        fv.capture(res["out"], sig_, smp_)
                        fv.capture(case.mb, sig_, smp_)
            except RuntimeError:
                ctx.tag("nonfinite_sample_refused_by_a_kernel")
                return
        # validate() and the harness's own captures run the QUANTIZED model inside this process; a model on which the runtime abort()s
        # (cf. finding D29) would take the whole check with it: it is tried in the interpreter server (a child process) first
        if not survives(res["out"], data):
            return
        fail = fp.failer(ctx, case, prefix=f"[{metric}] ")
        r = fv.cmp_validate(ctx, drv, case.mb, res["out"], data, metric)
        if r[0] == "ok":
            fv.oracle(ctx, case.mb, res["out"], data, metric, r[1], fail)
        else:
            fail(f"validate raised {r[1]}", "validate-raised-" + r[1])
        ctx.tag("metric_" + metric)
        if r[0] == "ok":
            public_entry_point(ctx, res["q"], data, metric, r[1], fail)
        if rng.random() < 0.35:
            r2 = fv.cmp_validate(ctx, drv, case.mb, case.mb, data, metric)
            if r2[0] == "ok":
                fv.oracle(ctx, case.mb, case.mb, data, metric, r2[1], fail, self_compare=True)
            else:
                fail(f"self comparison raised {r2[1]}", "validate-raised-" + r2[1])
            ctx.tag("self_compare")
        if rng.random() < 0.4:
            # the REFERENCE may hold quantized tensors too (comparing two recipes, a quantized model with itself, a "float" model that already
            # carries int8 weights): both sides are dequantized before the metric is taken
            if rng.random() < 0.5:
                r3 = fv.cmp_validate(ctx, drv, res["out"], res["out"], data, metric)
                if r3[0] == "ok":
                    fv.oracle(ctx, res["out"], res["out"], data, metric, r3[1], fail, self_compare=True)
                else:
                    fail(f"self comparison of the quantized model raised {r3[1]}", "validate-raised-" + r3[1])
                ctx.tag("quantized_reference_self_compare")
            else:
                r3 = fv.cmp_validate(ctx, drv, res["out"], case.mb, data, metric)
                if r3[0] == "ok":
                    fv.oracle(ctx, res["out"], case.mb, data, metric, r3[1], fail)
                else:
                    fail(f"validate with the quantized model as the reference raised {r3[1]}", "validate-raised-" + r3[1])
                ctx.tag("quantized_reference")
    def gen(rng_, i):
        if i % 3 == 2:   # constants exported as signature outputs
            mb, info = gm.gen_model(rng_, n_subgraphs=1, const_output=1.0)
            data = gm.random_inputs(mb, rng_, n=1)
            import harness.pipeline as pl
            name, rec = rng_.choice(pl.shipped_recipes())
            return fp.Case(mb, info, recipe=rec, data=data, desc=name)
        return fp.gen_case(rng_, i)
    try:
        fp.explore(ctx, drv, n, per_case, gen=gen, graph_corr=False)
    finally:
        interp.close()
    drv.close()
    return common.finish(ctx)


def replay(ctx, path):
    print(open(path).read()[:3000])
    return 0
