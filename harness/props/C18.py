"""C18 — validate() reports the true per-tensor error, once per tensor."""
from .. import common
from .. import fam_pipeline as fp
from .. import fam_validate as fv
from .. import gen_models as gm

THEOREMS = ["C18.mse_nonneg", "C18.mse_refl", "C18.mse_symm", "C18.mdr_nonneg", "C18.mdr_refl", "C18.self_compare_zero",
            "C18.one_entry_per_tensor", "C18.inputs_filed"]


def run(ctx):
    ctx.rule = ("generated float models (incl. inputs that are outputs, constants exported as outputs, multi-signature) and their quantized "
                "versions under generated recipes x test datasets of 1-3 samples x both metrics (mse, median_diff_ratio), plus self "
                "comparison; compare_model's groups are compared with the Lean model fed with tensor contents read by the harness's own "
                "interpreter instances (membership exactly, values within the float32 summation bound) and checked by an independent "
                "oracle; distinct = distinct (model, recipe, metric)")
    ctx.explanation = ("metric laws and the one-entry-per-tensor partition are proved on the model for all inputs; the metric values are "
                       "modelled in ideal arithmetic (numpy evaluates in float32 with pairwise summation), so values are compared within "
                       "an explicit bound, not bit-exactly. The interpreter is external.")
    common.proof_side(ctx, THEOREMS)
    drv = common.Driver()
    rng = ctx.rng
    n = 120 if ctx.tier == "quick" else 900

    def per_case(case, res):
        if "const_is_output" in case.info["tags"]:
            # constants exported as signature outputs: group filing is exercised by comparing the float model with itself
            metric = "mse" if rng.random() < 0.5 else "median_diff_ratio"
            data = gm.random_inputs(case.mb, rng, n=1)
            fail = fp.failer(ctx, case, prefix=f"[{metric}] ")
            r2 = fv.cmp_validate(ctx, drv, case.mb, case.mb, data, metric)
            if r2[0] == "ok":
                fv.oracle(ctx, case.mb, case.mb, data, metric, r2[1], fail, self_compare=True)
            else:
                fail(f"self comparison raised {r2[1]}", "validate-raised-" + r2[1])
            ctx.tag("const_output_self_compare")
            return
        if res["status"] != "ok":
            return
        metric = "mse" if rng.random() < 0.5 else "median_diff_ratio"
        data = gm.random_inputs(case.mb, rng, n=rng.randint(1, 3))
        fail = fp.failer(ctx, case, prefix=f"[{metric}] ")
        r = fv.cmp_validate(ctx, drv, case.mb, res["out"], data, metric)
        if r[0] == "ok":
            fv.oracle(ctx, case.mb, res["out"], data, metric, r[1], fail)
        else:
            fail(f"validate raised {r[1]}", "validate-raised-" + r[1])
        ctx.tag("metric_" + metric)
        if rng.random() < 0.35:
            r2 = fv.cmp_validate(ctx, drv, case.mb, case.mb, data, metric)
            if r2[0] == "ok":
                fv.oracle(ctx, case.mb, case.mb, data, metric, r2[1], fail, self_compare=True)
            else:
                fail(f"self comparison raised {r2[1]}", "validate-raised-" + r2[1])
            ctx.tag("self_compare")
    def gen(rng_, i):
        if i % 3 == 2:   # constants exported as signature outputs
            mb, info = gm.gen_model(rng_, n_subgraphs=1, const_output=1.0)
            data = gm.random_inputs(mb, rng_, n=1)
            import harness.pipeline as pl
            name, rec = rng_.choice(pl.shipped_recipes())
            return fp.Case(mb, info, recipe=rec, data=data, desc=name)
        return fp.gen_case(rng_, i)
    fp.explore(ctx, drv, n, per_case, gen=gen, graph_corr=False)
    drv.close()
    return common.finish(ctx)


def replay(ctx, path):
    print(open(path).read()[:3000])
    return 0
