"""C17 — quantization arithmetic obeys its algebraic laws on all inputs."""
import json

import numpy as np

from .. import common
from .. import fam_arith as fa
from ai_edge_quantizer import qtyping

THEOREMS = [
    "C17.rn_mono", "C17.rn_relerr", "C17.sym_zp_zero", "C17.scale_pos", "C17.zero_exact",
    "C17.q_in_range", "C17.q_mono", "C17.q_dq_ideal", "C17.dq_q_ideal", "C17.cover_ideal",
    "C17.zp_in_range", "C17.q_dq_rounded", "C17.dq_q_rounded",
    "C17.q_in_range_64", "C17.saturates_high_64", "C17.d34_pinned_wraps",
            # C17d: the BLOCKWISE (emulated sub-channel) arithmetic, modelled in QModel/Blockwise.lean (finding D41 as a theorem)
            "C17.sym_half_step_ideal", "C17.sym_half_step_f32", "C17.blockwise_ok_iff", "C17.blockwise_error_class", "C17.blockwise_shapes",
            "C17.blockwise_layout", "C17.blockwise_scale_is_row_scale", "C17.blockwise_is_channelwise", "C17.channelwise_is_materialize",
            "C17.blockwise_half_step_ideal", "C17.blockwise_half_step_f32", "C17.ref_half_step_ideal", "C17.ref_half_step_f32",
            "C17.blockwise_granularity_not_honoured"]


def one_param_case(ctx, drv, rng, bits, sym, shape=None, dtype=np.float32):
    if shape is None:
        mn, mx = fa.gen_range(rng, dtype)
        mn, mx = np.array([mn], dtype), np.array([mx], dtype)
    else:
        los, his = zip(*[fa.gen_range(rng, dtype) for _ in range(int(np.prod(shape)))])
        mn, mx = np.array(los, dtype).reshape(shape), np.array(his, dtype).reshape(shape)
    r = fa.cmp_zp_scale(ctx, drv, mn, mx, bits, sym)
    replay = {"fn": "tensor_zp_scale_from_min_max", "min": mn.tolist(), "max": mx.tolist(), "dtype": str(mn.dtype), "bits": bits, "sym": sym}
    if r is None:
        ctx.fail("tensor_zp_scale_from_min_max raised on a finite range", replay, "zp-scale-raised")
        return None
    zp, scale = r
    ctx.tag("sym" if sym else "asym", f"bits{bits}")
    if float(np.min(mx - mn)) == 0:
        ctx.tag("degenerate_range")
    if np.all(mn > 0) or np.all(mx < 0):
        ctx.tag("one_sided")
    if not fa.oracle_params(ctx, mn, mx, bits, sym, zp, scale, replay):
        return None
    return mn, mx, zp, scale


def tensor_case(ctx, drv, rng, bits, sym):
    shape = fa.gen_shape(rng)
    x = fa.gen_tensor(rng, shape)
    qdim = rng.choice([None] + list(range(len(shape)))) if shape else None
    red = None if qdim is None else tuple(d for d in range(len(shape)) if d != qdim)
    mn = np.min(x, axis=red, keepdims=True)
    mx = np.max(x, axis=red, keepdims=True)
    r = fa.cmp_zp_scale(ctx, drv, mn, mx, bits, sym)
    if r is None:
        return
    zp, scale = r
    if not fa.finite(scale):
        return
    p = qtyping.UniformQuantParams(bits, qdim, scale, zp, sym)
    if rng.random() < 0.3 and qdim is not None:
        # parameters as they come back from a flatbuffer: flattened
        p = qtyping.UniformQuantParams(bits, qdim, np.asarray(scale).flatten(), np.asarray(zp).flatten(), sym)
        ctx.tag("flattened_params")
    q = fa.cmp_quantize(ctx, drv, x, p)
    ctx.tag(f"rank{len(shape)}", "perchannel" if qdim is not None else "pertensor")
    if q is None:
        return
    replay = {"fn": "uniform_quantize/uniform_dequantize", "x": x.tolist(), "shape": shape, "qdim": qdim, "bits": bits, "sym": sym,
              "scale": np.asarray(scale).tolist(), "zp": np.asarray(zp).tolist()}
    fa.cmp_dequantize(ctx, drv, q, p)
    fa.oracle_quantize(ctx, x, p, q, replay)
    # channel locality: changing channel c of the parameters changes only channel c of the result
    if qdim is not None and shape[qdim] > 1:
        c = rng.randrange(shape[qdim])
        s2 = np.array(scale, copy=True)
        idx = [0] * len(shape)
        idx[qdim] = c
        s2[tuple(idx)] = s2[tuple(idx)] * np.float32(2)
        if fa.finite(s2):
            q2 = fa.cmp_quantize(ctx, drv, x, qtyping.UniformQuantParams(bits, qdim, s2, zp, sym))
            if q2 is not None:
                diff = np.moveaxis(q2 != q, qdim, 0)
                others = [i for i in range(shape[qdim]) if i != c]
                if np.any(diff[others]):
                    ctx.fail("per-channel parameters of one channel changed another channel", replay, "channel-leak")
                ctx.tag("channel_locality")


def codes_case(ctx, drv, rng, bits, sym, mn, mx, zp, scale):
    """q(dq(c)) == c for every integer code (exhaustive for 4/8 bit, sampled for 16)."""
    lo, hi = fa.qrange(bits, sym)
    dt = np.int8 if bits <= 8 else np.int16
    if bits <= 8:
        codes = np.arange(lo, hi + 1, dtype=np.int64)
    else:
        codes = np.array(sorted({lo, hi, 0, -1, 1, *[rng.randint(lo, hi) for _ in range(64)]}), dtype=np.int64)
    codes = codes.astype(dt)
    p = qtyping.UniformQuantParams(bits, None, scale, zp, sym)
    d = fa.cmp_dequantize(ctx, drv, codes, p)
    if d is None or not fa.finite(d):
        return
    q = fa.cmp_quantize(ctx, drv, np.asarray(d), p)
    replay = {"fn": "quantize(dequantize(codes))", "min": np.asarray(mn).tolist(), "max": np.asarray(mx).tolist(), "bits": bits, "sym": sym}
    if q is not None and not np.array_equal(q.astype(np.int64), codes.astype(np.int64)):
        bad = [int(c) for c, r in zip(codes, q) if int(c) != int(r)][:5]
        replay["bad_codes"] = bad
        ctx.fail("quantize(dequantize(q)) != q", replay, "code-roundtrip")
    ctx.tag("all_codes" if bits <= 8 else "sampled_codes")
    # monotonicity on a sorted random sample spanning beyond the range
    xs = np.sort(np.array([fa.gen_value(rng, "unit") * float(np.max(np.abs([mn, mx])) + 1e-3) for _ in range(24)], dtype=np.float32))
    xs = xs[np.isfinite(xs)]
    qs = fa.cmp_quantize(ctx, drv, xs, p)
    if qs is not None:
        fa.oracle_monotone(ctx, xs, qs, {"fn": "uniform_quantize monotone", "xs": xs.tolist(), "scale": np.asarray(scale).tolist(), "zp": np.asarray(zp).tolist(), "bits": bits, "sym": sym})
        fa.oracle_quantize(ctx, xs, p, qs, {"fn": "uniform_quantize range", "xs": xs.tolist(), "scale": np.asarray(scale).tolist(), "zp": np.asarray(zp).tolist(), "bits": bits, "sym": sym})


def bias_case(ctx, drv, rng):
    n = rng.randint(1, 5)
    inbits = rng.choice([8, 16])
    imn, imx = fa.gen_range(rng)
    r1 = fa.cmp_zp_scale(ctx, drv, np.array([[imn]], np.float32), np.array([[imx]], np.float32), inbits, inbits == 16 or rng.random() < .5)
    per_channel = rng.random() < 0.6
    w = fa.gen_tensor(rng, [n, rng.randint(1, 4)], rng.choice(["unit", "small", "int"]))
    red = (1,) if per_channel else None
    r2 = fa.cmp_zp_scale(ctx, drv, np.min(w, axis=red, keepdims=True), np.max(w, axis=red, keepdims=True), rng.choice([4, 8]), True)
    if r1 is None or r2 is None or not fa.finite(r1[1]) or not fa.finite(r2[1]):
        return
    pin = qtyping.UniformQuantParams(inbits, None, r1[1], r1[0], True)
    pw = qtyping.UniformQuantParams(8, 0 if per_channel else None, r2[1], r2[0], True)
    bias = fa.gen_tensor(rng, [n], rng.choice(["unit", "small", "big", "huge"]))
    r = fa.cmp_bias(ctx, drv, bias, pin, pw)
    ctx.tag("bias64" if inbits == 16 else "bias32", "bias_perchannel" if per_channel else "bias_pertensor")
    if r is not None:
        replay = {"fn": "symmetric_quantize_bias_tensor", "bias": bias.tolist(), "in_scale": np.asarray(r1[1]).tolist(), "w_scale": np.asarray(r2[1]).tolist()}
        if np.any(np.asarray(r.zero_point) != 0):
            ctx.fail("bias zero point is not 0", replay, "bias-zp")
        eff = np.squeeze(np.asarray(r1[1]) * np.asarray(r2[1])).reshape(-1)
        if not np.array_equal(np.asarray(r.scale).reshape(-1), eff):
            ctx.fail("bias scale is not input scale x weight scale", replay, "bias-scale")
        # codes inside the (narrow, symmetric) range of the bias type, equal to round(bias/scale) unless that saturates, monotone
        from fractions import Fraction
        bbits = 64 if inbits == 16 else 32
        bound = 2 ** (bbits - 1) - 1
        qd = [int(v) for v in np.asarray(r.quantized_data).reshape(-1)]
        sc = [Fraction(float(v)) for v in np.broadcast_to(np.asarray(r.scale).reshape(-1), (len(qd),))]
        exact = [Fraction(float(b)) / s_ if s_ != 0 else None for b, s_ in zip(np.asarray(bias).reshape(-1), sc)]
        for k, (q_, e_) in enumerate(zip(qd, exact)):
            if abs(q_) > bound:
                ctx.fail(f"quantized bias {q_} outside the symmetric range of int{bbits}", replay, "bias-range")
                break
            if e_ is None:
                continue
            # float rounding of bias/scale before rint: allow 1 ulp of the working precision (float64 for 32-bit scales product)
            slack = Fraction(1, 2) + abs(e_) * Fraction(1, 2 ** 20)
            sat = abs(e_) >= bound - slack
            if (not sat and abs(q_ - e_) > slack) or (sat and (abs(q_) < bound - abs(e_) * Fraction(1, 2 ** 20) - 1 or (q_ > 0) != (e_ > 0))):
                ctx.fail(f"quantized bias {q_} is not round(bias/scale) = {float(e_):.6g} (saturating at +-{bound})", replay, "bias-value")
                break
        if not per_channel and len(qd) > 1:
            order = np.argsort(np.asarray(bias).reshape(-1), kind="stable")
            qs_sorted = [qd[i] for i in order]
            if any(a > b for a, b in zip(qs_sorted, qs_sorted[1:])):
                ctx.fail("bias quantization is not monotone", replay, "bias-monotone")


def run(ctx):
    ctx.rule = ("cases = calls of the real uniform_quantize_tensor functions on generated inputs (ranges: random/degenerate/one-sided/tiny/huge; "
                "bits 4/8/16; both symmetries; tensors rank 0-4 with every quantized dimension; all integer codes for 4/8 bit), each compared "
                "bit-exactly with the Lean model and checked by the C17 oracle; distinct = distinct canonical inputs")
    ctx.explanation = ("Theorems (QProps/C17.lean) are proved for all rationals / all integer codes over the model; the float32 claims use the "
                       "proved standard-model properties of the model's rounding operator. Correspondence ties the model to the code bit for bit.")
    common.proof_side(ctx, THEOREMS, modules=["QProps.C17", "QProps.C17b", "QProps.C17c", "QProps.C17d"])
    drv = common.Driver()
    rng = ctx.rng
    n_par = 700 if ctx.tier == "quick" else 4000
    n_ten = 350 if ctx.tier == "quick" else 2000
    n_bias = 120 if ctx.tier == "quick" else 600
    combos = [(b, s) for b in (4, 8, 16) for s in (True, False)]
    # corpus first
    for f in sorted((common.CORPUS / "C17").glob("*.json")) if (common.CORPUS / "C17").exists() else []:
        c = json.loads(f.read_text())
        mn, mx = np.array(c["min"], np.float32), np.array(c["max"], np.float32)
        r = fa.cmp_zp_scale(ctx, drv, mn, mx, c["bits"], c["sym"])
        if r is not None:
            fa.oracle_params(ctx, mn, mx, c["bits"], c["sym"], r[0], r[1], c)
            if fa.finite(r[1]):
                codes_case(ctx, drv, rng, c["bits"], c["sym"], mn, mx, r[0], r[1])
    for i in range(n_par):
        if ctx.left() < 20:
            break
        bits, sym = combos[i % len(combos)]
        dtype = np.float64 if rng.random() < 0.1 else np.float32
        shape = None if rng.random() < 0.7 else rng.choice([[3], [2, 1], [2, 1, 1, 1], [1, 1, 1, 3]])
        r = one_param_case(ctx, drv, rng, bits, sym, shape, dtype)
        if r is not None and shape is None and fa.finite(r[3]) and (i % 5 == 0 or ctx.tier == "thorough"):
            codes_case(ctx, drv, rng, bits, sym, *r)
    for i in range(n_ten):
        if ctx.left() < 15:
            break
        bits, sym = combos[i % len(combos)]
        tensor_case(ctx, drv, rng, bits, sym)
    for i in range(n_bias):
        if ctx.left() < 10:
            break
        bias_case(ctx, drv, rng)
    # the BLOCKWISE arithmetic (QModel/Blockwise.lean) against the real functions, bit-exactly
    if ctx.left() > 25:
        from .. import fam_blockwise as fb
        try:
            fb.cmp_blockwise(ctx, 150 if ctx.tier == "quick" else 2500)
        except Exception as e:  # noqa: BLE001
            ctx.disagree("blockwise", {}, f"the family could not run ({type(e).__name__}: {str(e)[:160]})", "runs")
    drv.close()
    return common.finish(ctx)


def replay(ctx, path):
    c = json.loads(open(path).read())
    print(json.dumps(c, indent=1)[:4000])
    return 0
