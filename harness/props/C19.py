"""C19 — each subgraph of a multi-signature model is transformed as if it stood alone."""
import copy
import json

from .. import common
from .. import fam_pipeline as fp
from .. import gen_models as gm
from .. import pipeline as pl

THEOREMS = ["C19.other_subgraphs_untouched", "C19.performer_local", "C19.hcodes_needed",
            # C19c: locality of instruction generation, of the materialisation loop (incl. both passes of the sharing check) and END TO END
            "C19.genInsts_local", "C19.modify_local", "C19.generate_local_full", "C19.generate_local_partial", "C19.generate_local_ok",
            "C19.quantize_local", "C19.quantize_local_full", "C19.quantize_local_noShare", "C19.shared_constant_rejected", "C19.check_not_local"]


def gen(rng, i):
    if i % 4 == 1:
        # one weight tied across two signatures whose readers sit at different operator positions x per-name / shipped / per-op recipes
        case = fp.gen_tied_case(rng, i, nsg=2, extras=(i % 8 == 1))   # mostly the focused form: tied weights only
        r = rng.random()
        if r < 0.8 and "tied_scalars_only" not in case.info["tags"]:
            cfgs = [pl.UNIFORM[k] for k in ("wo8", "wo8a", "wo4", "wo4", "wo4a", "drq8", "drq4", "drq4", "drq4c", "a8w8", "a8w4")] + [pl.FP16]
            cfg = rng.choice(cfgs)
            alg = "float_casting" if cfg is pl.FP16 else "min_max_uniform_quantize"
            op = "FULLY_CONNECTED" if cfg is pl.FP16 else rng.choice(["FULLY_CONNECTED", "*"])
            if r < 0.4:
                # every reader of the tied weight gets the SAME request: the whole model is accepted, each signature must look as it does alone
                regex = ".*"
            else:
                # only ONE signature is quantized (tensor names carry the subgraph prefix): the tied weight is requested by that signature only
                regex = "^" + rng.choice(["s1/", "s1/", "s0/"])
            case.cmds, case.recipe = [{"k": "add", "regex": regex, "operation": op, "cfg": cfg, "alg": alg}], None
            case.desc = [(regex, op, alg, cfg["weight"]["bits"], cfg["cp"])]
            case.info["tags"].add("tied_uniform_request" if regex == ".*" else "tied_one_signature_requested")
        return case
    if i % 8 == 6:
        # more subgraphs than signatures: the last subgraph is not exported by any signature (the body of a control-flow operator, or a
        # plain multi-subgraph file); its statistics come from the same graph calibrated WITH its signature
        from tensorflow.lite.tools import flatbuffer_utils
        full, info = gm.gen_model(rng, n_subgraphs=rng.choice([2, 3]), share=0.0, alias_sig=0.0)
        data_full = gm.random_inputs(full, rng, n=1)
        m = pl.read(full)
        last = len(m.subgraphs) - 1
        dropped = [sd for sd in m.signatureDefs if sd.subgraphIndex == last]
        m.signatureDefs = [sd for sd in m.signatureDefs if sd.subgraphIndex != last]
        mb = bytes(flatbuffer_utils.convert_object_to_bytearray(m))
        key = dropped[0].signatureKey.decode()
        data = {k: v for k, v in data_full.items() if k != key}
        info["tags"].add("subgraph_without_signature")
        name, rec = rng.choice([r for r in pl.shipped_recipes()])
        case = fp.Case(mb, info, recipe=rec, data=data, desc=name + " (last subgraph unsigned)")
        case.unsigned_stats = (full, key, data_full[key])
        return case
    if i % 8 in (2, 5):
        # every operator gets its own mode (none / weight only / dynamic range / static range / float16) by a rule on its own scope:
        # operators are inserted at many positions in every subgraph, in different numbers per subgraph
        import re
        mb, info = gm.gen_model(rng, n_ops=rng.randint(3, 7), n_subgraphs=rng.choice([2, 3]), kinds=gm.WEIGHT_HEAVY, alias_sig=0.0)
        data = gm.random_inputs(mb, rng, n=1)
        cmds = []
        for sc in pl.scopes_of(mb):
            r = rng.random()
            if r < 0.25 or not sc:
                continue
            cfg = rng.choice([pl.UNIFORM["wo8"], pl.UNIFORM["wo4"], pl.UNIFORM["drq8"], pl.UNIFORM["a8w8"], pl.UNIFORM["a16w8"], pl.FP16])
            cmds.append({"k": "add", "regex": "^" + re.escape(sc) + "$", "operation": "FULLY_CONNECTED" if cfg is pl.FP16 else "*", "cfg": cfg,
                         "alg": "float_casting" if cfg is pl.FP16 else "min_max_uniform_quantize"})
        info["tags"].add("per_operator_modes")
        return fp.Case(mb, info, cmds=cmds, data=data, desc=[(c["regex"], c["alg"], c["cfg"]["cp"]) for c in cmds])
    mb, info = gm.gen_model(rng, n_subgraphs=rng.choice([2, 2, 3]), share=0.25 if i % 3 == 0 else 0.0)
    data = gm.random_inputs(mb, rng, n=1)
    if i % 3 == 0:
        name, rec = rng.choice(pl.shipped_recipes())
        return fp.Case(mb, info, recipe=rec, data=data, desc=name)
    cmds = pl.gen_recipe(rng, mb)
    return fp.Case(mb, info, cmds=cmds, data=data, desc=[(c["regex"], c["operation"], c["alg"]) for c in cmds])


def run(ctx):
    ctx.rule = ("generated models with 2-3 subgraphs/signatures (independent graphs, graphs sharing constants, different names) x recipes; "
                "subgraph i of quantize(model) is compared structurally (ops by builtin code and tensor names, dtypes, quantization parameters, "
                "sha256 of constant bytes) with subgraph 0 of quantize(extracted single-subgraph model) using the same recipe and the "
                "statistics restricted to that subgraph; pipeline compared with the Lean model; distinct = distinct (model, recipe)")
    ctx.explanation = ("END TO END on the model (C19.quantize_local_full): whenever quantizePure succeeds on a multi-subgraph model, it succeeds "
                       "on the single-subgraph model extracted around subgraph j (same recipe state, statistics, constants) and subgraph j of the "
                       "result equals the stand-alone result -- tensors (names, dtypes, shapes, buffer indices, quantization parameters), "
                       "operators (resolved codes, wiring), graph I/O and signatures -- up to an injective renaming of parameter ids under which "
                       "the parameter objects are ==-equal; only the shared tables are merged. Built from locality of materialisation "
                       "(generate_local_full, incl. both passes of the buffer-sharing check: compatibility is an equivalence on the requests "
                       "generate can emit for constants), of instruction generation (genInsts_local) and of the performer (performer_local). "
                       "The converse is false and stays so (shared_constant_rejected: each subgraph accepted alone, the tied model refused -- "
                       "the C15 caveat). Buffer CONTENTS are compared by execution (sha256 per constant), not by the theorem.")
    common.proof_side(ctx, THEOREMS, modules=["QProps.C19", "QProps.C19b", "QProps.C19c"])
    drv = common.Driver()

    def per_case(case, res):
        if res["status"] != "ok":
            return
        m = pl.read(case.mb)
        cr = res.get("cr")
        for i in range(len(m.subgraphs)):
            single = fp.extract_subgraph(case.mb, i)
            names = {pl.tname(t) for t in m.subgraphs[i].tensors}
            cri = None if cr is None else {k: copy.deepcopy(v) for k, v in cr.items() if k in names}
            q = fp.quantizer.Quantizer(single, copy.deepcopy(res["q"].get_quantization_recipe()))
            try:
                out1 = bytes(q.quantize(cri).quantized_model)
            except Exception as e:  # noqa: BLE001
                ctx.fail(f"subgraph {i} alone is rejected ({type(e).__name__}) although the multi-subgraph model quantizes", case.replay(), "alone-raises")
                return
            a, b = pl.canon(res["out"], with_version=True)["subgraphs"][i], pl.canon(out1, with_version=True)["subgraphs"][0]
            if json.dumps(a, sort_keys=True) != json.dumps(b, sort_keys=True):
                from ..fam_mat import first_diff
                ctx.fail(f"subgraph {i} is transformed differently inside the multi-subgraph model: {first_diff(a, b)}", case.replay(), "subgraph-differs")
                return
            ctx.tag("subgraph_compared")
    fp.explore(ctx, drv, 420 if ctx.tier == "quick" else 2500, per_case, gen=gen, graph_corr=True, pipe_corr=True)
    # BLOCKWISE weights (emulated sub-channel pattern: the operator is REPLACED and operator codes are added to the shared table; reachable
    # with skip_checks only, outside the Lean model): the same stand-alone comparison, executed
    for j in range(16 if ctx.tier == "quick" else 120):
        if ctx.left() < 15:
            break
        case = fp.gen_blockwise_multi(ctx.rng)
        res = fp.run_case(ctx, drv, case, graph_corr=False)
        ctx.case({"blockwise_multi_subgraph": case.desc}, res["status"] == "ok")
        ctx.tag("blockwise_multi_" + res["status"])
        if res["status"] == "ok":
            wf = pl.wf_violations(res["out"])
            if wf:
                ctx.fail("quantize() returned an ill-formed model: " + wf[0], case.replay(), "wf-blockwise-multi")
                continue
        elif res["status"] == "raise":
            # each subgraph alone must then be refused too, or the refusal is an effect of the other subgraphs
            m = pl.read(case.mb)
            alone_ok = 0
            for i in range(len(m.subgraphs)):
                try:
                    fp.quantizer.Quantizer(fp.extract_subgraph(case.mb, i), copy.deepcopy(res["q"].get_quantization_recipe())).quantize()
                    alone_ok += 1
                except Exception:  # noqa: BLE001
                    pass
            if alone_ok == len(m.subgraphs):
                ctx.fail(f"the multi-subgraph model is refused ({res.get('exc')}) although every subgraph alone quantizes under the same recipe "
                         "(no constant is shared between them)", case.replay(), "refused-only-together")
            continue
        per_case(case, res)
    drv.close()
    return common.finish(ctx)


def replay(ctx, path):
    print(open(path).read()[:3000])
    return 0
