"""C16 — large-model (external buffer) serialization equals the in-place form."""
import copy
import json
import os

import numpy as np
from ai_edge_litert import schema_py_generated as s

from .. import common
from .. import fam_pipeline as fp
from .. import gen_models as gm
from .. import pipeline as pl

THEOREMS = ["C16.layout", "C16.fields_point_to_data",
            "C16b.pairwise_disjoint", "C16b.flatbuffer_prefix", "C16b.no_external", "C16b.output_aligned",
            "C16b.toyFb_lenInvariant"]
ENVVAR = "AI_EDGE_QUANTIZER_VERIF_LARGE_MODEL_THRESHOLD"


def raw_buffers(b):
    m = s.Model.GetRootAs(bytearray(b), 0)
    out = []
    for i in range(m.BuffersLength()):
        buf = m.Buffers(i)
        out.append((int(buf.Offset()), int(buf.Size()), int(buf.DataLength())))
    return out


def with_empty_constant(rng, i):
    """normal-form model with an additional zero-length constant created BEFORE the other constants"""
    case = fp.gen_case(rng, i)
    m = pl.read(case.mb)
    e = s.BufferT()
    e.data = np.zeros([0], dtype=np.uint8)
    pos = 1
    m.buffers.insert(pos, e)
    for sg in m.subgraphs:
        for t in sg.tensors:
            if t.buffer >= pos:
                t.buffer += 1
    t = s.TensorT()
    t.name, t.shape, t.type, t.buffer, t.quantization = b"zero_length_const", [0], s.TensorType.FLOAT32, pos, None
    m.subgraphs[0].tensors.append(t)
    from tensorflow.lite.tools import flatbuffer_utils
    case.mb = bytes(flatbuffer_utils.convert_object_to_bytearray(m))
    case.info["tags"].add("zero_length_constant")
    return case


def with_unread_constants(rng, i):
    """normal-form model with additional constants that no operator reads (a frozen variable kept in the file, constants exported as
    graph outputs): one small one, or two DISTINCT buffers holding identical contents of more than 4 KiB (replicated layers)"""
    case = fp.gen_case(rng, i, const_output=0.5)
    m = pl.read(case.mb)
    r = np.random.RandomState(rng.randrange(2 ** 31))
    if rng.random() < 0.5:
        payloads = [("twin_a", r.randn(rng.choice([1100, 2048])).astype(np.float32))]
        payloads.append(("twin_b", payloads[0][1].copy()))
        case.info["tags"].add("identical_large_constants")
    else:
        payloads = [("kept_const", r.randn(rng.randint(1, 9)).astype(np.float32))]
        case.info["tags"].add("unread_constant")
    for name, arr in payloads:
        b = s.BufferT()
        b.data = np.frombuffer(arr.tobytes(), dtype=np.uint8)
        m.buffers.append(b)
        t = s.TensorT()
        t.name, t.shape, t.type, t.buffer, t.quantization = name.encode(), [int(arr.size)], s.TensorType.FLOAT32, len(m.buffers) - 1, None
        m.subgraphs[0].tensors.append(t)
    from tensorflow.lite.tools import flatbuffer_utils
    case.mb = bytes(flatbuffer_utils.convert_object_to_bytearray(m))
    return case


def with_converter_leftovers(rng, i):
    """normal-form model carrying what converters leave in a file: a buffer with contents that NO tensor references (somewhere in front of
    other non-empty buffers) and metadata entries backed by buffers (`min_runtime_version`, a free-form one)"""
    case = fp.gen_case(rng, i)
    m = pl.read(case.mb)
    r = np.random.RandomState(rng.randrange(2 ** 31))
    if rng.random() < 0.7:
        dead = s.BufferT()
        dead.data = np.frombuffer(r.randn(rng.randint(1, 40)).astype(np.float32).tobytes(), dtype=np.uint8)
        pos = rng.randint(1, max(1, len(m.buffers) - 1))
        m.buffers.insert(pos, dead)
        for sg in m.subgraphs:
            for t in sg.tensors:
                if t.buffer >= pos:
                    t.buffer += 1
        for md in (m.metadata or []):
            if md.buffer >= pos:
                md.buffer += 1
        case.info["tags"].add("unreferenced_buffer")
    if rng.random() < 0.8:
        m.metadata = list(m.metadata or [])
        for name, payload in [(b"min_runtime_version", b"2.17.0" + b"\0" * 10), (b"verif_note", bytes(r.randint(0, 255, size=rng.randint(1, 24)).astype(np.uint8)))][:rng.randint(1, 2)]:
            b = s.BufferT()
            b.data = np.frombuffer(payload, dtype=np.uint8)
            m.buffers.append(b)
            md = s.MetadataT()
            md.name, md.buffer = name, len(m.buffers) - 1
            m.metadata.append(md)
        case.info["tags"].add("metadata_buffers")
    from tensorflow.lite.tools import flatbuffer_utils
    case.mb = bytes(flatbuffer_utils.convert_object_to_bytearray(m))
    return case


def run(ctx):
    ctx.rule = ("quantized models produced from generated models x recipes (plus models carrying a zero-length constant in front of the "
                "others), pushed through the large-model path by lowering its threshold with the verification hook; raw flatbuffer "
                "offset/size fields checked (16-byte aligned, in bounds, non-overlapping, slice == the bytes the ordinary path embeds), all "
                "other fields equal, both serialisations run in the interpreter with identical outputs; offsets compared with the Lean "
                "model; distinct = distinct (model, recipe)")
    ctx.explanation = ("layout theorem: for ANY flatbuffer writer whose output length does not depend on the values of the offset/size fields, "
                       "every external constant is 16-aligned, in bounds, non-overlapping and exactly at its recorded offset. The writer and "
                       "the interpreter are external: field equality and identical outputs are executed, not proved.")
    common.proof_side(ctx, THEOREMS, modules=["QProps.C16", "QProps.C16b"])
    drv = common.Driver()
    interp = pl.Interp()
    try:
        explore_cases(ctx, drv, interp)
    finally:
        interp.close()
        drv.close()
    return common.finish(ctx)


def explore_cases(ctx, drv, interp):
    rng = ctx.rng
    n = 300 if ctx.tier == "quick" else 2000
    os.environ.pop(ENVVAR, None)
    for i in range(n):
        if ctx.left() < 25:
            break
        case = with_empty_constant(rng, i) if i % 4 == 1 else (with_unread_constants(rng, i) if i % 4 == 3 else
                                                                (with_converter_leftovers(rng, i) if i % 4 == 2 else fp.gen_case(rng, i)))
        if i % 5 == 3:
            # the INPUT model already keeps its constants outside the flatbuffer (written by the check's own two-pass writer)
            case.mb = pl.to_external_form(case.mb)
            case.info["tags"].add("input_in_external_form")
        os.environ.pop(ENVVAR, None)
        case.late = None   # this check re-runs quantize() itself; histories on the object are C14's subject
        res = fp.run_case(ctx, drv, case, graph_corr=False)
        fp.count_tags(ctx, case, res)
        ctx.case({"ops": [sg["ops"] for sg in case.info["subgraphs"]], "recipe": case.desc}, res["status"] == "ok")
        if res["status"] != "ok":
            continue
        small = res["out"]
        os.environ[ENVVAR] = "0"
        try:
            large = bytes(res["q"].quantize(copy.deepcopy(res.get("cr"))).quantized_model)
        except Exception as e:  # noqa: BLE001
            ctx.fail(f"large-model path raised {type(e).__name__} where the ordinary path succeeds", case.replay(), "large-raises")
            continue
        finally:
            os.environ.pop(ENVVAR, None)
        if i % 3 == 0 and res.get("params") is not None:
            # the serializer is a method of a reusable object: a second call on the same ModelModifier must produce the same file
            try:
                from ai_edge_quantizer import model_modifier
                mm = model_modifier.ModelModifier(case.mb)
                os.environ[ENVVAR] = "0"
                first = bytes(mm.modify_model(copy.deepcopy(res["params"])))
                second = bytes(mm.modify_model(copy.deepcopy(res["params"])))
                ctx.tag("modifier_reused")
                if first != large:
                    ctx.fail("ModelModifier.modify_model differs from Quantizer.quantize on the large-model path", case.replay(), "modifier-vs-quantizer")
                elif second != first:
                    ctx.fail("a second modify_model call on the same ModelModifier (same parameters, large-model path) returns a different file",
                             case.replay(), "modifier-reuse-differs")
            except (AttributeError, TypeError):
                ctx.tag("modifier_reuse_not_drivable")
            finally:
                os.environ.pop(ENVVAR, None)
        if i % 4 == 2 and case.recipe is None and case.cmds:
            # one Quantizer object, an earlier large-path quantize() under ANOTHER recipe, then the case's recipe again
            try:
                from ai_edge_quantizer import quantizer as qmod
                q2 = qmod.Quantizer(case.mb)
                other = [{"k": "add", "regex": ".*", "operation": "*", "cfg": pl.UNIFORM["wo8"], "alg": "min_max_uniform_quantize"}]
                pl.apply_recipe(q2, other)
                os.environ[ENVVAR] = "0"
                try:
                    q2.quantize()
                except Exception:  # noqa: BLE001
                    pass
                q2.load_quantization_recipe(copy.deepcopy(res["q"].get_quantization_recipe()))
                again = bytes(q2.quantize(copy.deepcopy(res.get("cr"))).quantized_model)
                ctx.tag("quantizer_reused_on_large_path")
                if again != large:
                    ctx.fail("the large-model file depends on an earlier quantize() of the same Quantizer under another recipe",
                             case.replay(), "large-path-history-dependent")
            except ValueError:
                pass
            finally:
                os.environ.pop(ENVVAR, None)
        ms = pl.read(small)
        nonempty = [(i_, bytes(np.asarray(b.data, dtype=np.uint8).tobytes())) for i_, b in enumerate(ms.buffers) if b.data is not None and len(b.data) > 0]
        if not nonempty:
            continue
        ctx.tag("large_path")
        raw = raw_buffers(large)
        replay = case.replay()
        if len(raw) != len(ms.buffers):
            ctx.fail("buffer count differs between the two serialisations", replay, "buffer-count")
            continue
        bad = None
        spans = []
        for bi, data in nonempty:
            off, size, dl = raw[bi]
            if size != len(data):
                bad = f"buffer {bi}: size field {size} but the constant has {len(data)} bytes"
            elif off % 16:
                bad = f"buffer {bi}: offset {off} is not 16-byte aligned"
            elif off + size > len(large):
                bad = f"buffer {bi}: [{off}, {off + size}) exceeds the file length {len(large)}"
            elif large[off:off + size] != data:
                bad = f"buffer {bi}: the bytes at its offset are not the bytes the ordinary path embeds"
            elif dl:
                bad = f"buffer {bi}: data embedded in addition to offset/size"
            if bad:
                break
            spans.append((off, off + size))
        if not bad:
            spans.sort()
            if any(a[1] > b[0] for a, b in zip(spans, spans[1:])):
                bad = "external constants overlap"
        if not bad:
            for bi, (off, size, dl) in enumerate(raw):
                if bi not in dict(nonempty) and (off or size):
                    bad = f"buffer {bi} has no data but offset/size {off}/{size}"
        if bad:
            ctx.fail("large-model serialisation: " + bad, replay, "layout:" + bad.split(":")[-1][:40])
            continue
        # offsets follow the model's layout function
        first = min(o for o, _ in spans)
        m = drv.ask({"op": "ser_offsets", "dummyLen": first, "sizes": [len(d) for _, d in nonempty]})
        want = [[raw[bi][0], raw[bi][1]] for bi, _ in nonempty]
        if m.get("ok") != want:
            ctx.disagree("serialize.offsets", {"first": first, "sizes": [len(d) for _, d in nonempty]}, m.get("ok"), want)
        # all other fields equal (TensorFlow's reader resolves the external buffers)
        if json.dumps(pl.canon(small), sort_keys=True) != json.dumps(pl.canon(large), sort_keys=True):
            ctx.fail("the two serialisations describe different models", replay, "fields-differ")
            continue
        from .. import fam_numeric as fnum
        if any("hybrid-tensorwise" in fnum.op_variant(ms, sg_, op_) for sg_ in ms.subgraphs for op_ in sg_.operators):
            ctx.tag("interp_comparison_skipped_nondeterministic_runtime_D27")   # finding D27: results depend on uninitialised memory
            continue
        d1 = interp.run(small, {k: v[:1] for k, v in case.data.items()})
        d2 = interp.run(large, {k: v[:1] for k, v in case.data.items()})
        ctx.interp_runs += 2
        if d1[0] != "ok" and d2[0] != "ok" and pl.interp_err_class(d1) == pl.interp_err_class(d2):
            ctx.tag("both_serialisations_refused_alike")   # whether the runtime accepts the model at all is C01's subject
            continue
        same = d1[0] == d2[0] == "ok" and all(np.array_equal(a[k], b[k], equal_nan=True) for sig in d1[1] for a, b in zip(d1[1][sig], d2[1][sig]) for k in a)
        if not same:
            ctx.fail(f"interpreter results differ between the two serialisations ({d1[0]}/{d2[0]})", replay, "interp-differs")


def replay(ctx, path):
    print(open(path).read()[:3000])
    return 0
