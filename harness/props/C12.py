"""C12 — a saved recipe reloads to the same rules and reproduces the same model."""
import copy
import glob
import hashlib
import inspect
import json
import os

import numpy as np

from .. import common
from .. import fam_recipe as fr
from ai_edge_quantizer import quantizer, recipe
from ai_edge_quantizer.utils import test_utils

THEOREMS = ["C12.tcfg_roundtrip", "C12.cfg_roundtrip", "C12.d19_witness", "C12.rule_reload",
            "C12.shipped_load", "C12.defaults_fixpoint", "C12.reload_reachable"]

MODELS = ["single_fc_bias.tflite", "conv_fc_mnist.tflite", "single_add.tflite", "two_signatures.tflite", "embedding_lookup.tflite"]


def model(name):
    return open(common.REPO / "ai_edge_quantizer/tests/models" / name, "rb").read()


def quantize_bytes(mb, rec, seed=0):
    q = quantizer.Quantizer(mb, copy.deepcopy(rec))
    cr = None
    if q.need_calibration:
        np.random.seed(seed)
        data = test_utils.create_random_normal_input_data(mb, num_samples=2)
        cr = {}
        for sig, d in data.items():
            cr = q.calibrate(d, signature_key=sig, previous_calibration_result=cr or None)
    return bytes(q.quantize(cr).quantized_model)


def scribble(obj):
    """what a caller may do to an object the API handed out: edit it in place at every nesting level"""
    if isinstance(obj, dict):
        for k in list(obj):
            v = obj[k]
            if isinstance(v, (dict, list)):
                scribble(v)
            elif isinstance(v, bool):
                obj[k] = not v
            elif isinstance(v, int):
                obj[k] = 4 if v != 4 else 8
            elif isinstance(v, str):
                obj[k] = v + "_edited"
        obj["edited_by_caller"] = 1
    elif isinstance(obj, list):
        for v in obj:
            scribble(v)
        obj.append({"edited_by_caller": 1})


def reload_oracle(ctx, cmds, with_model=None):
    """the property on the real code: get -> json -> fresh Quantizer -> equal recipe, equal resolution (and equal bytes)."""
    real = fr.RealRecipe()
    for k, c in enumerate(cmds):
        real.step(c)
        if k % 2:
            scribble(real.q.get_quantization_recipe())  # an export in the middle of the history, edited in place by its receiver
    first = real.q.get_quantization_recipe()
    snapshot = copy.deepcopy(first)
    scribble(first)                                      # the exported object belongs to the caller
    rec = real.q.get_quantization_recipe()
    if json.dumps(fr.plain(rec), sort_keys=True, default=str) != json.dumps(fr.plain(snapshot), sort_keys=True, default=str):
        ctx.fail("editing an exported recipe in place changed what the next export returns (exports share nested objects)",
                 {"adds": cmds}, "export-aliased")
        return
    # the export must describe the rules that resolution actually uses: a fresh quantizer replaying the updates agrees
    fresh = fr.RealRecipe()
    for c in cmds:
        fresh.step(c)
    if json.loads(json.dumps(fresh.q.get_quantization_recipe())) != json.loads(json.dumps(rec)):
        ctx.fail("exported recipe depends on earlier exports (stale export)", {"adds": cmds}, "export-stale")
        return
    rec_json = json.loads(json.dumps(rec))
    replay = {"adds": cmds, "recipe": rec_json}
    try:
        q2 = quantizer.Quantizer(fr.model_bytes(), copy.deepcopy(rec_json))
    except Exception as e:  # noqa: BLE001
        ctx.fail(f"reloading the exported recipe raised {type(e).__name__}", replay, "reload-raised-" + type(e).__name__)
        return
    rec2 = json.loads(json.dumps(q2.get_quantization_recipe()))
    if rec2 != rec_json:
        ctx.fail("reloaded recipe is not equal to the exported one", replay, "reload-not-equal")
        return
    for qy in fr.queries():
        a1, c1 = real.q._recipe_manager.get_quantization_configs(qy["opname"], qy["scope"])
        a2, c2 = q2._recipe_manager.get_quantization_configs(qy["opname"], qy["scope"])
        if str(getattr(a1, "value", a1)) != str(getattr(a2, "value", a2)) or c1 != c2:
            ctx.fail("reloaded recipe resolves differently", {**replay, "query": qy}, "reload-resolves-differently")
            return
    if with_model is not None and rec_json:
        mb = model(with_model)
        try:
            b1 = quantize_bytes(mb, rec)
        except Exception as e:  # noqa: BLE001  (rejections are C01/C08 business; only equality matters here)
            b1 = "raise:" + type(e).__name__
        try:
            b2 = quantize_bytes(mb, rec_json)
        except Exception as e:  # noqa: BLE001
            b2 = "raise:" + type(e).__name__
        ctx.tag("bytes_compared")
        if b1 != b2:
            ctx.fail("quantize() output differs between the original and the reloaded recipe", {**replay, "model": with_model}, "reload-bytes-differ")


def run(ctx):
    ctx.rule = ("recipes reachable by histories of update calls (all algorithms incl. no_quantize and float casting, skip_checks, enum- or "
                "string-valued fields, default config) -> get -> JSON -> fresh Quantizer; compared with the Lean model step by step (incl. the "
                "load step) and checked on the real code for equal recipe, equal resolution at 55 queries and byte-identical quantize() output on "
                "repo models; plus every shipped recipe file/helper; distinct = distinct histories/configs")
    ctx.explanation = ("cfg_roundtrip: every constructible config survives to_dict->from_dict (all field values); rule_reload: every exported rule "
                       "reloads as the same add call; shipped_load/defaults_fixpoint: kernel-evaluated over the regenerated recipe table. "
                       "The full-state reload theorem (induction over scopes) is not proved yet; state-level reload is covered by correspondence+oracle.")
    common.proof_side(ctx, THEOREMS, modules=["QProps.C12", "QProps.C11b"])
    drv = common.Driver()
    rng = ctx.rng
    # config round trip: whole lattice + alphabet, model vs code
    descs = [d for _, d in fr.CFG_ALPHABET] + list(fr.lattice())
    reqs = [{"op": "cfg_roundtrip", "cfg": d, "requireWeight": False} for d in descs]
    ms = drv.ask_many(reqs)
    for d, m, rq in zip(descs, ms, reqs):
        ctx.case({"cfg": d}, True)
        try:
            cfg = fr.mk_cfg(d, use_enum=rng.random() < 0.5)
        except ValueError:
            if m.get("err") != "ValueError":
                ctx.disagree("config.roundtrip", rq, m, "ctor ValueError")
            continue
        dd = fr.plain(cfg.to_dict())
        try:
            back = type(cfg).from_dict(json.loads(json.dumps(dd)))
            same = back == cfg
        except Exception as e:  # noqa: BLE001
            same = type(e).__name__
        if same is not True:
            ctx.fail("config does not survive to_dict -> JSON -> from_dict", {"cfg": d, "got": str(same)}, "cfg-roundtrip")
        if "ok" not in m or json.dumps(fr.dec_obj(m["ok"]["dict"])) != json.dumps(dd) or m["ok"]["back"] is not True:
            ctx.disagree("config.roundtrip", rq, m, dd)
    # malformed dicts: same exception class
    bad = [
        {"compute_precision": "FLOAT"},
        {"weight_tensor_config": {"num_bits": 8, "channel_wise": True}},
        {"weight_tensor_config": {"symmetric": True}},
        {"weight_tensor_config": {"num_bits": 8}, "foo": 1},
        {"weight_tensor_config": {"num_bits": 8, "dtype": "FLOAT"}, "activation_tensor_config": {"num_bits": 8}, "compute_precision": "INTEGER"},
        {"weight_tensor_config": {"num_bits": 8}, "activation_tensor_config": {"num_bits": 8}},
        {"activation_tensor_config": {"num_bits": 8}, "compute_precision": "INTEGER"},
    ]
    from ai_edge_quantizer import qtyping
    for b in bad:
        rq = {"op": "from_dict", "dict": fr.enc_obj(b), "requireWeight": False}
        m = drv.ask(rq)
        try:
            r = fr.plain(qtyping.OpQuantizationConfig.from_dict(copy.deepcopy(b)).to_dict())
            okr = ("ok", r)
        except Exception as e:  # noqa: BLE001
            okr = ("err", type(e).__name__)
        ctx.case({"from_dict": b}, True)
        ctx.errkinds[okr[1] if okr[0] == "err" else "ok"] = ctx.errkinds.get(okr[1] if okr[0] == "err" else "ok", 0) + 1
        if okr[0] == "err":
            if m.get("err") != okr[1]:
                ctx.disagree("config.from_dict", rq, m, okr[1])
        elif "ok" not in m or json.dumps(fr.dec_obj(m["ok"])) != json.dumps(okr[1]):
            ctx.disagree("config.from_dict", rq, m, okr[1])
    # every config of the alphabet as ONE '*' rule (validated lazily, at resolution) under either algorithm -- including configs the
    # algorithm refuses for every operator (float weights under min/max, integer weights under float casting): original and reloaded recipe
    # resolve alike and quantize to the same bytes; a refusal is a refusal on both sides
    k_dir = 0
    for name, cfg in fr.CFG_ALPHABET:
        if name.startswith("ctor"):
            continue
        for alg in ("min_max_uniform_quantize", "float_casting"):
            if ctx.left() < 40:
                break
            adds = [{"k": "add", "regex": ".*", "operation": "*", "cfg": cfg, "alg": alg, "use_enum": bool(k_dir % 2)}]
            try:
                reload_oracle(ctx, adds, with_model=MODELS[k_dir % len(MODELS)] if (ctx.tier != "quick" or k_dir % 3 == 0) else None)
            except Exception as e:  # noqa: BLE001
                ctx.fail(f"a '*' rule ({name}, {alg}) that went through export and reload makes resolution raise {type(e).__name__}: {str(e)[:120]} "
                         "(the original object resolves it)", {"adds": adds}, "reload-resolution-raises")
            ctx.case({"star_rule": (name, alg)}, True)
            ctx.tag("directed_star_rule")
            k_dir += 1
    # histories -> get -> load (model vs code, step by step) + reload oracle
    n = 300 if ctx.tier == "quick" else 2500
    n_bytes = 30 if ctx.tier == "quick" else 200
    for i in range(n):
        if ctx.left() < 25:
            break
        adds = [fr.gen_add(rng) for _ in range(rng.randint(1, 6))]
        if i % 3 == 1:
            # the same (regex, specific operator) is updated again under other settings: the later rule REPLACES the earlier one, for
            # resolution as for the export
            base = rng.choice(adds)
            again = dict(fr.gen_add(rng), regex=base["regex"], operation=base["operation"] if base["operation"] != "*" else "FULLY_CONNECTED")
            first = dict(base, operation=again["operation"])
            adds = adds + [first, again] if rng.random() < 0.5 else [first] + adds + [again]
        real = fr.RealRecipe()
        for c in adds:
            real.step(c)
            if i % 2 and rng.random() < 0.5:
                real.step(rng.choice([{"k": "get"}, {"k": "need_cal"}]))  # exports between updates must not matter
        rec_json = json.loads(json.dumps(real.q.get_quantization_recipe()))
        cmds = adds + [{"k": "get"}, {"k": "load", "recipe_plain": rec_json}, {"k": "get"}, {"k": "need_cal"}] + fr.queries()[:12]
        fr.run_history(ctx, drv, cmds, family="recipe.reload")
        ctx.case({"adds": [(x["regex"], x["operation"], x["alg"]) for x in adds]}, True)
        reload_oracle(ctx, adds, with_model=MODELS[i % len(MODELS)] if i < n_bytes else None)
        if any(a["alg"] == "no_quantize" and a["cfg"] is not None for a in adds):
            ctx.tag("no_quantize_with_config")
        if any(a["cfg"] is None for a in adds):
            ctx.tag("default_config")
        if any(a["alg"] == "float_casting" for a in adds):
            ctx.tag("float_casting")
    # shipped recipes on the real code
    rdir = os.path.join(os.path.dirname(recipe.__file__), "recipes")
    shipped = [(os.path.basename(f), json.load(open(f))) for f in sorted(glob.glob(os.path.join(rdir, "*.json")))]
    shipped += [(name, fn()) for name, fn in inspect.getmembers(recipe, inspect.isfunction) if fn.__module__ == recipe.__name__ and not name.startswith("_")]
    for name, rec in shipped:
        ctx.case({"shipped": name}, True)
        try:
            q = quantizer.Quantizer(fr.model_bytes(), copy.deepcopy(rec))
        except Exception as e:  # noqa: BLE001
            ctx.fail(f"shipped recipe {name} does not load: {type(e).__name__}", {"recipe": name}, "shipped-load-" + name)
            continue
        if not name.startswith("sample"):
            out = json.loads(json.dumps(q.get_quantization_recipe()))
            if out != rec:
                ctx.fail(f"default recipe {name} does not re-export to itself", {"recipe": name, "got": out}, "shipped-fixpoint-" + name)
        m = drv.ask({"op": "recipe_run", "cmds": [{"k": "load", "recipe": fr.enc_obj(rec)}, {"k": "get"}], "rx": [], "requireWeight": False})
        mo = [fr.dec_obj(x) for x in m.get("ok", [])]
        if mo[:1] != ["ok"] or json.dumps(mo[1]) != json.dumps(fr.plain(q.get_quantization_recipe())):
            ctx.disagree("recipe.shipped", {"recipe": name}, mo, fr.plain(q.get_quantization_recipe()))
        ctx.tag("shipped")
    # "quantizes the same model with the same calibration result to byte-identical output", on GENERATED models: fan-out tensors whose
    # consumers get different modes by rules on their own scopes (several operators inserted after one tensor, suffixed names), multi-
    # subgraph models, tied constants.  One calibration result is handed to both objects.
    from .. import fam_pipeline as fp
    from .. import pipeline as pl
    n_gen = 0
    for i in range(40 if ctx.tier == "quick" else 400):
        if ctx.left() < 20:
            break
        case = fp.gen_per_op_modes_case(rng) if i % 2 == 0 else fp.gen_case(rng, i)
        try:
            q1 = quantizer.Quantizer(case.mb, copy.deepcopy(case.recipe) if case.recipe is not None else None)
            if case.cmds:
                pl.apply_recipe(q1, case.cmds)
            rec_json = json.loads(json.dumps(q1.get_quantization_recipe()))
            if not rec_json:
                continue
            cr = pl.calibrate_all(q1, case.data) if q1.need_calibration else None
            b1 = bytes(q1.quantize(copy.deepcopy(cr)).quantized_model)
        except Exception:  # noqa: BLE001  (rejections are C01/C08 business; only equality matters here)
            ctx.tag("generated_bytes_rejected")
            continue
        try:
            q2 = quantizer.Quantizer(case.mb, copy.deepcopy(rec_json))
            b2 = bytes(q2.quantize(copy.deepcopy(cr)).quantized_model)
        except Exception as e:  # noqa: BLE001
            b2 = "raise:" + type(e).__name__
        n_gen += 1
        ctx.case({"generated_model_bytes": case.desc if isinstance(case.desc, str) else len(case.cmds or [])}, True)
        ctx.tag("generated_bytes_compared")
        names = [pl.tname(t) for sg in pl.read(b1).subgraphs for t in sg.tensors]
        if any(n.endswith(("_quantized_1", "_dequant_1", "_requant_1")) or "_1" == n[-2:] for n in names):
            ctx.tag("generated_bytes_suffixed_names")
        if b1 != b2:
            what = b2 if isinstance(b2, str) else "different bytes"
            ctx.fail(f"quantize() output differs between the original and the reloaded recipe on a generated model ({what})",
                     {**case.replay(), "recipe": rec_json}, "reload-bytes-differ")
    ctx.extra["generated_models_bytes_compared"] = n_gen
    drv.close()
    return common.finish(ctx)


def replay(ctx, path):
    print(open(path).read()[:4000])
    return 0
