"""C14 — quantize/calibrate are pure: no input mutation, no history dependence."""
import base64
import copy
import hashlib
import json
import os
import pickle
import subprocess
import sys
import tempfile

import numpy as np

from .. import common
from .. import fam_calib as fc
from .. import fam_mat as fmat
from .. import fam_pipeline as fp
from .. import fam_recipe as fr
from .. import gen_models as gm
from .. import pipeline as pl

from ai_edge_quantizer import quantizer

THEOREMS = ["C14.caller_qsv_unchanged", "C14.quantize_depends_on_exported_recipe_only", "C14.calibrate_depends_on_exported_recipe_only",
            "C14.quantize_after_sessions_depends_on_samples_only"]

CHILD = r"""
import sys, pickle, hashlib, copy, warnings
warnings.filterwarnings("ignore")
sys.path.insert(0, sys.argv[2])
from ai_edge_quantizer import quantizer
mb, rec, cr = pickle.load(open(sys.argv[1], "rb"))
q = quantizer.Quantizer(mb, rec)
try:
    print("OK", hashlib.sha256(bytes(q.quantize(cr).quantized_model)).hexdigest())
except Exception as e:
    print("RAISE", type(e).__name__)
"""


def snap(x):
    return pickle.dumps(x, protocol=4)


def same_data(a, b):
    """deep equality of calibration data / results (numpy aware)"""
    if type(a) != type(b):
        return False
    if isinstance(a, dict):
        return a.keys() == b.keys() and all(same_data(a[k], b[k]) for k in a)
    if isinstance(a, (list, tuple)):
        return len(a) == len(b) and all(same_data(x, y) for x, y in zip(a, b))
    if isinstance(a, np.ndarray):
        return a.dtype == b.dtype and a.shape == b.shape and np.array_equal(a, b, equal_nan=True)
    return a == b


def other_models_in_this_process(rng):
    """quantizes 1-2 small unrelated models whose data path is INTEGER (int32 tensors through shape-changing operators and MEAN) with a
    shipped static-range recipe; results and errors are ignored"""
    from ai_edge_litert import schema_py_generated as s
    for _ in range(rng.randint(1, 2)):
        g = gm.G()
        g.subgraph()
        kind = rng.choice(["TRANSPOSE", "RESHAPE", "MEAN", "STRIDED_SLICE", "SPLIT"])
        x = g.tensor("ix", [2, 4], gm.TT.INT32)
        f = g.tensor("fx", [2, 4])
        fo = g.tensor("fy", [2, 4])
        g.op(gm.BO.TANH, [f], [fo])
        if kind == "TRANSPOSE":
            perm = g.tensor("perm", [2], gm.TT.INT32, data=np.array([1, 0], dtype=np.int32))
            y = g.tensor("iy", [4, 2], gm.TT.INT32)
            g.op(gm.BO.TRANSPOSE, [x, perm], [y], gm.OPT.TransposeOptions, s.TransposeOptionsT())
        elif kind == "RESHAPE":
            sh = g.tensor("shape", [2], gm.TT.INT32, data=np.array([4, 2], dtype=np.int32))
            y = g.tensor("iy", [4, 2], gm.TT.INT32)
            ro = s.ReshapeOptionsT()
            ro.newShape = [4, 2]
            g.op(gm.BO.RESHAPE, [x, sh], [y], gm.OPT.ReshapeOptions, ro)
        elif kind == "MEAN":
            ax = g.tensor("axis", [1], gm.TT.INT32, data=np.array([1], dtype=np.int32))
            y = g.tensor("iy", [2], gm.TT.INT32)
            mo = s.ReducerOptionsT()
            mo.keepDims = False
            g.op(gm.BO.MEAN, [x, ax], [y], gm.OPT.ReducerOptions, mo)
        elif kind == "STRIDED_SLICE":
            b = g.tensor("begin", [2], gm.TT.INT32, data=np.array([0, 0], dtype=np.int32))
            e = g.tensor("end", [2], gm.TT.INT32, data=np.array([2, 2], dtype=np.int32))
            st = g.tensor("strides", [2], gm.TT.INT32, data=np.array([1, 1], dtype=np.int32))
            y = g.tensor("iy", [2, 2], gm.TT.INT32)
            g.op(gm.BO.STRIDED_SLICE, [x, b, e, st], [y], gm.OPT.StridedSliceOptions, s.StridedSliceOptionsT())
        else:
            ax = g.tensor("axis", [], gm.TT.INT32, data=np.array(1, dtype=np.int32))
            y = g.tensor("iy", [2, 2], gm.TT.INT32)
            y2 = g.tensor("iy2", [2, 2], gm.TT.INT32)
            so = s.SplitOptionsT()
            so.numSplits = 2
            g.op(gm.BO.SPLIT, [ax, x], [y, y2], gm.OPT.SplitOptions, so)
        g.io([x, f], [y, fo], sig="serving_default")
        try:
            mbi = g.bytes()
            qi = quantizer.Quantizer(mbi, copy.deepcopy(pl.shipped_recipes()[1][1]))
            smp = [{"in0": np.arange(8, dtype=np.int32).reshape(2, 4), "in1": np.linspace(-1, 1, 8, dtype=np.float32).reshape(2, 4)}]
            cr = qi.calibrate(smp) if qi.need_calibration else None
            qi.quantize(cr)
        except Exception:  # noqa: BLE001
            pass


def fresh_hash(mb, rec, cr):
    try:
        q = quantizer.Quantizer(mb, copy.deepcopy(rec))
    except ValueError:
        # a rule accepted under the policy in force when it was added may be refused by the policy in force now (load_config_policy is
        # process-global by design): no fresh object can hold this recipe, nothing to compare
        return None
    except Exception as e:  # noqa: BLE001  (an exported recipe that cannot even be parsed back is itself a difference)
        return "RAISE-ON-LOAD " + type(e).__name__
    try:
        return "OK " + hashlib.sha256(bytes(q.quantize(copy.deepcopy(cr)).quantized_model)).hexdigest()
    except Exception as e:  # noqa: BLE001
        return "RAISE " + type(e).__name__


def subprocess_hash(mb, rec, cr, hashseed, large=False):
    with tempfile.NamedTemporaryFile(suffix=".pkl", delete=False) as f:
        pickle.dump((mb, rec, cr), f)
        path = f.name
    try:
        env = dict(os.environ, PYTHONHASHSEED=str(hashseed), TF_CPP_MIN_LOG_LEVEL="3")
        env.pop(ENVVAR, None)
        if large:
            env[ENVVAR] = "0"
        out = subprocess.run(["/venv/bin/python", "-c", CHILD, path, str(common.REPO)], capture_output=True, text=True, env=env, timeout=300)
        lines = [l for l in out.stdout.splitlines() if l.startswith(("OK", "RAISE"))]
        return lines[-1] if lines else "CHILD-FAILED " + out.stderr[-200:]
    finally:
        os.unlink(path)


ENVVAR = "AI_EDGE_QUANTIZER_VERIF_LARGE_MODEL_THRESHOLD"
_DEFAULT_POLICY_FILE = [None]


def policy_file(which):
    """path of a policy JSON: the shipped example policy, or the default policy written to a scratch file (the public API loads
    policies from files only)"""
    from ai_edge_quantizer import default_policy, quantizer as qm
    if which == "example":
        return os.path.join(os.path.dirname(qm.__file__), "policies", "example_config_policy.json")
    if _DEFAULT_POLICY_FILE[0] is None:
        f = tempfile.NamedTemporaryFile("w", suffix=".json", delete=False)
        f.write(default_policy.DEFAULT_JSON_POLICY)
        f.close()
        _DEFAULT_POLICY_FILE[0] = f.name
    return _DEFAULT_POLICY_FILE[0]


def retrained(mb):
    """the same architecture with other weights (what re-exporting after fine-tuning gives): same file length, or None"""
    from tensorflow.lite.tools import flatbuffer_utils
    a = pl.read(mb)
    b = pl.read(mb)
    changed = False
    for sg in b.subgraphs:
        for t in sg.tensors:
            buf = b.buffers[t.buffer]
            if buf.data is not None and t.type == 0 and len(buf.data) >= 4:   # FLOAT32 constants
                arr = np.frombuffer(np.asarray(buf.data, dtype=np.uint8).tobytes(), dtype="<f4").copy()
                arr = (arr * np.float32(-0.75) + np.float32(0.125)).astype("<f4")
                buf.data = np.frombuffer(arr.tobytes(), dtype=np.uint8)
                changed = True
    if not changed:
        return None
    fa_, fb_ = bytes(flatbuffer_utils.convert_object_to_bytearray(a)), bytes(flatbuffer_utils.convert_object_to_bytearray(b))
    return (fa_, fb_) if len(fa_) == len(fb_) and fa_ != fb_ else None


def path_case(ctx, rng, i):
    """models given as a PATH: the file is replaced by a re-export of the same architecture (same length) between two Quantizer objects;
    each object must quantize what the file held when it was created"""
    case = fp.gen_case(rng, i, n_samples=1)
    pair = retrained(case.mb)
    if pair is None:
        return
    name, rec = rng.choice(pl.shipped_recipes())
    d = tempfile.mkdtemp(prefix="c14_")
    path = os.path.join(d, "model.tflite")
    outs = []
    try:
        for content in (pair[0], pair[1], pair[0]):
            with open(path, "wb") as f:
                f.write(content)
            try:
                q = quantizer.Quantizer(path, copy.deepcopy(rec))
                cr = None
                if q.need_calibration:
                    for sig, samples in case.data.items():
                        cr = q.calibrate(samples, signature_key=sig, previous_calibration_result=cr)
                got = "OK " + hashlib.sha256(bytes(q.quantize(cr).quantized_model)).hexdigest()
            except Exception as e:  # noqa: BLE001
                got, cr = "RAISE " + type(e).__name__, None
            # reference: a fresh object given the same content as bytes (and its own calibration on the same data)
            try:
                q2 = quantizer.Quantizer(bytearray(content), copy.deepcopy(rec))
                cr2 = None
                if q2.need_calibration:
                    for sig, samples in case.data.items():
                        cr2 = q2.calibrate(samples, signature_key=sig, previous_calibration_result=cr2)
                want = "OK " + hashlib.sha256(bytes(q2.quantize(cr2).quantized_model)).hexdigest()
            except Exception as e:  # noqa: BLE001
                want = "RAISE " + type(e).__name__
            outs.append((got, want))
            ctx.tag("path_model_compared")
            if got != want:
                ctx.fail(f"Quantizer(path) quantized something else than the file content at construction time ({got[:20]} vs {want[:20]}): "
                         "the result depends on earlier Quantizer objects reading the same path",
                         {**case.replay(), "recipe": name, "history": ["write A, quantize", "write B (same length), quantize", "write A, quantize"]}, "path-content-stale")
                return
    finally:
        import shutil
        shutil.rmtree(d, ignore_errors=True)
    ctx.case({"ops": [sg["ops"] for sg in case.info["subgraphs"]], "history": "path-rewrite", "recipe": name}, True)


def scribble(obj):
    """what a caller may do to an object the API handed out: edit it in place at every nesting level"""
    if isinstance(obj, dict):
        for k in list(obj):
            v = obj[k]
            if isinstance(v, (dict, list)):
                scribble(v)
            elif isinstance(v, bool):
                obj[k] = not v
            elif isinstance(v, int):
                obj[k] = 4 if v != 4 else 8
            elif isinstance(v, str):
                obj[k] = v + "_edited"
        obj["edited_by_caller"] = 1
    elif isinstance(obj, list):
        for v in obj:
            scribble(v)
        obj.append({"edited_by_caller": 1})


def history_case(ctx, drv, rng, i, n_sub):
    try:
        if i % 10 == 7:
            return path_case(ctx, rng, i)
        return _history_case(ctx, drv, rng, i, n_sub)
    finally:
        fp.restore_policy({"policy": True})   # load_config_policy is process-global


def _history_case(ctx, drv, rng, i, n_sub):
    # every fifth history runs on a fan-out model (one tensor feeding consumers with different parameters: several inserted operators on
    # one tensor, so their derived names collide and get numbered) under that model's own per-consumer rules
    case = fp.gen_fanout_case(rng, 2) if i % 5 == 4 else fp.gen_case(rng, i, n_samples=2)
    case.late = None
    mb = case.mb
    mb_before = bytes(mb)
    qs = [quantizer.Quantizer(mb), quantizer.Quantizer(mb)]
    shared_cr = None
    replay = case.replay()
    log = []

    def fail(msg, key):
        ctx.fail(msg, {**replay, "history": log}, key)
    recipes = [pl.gen_recipe(rng, mb) for _ in range(3)] + [None]
    if i % 5 == 4 and case.cmds:
        recipes[0] = recipes[1] = [c for c in case.cmds if c.get("k") == "add"]
    last = None
    last_result = [None, None]
    # scripted prefixes that need a specific order to manifest, followed by random steps
    names = [n for sc in pl.scopes_of(mb) for n in sc.split(";") if n]
    script = []
    if i % 4 == 0:
        script = ["load", "calibrate", "quantize", "calibrate", "quantize"]          # same recipe, new statistics
    elif i % 4 == 1:
        script = ["load", "calibrate", "quantize", "exclude", "quantize"]            # '*' rule under a new regex after a lookup
    elif i % 4 == 2:
        # another config-check policy is in force while the object resolves rules, then the default one comes back
        script = ["load", "policy_example", "calibrate", "policy_default", "calibrate", "quantize"]
    if i % 5 == 4 and case.cmds:
        script = ["recipe_own", "calibrate", "quantize", "quantize"]    # the model's own per-consumer rules, two results from one object
    steps = script + [None] * rng.randint(2, 6)
    for forced in steps:
        k = 0 if forced else rng.choice([0, 0, 1])
        q = qs[k]
        act = forced or rng.choice(["recipe", "load", "load_short", "calibrate", "quantize", "quantize", "validate", "policy_example", "policy_default", "edit_export"])
        if act == "edit_export":
            # objects handed out by the API belong to the caller: editing them in place must not reach the Quantizer
            scribble(q.get_quantization_recipe())
            if last_result[k] is not None:
                scribble(last_result[k].recipe)
            log.append((k, act))
            ctx.tag(act)
            continue
        if act in ("policy_example", "policy_default"):
            q.load_config_policy(policy_file(act.split("_")[1]))
            log.append((k, act))
            ctx.tag(act)
            continue
        if act == "exclude":
            import re as _re
            try:
                q.update_quantization_recipe(_re.escape(rng.choice(names)), "*", None, "no_quantize")
            except ValueError:
                pass
            log.append((k, "exclude"))
            continue
        log.append((k, act))
        try:
            if act == "recipe_own":
                pl.apply_recipe(q, recipes[0])
            elif act == "recipe":
                pl.apply_recipe(q, rng.choice(recipes[:3]))
            elif act == "load":
                name, rec = rng.choice(pl.shipped_recipes())
                rec_in = copy.deepcopy(rec)
                q.load_quantization_recipe(rec_in)
                if rec_in != rec:
                    return fail("load_quantization_recipe modified the recipe passed in", "recipe-mutated")
            elif act == "load_short":
                # the short form of a rule (no op_config for no_quantize) is legal input; whatever is passed in must come back unchanged,
                # through load_quantization_recipe and through the constructor
                rec = [{"regex": ".*", "operation": "*", "algorithm_key": "min_max_uniform_quantize",
                        "op_config": {"weight_tensor_config": {"num_bits": 8, "symmetric": True, "granularity": "CHANNELWISE", "dtype": "INT", "block_size": 0},
                                      "compute_precision": "INTEGER", "explicit_dequantize": False, "skip_checks": False}},
                       {"regex": rng.choice(names) if names else "x", "operation": "*", "algorithm_key": "no_quantize"}]
                rec_in = copy.deepcopy(rec)
                q.load_quantization_recipe(rec_in)
                if rec_in != rec:
                    return fail("load_quantization_recipe modified the recipe passed in", "recipe-mutated")
                rec_in2 = copy.deepcopy(rec)
                quantizer.Quantizer(mb, rec_in2)
                if rec_in2 != rec:
                    return fail("Quantizer(model, recipe) modified the recipe passed in", "recipe-mutated-ctor")
                ctx.tag("load_short")
            elif act == "calibrate":
                if not q.need_calibration:
                    continue
                fresh_data = gm.random_inputs(mb, rng, n=rng.randint(1, 2))   # new data every session
                sessions = list(fresh_data.items())
                if len(sessions) > 1 and rng.random() < 0.35:
                    # only SOME signatures are calibrated in this session: the result keeps empty placeholders for the others, and it is
                    # the caller's object all the same (quantize() may refuse it; it may not edit it)
                    sessions = sessions[:rng.randint(1, len(sessions) - 1)]
                    ctx.tag("partial_calibration_session")
                for sig, samples in sessions:
                    d0, p0 = snap(samples), (None if shared_cr is None else snap(shared_cr))
                    prev = shared_cr
                    new = q.calibrate(samples, signature_key=sig, previous_calibration_result=prev)
                    if snap(samples) != d0:
                        return fail("calibrate() modified the calibration data", "calib-data-mutated")
                    if prev is not None and snap(prev) != p0:
                        return fail("calibrate() modified the previous calibration result", "previous-mutated")
                    shared_cr = new
            elif act == "quantize":
                if not q.get_quantization_recipe():
                    continue
                rec_now = copy.deepcopy(q.get_quantization_recipe())
                cr_in = shared_cr
                c0 = None if cr_in is None else snap(cr_in)
                large = rng.random() < (0.65 if i % 3 == 2 else 0.3)    # the large-model serialisation path (threshold lowered by the hook) is a path like any other
                if large:
                    os.environ[ENVVAR] = "0"
                    ctx.tag("large_path")
                try:
                    try:
                        last_result[k] = q.quantize(cr_in)
                        out = "OK " + hashlib.sha256(bytes(last_result[k].quantized_model)).hexdigest()
                    except Exception as e:  # noqa: BLE001
                        out = "RAISE " + type(e).__name__
                    if cr_in is not None and snap(cr_in) != c0:
                        return fail("quantize() modified the calibration result passed in", "cr-mutated")
                    want = fresh_hash(mb, rec_now, cr_in)
                finally:
                    os.environ.pop(ENVVAR, None)
                if want is None:
                    ctx.tag("fresh_object_refuses_recipe_under_current_policy")
                    continue
                ctx.tag("quantize_compared_with_fresh")
                if out != want:
                    return fail(f"quantize() output depends on the history of the Quantizer object ({out[:20]} vs fresh {want[:20]})", "history-dependent")
                if not any(a_.startswith("policy") for _, a_ in log):   # a fresh process starts under the default policy
                    last = (rec_now, copy.deepcopy(cr_in), out, large)
            elif act == "validate":
                if q._result.quantized_model is None:
                    continue
                if not runtime_takes(ctx, q, case.data):
                    continue
                d0 = snap(case.data)
                try:
                    q.validate(case.data)
                except Exception:  # noqa: BLE001  (C18's business)
                    pass
                if snap(case.data) != d0:
                    return fail("validate() modified the test data", "validate-data-mutated")
        except ValueError:
            pass
        if bytes(mb) != mb_before:
            return fail("the model bytes were modified", "model-mutated")
    if last is not None and not any(str(a_).startswith("policy") for _, a_ in log):   # (the policy is process-global by design)
        # "same arguments => same bytes" holds whatever ELSE this process has quantized in the meantime: other models -- with integer data
        # paths through RESHAPE / TRANSPOSE / STRIDED_SLICE / SPLIT / MEAN, whose non-float operands the algorithms skip -- go through
        # calibrate() and quantize() on objects of their own; then a fresh object repeats the last call of this history
        other_models_in_this_process(rng)
        ctx.tag("other_models_quantized_in_between")
        os.environ.pop(ENVVAR, None)
        if last[3]:
            os.environ[ENVVAR] = "0"
        try:
            again = fresh_hash(mb, last[0], last[1])
        finally:
            os.environ.pop(ENVVAR, None)
        if again is not None and again != last[2]:
            return fail(f"quantize() with the same model, recipe and statistics gives another result after OTHER models were quantized in this "
                        f"process ({last[2][:20]} before, {again[:20]} after)", "process-history-dependent")
    if i % 3 == 1 and shared_cr:
        # a calibration result that went through json (python floats and nested lists instead of float32 arrays) is the caller's object
        # like any other: quantize() and a resumed calibrate() must leave it exactly as it was (types included)
        restored = json.loads(json.dumps({k: {n: np.asarray(v).tolist() for n, v in qsv.items()} for k, qsv in shared_cr.items()}))
        r0 = snap(restored)
        if qs[0].get_quantization_recipe():
            try:
                qs[0].quantize(restored)
            except Exception:  # noqa: BLE001
                pass
            ctx.tag("quantize_json_restored_result")
            if snap(restored) != r0:
                return fail("quantize() modified the calibration result passed in (a result restored from json)", "cr-mutated-json-restored")
        if qs[0].need_calibration:
            more = gm.random_inputs(mb, rng, n=1)
            for sig, samples in more.items():
                try:
                    qs[0].calibrate(samples, signature_key=sig, previous_calibration_result=restored)
                except Exception:  # noqa: BLE001
                    pass
                ctx.tag("calibrate_json_restored_previous")
                if snap(restored) != r0:
                    return fail("calibrate() modified the previous calibration result (a result restored from json)", "previous-mutated-json-restored")
    if i % 3 == 0:
        # samples with non-finite values (NaN, +Inf, -Inf) are the caller's too: a throw-away object calibrates / validates on them (so that
        # the statistics of this history stay clean); whatever it makes of such values, the arrays handed in keep their bytes
        odd = gm.random_inputs(mb, rng, n=2)
        planted = False
        for sig, samples in odd.items():
            for smp in samples:
                for name, arr in smp.items():
                    if isinstance(arr, np.ndarray) and arr.dtype.kind == "f" and arr.size >= 1:
                        flat = arr.reshape(-1)
                        for pos, val in zip(rng.sample(range(flat.size), min(3, flat.size)), (np.nan, np.inf, -np.inf)):
                            flat[pos] = val
                        planted = True
        if planted:
            q3 = quantizer.Quantizer(mb, copy.deepcopy(pl.shipped_recipes()[0][1]))
            try:
                pl.apply_recipe(q3, [{"k": "add", "regex": ".*", "operation": "*", "cfg": pl.UNIFORM["a8w8"], "alg": "min_max_uniform_quantize"}])
            except Exception:  # noqa: BLE001
                pass
            for sig, samples in odd.items():
                d0 = snap(samples)
                try:
                    q3.calibrate(samples, signature_key=sig)
                except Exception:  # noqa: BLE001  (what calibration makes of non-finite data is not C14's business)
                    pass
                ctx.tag("calibrate_nonfinite_samples")
                if snap(samples) != d0:
                    return fail("calibrate() modified the calibration data (samples containing NaN / Inf)", "calib-data-mutated-nonfinite")
            if last_result[0] is not None and qs[0]._result.quantized_model is not None and runtime_takes(ctx, qs[0], odd):
                d0 = snap(odd)
                try:
                    qs[0].validate(odd)
                except Exception:  # noqa: BLE001
                    pass
                ctx.tag("validate_nonfinite_samples")
                if snap(odd) != d0:
                    return fail("validate() modified the test data (samples containing NaN / Inf)", "validate-data-mutated-nonfinite")
    if last is not None and n_sub[0] > 0:
        n_sub[0] -= 1
        for seed in (1, 4242):
            h = subprocess_hash(mb, last[0], last[1], seed, last[3])
            ctx.tag("fresh_process_compared")
            if h != last[2]:
                return fail(f"quantize() output differs in a fresh process with PYTHONHASHSEED={seed}: {h[:24]} vs {last[2][:24]}", "process-dependent")
        # and the model agrees with the bytes too (pipeline correspondence on the final arguments)
    ctx.case({"ops": [sg["ops"] for sg in case.info["subgraphs"]], "history": log}, True)


_INTERP = [None]


def runtime_takes(ctx, q, data):
    """validate() runs the QUANTIZED model inside this process; a few models make the runtime abort() outright (cf. finding D29: an integer
    ADD / SUB whose output multiplier is >= 1), which would take the whole check with it. The model is therefore tried first in a child
    process (the harness's interpreter server) on the same samples; validate() is only called when the runtime survives them."""
    try:
        mb_out = bytes(q._result.quantized_model)
        if _INTERP[0] is None:
            _INTERP[0] = pl.Interp()
        n = max((len(v) for v in data.values()), default=0)
        for j in range(n):
            r = _INTERP[0].run(mb_out, {k: v[j:j + 1] for k, v in data.items() if len(v) > j})
            if r[0] in ("abort", "timeout"):
                ctx.tag("validate_skipped_runtime_aborts")
                return False
        return True
    except Exception:  # noqa: BLE001
        ctx.tag("validate_skipped_runtime_refuses_or_aborts")
        return False


def run(ctx):
    ctx.rule = ("random interleavings (3-8 steps) of update/load recipe, calibrate, quantize, validate on two Quantizer objects sharing one "
                "calibration result, over generated models and recipes: deep equality of every caller-owned argument before/after each call; "
                "every quantize() output compared (sha256) with a fresh Quantizer given equal arguments, and a subset with fresh processes "
                "under two other PYTHONHASHSEED values; distinct = distinct (model, history)")
    ctx.explanation = ("In the model quantize is a function of (model, recipe state, statistics) by construction and the statistics handed back to "
                       "the caller are proved unchanged (with the pinned behaviour kept as a refuted variant). Independence from CPython "
                       "process state / hash seed is runtime behaviour: executed, not proved.")
    common.proof_side(ctx, THEOREMS)
    drv = common.Driver()
    rng = ctx.rng
    n = 150 if ctx.tier == "quick" else 1500
    n_sub = [4 if ctx.tier == "quick" else 25]
    for i in range(n):
        if ctx.left() < 40:
            break
        history_case(ctx, drv, rng, i, n_sub)
    drv.close()
    if _INTERP[0] is not None:
        _INTERP[0].close()
        _INTERP[0] = None
    return common.finish(ctx)


def replay(ctx, path):
    print(open(path).read()[:3000])
    return 0
