"""C01 — quantize() returns a well-formed, runtime-loadable model or raises."""
import json

from .. import common
from .. import fam_pipeline as fp
from .. import pipeline as pl

THEOREMS = ["C01.inserted_name_fresh", "C01.opcode_index_ok", "C01.step_insertQuant", "C01.step_insertDequant", "C01.step_quantizeTensor", "C01.performer_wf", "C01.modify_wf", "C01.quantize_wf", "NFCheckProofs.nfOK_sound",
            # C01b: runtime clause, as far as a type-level table of the kernels goes (ASSUMED table KernelSig.accepts, validated by execution)
            "C01.kernel_signatures_ok", "C01.kernel_signature_of_op", "C01.unsupported_ops_keep_signature", "C01.inserted_ops_widths",
            "C01.nonfloat_operand_untouched", "C01.E2E.mixed_modes_table", "C01.E2E.mixed_ops_table", "C01.E2E.instance_ok",
            "C01.E2E.instance_cast_ok", "C01.E2E.const_data_drq_violates", "C01.E2E.const_data_srq16_violates",
            "C01.E2E.bmm_const_lhs_drq_violates", "C01.E2E.runtime_weight_srq16_violates",
            # C01c: the operator-replacing transformation for BLOCKWISE weights, modelled on its own (QModel/Emulated.lean)
            "C01.emulated_wf", "C01.emulated_frame", "C01.emulated_bookkeeping", "C01.emulated_result_tensor", "C01.emulated_tensors",
            "C01.EmuExample.run", "C01.EmuExample.hok", "C01.EmuExample.weight_as_bias_wf", "C01.EmuExample.computed_bias_wf",
            "C01.EmuExample.second_result_not_wf", "C01.EmuExample.runtime_weight_not_wf", "C01.EmuExample.negative_id_not_wf"]


def run(ctx):
    fp.BMM_CONST_LHS[0] = 0.2   # BATCH_MATMUL with the CONSTANT on the left is generated here (finding D42 is classified by this check)
    ctx.rule = ("generated float models in converter normal form (typed DAG grower over the 21 supported op types + unsupported float ops; "
                "multi-consumer tensors, repeated operands, consumed graph outputs, inputs that are outputs, dead outputs, name hazards, "
                "1-3 subgraphs/signatures, tied constants) x recipes (shipped, uniform per policy entry, random mixed rule sequences with "
                "regexes built from the model's tensor names) x random calibration data; every case goes through the real pipeline, the "
                "graph stage is compared with the Lean model, the returned bytes are checked by an independent well-formedness checker and "
                "run in a sandboxed interpreter; distinct = distinct (model, recipe) pairs")
    common.proof_side(ctx, THEOREMS, modules=["QProps.C01", "QProps.C01b", "QProps.C01bOps", "QProps.C01c", "QProofs.NFCheckProofs"])
    drv = common.Driver()
    interp = pl.Interp()
    def per_case(case, res):
        if res["status"] == "ok":
            fp.oracle_c01(ctx, interp, case, res)
            if res.get("ksig") is False and "bmm_constant_left_operand" not in case.info["tags"]:
                # C01.kernel_signatures_ok: under NF, FloatModel, DataRuntime and WeightConst16 every operator of the output has a signature
                # of the kernel table.  A BATCH_MATMUL with the constant on the LEFT violates DataRuntime (finding D42: the interpreter run
                # above is what reports it); every other generated model satisfies the hypotheses
                ctx.fail("an operator of the returned model has an operand-type signature outside the kernel table "
                         + str([x for x in (res["model_resp"].get("ksig_sigs") or []) if x and not x[3]][:2]), case.replay(), "ksig-rejected")
            if ctx.rng.random() < 0.12 and not res.get("policy"):
                # the large-model serialisation (threshold lowered by the hook) is a path of quantize() like any other: its result must
                # be a well-formed, loadable model too
                import copy, os
                os.environ["AI_EDGE_QUANTIZER_VERIF_LARGE_MODEL_THRESHOLD"] = "0"
                try:
                    big = bytes(res["q"].quantize(copy.deepcopy(res.get("cr"))).quantized_model)
                except Exception as e:  # noqa: BLE001
                    ctx.fail(f"quantize() raises {type(e).__name__} on the large-model path where the ordinary path returns a model", case.replay(), "large-path-raises")
                    return
                finally:
                    os.environ.pop("AI_EDGE_QUANTIZER_VERIF_LARGE_MODEL_THRESHOLD", None)
                ctx.tag("large_path_result_checked")
                fp.oracle_c01(ctx, interp, case, dict(res, out=big))

    def gen(rng, i):
        # weights tied within and across subgraphs (incl. one NAME used in two subgraphs, which the library must refuse) every tenth case
        if i % 20 == 13:
            from .. import gen_models as gm
            mb, info = gm.gen_twin_signatures(rng)
            data = gm.random_inputs(mb, rng, n=1)
            cfg = pl.UNIFORM[rng.choice(["drq8", "wo8", "drq4", "a8w8", "a16w8"])]
            cmds = [{"k": "add", "regex": ".*", "operation": rng.choice(["*", "FULLY_CONNECTED"]), "cfg": cfg, "alg": "min_max_uniform_quantize"}]
            return fp.Case(mb, info, cmds=cmds, data=data, desc=[("twin signatures, one weight name", cfg["weight"]["bits"], cfg["cp"])])
        if i % 10 != 3:
            return fp.gen_case(rng, i)
        case = fp.gen_tied_case(rng, i, nsg=2 if i % 20 == 3 else None)
        if "tied_same_name_across_subgraphs" in case.info["tags"] and rng.random() < 0.7:
            # every reader gets the same request, so nothing but the duplicate NAME stands between the model and quantization
            cfg = pl.UNIFORM[rng.choice(["drq8", "wo8", "drq4", "a8w8"])]
            case.cmds, case.recipe = [{"k": "add", "regex": ".*", "operation": rng.choice(["*", "FULLY_CONNECTED"]), "cfg": cfg, "alg": "min_max_uniform_quantize"}], None
            case.desc = [("uniform on same-name tie", cfg["weight"]["bits"], cfg["cp"])]
        return case
    try:
        fp.blockwise_probe(ctx, drv, interp, 12 if ctx.tier == "quick" else 60)
    except Exception as e:  # noqa: BLE001
        ctx.fail(f"the BLOCKWISE probe could not run ({type(e).__name__}: {str(e)[:100]})", {}, "blockwise-probe-crash")
    # graph stage (instructions + performer on abstract parameter classes) AND the whole pipeline (bit-exact output, WF.modelOK /
    # skeleton evaluated on the model's own output, NF membership) are compared with the Lean model on every case
    fp.explore(ctx, drv, 600 if ctx.tier == "quick" else 4000, per_case, gen=gen, graph_corr=True, pipe_corr=True)
    # operators whose WEIGHT operand is a runtime tensor (outside the hypothesis WeightConst16 of C01.kernel_signatures_ok for the 16-bit
    # convolutions; a constant DATA operand, the other excluded shape, is folded away by converters and is not generated)
    fp.explore(ctx, drv, 30 if ctx.tier == "quick" else 250, lambda case, res: res["status"] == "ok" and fp.oracle_c01(ctx, interp, case, res),
               gen=lambda rng_, i: fp.gen_runtime_weight(rng_), graph_corr=True, pipe_corr=True)
    # the operator-REPLACING transformation (BLOCKWISE weights): QModel/Emulated.lean vs the real emulated_subchannel() on its own
    # TransformationInput, field by field (C01c: emulated_wf, _frame, _bookkeeping, _result_tensor, _tensors)
    if ctx.left() > 40:
        from .. import fam_emulated as fe
        try:
            fe.cmp_emulated(ctx, 120 if ctx.tier == "quick" else 1500)
        except Exception as e:  # noqa: BLE001
            ctx.disagree("emulated", {}, f"the family could not run ({type(e).__name__}: {str(e)[:160]})", "runs")
    # the operand-type signatures [builtin code, operand types, result types] (255 = absent operand) that occurred in outputs which the
    # ASSUMED kernel table accepts and the interpreter allocated and invoked: this run's validation of the table by execution
    sigs = sorted(getattr(ctx, "ksig_seen", set()))
    ctx.extra["kernel_signatures_seen"] = len(sigs)
    ctx.extra["kernel_signatures_sample"] = [json.loads(x) for x in sigs[:60]]
    interp.close()
    drv.close()
    return common.finish(ctx)


def replay(ctx, path):
    print(open(path).read()[:3000])
    return 0
