"""C07 — full-integer models approximate the float model on calibrated inputs."""
from .. import common
from .. import fam_numeric as fnum
from .. import fam_pipeline as fp
from .. import gen_models as gm
from .. import pipeline as pl

THEOREMS = ["C07.accumulator_exact", "C07.bias_scale_necessary", "C07.dot_perturbation", "C17.dq_q_rounded", "C17.zp_in_range", "C04.bias_params", "C03.xfs_srq",
            # C07b: error of ONE operator under the specified integer kernel (real-valued spec, any rounding rule)
            "C07.fc_row_error", "C07.fc_row_error_sat", "C07.fc_row_saturates_hi", "C07.fc_row_error_quantized", "C07.fc_row_error_scales",
            "C07.fc_row_error_a8w8", "C07.fc_row_error_a8w4", "C07.fc_row_error_a16w8", "C07.fc_row_error_a16w4", "C07.fc_row_in_range",
            "C07.not_constant", "C07.add_error", "C07.add_error_sat"]


def requant_chain_case(rng):
    """a -> (RESHAPE | TRANSPOSE) -> r ; CONCATENATION([r, b]) (-> optional TANH): the integer-copying producer keeps a's scale, the
    concatenation needs every operand at ITS output scale, so r must be requantized. Magnitudes down to 1e-4 (16-bit scales ~1e-9)."""
    import numpy as np
    from ..gen_models import G, BO, TT, OPT, s as sch
    g = G()
    g.subgraph()
    n = rng.choice([2, 3, 4])
    a = g.tensor("a", [1, 2 * n])
    if rng.random() < 0.6:
        sh = g.tensor("shape", [2], TT.INT32, data=np.array([2, n], dtype=np.int32))
        r = g.tensor("r", [2, n])
        ro = sch.ReshapeOptionsT()
        ro.newShape = [2, n]
        g.op(BO.RESHAPE, [a, sh], [r], OPT.ReshapeOptions, ro)
        kinds = ["RESHAPE"]
        rshape = [2, n]
    else:
        perm = g.tensor("perm", [2], TT.INT32, data=np.array([1, 0], dtype=np.int32))
        r = g.tensor("r", [2 * n, 1])
        g.op(BO.TRANSPOSE, [a, perm], [r], OPT.TransposeOptions, sch.TransposeOptionsT())
        kinds = ["TRANSPOSE"]
        rshape = [2 * n, 1]
    b = g.tensor("b", rshape)
    c = g.tensor("c", [2 * rshape[0], rshape[1]])
    co = sch.ConcatenationOptionsT()
    co.axis = 0
    ins = [r, b] if rng.random() < 0.5 else [b, r]
    g.op(BO.CONCATENATION, ins, [c], OPT.ConcatenationOptions, co)
    kinds.append("CONCATENATION")
    outs = [c]
    if rng.random() < 0.3:
        outs.append(r)
    g.io([a, b], outs, "serving_default")
    mb = g.bytes()
    base = rng.choice([1.2e-4, 1.2e-4, 3e-4, 1.0])
    k = rng.choice([2.0, 3.3, 5.0])
    rs = np.random.RandomState(rng.randrange(2 ** 31))
    data = {"serving_default": [{"in0": rs.uniform(-base, base, size=(1, 2 * n)).astype(np.float32),
                                 "in1": rs.uniform(-k * base, k * base, size=tuple(rshape)).astype(np.float32)}]}
    cfg = pl.UNIFORM[rng.choice(["a16w8", "a16w8", "a8w8"])]
    cmds = [{"k": "add", "regex": ".*", "operation": "*", "cfg": cfg, "alg": "min_max_uniform_quantize"}]
    info = {"tags": {"requant_chain"}, "subgraphs": [{"sig": "serving_default", "int_inputs": [], "ops": kinds}]}
    return fp.Case(mb, info, cmds=cmds, data=data, desc=[("requant-chain", cfg["act"]["bits"], base, k)])


def gen(rng, i):
    if i % 11 == 3:
        return requant_chain_case(rng)
    if i % 11 == 7:
        # operators that copy integers (same scale in and out) feeding a CONCATENATION of operands with different ranges, 16-bit
        # activations, small magnitudes: every operand must be requantized to the output's scale
        mb, info = gm.gen_model(rng, n_ops=rng.randint(2, 4), n_subgraphs=1, p_unsupported=0.0, alias_sig=0.0, bool_mask=0.0,
                                kinds=["RESHAPE", "TRANSPOSE", "STRIDED_SLICE", "CONCATENATION", "CONCATENATION"], const_kinds=gm.BENIGN_KINDS)
        data = gm.random_inputs(mb, rng, n=1, scale=rng.choice([1e-4, 1e-4, 1.0]), spread=True)
        cfg = pl.UNIFORM[rng.choice(["a16w8", "a16w8", "a8w8"])]
        cmds = [{"k": "add", "regex": ".*", "operation": "*", "cfg": cfg, "alg": "min_max_uniform_quantize"}]
        return fp.Case(mb, info, cmds=cmds, data=data, desc=[("requant-chain", cfg["act"]["bits"])])
    if i % 7 == 5:
        # tied constants (shared weights / one bias tensor shared by operators whose inputs have different ranges)
        mb, info = gm.gen_tied(rng, shared_bias=0.6, extras=False)   # focused: tied weights and shared biases only
        data = gm.random_inputs(mb, rng, n=1, scale=1.0)
        cfg = pl.UNIFORM[rng.choice(["a8w8", "a8sw8t", "a16w8"])]
        cmds = [{"k": "add", "regex": ".*", "operation": "*", "cfg": cfg, "alg": "min_max_uniform_quantize"}]
        return fp.Case(mb, info, cmds=cmds, data=data, desc=[("tied", cfg["act"]["bits"], cfg["weight"]["bits"])])
    if i % 11 == 9:
        # operator OPTIONS: pools / convolutions / fully-connected with a fused activation (the integer average pool averages raw codes:
        # it needs input and output on ONE scale whatever the fused activation clips)
        mb, info = gm.gen_model(rng, n_ops=rng.randint(2, 3), n_subgraphs=1, p_unsupported=0.0, alias_sig=0.0, const_kinds=gm.BENIGN_KINDS,
                                fused_act=0.85, kinds=["CONV_2D", "AVERAGE_POOL_2D", "AVERAGE_POOL_2D", "AVERAGE_POOL_2D", "FULLY_CONNECTED"])
        cfg = pl.UNIFORM[rng.choice(["a8w8", "a8sw8t", "a16w8"])]
        cmds = [{"k": "add", "regex": ".*", "operation": "*", "cfg": cfg, "alg": "min_max_uniform_quantize"}]
        info["tags"].add("fused_activation_options")
        return fp.Case(mb, info, cmds=cmds, data=gm.random_inputs(mb, rng, n=1, scale=1.0), desc=[("fused activations", cfg["act"]["bits"])])
    mb, info = gm.gen_model(rng, n_ops=rng.randint(1, 4), n_subgraphs=1, p_unsupported=0.1, alias_sig=0.0, fused_act=0.25,
                             const_kinds=gm.BENIGN_KINDS if i % 6 else None)
    cfg = pl.UNIFORM[rng.choice(["a8w8", "a8w8", "a8sw8t", "a16w8", "a8w4", "a16w4", "a8sw4t"])]
    # 16-bit activations resolve magnitudes of 1e-4 with scales below 1e-8: small numbers are where tolerant comparisons go wrong
    scales = [1.0, 1.0, 1e-4, 1e-4, 3e-3, 30.0] if cfg["act"]["bits"] == 16 else [1.0] * 7 + [1e-4, 3e-3, 30.0]
    if i % 6 == 0:
        scales = [1.0]   # the degenerate constant kinds (1e-6 weights, dead channels) are exercised at ordinary data magnitudes only:
        #                  together with 1e-4 data the kernels' fixed-point multipliers underflow (a limit of the runtime, cf. D25)
    data = gm.random_inputs(mb, rng, n=1, scale=rng.choice(scales))
    cmds = [{"k": "add", "regex": ".*", "operation": "*", "cfg": cfg, "alg": "min_max_uniform_quantize"}]
    case = fp.Case(mb, info, cmds=cmds, data=data, desc=[("*", cfg["act"]["bits"], cfg["weight"]["bits"])])
    if rng.random() < 0.15:
        # an earlier from-scratch calibration session on the same Quantizer with data of another amplitude (a dry run): the session
        # that counts starts from scratch and must calibrate on ITS data only
        case.dry_data = gm.random_inputs(mb, rng, n=1, scale=rng.choice([0.02, 20.0]))
        info["tags"].add("dry_run_calibration_first")
    return case


def run(ctx):
    fp.BMM_CONST_LHS[0] = 0.2   # BATCH_MATMUL with the CONSTANT on the left is generated here (finding D42 is classified by this check)
    ctx.rule = ("generated float models of bounded depth (1-4 ops) x the static-range configs (8/16-bit activations, 4/8-bit weights, symmetric/asymmetric activations, per-tensor/per-channel weights) x random calibration inputs: dequantized outputs of interpreter(quantized) vs interpreter(float) on the calibration input with a deliberately generous bound, plus the crisp sub-claims (finite, not constant when the float output is not); pipeline compared with the Lean model; distinct = distinct (model, recipe)")
    ctx.explanation = ("C07b, for ONE operator under the integer kernel of the TFLite quantization spec over exact rationals and any rounding rule with error <= 1/2 (the kernels' fixed-point multiplier/shift rescaling -- findings D29/D33 -- is NOT modelled): with operand, weight and bias codes within half a step of the float values, the dequantized result of a fully-connected row is within sy/2 + sum(|x_i| sw/2 + |w_i| sx/2 + sx sw/4) + sx sw/2 of the float result when that lies inside the output range, and is the nearest representable bound otherwise (fc_row_error, fc_row_error_sat, fc_row_saturates_hi); with the library's own quantization the hypotheses are discharged (fc_row_error_quantized); in terms of the ranges the 'fixed fraction of the activation magnitude' is 0.59 % per term for a8w8, 7.4 % for a8w4, 0.40 % for a16w8, 7.1 % for a16w4 (fc_row_error_a8w8 ...); outputs are in range and NOT CONSTANT when the float outputs differ by more than the bound (not_constant); elementwise ADD: sy/2 + s1/2 + s2/2 (add_error). PARTIAL: the fixed-point kernels of LiteRT are outside this repository; what is proved is what the quantizer contributes to the numerics: parameters (C17 under rounding), bias scale = input scale x weight scale with zero point 0 (C04.bias_params, which makes the integer accumulator the float op on dequantized operands), and the per-operand transformations (C03.xfs_srq). Closeness of interpreter outputs is executed with a generous bound, not proved.")
    common.proof_side(ctx, THEOREMS, modules=["QProps.C07", "QProps.C07b", "QProps.C17", "QProps.C17b", "QProps.C04", "QProps.C03"])
    drv = common.Driver()
    interp = pl.Interp()

    def per_case(case, res):
        if res["status"] == "ok":
            fnum.compare_static(ctx, interp, case, res, fp.failer(ctx, case))
            # the hypothesis of C07b's bounds, on this very input: every stored weight / bias code is within (half) a step of the float value.
            # (against the float outputs a 4-bit model is judged with a bound of the order of the magnitude itself, which garbage weights
            # would pass; the stored constants are what the integer kernel reads)
            from .. import oracles as orc
            orc.oracle_c05(ctx, case, res, fp.failer(ctx, case, prefix="[stored constants of the static-range model] "))
    try:
        fp.explore(ctx, drv, 350 if ctx.tier == "quick" else 2500, per_case, gen=gen, graph_corr=False, pipe_corr=True)
        # operators whose WEIGHT operand is a runtime tensor (tf.matmul with a non-constant right-hand side becomes FULLY_CONNECTED;
        # convolutions with a computed filter), under the static-range configs
        fp.explore(ctx, drv, 24 if ctx.tier == "quick" else 200, per_case, gen=lambda rng_, i: fp.gen_runtime_weight(rng_, mode=rng_.choice(["a8w8", "a16w8"])),
                   graph_corr=False, pipe_corr=True)
    finally:
        interp.close()
        drv.close()
    return common.finish(ctx)


def replay(ctx, path):
    print(open(path).read()[:3000])
    return 0
