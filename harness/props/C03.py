"""C03 — each op runs in exactly the mode its recipe rule selected; others are untouched."""
from .. import common
from .. import fam_pipeline as fp
from .. import oracles as orc

THEOREMS = ["C03.xfs_srq", "C03.xfs_drq", "C03.xfs_wo", "C03.nonfloat_never_quantized", "C03.dtype_of_bits",
            "C03.quantizeOnly_types", "C03.insertQuant_tensors", "C03.insertQuant_op", "C03.insertQuant_consumers",
            "C03.insertDequant_tensors", "C03.insertDequant_op", "C03.insertDequant_consumers",
            "C03.addQuant_wired", "C03.addDequant_wired", "C03.quantTensor_typed",
            # C03d: END TO END on quantizePure under NF, per resolved mode of every original operator
            "C03.noquant_op_untouched", "C03.noquant_op_constants", "C03.inserted_ops_typed", "C03.srq_op_typed", "C03.srq_bias_typed",
            "C03.drq_op_typed", "C03.wo_op_typed", "C03.f16_op_typed", "C03.E2E.noquant_instance", "C03.E2E.srq_instance",
            "C03.E2E.bias_instance", "C03.E2E.drq_instance", "C03.E2E.wo_instance", "C03.E2E.f16_instance"]


def run(ctx):
    ctx.rule = ("generated models x recipes (uniform and mixed: adjacent ops in different modes, tensors shared by consumers in different "
                "modes) through the real pipeline; materialisation and the whole pipeline are compared bit-exactly with the Lean model; the "
                "output's per-operand dtypes are checked against the mode the real RecipeManager resolves for each op (independent oracle); "
                "distinct = distinct (model, recipe) pairs")
    ctx.explanation = ("END TO END on the model (QProps/C03d), for every model in normal form, recipe state, regex semantics and statistics on which "
                       "quantizePure succeeds, and every ORIGINAL operator (found in the output by its tag, same opcode, results and operand "
                       "count, operands standing for the original ones): resolved to no-quantize / not a supported operator => every result "
                       "keeps its record, every operand is the original tensor with its record and (constants) an unchanged buffer, or a new "
                       "float32 tensor produced by exactly one inserted DEQUANTIZE of it (noquant_op_untouched, noquant_op_constants); static "
                       "range => float results and runtime operands of regular slots are integer tensors of the activation width carrying "
                       "parameters (read directly or through one inserted QUANTIZE), constants are integer constants of the weight/activation "
                       "width over packed data, the bias is 32 bit (64 for 16-bit activations), non-float operands untouched (srq_op_typed, "
                       "srq_bias_typed); dynamic range / weight only / float16 cast => activations, bias and results untouched, the weight an "
                       "integer resp. float16 constant read directly resp. through one inserted DEQUANTIZE (drq_op_typed, wo_op_typed, "
                       "f16_op_typed); every operator without a tag is a QUANTIZE (float or integer in, integer with parameters out) or a "
                       "DEQUANTIZE (integer/float16 in, float32 without parameters out) of an original tensor (inserted_ops_typed). Closed "
                       "instances run the whole pipeline in the kernel. Byte-identity of untouched constants is 'same abstract buffer content' in "
                       "the model; the bytes themselves are compared by execution.")
    common.proof_side(ctx, THEOREMS, modules=["QProps.C03", "QProps.C03b", "QProps.C03c", "QProps.C03d"])
    drv = common.Driver()

    def per_case(case, res):
        if res["status"] == "ok":
            orc.oracle_c03(ctx, case, res, fp.failer(ctx, case))
            orc.oracle_rule_history(ctx, case, res, fp.failer(ctx, case, prefix="[the rule the update calls selected] "))
    def gen(rng, i):
        # every 5th case: a constant shared by several operators (one tensor with 2..3 consumers, tied embedding table, one buffer
        # behind several tensors) x per-consumer rules: each consumer must run in ITS mode or the recipe must be refused
        case = fp.gen_tied_case(rng, i) if i % 5 == 3 else fp.gen_case(rng, i)
        if i % 4 == 1 and case.data:
            # an INTEGER data branch (MEAN / ADD / TRANSPOSE / CONCATENATION over INT32 counts) beside the float graph
            case = fp.with_int_branch(case, rng)
        return case
    fp.explore(ctx, drv, 500 if ctx.tier == "quick" else 3000, per_case, gen=gen, graph_corr=False, mat_corr=True, pipe_corr=True)
    drv.close()
    return common.finish(ctx)


def replay(ctx, path):
    print(open(path).read()[:3000])
    return 0
