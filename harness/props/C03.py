"""C03 — each op runs in exactly the mode its recipe rule selected; others are untouched."""
from .. import common
from .. import fam_pipeline as fp
from .. import oracles as orc

THEOREMS = ["C03.xfs_srq", "C03.xfs_drq", "C03.xfs_wo", "C03.nonfloat_never_quantized", "C03.dtype_of_bits",
            "C03.quantizeOnly_types", "C03.insertQuant_tensors", "C03.insertQuant_op", "C03.insertQuant_consumers",
            "C03.insertDequant_tensors", "C03.insertDequant_op", "C03.insertDequant_consumers",
            "C03.addQuant_wired", "C03.addDequant_wired", "C03.quantTensor_typed"]


def run(ctx):
    ctx.rule = ("generated models x recipes (uniform and mixed: adjacent ops in different modes, tensors shared by consumers in different "
                "modes) through the real pipeline; materialisation and the whole pipeline are compared bit-exactly with the Lean model; the "
                "output's per-operand dtypes are checked against the mode the real RecipeManager resolves for each op (independent oracle); "
                "distinct = distinct (model, recipe) pairs")
    common.proof_side(ctx, THEOREMS, modules=["QProps.C03", "QProps.C03b", "QProps.C03c"])
    drv = common.Driver()

    def per_case(case, res):
        if res["status"] == "ok":
            orc.oracle_c03(ctx, case, res, fp.failer(ctx, case))
    def gen(rng, i):
        # every 5th case: a constant shared by several operators (one tensor with 2..3 consumers, tied embedding table, one buffer
        # behind several tensors) x per-consumer rules: each consumer must run in ITS mode or the recipe must be refused
        return fp.gen_tied_case(rng, i) if i % 5 == 3 else fp.gen_case(rng, i)
    fp.explore(ctx, drv, 500 if ctx.tier == "quick" else 3000, per_case, gen=gen, graph_corr=False, mat_corr=True, pipe_corr=True)
    drv.close()
    return common.finish(ctx)


def replay(ctx, path):
    print(open(path).read()[:3000])
    return 0
