"""Correspondence families `config.*`, `policy.*`, `recipe.*`: qtyping / algorithm_manager /
recipe_manager vs QModel/{Config,Policy,Recipe}.lean."""
from __future__ import annotations

import copy
import itertools
import json
import re

from . import common

from ai_edge_quantizer import algorithm_manager, qtyping, quantizer, recipe_manager  # noqa: E402

MODEL_PATH = str(common.REPO / "ai_edge_quantizer/tests/models/single_fc.tflite")
_MODEL_BYTES = None


def model_bytes():
    global _MODEL_BYTES
    if _MODEL_BYTES is None:
        _MODEL_BYTES = open(MODEL_PATH, "rb").read()
    return _MODEL_BYTES


ALGS = ["min_max_uniform_quantize", "float_casting"]
OPS = [o.value for o in qtyping.TFLOperationName]


# --------------------------------------------------------------------------- config descriptions
# a config description is a plain dict {act, weight, cp, ed, sk}; tcfg = {bits, sym, gran, dtype, block}

def tdesc(bits, sym=True, gran="TENSORWISE", dtype="INT", block=0):
    return {"bits": bits, "sym": sym, "gran": gran, "dtype": dtype, "block": block}


def cdesc(act=None, weight=None, cp="FLOAT", ed=False, sk=False):
    return {"act": act, "weight": weight, "cp": cp, "ed": ed, "sk": sk}


def mk_tcfg(d, use_enum=True):
    if d is None:
        return None
    gran = qtyping.QuantGranularity(d["gran"]) if use_enum else d["gran"]
    dt = qtyping.TensorDataType(d["dtype"]) if use_enum else d["dtype"]
    return qtyping.TensorQuantizationConfig(num_bits=d["bits"], symmetric=d["sym"], granularity=gran, dtype=dt, block_size=d["block"])


def mk_cfg(d, use_enum=True):
    cp = qtyping.ComputePrecision(d["cp"]) if use_enum else d["cp"]
    return qtyping.OpQuantizationConfig(activation_tensor_config=mk_tcfg(d["act"], use_enum), weight_tensor_config=mk_tcfg(d["weight"], use_enum),
                                        compute_precision=cp, explicit_dequantize=d["ed"], skip_checks=d["sk"])


def lattice():
    acts = [None] + [tdesc(b, s) for b in (8, 16) for s in (True, False)]
    for act in acts:
        for wb in (4, 8, 16):
            for ws in (True, False):
                for wg in ("TENSORWISE", "CHANNELWISE"):
                    for wd in ("INT", "FLOAT"):
                        for cp in ("INTEGER", "FLOAT"):
                            for ed in (True, False):
                                yield cdesc(act, tdesc(wb, ws, wg, wd), cp, ed)
    # BLOCKWISE weights (the block size is a free parameter; no policy table lists the granularity, so every point is refused unless
    # the rule says skip_checks): a usable and an unusable block size
    for act in (None, tdesc(8, False)):
        for wb in (4, 8):
            for ws in (True, False):
                for block in (32, 0):
                    for cp in ("INTEGER", "FLOAT"):
                        for ed in (True, False):
                            yield cdesc(act, tdesc(wb, ws, "BLOCKWISE", "INT", block), cp, ed)


def enc_obj(v):
    """order-preserving JSON encoding understood by the driver ({"__obj": [[k,v],...]})."""
    if isinstance(v, dict):
        return {"__obj": [[str(getattr(k, "value", k)), enc_obj(x)] for k, x in v.items()]}
    if isinstance(v, (list, tuple)):
        return [enc_obj(x) for x in v]
    if hasattr(v, "value") and isinstance(v, str):
        return v.value
    return v


def dec_obj(v):
    if isinstance(v, dict) and list(v.keys()) == ["__obj"]:
        return {k: dec_obj(x) for k, x in v["__obj"]}
    if isinstance(v, dict):
        return {k: dec_obj(x) for k, x in v.items()}
    if isinstance(v, list):
        return [dec_obj(x) for x in v]
    return v


def plain(v):
    """recipe as plain JSON data (enums → their values), key order preserved."""
    return json.loads(json.dumps(v))


def exc(e):
    return type(e).__name__


# --------------------------------------------------------------------------- policy family

def real_accepts(alg, op, d):
    """('ctor', cls) | ('ok', bool)"""
    try:
        cfg = mk_cfg(d)
    except Exception as e:  # noqa: BLE001
        return ("ctor", exc(e))
    try:
        algorithm_manager.check_op_quantization_config(alg, op, cfg)
        return ("ok", True)
    except ValueError:
        return ("ok", False)
    except Exception as e:  # noqa: BLE001
        return ("raise", exc(e))


def cmp_accepts_batch(ctx, drv, triples, family="policy.accepts"):
    """triples: list of (alg, op, desc). returns list of real outcomes."""
    reqs = [{"op": "accepts", "alg": a, "opname": o, "cfg": d} for a, o, d in triples]
    ms = drv.ask_many(reqs)
    outs = []
    for (a, o, d), m, rq in zip(triples, ms, reqs):
        r = real_accepts(a, o, d)
        outs.append(r)
        ctx.evaluations += 1
        if r[0] == "ctor":
            ok = m.get("err") == r[1]
        elif r[0] == "ok":
            ok = m.get("ok") is r[1]
        else:
            ok = False
        if not ok:
            ctx.disagree(family, rq, m, list(r))
    return outs


# --------------------------------------------------------------------------- recipe histories

class RealRecipe:
    """drives the real Quantizer through its public API"""

    def __init__(self):
        self.q = quantizer.Quantizer(model_bytes())

    def step(self, c):
        k = c["k"]
        if k == "add":
            try:
                cfg = None if c["cfg"] is None else mk_cfg(c["cfg"], c.get("use_enum", True))
            except Exception as e:  # noqa: BLE001
                return "ctor:" + exc(e)
            try:
                self.q.update_quantization_recipe(c["regex"], c["operation"], cfg, c["alg"])
                return "ok"
            except Exception as e:  # noqa: BLE001
                return exc(e)
        if k == "load":
            try:
                self.q.load_quantization_recipe(copy.deepcopy(c["recipe_plain"]))
                return "ok"
            except Exception as e:  # noqa: BLE001
                return exc(e)
        if k == "get":
            return plain(self.q.get_quantization_recipe())
        if k == "resolve":
            alg, cfg = self.q._recipe_manager.get_quantization_configs(c["opname"], c["scope"])
            return {"alg": str(getattr(alg, "value", alg)), "cfg": plain(cfg.to_dict())}
        if k == "need_cal":
            return bool(self.q.need_calibration)
        raise ValueError(k)


def rx_rows(cmds):
    regexes, scopes = set(), set()
    for c in cmds:
        if c["k"] == "add":
            regexes.add(c["regex"])
        elif c["k"] == "load":
            for e in c["recipe_plain"]:
                if isinstance(e, dict) and isinstance(e.get("regex"), str):
                    regexes.add(e["regex"])
        elif c["k"] == "resolve":
            scopes.add(c["scope"])
    return [[r, s, bool(re.search(r, s))] for r in sorted(regexes) for s in sorted(scopes)]


def model_cmds(cmds):
    out = []
    for c in cmds:
        if c["k"] == "load":
            out.append({"k": "load", "recipe": enc_obj(c["recipe_plain"])})
        elif c["k"] == "add":
            out.append({k: v for k, v in c.items() if k != "use_enum"})
        else:
            out.append(c)
    return out


def run_history(ctx, drv, cmds, family="recipe.history", require_weight=False):
    """returns (real_outputs, agree)"""
    real = RealRecipe()
    routs = [real.step(c) for c in cmds]
    m = drv.ask({"op": "recipe_run", "cmds": model_cmds(cmds), "rx": rx_rows(cmds), "requireWeight": require_weight})
    mouts = [dec_obj(x) for x in m.get("ok", [])]
    agree = json.dumps(mouts) == json.dumps(routs)
    if not agree:
        first = next((i for i, (a, b) in enumerate(zip(mouts, routs)) if json.dumps(a) != json.dumps(b)), None)
        ctx.disagree(family, {"cmds": cmds, "first_diff_step": first}, mouts[first] if first is not None and first < len(mouts) else mouts,
                     routs[first] if first is not None else routs)
    return routs, agree


# --------------------------------------------------------------------------- alphabets / generators

SCOPES = ["a;", "a/b;", "model/fc1;", "x;y;", "", "jit(main)/fc1/dot;", "xa+b;"]
# the last two are regular expressions whose LITERAL text occurs in a scope that the expression itself does not match ('jit(main)/fc1'
# matches 'jitmain/fc1', 'a+b' matches 'ab'): "found in the scope" means re.search, never substring containment
REGEXES = [".*", "a", "^a", "b;$", "fc", "zzz", "a|x", ";", "jit(main)/fc1", "a+b"]

CFG_ALPHABET = [
    ("default", cdesc()),
    ("wo8", cdesc(None, tdesc(8, True, "CHANNELWISE"), "FLOAT", True)),
    ("wo4a", cdesc(None, tdesc(4, False, "TENSORWISE"), "FLOAT", True)),
    ("drq8", cdesc(None, tdesc(8, True, "CHANNELWISE"), "INTEGER", False)),
    ("drq4", cdesc(None, tdesc(4, True, "TENSORWISE"), "INTEGER", False)),
    ("srq88", cdesc(tdesc(8, False), tdesc(8, True, "CHANNELWISE"), "INTEGER", False)),
    ("srq168", cdesc(tdesc(16, True), tdesc(8, True, "TENSORWISE"), "INTEGER", False)),
    ("srq84", cdesc(tdesc(8, True), tdesc(4, True, "CHANNELWISE"), "INTEGER", False)),
    ("bad_asym_w", cdesc(tdesc(8, False), tdesc(8, False), "INTEGER", False)),
    ("bad_a16asym", cdesc(tdesc(16, False), tdesc(8, True), "INTEGER", False)),
    ("fp16", cdesc(None, tdesc(16, True, "TENSORWISE", "FLOAT"), "FLOAT", True)),
    ("skip_weird", cdesc(tdesc(8, False), tdesc(3, False, "CHANNELWISE"), "INTEGER", True, True)),
    ("skip_noweight", cdesc(None, None, "INTEGER", False, True)),
    ("skip_fp16", cdesc(None, tdesc(16, True, "TENSORWISE", "FLOAT"), "FLOAT", True, True)),
    ("ctor_bad", cdesc(tdesc(8, True), tdesc(8, True, "TENSORWISE", "FLOAT"), "INTEGER", False)),
    ("ctor_bad2", cdesc(tdesc(8, True), tdesc(8, True), "FLOAT", False)),
    ("block", cdesc(None, tdesc(4, True, "BLOCKWISE", "INT", 32), "FLOAT", True)),
    ("wo4_blocksize", cdesc(None, tdesc(4, True, "CHANNELWISE", "INT", 32), "FLOAT", True)),
    ("srq_blocksize", cdesc(tdesc(8, False, "TENSORWISE", "INT", 16), tdesc(8, True, "TENSORWISE", "INT", 0), "INTEGER", False)),
]
OP_ALPHABET = ["*", "FULLY_CONNECTED", "CONV_2D", "ADD", "SOFTMAX", "EMBEDDING_LOOKUP", "INPUT", "OUTPUT", "BATCH_MATMUL", "CUSTOM_OP", "RESHAPE"]
ALG_ALPHABET = ["min_max_uniform_quantize", "float_casting", "no_quantize", "bogus_alg"]
QUERY_OPS = ["FULLY_CONNECTED", "CONV_2D", "ADD", "SOFTMAX", "EMBEDDING_LOOKUP", "INPUT", "OUTPUT", "BATCH_MATMUL", "CUSTOM_OP", "RESHAPE", "TANH"]


def queries(scopes=SCOPES, ops=QUERY_OPS):
    return [{"k": "resolve", "opname": o, "scope": s} for o in ops for s in scopes]


def gen_add(rng, small=False):
    name, cfg = rng.choice(CFG_ALPHABET)
    alg = rng.choice(ALG_ALPHABET if rng.random() < 0.25 else ALG_ALPHABET[:3])
    if name in ("fp16", "skip_fp16") and rng.random() < 0.8:
        alg = "float_casting"
    c = {"k": "add", "regex": rng.choice(REGEXES[:4] if small else REGEXES), "operation": rng.choice(OP_ALPHABET),
         "cfg": None if rng.random() < 0.1 else cfg, "alg": alg, "use_enum": rng.random() < 0.7}
    return c


def spec_resolve(adds_ok, opname, scope):
    """Independent declarative oracle of C11, written from the property text (not from the model):
    adds_ok = the accepted add operations in history order (regex, operation, alg, cfgdesc|None)."""
    # scopes in order of first insertion of their regex; '*' resets the regex's rules (position kept)
    order = []
    rules: dict[str, list] = {}
    for regex, operation, alg, cfg in adds_ok:
        if regex not in rules:
            order.append(regex)
            rules[regex] = []
        if operation == "*":
            rules[regex] = [(operation, alg, cfg)]
            continue
        lst = rules[regex]
        for i, (o, _, _) in enumerate(lst):
            if o == operation:
                lst[i] = (operation, alg, cfg)
                break
        else:
            lst.append((operation, alg, cfg))
    result = ("no_quantize", cdesc())
    for regex in order:
        if not re.search(regex, scope):
            continue
        for operation, alg, cfg in rules[regex]:
            if operation not in ("*", opname):
                continue
            c = cfg if cfg is not None else cdesc()
            if alg != "no_quantize" and not c.get("sk"):   # a config with skip_checks passes the support check for EVERY operator, by definition
                r = real_accepts(alg, opname, c)
                if r != ("ok", True):
                    continue
            result = (alg, c)
    return result
