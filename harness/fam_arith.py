"""Correspondence family `arith.*`: uniform_quantize_tensor.py vs QModel/Arith.lean, bit-exact.

Also hosts the C17/C05 property oracles that run on the real code's outputs.
"""
from __future__ import annotations

import math
import warnings
from fractions import Fraction

import numpy as np

from . import common
from .common import rat, unrat

warnings.filterwarnings("ignore")
np.seterr(all="ignore")

from ai_edge_quantizer import qtyping  # noqa: E402
from ai_edge_quantizer.algorithms.uniform_quantize import uniform_quantize_tensor as uqt  # noqa: E402
from ai_edge_quantizer.transformations import quantize_tensor as qt_mod  # noqa: E402

PR = {np.dtype("float16"): "f16", np.dtype("float32"): "f32", np.dtype("float64"): "f64"}
IW = {np.dtype("int8"): 8, np.dtype("int16"): 16, np.dtype("int32"): 32, np.dtype("int64"): 64}


def finite(a) -> bool:
    return bool(np.all(np.isfinite(np.asarray(a, dtype=np.float64))))


def farr(a) -> dict:
    a = np.asarray(a)
    return {"shape": list(a.shape), "data": [rat(float(x)) for x in a.flatten()], "pr": PR[a.dtype]}


def iarr(a) -> dict:
    a = np.asarray(a)
    return {"shape": list(a.shape), "data": [int(x) for x in a.flatten()], "w": IW[a.dtype]}


def qp_json(p: qtyping.UniformQuantParams) -> dict:
    d = {"bits": int(p.num_bits), "scale": farr(p.scale), "zp": iarr(p.zero_point), "sym": bool(p.symmetric)}
    if p.quantized_dimension is not None:
        d["qdim"] = int(p.quantized_dimension)
    return d


def same_farr(model: dict, real) -> bool:
    real = np.asarray(real)
    if list(real.shape) != model["shape"] or PR.get(real.dtype) != model["pr"]:
        return False
    if not finite(real):
        return False
    rd = [Fraction(float(x)) for x in real.flatten()]
    return rd == [unrat(s) for s in model["data"]]


def same_iarr(model: dict, real) -> bool:
    real = np.asarray(real)
    return list(real.shape) == model["shape"] and IW.get(real.dtype) == model["w"] and [int(x) for x in real.flatten()] == model["data"]


def exc_class(e: Exception) -> str:
    return type(e).__name__


# --------------------------------------------------------------------------- generators

def gen_value(rng, kind=None) -> float:
    kind = kind or rng.choice(["unit", "unit", "small", "big", "tiny", "huge", "int", "zero", "pow2", "edge"])
    if kind == "unit":
        return rng.uniform(-4, 4)
    if kind == "small":
        return rng.uniform(-1e-3, 1e-3)
    if kind == "big":
        return rng.uniform(-1e4, 1e4)
    if kind == "tiny":
        return rng.choice([-1, 1]) * 10 ** rng.uniform(-44, -5)
    if kind == "huge":
        return rng.choice([-1, 1]) * 10 ** rng.uniform(5, 38)
    if kind == "int":
        return float(rng.randint(-300, 300))
    if kind == "zero":
        return rng.choice([0.0, -0.0])
    if kind == "pow2":
        return rng.choice([-1, 1]) * 2.0 ** rng.randint(-30, 30)
    return rng.choice([1e-4, 9.99e-5, 1.0001e-4, 127.0, 255.0, 0.5, 1 / 256, 3.4028234e38, 1.1754944e-38, 1e-45])


def gen_range(rng, dtype=np.float32):
    k = rng.random()
    a, b = gen_value(rng), gen_value(rng)
    if k < 0.12:
        b = a  # degenerate
    elif k < 0.22:
        a, b = abs(a), abs(a) + abs(b)  # all positive
    elif k < 0.32:
        a, b = -abs(a) - abs(b), -abs(a)  # all negative
    with np.errstate(all="ignore"):
        a, b = dtype(a), dtype(b)
    if not (np.isfinite(a) and np.isfinite(b)):
        a, b = dtype(-1.0), dtype(1.0)
    if a > b:
        a, b = b, a
    return a, b


def gen_shape(rng, rank=None, maxdim=4):
    rank = rng.randint(0, 4) if rank is None else rank
    return [rng.randint(1, maxdim) for _ in range(rank)]


def gen_tensor(rng, shape, kind=None):
    n = int(np.prod(shape)) if shape else 1
    kind = kind or rng.choice(["unit", "unit", "small", "big", "int", "mixed", "const"])
    if kind == "mixed":
        vals = [gen_value(rng) for _ in range(n)]
    elif kind == "const":
        v = gen_value(rng, "unit")
        vals = [v] * n
    else:
        vals = [gen_value(rng, kind) for _ in range(n)]
    with np.errstate(all="ignore"):
        a = np.array(vals, dtype=np.float32).reshape(shape)
    a[~np.isfinite(a)] = 1.0
    return a


# --------------------------------------------------------------------------- single comparisons (model vs code)

def cmp_zp_scale(ctx, drv, mn, mx, bits, sym, family="arith.zp_scale"):
    """returns (zp, scale) of the real code (or None) after comparing with the model."""
    inp = {"op": "zp_scale", "bits": bits, "sym": sym, "min": farr(mn), "max": farr(mx)}
    try:
        zp, scale = uqt.tensor_zp_scale_from_min_max(mn, mx, bits, sym)
        real = ("ok", zp, scale)
    except Exception as e:  # noqa: BLE001
        real = ("err", exc_class(e))
    m = drv.ask(inp)
    ctx.case({"f": "zp_scale", "bits": bits, "sym": sym, "min": inp["min"]["data"][:4], "max": inp["max"]["data"][:4], "shape": inp["min"]["shape"]})
    if real[0] == "ok":
        _, zp, scale = real
        if not finite(scale):
            ctx.tag("scale_nonfinite")
            if m.get("err") != "nonfinite":
                ctx.disagree(family, inp, m, "nonfinite scale")
            return zp, scale
        if "ok" not in m or not same_iarr(m["ok"]["zp"], zp) or not same_farr(m["ok"]["scale"], scale):
            ctx.disagree(family, inp, m, {"zp": np.asarray(zp).tolist(), "scale": [rat(x) for x in np.asarray(scale).flatten()], "dt": [str(np.asarray(zp).dtype), str(np.asarray(scale).dtype)]})
        return zp, scale
    if m.get("err") != real[1]:
        ctx.disagree(family, inp, m, real[1])
    ctx.errkinds[real[1]] = ctx.errkinds.get(real[1], 0) + 1
    return None


def cmp_quantize(ctx, drv, x, p: qtyping.UniformQuantParams, family="arith.quantize"):
    inp = {"op": "quantize", "x": farr(x), "qp": qp_json(p)}
    try:
        q = uqt.uniform_quantize(x, p)
        real = ("ok", q)
    except Exception as e:  # noqa: BLE001
        real = ("err", exc_class(e))
    m = drv.ask(inp)
    ctx.case({"f": "quantize", "shape": list(np.shape(x)), "bits": int(p.num_bits), "qdim": p.quantized_dimension, "x0": inp["x"]["data"][:3]})
    if real[0] == "ok":
        if m.get("err") == "nonfinite":
            # inf/nan intermediate: numpy's cast of non-finite floats is unspecified; out of model
            ctx.tag("quantize_nonfinite_out_of_model")
            return real[1]
        if "ok" not in m or not same_iarr(m["ok"], real[1]):
            ctx.disagree(family, inp, m, {"q": np.asarray(real[1]).flatten().tolist()[:64], "dt": str(real[1].dtype), "shape": list(real[1].shape)})
        return real[1]
    if m.get("err") != real[1]:
        ctx.disagree(family, inp, m, real[1])
    ctx.errkinds[real[1]] = ctx.errkinds.get(real[1], 0) + 1
    return None


def cmp_dequantize(ctx, drv, q, p, family="arith.dequantize"):
    inp = {"op": "dequantize", "q": iarr(q), "qp": qp_json(p), "widen": True}
    try:
        d = uqt.uniform_dequantize(q, p)
        real = ("ok", d)
    except Exception as e:  # noqa: BLE001
        real = ("err", exc_class(e))
    m = drv.ask(inp)
    ctx.case({"f": "dequantize", "shape": list(np.shape(q)), "bits": int(p.num_bits), "q0": inp["q"]["data"][:3]})
    if real[0] == "ok":
        if not finite(real[1]):
            if m.get("err") != "nonfinite":
                ctx.disagree(family, inp, m, "nonfinite")
            return real[1]
        if "ok" not in m or not same_farr(m["ok"], real[1]):
            ctx.disagree(family, inp, m, {"d": [rat(v) for v in np.asarray(real[1]).flatten()[:32]], "dt": str(np.asarray(real[1]).dtype)})
        return real[1]
    if m.get("err") != real[1]:
        ctx.disagree(family, inp, m, real[1])
    ctx.errkinds[real[1]] = ctx.errkinds.get(real[1], 0) + 1
    return None


def cmp_bias(ctx, drv, bias, pin, pw, family="arith.bias"):
    inp = {"op": "bias", "bias": farr(bias), "inp": qp_json(pin), "w": qp_json(pw)}
    try:
        r = uqt.symmetric_quantize_bias_tensor(bias, pin, pw)
        real = ("ok", r)
    except Exception as e:  # noqa: BLE001
        real = ("err", exc_class(e))
    m = drv.ask(inp)
    ctx.case({"f": "bias", "n": int(np.size(bias)), "inbits": int(pin.num_bits), "b0": inp["bias"]["data"][:3]})
    if real[0] == "ok":
        r = real[1]
        if m.get("err") == "nonfinite":
            ctx.tag("bias_nonfinite_out_of_model")
            return r
        ok = "ok" in m and same_iarr(m["ok"]["q"], r.quantized_data) and same_farr(m["ok"]["qp"]["scale"], r.scale) \
            and same_iarr(m["ok"]["qp"]["zp"], r.zero_point) and m["ok"]["qp"]["bits"] == r.num_bits \
            and m["ok"]["qp"]["qdim"] == r.quantized_dimension
        if not ok:
            ctx.disagree(family, inp, m, {"q": np.asarray(r.quantized_data).tolist(), "scale": [rat(v) for v in np.asarray(r.scale).flatten()],
                                          "bits": r.num_bits, "qdim": r.quantized_dimension, "dt": str(r.quantized_data.dtype)})
        return r
    if m.get("err") != real[1]:
        ctx.disagree(family, inp, m, real[1])
    ctx.errkinds[real[1]] = ctx.errkinds.get(real[1], 0) + 1
    return None


def cmp_store(ctx, drv, q, bits, family="arith.store"):
    """bytes written by quantize_tensor for integer data (incl. int4 packing)"""
    flat = np.frombuffer(np.asarray(q).tobytes(), dtype=np.uint8).flatten()
    real = [int(b) for b in np.asarray(qt_mod._pack_data(bits, flat)).flatten()]
    inp = {"op": "store", "bits": bits, "w": IW[np.asarray(q).dtype], "data": [int(v) for v in np.asarray(q).flatten()]}
    m = drv.ask(inp)
    ctx.case({"f": "store", "bits": bits, "n": int(np.size(q)), "d": inp["data"][:6]})
    if m.get("ok") != real:
        ctx.disagree(family, inp, m, real)
    return real


def cmp_f16(ctx, drv, x, family="arith.f16"):
    with np.errstate(all="ignore"):
        h = np.asarray(x, dtype=np.float32).astype(np.float16)
    inp = {"op": "f16", "data": [rat(np.float32(v)) for v in np.asarray(x, dtype=np.float32).flatten()]}
    m = drv.ask(inp)
    ctx.case({"f": "f16", "x": inp["data"][:4]})
    if not finite(h):
        if m.get("err") != "nonfinite":
            ctx.disagree(family, inp, m, "nonfinite")
        return h
    real = [int(b) for b in np.frombuffer(h.tobytes(), dtype=np.uint8)]
    if m.get("ok") != real:
        ctx.disagree(family, inp, m, real)
    return h


# --------------------------------------------------------------------------- property oracles (real code only)

def fr(x) -> Fraction:
    return Fraction(float(x))


def qrange(bits, narrow):
    lo, hi = -(2 ** (bits - 1)), 2 ** (bits - 1) - 1
    return (lo + 1 if narrow else lo), hi


def slack(bits: int) -> Fraction:
    """float32 evaluation of x*(1/s)+zp carries a relative error of a few 2^-24 on |q| <= 2^(bits-1)."""
    return Fraction(2 ** (bits - 1) * 4, 2 ** 24) + Fraction(1, 1000)


def oracle_params(ctx, mn, mx, bits, sym, zp, scale, replay):
    """C17: scale finite positive, zp in range / zero, zero representable, coverage."""
    zp = np.asarray(zp)
    scale = np.asarray(scale)
    lo, hi = qrange(bits, False)
    key = None
    if not finite(scale):
        big = float(np.max(np.abs(np.asarray(mx, dtype=np.float64) - np.asarray(mn, dtype=np.float64))))
        key = "scale-nonfinite:overflow" if big > 3.0e38 else "scale-nonfinite"
        ctx.fail("scale is not finite", replay, key)
        return False
    if not np.all(scale > 0):
        ctx.fail("scale is not positive", replay, "scale-nonpositive")
        return False
    if np.any(zp < lo) or np.any(zp > hi):
        ctx.fail("zero point outside the integer range", replay, "zp-out-of-range")
        return False
    if sym and np.any(zp != 0):
        ctx.fail("symmetric zero point is not 0", replay, "sym-zp-nonzero")
        return False
    # coverage up to half a step (+ float slack): deq(qmin) <= min + s/2 , deq(qmax) >= max - s/2
    mnb, mxb, zb, sb = np.broadcast_arrays(np.asarray(mn), np.asarray(mx), zp, scale)
    for a, b, z, s in zip(mnb.flatten(), mxb.flatten(), zb.flatten(), sb.flatten()):
        s_, a_, b_ = fr(s), fr(a), fr(b)
        qlo, qhi = qrange(bits, sym)
        dlo, dhi = (qlo - int(z)) * s_, (qhi - int(z)) * s_
        tol = s_ * (Fraction(1, 2) + slack(bits))
        if dlo > a_ + tol or dhi < b_ - tol:
            ctx.fail("[min,max] not covered up to half a step", replay, "range-not-covered")
            return False
    return True


def oracle_quantize(ctx, x, p, q, replay, check_roundtrip=True):
    """C17: codes in (narrow) range, monotone, deq(q(x)) within half a step for in-range x."""
    bits = int(p.num_bits)
    lo, hi = qrange(bits, bool(p.symmetric))
    q = np.asarray(q)
    if q.size and (q.min() < lo or q.max() > hi):
        ctx.fail("quantized value outside the integer range", replay, "q-out-of-range")
        return False
    if not check_roundtrip:
        return True
    d = uqt.uniform_dequantize(q, p)
    if not finite(d):
        ctx.fail("dequantize(quantize(x)) is not finite for finite parameters", replay, "roundtrip-nonfinite")
        return False
    p2 = uqt.fix_quantization_params_rank(np.asarray(x), p)
    xb, db, sb, zb = np.broadcast_arrays(np.asarray(x), np.asarray(d), p2.scale, p2.zero_point)
    for xv, dv, s, z in zip(xb.flatten(), db.flatten(), sb.flatten(), zb.flatten()):
        s_ = fr(s)
        inlo, inhi = (lo - int(z)) * s_, (hi - int(z)) * s_
        xv_ = fr(xv)
        if inlo <= xv_ <= inhi:
            # half a step + the float error of x*inv (relative 3u on |x/s| <= 2^(bits-1)) and of d*s
            tol = s_ * (Fraction(1, 2) + slack(bits))
            if abs(fr(dv) - xv_) > tol:
                ctx.fail("dequantize(quantize(x)) is more than half a step from an in-range x", replay, "roundtrip-error")
                return False
    return True


def oracle_monotone(ctx, xs, qs, replay):
    order = np.argsort(xs, kind="stable")
    qq = np.asarray(qs)[order]
    if np.any(np.diff(qq.astype(np.int64)) < 0):
        ctx.fail("quantize is not monotone", replay, "not-monotone")
        return False
    return True
