"""Driving the real Quantizer end to end on generated models; canonical forms; independent oracles."""
from __future__ import annotations

import copy
import hashlib
import json
import multiprocessing as mp
import os
import re
import traceback

import numpy as np
from ai_edge_litert import schema_py_generated as s
from tensorflow.lite.tools import flatbuffer_utils

from . import fam_recipe as fr
from . import gen_models as gm

from ai_edge_quantizer import quantizer, recipe as recipe_mod  # noqa: E402

TT = s.TensorType
BO = s.BuiltinOperator
BO_NAME = {v: k for k, v in vars(BO).items() if not k.startswith("_")}
TT_NAME = {v: k for k, v in vars(TT).items() if not k.startswith("_")}
INT_TYPES = {TT.INT4, TT.INT8, TT.INT16, TT.INT32, TT.INT64}


def read(mb):
    m = flatbuffer_utils.read_model_from_bytearray(bytearray(mb))
    # the operator's code is the larger of builtin_code and deprecated_builtin_code (files written before TF 2.4 fill the latter only);
    # this is the TFLite schema's own rule (schema_utils GetBuiltinCode), applied here independently of the library (defect D43)
    for oc in m.operatorCodes:
        oc.builtinCode = max(int(oc.builtinCode), int(oc.deprecatedBuiltinCode))
    return m


def tname(t):
    return t.name.decode() if isinstance(t.name, (bytes, bytearray)) else str(t.name)


# --------------------------------------------------------------------------- recipes

SHIPPED = None


def shipped_recipes():
    global SHIPPED
    if SHIPPED is None:
        import glob, inspect
        rdir = os.path.join(os.path.dirname(recipe_mod.__file__), "recipes")
        SHIPPED = [(os.path.basename(f), json.load(open(f))) for f in sorted(glob.glob(os.path.join(rdir, "default_*.json")) + glob.glob(os.path.join(rdir, "dynamic_*.json")))]
        SHIPPED += [(n, fn()) for n, fn in inspect.getmembers(recipe_mod, inspect.isfunction) if fn.__module__ == recipe_mod.__name__ and not n.startswith("_")]
    return SHIPPED


ACCEPTED_CFGS = [c for n, c in fr.CFG_ALPHABET if n in ("wo8", "wo4a", "drq8", "drq4", "srq88", "srq168", "srq84", "fp16", "default")]
UNIFORM = {
    "a8w8": fr.cdesc(fr.tdesc(8, False), fr.tdesc(8, True, "CHANNELWISE"), "INTEGER"),
    "a8sw8t": fr.cdesc(fr.tdesc(8, True), fr.tdesc(8, True, "TENSORWISE"), "INTEGER"),
    "a16w8": fr.cdesc(fr.tdesc(16, True), fr.tdesc(8, True, "CHANNELWISE"), "INTEGER"),
    "a8w4": fr.cdesc(fr.tdesc(8, False), fr.tdesc(4, True, "CHANNELWISE"), "INTEGER"),
    "a16w4": fr.cdesc(fr.tdesc(16, True), fr.tdesc(4, True, "CHANNELWISE"), "INTEGER"),
    "a8sw4t": fr.cdesc(fr.tdesc(8, True), fr.tdesc(4, True, "TENSORWISE"), "INTEGER"),
    "drq8": fr.cdesc(None, fr.tdesc(8, True, "CHANNELWISE"), "INTEGER"),
    "drq4": fr.cdesc(None, fr.tdesc(4, True, "TENSORWISE"), "INTEGER"),
    "drq8t": fr.cdesc(None, fr.tdesc(8, True, "TENSORWISE"), "INTEGER"),
    "drq4c": fr.cdesc(None, fr.tdesc(4, True, "CHANNELWISE"), "INTEGER"),
    "wo8": fr.cdesc(None, fr.tdesc(8, True, "CHANNELWISE"), "FLOAT", True),
    "wo8a": fr.cdesc(None, fr.tdesc(8, False, "TENSORWISE"), "FLOAT", True),
    "wo4": fr.cdesc(None, fr.tdesc(4, True, "CHANNELWISE"), "FLOAT", True),
    "wo4a": fr.cdesc(None, fr.tdesc(4, False, "TENSORWISE"), "FLOAT", True),
}
FP16 = fr.cdesc(None, fr.tdesc(16, True, "TENSORWISE", "FLOAT"), "FLOAT", True)


def scopes_of(mb):
    m = read(mb)
    out = []
    for sg in m.subgraphs:
        for op in sg.operators:
            out.append("".join(tname(sg.tensors[t]) + ";" for t in op.outputs if t != -1))
    return out


def gen_recipe(rng, mb, kind=None):
    """returns list of add-commands (fam_recipe format)"""
    kind = kind or rng.choice(["uniform", "uniform", "mixed", "mixed", "mixed", "io"])
    names = [re.escape(n) for sc in scopes_of(mb) for n in sc.split(";") if n]
    def rx():
        r = rng.random()
        if r < 0.35 or not names:
            return ".*"
        n = rng.choice(names)
        return rng.choice([n, "^" + n, n + ";", n + "$", n[: max(1, len(n) // 2)], "^" + n + ";$", "zzz_nomatch"])
    cmds = []
    if kind == "uniform":
        name = rng.choice(list(UNIFORM))
        cmds.append({"k": "add", "regex": ".*", "operation": "*", "cfg": UNIFORM[name], "alg": "min_max_uniform_quantize"})
    elif kind == "io":
        base = rng.choice(["a8w8", "a16w8", "a8sw8t"])
        cmds.append({"k": "add", "regex": ".*", "operation": "*", "cfg": UNIFORM[base], "alg": "min_max_uniform_quantize"})
        for io in ("INPUT", "OUTPUT"):
            if rng.random() < 0.6:
                cmds.append({"k": "add", "regex": ".*", "operation": io, "cfg": None, "alg": "no_quantize"})
    elif kind == "mixed" and rng.random() < 0.25:
        # under ONE regex: a '*' rule that many ops do not support, followed by op-specific rules
        reg = rx()
        cmds.append({"k": "add", "regex": reg, "operation": "*", "cfg": UNIFORM[rng.choice(["drq8", "drq4", "wo8", "wo4"])], "alg": "min_max_uniform_quantize"})
        for _ in range(rng.randint(1, 3)):
            op = rng.choice([o for o in fr.OPS if o not in ("*", "CUSTOM_OP")])
            cmds.append({"k": "add", "regex": reg, "operation": op, "cfg": UNIFORM[rng.choice(["a8w8", "a16w8", "a8sw8t"])], "alg": "min_max_uniform_quantize"})
    elif kind == "mixed" and rng.random() < 0.2 and names:
        # a scope that is updated AGAIN after a narrower scope was added in between keeps its place in the scan order: a rule under
        # '.*', an exception for some tensors (no_quantize or another mode), then a rule for ANOTHER operator under '.*' again
        wide = rng.choice(["wo8", "drq8", "a8w8", "a16w8"])
        op1 = rng.choice(["*", "FULLY_CONNECTED", "FULLY_CONNECTED", "CONV_2D"])
        cmds.append({"k": "add", "regex": ".*", "operation": op1, "cfg": UNIFORM[wide], "alg": "min_max_uniform_quantize"})
        n = rng.choice(names)
        narrow = rng.choice([n, "^" + n, n[: max(1, len(n) // 2)]])
        if rng.random() < 0.6:
            cmds.append({"k": "add", "regex": narrow, "operation": rng.choice(["*", "FULLY_CONNECTED"]), "cfg": None, "alg": "no_quantize"})
        else:
            cmds.append({"k": "add", "regex": narrow, "operation": "*", "cfg": UNIFORM[rng.choice(["wo4", "drq4", "a8sw8t"])], "alg": "min_max_uniform_quantize"})
        op3 = rng.choice([o for o in ("CONV_2D", "BATCH_MATMUL", "EMBEDDING_LOOKUP", "DEPTHWISE_CONV_2D", "FULLY_CONNECTED") if o != op1])
        cmds.append({"k": "add", "regex": ".*", "operation": op3, "cfg": UNIFORM[rng.choice(["wo8", "drq8"])], "alg": "min_max_uniform_quantize"})
    else:
        for _ in range(rng.randint(1, 5)):
            r = rng.random()
            if r < 0.15:
                cmds.append({"k": "add", "regex": rx(), "operation": rng.choice(["*"] + fr.OP_ALPHABET), "cfg": None, "alg": "no_quantize"})
            elif r < 0.25:
                cmds.append({"k": "add", "regex": rx(), "operation": rng.choice(["*", "FULLY_CONNECTED", "CONV_2D", "EMBEDDING_LOOKUP", "DEPTHWISE_CONV_2D", "CONV_2D_TRANSPOSE"]), "cfg": FP16, "alg": "float_casting"})
            else:
                op = rng.choice(["*", "*"] + [o for o in fr.OPS if o != "*"])
                cmds.append({"k": "add", "regex": rx(), "operation": op, "cfg": UNIFORM[rng.choice(list(UNIFORM))], "alg": "min_max_uniform_quantize"})
    if rng.random() < 0.25:
        # the configs spelt with STRINGS where the API also takes enum members (what from_dict / a recipe file delivers)
        for c in cmds:
            c["use_enum"] = False
    return cmds


def apply_recipe(q, cmds):
    """returns number of accepted commands"""
    n = 0
    for c in cmds:
        if c.get("k") == "quantize":   # history noise: an earlier quantize() on the same object (result and errors ignored)
            try:
                q.quantize()
            except Exception:  # noqa: BLE001
                pass
            continue
        try:
            cfg = None if c["cfg"] is None else fr.mk_cfg(c["cfg"], c.get("use_enum", True))
            q.update_quantization_recipe(c["regex"], c["operation"], cfg, c["alg"])
            n += 1
            c["accepted"] = True
        except ValueError:
            c["accepted"] = False
    return n


_CAL_CALLS = [0]


def calibrate_all(q, data, previous=None):
    cr = previous
    _CAL_CALLS[0] += 1
    for sig, samples in data.items():
        if _CAL_CALLS[0] % 4 == 0:
            samples = (x for x in list(samples))   # every fourth session hands the dataset over as a one-shot generator
        if len(data) == 1 and sig != "serving_default":
            # a model with a single signature may be calibrated without naming it (documented default), whatever its key
            cr = q.calibrate(samples, previous_calibration_result=cr)
        else:
            cr = q.calibrate(samples, signature_key=sig, previous_calibration_result=cr)
    return cr


def run_quantize(mb, cmds=None, recipe=None, data=None):
    """('ok', bytes, cr) | ('raise', class name, tb)"""
    try:
        q = quantizer.Quantizer(mb, copy.deepcopy(recipe) if recipe is not None else None)
        if cmds:
            apply_recipe(q, cmds)
        if not q.get_quantization_recipe():
            return ("empty", None, None)
        cr = None
        if q.need_calibration:
            cr = calibrate_all(q, data)
        res = q.quantize(cr)
        return ("ok", bytes(res.quantized_model), cr)
    except Exception as e:  # noqa: BLE001
        return ("raise", type(e).__name__, traceback.format_exc()[-1500:])


# --------------------------------------------------------------------------- canonical form & well-formedness

def quant_tuple(t):
    qz = t.quantization
    if qz is None or qz.scale is None or len(qz.scale) == 0:
        return None
    return {"scale": [float(np.float32(x)).hex() for x in qz.scale], "zp": [int(z) for z in (qz.zeroPoint if qz.zeroPoint is not None else [])],
            "qdim": int(qz.quantizedDimension)}


def canon(mb, with_data=True, with_version=False):
    m = read(mb)
    out = {"subgraphs": [], "signatures": []}
    for sg in m.subgraphs:
        tens = {}
        for t in sg.tensors:
            b = m.buffers[t.buffer]
            data = None if b.data is None else bytes(np.asarray(b.data, dtype=np.uint8).tobytes())
            tens[tname(t)] = {"dtype": TT_NAME.get(t.type, t.type), "shape": [int(x) for x in (t.shape if t.shape is not None else [])],
                              "q": quant_tuple(t), "data": None if data is None else (hashlib.sha256(data).hexdigest()[:16] if with_data else len(data))}
        ops = []
        for op in sg.operators:
            code = m.operatorCodes[op.opcodeIndex].builtinCode
            ops.append({"op": BO_NAME.get(code, code), "in": [tname(sg.tensors[i]) if i != -1 else None for i in op.inputs],
                        "out": [tname(sg.tensors[i]) if i != -1 else None for i in op.outputs]})
            if with_version:   # the whole operator-code record the operator resolves to, not only its builtin code
                oc = m.operatorCodes[op.opcodeIndex]
                ops[-1]["code"] = [int(oc.builtinCode), int(oc.deprecatedBuiltinCode), int(oc.version), (oc.customCode or b"").decode("latin1")]
        out["subgraphs"].append({"tensors": tens, "ops": ops, "inputs": [tname(sg.tensors[i]) for i in sg.inputs],
                                 "outputs": [tname(sg.tensors[i]) for i in sg.outputs]})
    for sd in (m.signatureDefs or []):
        sg = m.subgraphs[sd.subgraphIndex]
        out["signatures"].append({"key": sd.signatureKey.decode(), "sg": int(sd.subgraphIndex),
                                  "inputs": [(tm.name.decode(), tname(sg.tensors[tm.tensorIndex])) for tm in sd.inputs],
                                  "outputs": [(tm.name.decode(), tname(sg.tensors[tm.tensorIndex])) for tm in sd.outputs]})
    return out


def wf_violations(mb):
    """independent well-formedness checker of C01 on serialized bytes"""
    v = []
    try:
        m = read(mb)
    except Exception as e:  # noqa: BLE001
        return [f"does not parse: {type(e).__name__}"]
    nb, nc = len(m.buffers), len(m.operatorCodes)
    for si, sg in enumerate(m.subgraphs):
        nt = len(sg.tensors)
        names = [tname(t) for t in sg.tensors]
        if len(set(names)) != len(names):
            dup = sorted({n for n in names if names.count(n) > 1})
            v.append(f"sg{si}: duplicate tensor names {dup[:3]}")
        for ti, t in enumerate(sg.tensors):
            if not (0 <= t.buffer < nb):
                v.append(f"sg{si}: tensor {ti} buffer index out of range")
        producers = {}
        const = {ti for ti, t in enumerate(sg.tensors) if m.buffers[t.buffer].data is not None} if all(0 <= t.buffer < nb for t in sg.tensors) else set()
        avail = set(int(i) for i in sg.inputs) | const
        for oi, op in enumerate(sg.operators):
            if not (0 <= op.opcodeIndex < nc):
                v.append(f"sg{si}: op {oi} opcode index out of range")
            for i in op.inputs:
                if i == -1:
                    continue
                if not (0 <= i < nt):
                    v.append(f"sg{si}: op {oi} input index out of range")
                elif i not in avail:
                    v.append(f"sg{si}: op {oi} reads tensor {i} ({names[i]}) before it is produced")
            for o in op.outputs:
                if o == -1:
                    continue
                if not (0 <= o < nt):
                    v.append(f"sg{si}: op {oi} output index out of range")
                    continue
                if o in producers:
                    v.append(f"sg{si}: tensor {o} has two producers")
                if o in const or o in set(int(i) for i in sg.inputs):
                    v.append(f"sg{si}: tensor {o} is produced but is an input/constant")
                producers[o] = oi
                avail.add(o)
        for i in list(sg.inputs) + list(sg.outputs):
            if not (0 <= i < nt):
                v.append(f"sg{si}: graph input/output index out of range")
        for o in sg.outputs:
            if 0 <= o < nt and o not in avail:
                v.append(f"sg{si}: graph output {o} is never produced")
    for sd in (m.signatureDefs or []):
        if not (0 <= sd.subgraphIndex < len(m.subgraphs)):
            v.append("signature subgraph index out of range")
            continue
        nt = len(m.subgraphs[sd.subgraphIndex].tensors)
        for tm in list(sd.inputs or []) + list(sd.outputs or []):
            if not (0 <= tm.tensorIndex < nt):
                v.append("signature tensor index out of range")
    return v


def skeleton_violations(mb_in, mb_out):
    """independent oracle of C02: erase inserted Q/DQ ops, map derived tensors back, compare with the input graph."""
    v = []
    mi, mo = read(mb_in), read(mb_out)
    if len(mi.subgraphs) != len(mo.subgraphs):
        return ["number of subgraphs changed"]
    for si, (gi, go) in enumerate(zip(mi.subgraphs, mo.subgraphs)):
        n0 = len(gi.tensors)
        if len(go.tensors) < n0:
            v.append(f"sg{si}: tensors dropped")
            continue
        for ti in range(n0):
            a, b = gi.tensors[ti], go.tensors[ti]
            if tname(a) != tname(b):
                v.append(f"sg{si}: tensor {ti} renamed {tname(a)} -> {tname(b)}")
            if list(a.shape if a.shape is not None else []) != list(b.shape if b.shape is not None else []):
                v.append(f"sg{si}: tensor {ti} reshaped")
            sa, sb = getattr(a, "shapeSignature", None), getattr(b, "shapeSignature", None)
            if list(sa if sa is not None else []) != list(sb if sb is not None else []):
                v.append(f"sg{si}: tensor {ti} ({tname(a)}) has another shape signature ({list(sb) if sb is not None else None} instead of "
                         f"{list(sa) if sa is not None else None}: dynamic dimensions are part of the tensor's shape)")
        # derived-from map through inserted ops
        root = {}
        kept = []
        for op in go.operators:
            code = mo.operatorCodes[op.opcodeIndex].builtinCode
            if code in (BO.QUANTIZE, BO.DEQUANTIZE) and len(op.outputs) == 1 and op.outputs[0] >= n0:
                src = op.inputs[0]
                root[op.outputs[0]] = root.get(src, src)
            else:
                kept.append(op)
        def r(i):
            return root.get(i, i)
        if len(kept) != len(gi.operators):
            v.append(f"sg{si}: {len(gi.operators)} original ops but {len(kept)} remain after erasing inserted Q/DQ")
            continue
        for oi, (a, b) in enumerate(zip(gi.operators, kept)):
            ca, cb = mi.operatorCodes[a.opcodeIndex].builtinCode, mo.operatorCodes[b.opcodeIndex].builtinCode
            if ca != cb:
                v.append(f"sg{si}: op {oi} changed from {BO_NAME.get(ca)} to {BO_NAME.get(cb)}")
            if [int(x) for x in a.inputs] != [int(r(x)) for x in b.inputs]:
                v.append(f"sg{si}: op {oi} ({BO_NAME.get(ca)}) operands rewired: {list(a.inputs)} -> {[int(r(x)) for x in b.inputs]}")
            if [int(x) for x in a.outputs] != [int(r(x)) for x in b.outputs]:
                v.append(f"sg{si}: op {oi} results rewired")
            if a.builtinOptionsType != b.builtinOptionsType or _opts(a) != _opts(b):
                v.append(f"sg{si}: op {oi} options changed")
        if [int(x) for x in gi.inputs] != [int(x) for x in go.inputs]:
            v.append(f"sg{si}: graph inputs changed")
        if [int(x) for x in gi.outputs] != [int(r(x)) for x in go.outputs]:
            v.append(f"sg{si}: graph outputs do not denote the original tensors: {list(gi.outputs)} -> {[int(r(x)) for x in go.outputs]}")
        for k, (a, b) in enumerate(zip(gi.outputs, go.outputs)):
            ta, tb = gi.tensors[a], go.tensors[b]
            if list(ta.shape) != list(tb.shape):
                v.append(f"sg{si}: output {k} shape changed")
    si_, so_ = mi.signatureDefs or [], mo.signatureDefs or []
    if len(si_) != len(so_):
        v.append("number of signatures changed")
    for a, b in zip(si_, so_):
        if a.signatureKey != b.signatureKey or a.subgraphIndex != b.subgraphIndex:
            v.append("signature key/subgraph changed")
            continue
        go = mo.subgraphs[b.subgraphIndex]
        if [tm.name for tm in a.inputs] != [tm.name for tm in b.inputs] or [tm.name for tm in a.outputs] != [tm.name for tm in b.outputs]:
            v.append("signature argument names changed")
        gi = mi.subgraphs[a.subgraphIndex]
        # each signature entry denotes the same position of the subgraph io list as before
        for ta, tb in zip(a.inputs, b.inputs):
            pos = [k for k, x in enumerate(gi.inputs) if x == ta.tensorIndex]
            if pos and go.inputs[pos[0]] != tb.tensorIndex:
                v.append(f"signature input {ta.name.decode()} no longer denotes subgraph input {pos[0]}")
        for ta, tb in zip(a.outputs, b.outputs):
            pos = [k for k, x in enumerate(gi.outputs) if x == ta.tensorIndex]
            if pos and go.outputs[pos[0]] != tb.tensorIndex:
                v.append(f"signature output {ta.name.decode()} no longer denotes subgraph output {pos[0]} (tensor {tb.tensorIndex} vs {go.outputs[pos[0]]})")
    return v


def _opts(op):
    o = op.builtinOptions
    if o is None:
        return None
    return {k: (list(v) if isinstance(v, (list, np.ndarray)) else v) for k, v in vars(o).items()}


# --------------------------------------------------------------------------- interpreter in a sandboxed child

def _worker(conn):
    import warnings
    warnings.filterwarnings("ignore")
    os.environ["TF_CPP_MIN_LOG_LEVEL"] = "3"
    import numpy as np  # noqa: F811
    from ai_edge_litert import interpreter as tfl
    while True:
        try:
            task = conn.recv()
        except EOFError:
            return
        if task is None:
            return
        mb, data, want_all = task
        try:
            it = tfl.Interpreter(model_content=mb, experimental_preserve_all_tensors=bool(want_all),
                                 experimental_op_resolver_type=tfl.OpResolverType.BUILTIN_WITHOUT_DEFAULT_DELEGATES)
            it.allocate_tensors()
            outs = {}
            for sig, samples in data.items():
                runner = it.get_signature_runner(sig)
                res = []
                for smp in samples:
                    feed = {}
                    det = runner.get_input_details()
                    for k, v in smp.items():
                        d = det[k]
                        if len(d["quantization_parameters"]["scales"]) and v.dtype == np.float32:
                            sc = d["quantization_parameters"]["scales"][0]
                            zp = d["quantization_parameters"]["zero_points"][0]
                            info = np.iinfo(d["dtype"])
                            v = np.clip(np.rint(v / sc + zp), info.min, info.max).astype(d["dtype"])
                        feed[k] = v
                    o = runner(**feed)
                    od = runner.get_output_details()
                    r = {}
                    for k, val in o.items():
                        qp = od[k]["quantization_parameters"]
                        if len(qp["scales"]):
                            val = (val.astype(np.float64) - qp["zero_points"][0]) * qp["scales"][0]
                        r[k] = np.asarray(val)
                    if want_all:
                        sgi = runner._subgraph_index
                        allt = {}
                        for td in it.get_tensor_details(sgi):
                            try:
                                allt[td["name"]] = np.array(it.get_tensor(td["index"], sgi))
                            except Exception:  # noqa: BLE001
                                pass
                        r["__all__"] = allt
                    res.append(r)
                outs[sig] = res
            conn.send(("ok", outs))
        except Exception as e:  # noqa: BLE001
            conn.send(("error", f"{type(e).__name__}: {str(e)[:300]}"))


def abort_class(mb):
    """structural cause of a runtime CHECK failure (process abort) that can be read off the model: an integer ADD/SUB whose
    output scale is so much smaller than its input scales that the kernel's output multiplier 2*max(s1,s2)/(2^left_shift*s_out)
    is >= 1 (left_shift = 15 for int16, 20 for int8), which the runtime asserts against"""
    try:
        m = read(mb)
        for sg in m.subgraphs:
            for op in sg.operators:
                name = BO_NAME.get(m.operatorCodes[op.opcodeIndex].builtinCode)
                if name not in ("ADD", "SUB") or len(op.inputs) != 2 or len(op.outputs) != 1:
                    continue
                ts = [sg.tensors[i] for i in list(op.inputs) + list(op.outputs)]
                qs = [t.quantization for t in ts]
                if any(q is None or q.scale is None or len(q.scale) != 1 for q in qs):
                    continue
                ty = ts[2].type
                if ty not in (TT.INT16, TT.INT8):
                    continue
                ls = 15 if ty == TT.INT16 else 20
                mult = 2.0 * max(float(qs[0].scale[0]), float(qs[1].scale[0])) / ((1 << ls) * float(qs[2].scale[0]))
                if mult >= 1.0:
                    return f"{name}:int{16 if ty == TT.INT16 else 8}-output-multiplier>=1"
                if ty == TT.INT16:
                    # the schema default pot_scale_int16 = true is kept (finding D26): when all three scales are within 1e-3 (log2) of
                    # powers of two the kernel takes its power-of-two path, whose shift arithmetic is only meant for EXACT powers of two
                    import math
                    logs = [math.log2(float(q.scale[0])) for q in qs]
                    if all(abs(v - round(v)) < 1e-3 for v in logs):
                        return f"{name}:int16-pot-scale-path"
    except Exception:  # noqa: BLE001
        return None
    return None


def to_external_form(mb):
    """the same model with every constant stored OUTSIDE the flatbuffer (Buffer.offset/size pointing behind it, 16-byte aligned):
    written here independently of the library's serializer — two passes, because the offsets depend on the flatbuffer's length"""
    m = read(mb)
    datas = {}
    for i, b in enumerate(m.buffers):
        if b.data is not None and len(b.data) > 0:
            datas[i] = bytes(np.asarray(b.data, dtype=np.uint8).tobytes())
            b.data = None
            b.offset, b.size = 1, 1          # placeholders: non-default so that the fields are written
    if not datas:
        return mb
    first = bytes(flatbuffer_utils.convert_object_to_bytearray(m))
    pos = len(first)
    pos += (-pos) % 16
    for i in sorted(datas):
        m.buffers[i].offset, m.buffers[i].size = pos, len(datas[i])
        pos += len(datas[i])
        pos += (-pos) % 16
    out = bytearray(flatbuffer_utils.convert_object_to_bytearray(m))
    if len(out) != len(first):
        raise ValueError("flatbuffer length changed between the two passes")
    for i in sorted(datas):
        out += b"\0" * ((-len(out)) % 16)
        assert len(out) == m.buffers[i].offset
        out += datas[i]
    return bytes(out)


def _int4_bmm_rhs(mb):
    try:
        m = read(mb)
        for sg in m.subgraphs:
            for op in sg.operators:
                if BO_NAME.get(m.operatorCodes[op.opcodeIndex].builtinCode) == "BATCH_MATMUL" and len(op.inputs) == 2 \
                        and sg.tensors[op.inputs[1]].type == TT.INT4:
                    return True
    except Exception:  # noqa: BLE001
        pass
    return False


def interp_err_class(r, mb=None):
    """call-site class of an interpreter failure: kernel file + failed condition, digits masked"""
    if isinstance(r, tuple) and r[0] == "abort" and mb is not None:
        return "abort:" + (abort_class(mb) or "unclassified")
    msg = re.sub(r"\d+", "N", str(r[1] if isinstance(r, tuple) else r))
    msg = msg.replace("RuntimeError: ", "")
    if mb is not None and (("conv.cc" in msg and "zero_point" in msg) or ("transpose_conv.cc" in msg and "weights->type" in msg)):
        # finding D39: the kernel refuses a RUNTIME weight tensor quantized like an activation
        try:
            from . import fam_numeric as _fn
            m_ = read(mb)
            vs = [_fn.op_variant(m_, sg, op) for sg in m_.subgraphs for op in sg.operators]
            hit = [v for v in vs if "runtime-weight" in v]
            if hit:
                return (str(r[0]) + ":" if isinstance(r, tuple) else "") + hit[0]
        except Exception:  # noqa: BLE001
            pass
    if mb is not None and "kernel_util.cc" in msg and "scale_diff / output_scale" in msg:
        # finding D44 (see fam_numeric.op_variant)
        try:
            from . import fam_numeric as _fn
            m_ = read(mb)
            hit = [v for v in (_fn.op_variant(m_, sg, op) for sg in m_.subgraphs for op in sg.operators) if "bias-scale-check-vs-tiny-output-scale" in v]
            if hit:
                return (str(r[0]) + ":" if isinstance(r, tuple) else "") + hit[0].split(":")[0] + ":bias-scale-check-vs-tiny-output-scale"
        except Exception:  # noqa: BLE001
            pass
    if mb is not None and "batch_matmul.cc" in msg and "lhs_data->type" in msg:
        # finding D42: BATCH_MATMUL reading a constant LEFT operand that was stored as int8 next to a float32 / int16 right operand
        try:
            from . import fam_numeric as _fn
            m_ = read(mb)
            hit = [v for v in (_fn.op_variant(m_, sg, op) for sg in m_.subgraphs for op in sg.operators) if v.startswith("BATCH_MATMUL:const-lhs")]
            if hit:
                return (str(r[0]) + ":" if isinstance(r, tuple) else "") + hit[0]
        except Exception:  # noqa: BLE001
            pass
    if "batch_matmul.cc" in msg and "rhs_data->type" in msg and mb is not None and _int4_bmm_rhs(mb):
        # finding D37: the emulated sub-channel pattern hands a 4-bit constant to BATCH_MATMUL, whose kernel takes float32/int8/int16 only
        return (str(r[0]) + ":" if isinstance(r, tuple) else "") + "BATCH_MATMUL:int4-rhs"
    return (str(r[0]) + ":" if isinstance(r, tuple) else "") + msg[:70]


class Interp:
    """persistent child process; an abort of the child is observed, not suffered."""

    def __init__(self):
        self.ctx = mp.get_context("spawn")
        self.proc = None
        self.start()

    def start(self):
        self.parent, child = self.ctx.Pipe()
        self.proc = self.ctx.Process(target=_worker, args=(child,), daemon=True)
        self.proc.start()
        child.close()

    def run(self, mb, data, want_all=False, timeout=60):
        try:
            self.parent.send((bytes(mb), data, want_all))
            if not self.parent.poll(timeout):
                self.proc.kill()
                self.start()
                return ("timeout", None)
            return self.parent.recv()
        except (EOFError, BrokenPipeError, ConnectionResetError):
            code = self.proc.exitcode
            self.start()
            return ("abort", f"interpreter process died (exit code {code})")

    def close(self):
        try:
            self.parent.send(None)
            self.proc.join(timeout=5)
        except Exception:  # noqa: BLE001
            pass
        if self.proc.is_alive():
            self.proc.kill()
