"""Executed numerical oracles (C06, C07, runtime half of C13): interpreter(quantized) vs interpreter(reference).
These are supporting executions of runtime behaviour the Lean model cannot exhibit; never a proof."""
from __future__ import annotations

import copy

import numpy as np
from ai_edge_litert import schema_py_generated as s
from tensorflow.lite.tools import flatbuffer_utils

from . import oracles as orc
from . import pipeline as pl

TT = s.TensorType
BO = s.BuiltinOperator


def reference_model(mb_in, mb_out):
    """the INPUT float model in which every constant the quantizer rewrote is replaced by its dequantized
    value (decoded from the OUTPUT model by the independent decoder)"""
    mi, mo = pl.read(mb_in), pl.read(mb_out)
    ref = copy.deepcopy(mi)
    changed = 0
    for si, (gi, go) in enumerate(zip(mi.subgraphs, mo.subgraphs)):
        for ti, orig in enumerate(gi.tensors):
            if orig.type != TT.FLOAT32 or mi.buffers[orig.buffer].data is None:
                continue
            cur = go.tensors[ti]
            if cur.type == TT.FLOAT32:
                continue
            vals, err = orc.decode_const(mo, cur)
            if err or vals is None:
                return None, f"cannot decode {pl.tname(orig)}: {err}"
            if cur.type == TT.FLOAT16:
                deq = vals
            else:
                try:
                    deq, _ = orc.dequant(vals, cur)
                except ValueError as e:
                    return None, str(e)
            arr = np.asarray(deq, dtype=np.float32).reshape([int(x) for x in orig.shape])
            nb = s.BufferT()
            nb.data = np.frombuffer(arr.tobytes(), dtype=np.uint8)
            ref.buffers.append(nb)
            ref.subgraphs[si].tensors[ti].buffer = len(ref.buffers) - 1
            changed += 1
    return bytes(flatbuffer_utils.convert_object_to_bytearray(ref)), changed


def modes_in(q, mb):
    """set of resolved modes over the supported ops of the model"""
    m = pl.read(mb)
    out = set()
    for sg in m.subgraphs:
        for op in sg.operators:
            key = orc.op_key_of(m.operatorCodes[op.opcodeIndex].builtinCode)
            if key is None:
                continue
            scope = "".join(pl.tname(sg.tensors[t]) + ";" for t in op.outputs if t != -1)
            out.add(orc.mode_of(q, key, scope)[0])
        a, _ = orc.resolve(q, "INPUT", "".join(pl.tname(sg.tensors[t]) + ";" for t in sg.inputs))
        b, _ = orc.resolve(q, "OUTPUT", "")
        for x in (a, b):
            if str(getattr(x, "value", x)) != "no_quantize":
                out.add("io")
    return out


def outputs_of(interp, mb, data, ctx=None):
    r = interp.run(mb, data)
    if ctx is not None:
        ctx.interp_runs += 1
    return r


def op_variant(m, sg, op):
    """the call-site class of an operator: op name + the structural facts known findings are keyed on"""
    code = m.operatorCodes[op.opcodeIndex].builtinCode
    name = pl.BO_NAME.get(code, str(code))
    var = []
    ins = [sg.tensors[i] if i != -1 else None for i in op.inputs]
    if name == "EMBEDDING_LOOKUP" and len(ins) > 1 and ins[1] is not None:
        t = ins[1]
        if t.type == TT.INT4 and t.shape is not None and len(t.shape) and int(t.shape[-1]) % 2 == 1:
            var.append("int4-odd-row")
    if name == "BATCH_MATMUL" and len(ins) > 1 and ins[0] is not None and m.buffers[ins[0].buffer].data is not None \
            and ins[0].type in (TT.INT8, TT.INT4, TT.INT16):
        # finding D42: a constant LEFT operand stored as an integer tensor (quantized with the weight config) and read directly by the
        # operator (under weight-only the operator reads the DEQUANTIZE result, a float tensor, and this does not apply)
        qz0 = ins[0].quantization
        var.append("const-lhs-perchannel" if qz0 is not None and qz0.scale is not None and len(qz0.scale) > 1 else "const-lhs")
    if name == "BATCH_MATMUL" and len(ins) > 1 and ins[1] is not None:
        t = ins[1]
        qz = t.quantization
        if m.buffers[t.buffer].data is not None and qz is not None and qz.scale is not None and len(qz.scale) > 1:
            var.append("channelwise-const-rhs")
    if name == "DEPTHWISE_CONV_2D" and len(ins) > 1 and ins[0] is not None and ins[1] is not None:
        t = ins[1]
        qz = t.quantization
        if (ins[0].type == TT.FLOAT32 and t.type in (TT.INT8, TT.INT4) and qz is not None and qz.scale is not None and len(qz.scale) == 1
                and t.shape is not None and len(t.shape) == 4 and int(t.shape[3]) > 1):
            var.append("hybrid-tensorwise")
    if name in ("CONV_2D", "DEPTHWISE_CONV_2D", "TRANSPOSE_CONV", "FULLY_CONNECTED") and len(ins) > 1 and ins[1] is not None:
        # finding D39: a weight operand that is a RUNTIME tensor (no buffer contents) stored as an integer was quantized like an activation
        # (asymmetric per-tensor int8 / int16), which the integer kernels of these operators do not take
        t = ins[1]
        if m.buffers[t.buffer].data is None and t.type in (TT.INT8, TT.INT16):
            var.append("runtime-weight-int8" if t.type == TT.INT8 else "runtime-weight-int16")
    for t in ins:
        if t is None or t.type not in (TT.INT32, TT.INT64) or m.buffers[t.buffer].data is None:
            continue
        qz = t.quantization
        if qz is None or qz.scale is None or not len(qz.scale):
            continue
        dt = np.int32 if t.type == TT.INT32 else np.int64
        v = np.frombuffer(np.asarray(m.buffers[t.buffer].data, dtype=np.uint8).tobytes(), dtype=dt)
        if v.size and int(np.max(np.abs(v.astype(np.float64)))) >= np.iinfo(dt).max - 1:
            var.append("bias-saturated")
            # finding D25 is about weights whose OWN range is tiny; the reference formulas never give a weight a scale below
            # (range floor 1e-4) / qmax -- a smaller one is another matter and must not hide behind D25
            w = ins[1] if len(ins) > 1 else None
            wq = None if w is None else w.quantization
            if wq is not None and wq.scale is not None and len(wq.scale) and w.type in (TT.INT8, TT.INT4):
                qmax = 127 if w.type == TT.INT8 else 7
                if float(np.min(np.asarray(wq.scale, dtype=np.float64))) < (1e-4 / qmax) * (1 - 1e-3):
                    var.append("weight-scale-below-the-range-floor")
    if "bias-saturated" not in var and name in ("CONV_2D", "DEPTHWISE_CONV_2D", "TRANSPOSE_CONV", "FULLY_CONNECTED"):
        # the kernel's fixed-point output multiplier input_scale*weight_scale/output_scale: TFLite's QuantizeMultiplier flushes a
        # multiplier below 2^-32 to ZERO (shift < -31), so the channel's output is the zero point whatever the accumulator holds
        x = ins[2] if name == "TRANSPOSE_CONV" and len(ins) > 2 else ins[0]
        w = ins[1] if len(ins) > 1 else None
        y = sg.tensors[op.outputs[0]] if len(op.outputs) else None

        def sc(t):
            qz = None if t is None else t.quantization
            return None if qz is None or qz.scale is None or not len(qz.scale) else np.asarray(qz.scale, dtype=np.float64)
        sx, sw, sy = sc(x), sc(w), sc(y)
        b_ = ins[3] if name == "TRANSPOSE_CONV" and len(ins) > 3 else (ins[2] if name != "TRANSPOSE_CONV" and len(ins) > 2 else None)
        sb = sc(b_)
        if sx is not None and sw is not None and sy is not None and sb is not None and len(sb) == len(sw) and np.all(sy > 0):
            # finding D44: the kernels check |input_scale*filter_scale - bias_scale| / output_scale <= 0.02 in double precision; the bias scale is
            # the float32 PRODUCT, so its rounding error (~1e-7 relative) fails the check once the output scale is ~1e5 times smaller than the
            # product -- an output whose calibrated range is degenerate (constant 0: scale at the range floor) next to ordinary operands
            if float(np.max(np.abs(sx[0] * sw - sb) / sy[0])) > 0.02:
                var.append("bias-scale-check-vs-tiny-output-scale")
        if sx is not None and sw is not None and sy is not None and x.type in (TT.INT8, TT.INT16) and np.all(sy > 0):
            if float(np.min(sx[0] * sw / sy[0])) < 2.0 ** -32:
                var.append("multiplier-underflow")
    return name + (":" + ",".join(var) if var else "")


def _deq_all(m, sg, allt):
    out = {}
    for t in sg.tensors:
        n = pl.tname(t)
        if n not in allt:
            continue
        v = np.asarray(allt[n])
        qz = t.quantization
        if qz is not None and qz.scale is not None and len(qz.scale) == 1 and v.dtype.kind == "i":
            zp = int(qz.zeroPoint[0]) if qz.zeroPoint is not None and len(qz.zeroPoint) else 0
            v = (v.astype(np.float64) - zp) * float(qz.scale[0])
        elif v.dtype.kind != "f":
            continue
        out[n] = v.astype(np.float64)
    return out


def localise(interp, mb_q, mb_ref, data, tol, ctx=None, constant=False):
    """first operator of the quantized model whose (dequantized) result leaves the tolerance although its
    operands are within it; returns its call-site class or None. With `constant`, "leaves the tolerance" also covers a
    result that is constant although the reference result is not."""
    a = interp.run(mb_q, data, want_all=True)
    b = interp.run(mb_ref, data, want_all=True)
    if ctx is not None:
        ctx.interp_runs += 2
    if a[0] != "ok" or b[0] != "ok":
        return None
    mq, mr = pl.read(mb_q), pl.read(mb_ref)
    first_any = None
    for sig in a[1]:
        ra, rb = a[1][sig][0].get("__all__"), b[1][sig][0].get("__all__")
        if ra is None or rb is None:
            continue
        sd = [x for x in (mq.signatureDefs or []) if x.signatureKey.decode() == sig]
        si = sd[0].subgraphIndex if sd else 0
        sg = mq.subgraphs[si]
        va, vb = _deq_all(mq, sg, ra), _deq_all(mr, mr.subgraphs[si], rb)

        def bad(n):
            if n not in va or n not in vb or va[n].shape != vb[n].shape or vb[n].size == 0 or not np.all(np.isfinite(vb[n])):
                return False
            if not np.all(np.isfinite(va[n])):
                return True
            m_ = float(np.max(np.abs(vb[n])))
            if constant and vb[n].size > 1 and m_ > 1e-2 and np.ptp(vb[n]) > 0.5 * m_ and np.ptp(va[n]) == 0:
                return True
            return float(np.max(np.abs(va[n] - vb[n]))) > tol(m_)
        for op in sg.operators:
            outs = [pl.tname(sg.tensors[i]) for i in op.outputs if i != -1]
            if not any(n in vb for n in outs):
                continue  # inserted operator
            if any(bad(n) for n in outs):
                cls = op_variant(mq, sg, op)
                if first_any is None:
                    first_any = cls
                # a deviating CONSTANT operand (a clipped bias, a badly stored weight) is this operator's own call site, not an
                # upstream deviation: only runtime operands exonerate the operator
                ins = [pl.tname(sg.tensors[i]) for i in op.inputs if i != -1 and mq.buffers[sg.tensors[i].buffer].data is None]
                # operands produced through inserted ops carry derived names; compare what has a counterpart
                if not any(bad(n) for n in ins):
                    return cls
    return first_any


def producer_class(mb_q, sig, out_name):
    """call-site class of the original operator that computes signature output `out_name` (inserted Q/DQ skipped)"""
    m = pl.read(mb_q)
    sd = [x for x in (m.signatureDefs or []) if x.signatureKey.decode() == sig]
    if not sd:
        return None
    sg = m.subgraphs[sd[0].subgraphIndex]
    t = next((tm.tensorIndex for tm in sd[0].outputs if tm.name.decode() == out_name), None)
    for _ in range(4):
        op = next((o for o in sg.operators if t in list(o.outputs)), None)
        if op is None:
            return None
        name = pl.BO_NAME.get(m.operatorCodes[op.opcodeIndex].builtinCode)
        if name in ("QUANTIZE", "DEQUANTIZE") and len(op.inputs) == 1:
            t = op.inputs[0]
            continue
        return op_variant(m, sg, op)
    return None


def upstream_variant(mb_q, sig, out_name):
    """call-site class of the nearest operator upstream of signature output `out_name` that belongs to a structurally recognisable
    class (an `op_variant` with a ':' part), or None.  A deviation first seen at an ordinary operator downstream of such an operator is
    attributed to it (its own deviation may stay below the localisation tolerance and be amplified later)."""
    m = pl.read(mb_q)
    sd = [x for x in (m.signatureDefs or []) if x.signatureKey.decode() == sig]
    if not sd:
        return None
    sg = m.subgraphs[sd[0].subgraphIndex]
    start = next((tm.tensorIndex for tm in sd[0].outputs if tm.name.decode() == out_name), None)
    if start is None:
        return None
    prod = {o: op for op in sg.operators for o in op.outputs if o != -1}
    seen, frontier = set(), [start]
    while frontier:
        t = frontier.pop(0)
        if t in seen or t not in prod:
            continue
        seen.add(t)
        op = prod[t]
        v = op_variant(m, sg, op)
        if ":" in v:
            return v
        frontier += [i for i in op.inputs if i != -1]
    return None


def abs_magnitudes(interp, ref_mb, data, ctx=None):
    """output magnitudes of the reference model run on |inputs| with |constants|: the scale of the accumulated terms,
    which (unlike the output magnitude itself) does not shrink under cancellation"""
    m = pl.read(ref_mb)
    seen = set()
    for sg in m.subgraphs:
        for t in sg.tensors:
            b = m.buffers[t.buffer]
            if t.type == TT.FLOAT32 and b.data is not None and t.buffer not in seen:
                seen.add(t.buffer)
                a = np.abs(np.frombuffer(np.asarray(b.data, dtype=np.uint8).tobytes(), dtype=np.float32))
                b.data = np.frombuffer(a.tobytes(), dtype=np.uint8)
    # a difference of large terms is small but inherits their quantization error: in the magnitude model SUB adds
    sub_codes = [i for i, c in enumerate(m.operatorCodes) if c.builtinCode == BO.SUB]
    if sub_codes:
        add_idx = next((i for i, c in enumerate(m.operatorCodes) if c.builtinCode == BO.ADD), None)
        if add_idx is None:
            oc = s.OperatorCodeT()
            oc.builtinCode, oc.deprecatedBuiltinCode, oc.version = BO.ADD, BO.ADD, 1
            m.operatorCodes.append(oc)
            add_idx = len(m.operatorCodes) - 1
        for sg in m.subgraphs:
            for op in sg.operators:
                if op.opcodeIndex in sub_codes:
                    fa = getattr(op.builtinOptions, "fusedActivationFunction", 0) if op.builtinOptions is not None else 0
                    op.opcodeIndex = add_idx
                    op.builtinOptionsType = s.BuiltinOptions.AddOptions
                    op.builtinOptions = s.AddOptionsT()
                    op.builtinOptions.fusedActivationFunction = fa
    mb = bytes(flatbuffer_utils.convert_object_to_bytearray(m))
    d = {k: [{a: (np.abs(v) if v.dtype.kind == "f" else v) for a, v in smp.items()} for smp in v_] for k, v_ in data.items()}
    r = interp.run(mb, d)
    if ctx is not None:
        ctx.interp_runs += 1
    out = {}
    if r[0] == "ok":
        for sig in r[1]:
            for k, v in r[1][sig][0].items():
                v = np.asarray(v, dtype=np.float64)
                if v.size and np.all(np.isfinite(v)):
                    out[(sig, k)] = float(np.max(np.abs(v)))
    return out


def drq_dependent_outputs(q, mb):
    """(signature key, output name) pairs whose value depends on at least one operator resolved to dynamic-range mode;
    every other output is computed by float kernels only and must agree to float32 rounding"""
    m = pl.read(mb)
    dep = set()
    for sd in (m.signatureDefs or []):
        sg = m.subgraphs[sd.subgraphIndex]
        tainted = set()
        for op in sg.operators:
            key = orc.op_key_of(m.operatorCodes[op.opcodeIndex].builtinCode)
            hot = any(i in tainted for i in op.inputs if i != -1)
            if key is not None and not hot:
                scope = "".join(pl.tname(sg.tensors[t]) + ";" for t in op.outputs if t != -1)
                hot = orc.mode_of(q, key, scope)[0] == "drq"
            if hot:
                tainted.update(o for o in op.outputs if o != -1)
        for tm in sd.outputs:
            if tm.tensorIndex in tainted:
                dep.add((sd.signatureKey.decode(), tm.name.decode()))
    return dep


def _requested_granularities(q, mb, op_name):
    """weight granularities the exported recipe resolves for the operators of that kind (fresh resolution)"""
    from . import oracles as orc
    m = pl.read(mb)
    out = set()
    for sg in m.subgraphs:
        for op in sg.operators:
            if orc.op_key_of(m.operatorCodes[op.opcodeIndex].builtinCode) != op_name:
                continue
            scope = "".join(pl.tname(sg.tensors[t]) + ";" for t in op.outputs if t != -1)
            try:
                _alg, cfg = orc.resolve(q, op_name, scope)
                wc = cfg.weight_tensor_config
                if wc is not None:
                    out.add(str(getattr(wc.granularity, "value", wc.granularity)))
            except Exception:  # noqa: BLE001
                pass
    return out


def compare_float_modes(ctx, interp, case, res, fail):
    """C06: weight-only / float16 / dynamic-range models vs the float model with dequantized constants"""
    modes = modes_in(res["q"], case.mb) - {"none"}
    if not modes or not modes <= {"wo", "fp16", "drq"}:
        return
    ref, changed = reference_model(case.mb, res["out"])
    if ref is None:
        return fail("reference model cannot be built: " + str(changed), "no-reference")
    data = {k: v[:1] for k, v in case.data.items()}
    a = outputs_of(interp, res["out"], data, ctx)
    b = outputs_of(interp, ref, data, ctx)
    if a[0] != "ok":
        return fail(f"quantized model does not run: {a[0]} {str(a[1])[:120]}", "quantized-does-not-run:" + pl.interp_err_class(a, res["out"]))
    if b[0] != "ok":
        return
    ctx.tag("c06_" + "+".join(sorted(modes)))
    any_drq = "drq" in modes
    amag = abs_magnitudes(interp, ref, data, ctx) if any_drq else {}
    drq_outs = drq_dependent_outputs(res["q"], case.mb) if any_drq else set()
    for sig in a[1]:
        for ra, rb in zip(a[1][sig], b[1][sig]):
            for k in ra:
                if np.asarray(rb[k]).dtype == bool:
                    continue   # a mask flips when its operand moves across the threshold: no bound applies
                drq = (sig, k) in drq_outs   # outputs fed by weight-only / float16 / float operators only get the tight bound
                ya, yb = np.asarray(ra[k], dtype=np.float64), np.asarray(rb[k], dtype=np.float64)
                if not np.all(np.isfinite(yb)):
                    continue
                if not np.all(np.isfinite(ya)):
                    cls = producer_class(res["out"], sig, k)
                    return fail(f"output {k} is not finite although the reference is (computed by {cls})", f"c06-mismatch:{cls}")
                mag = float(np.max(np.abs(yb))) if yb.size else 0.0
                if drq:
                    mag = max(mag, amag.get((sig, k), 0.0))
                if drq:
                    # dynamic 8-bit activation quantization: generous end-to-end bound (a few percent of the magnitude per op)
                    # (the operator count of the subgraph THIS signature runs; alias signatures share their subgraph's entry)
                    n_ops = next((len(sg_["ops"]) for sg_ in case.info["subgraphs"] if sg_.get("sig") == sig),
                                 max(len(sg_["ops"]) for sg_ in case.info["subgraphs"]))
                    tol = 0.08 * mag * max(1, n_ops) + 1e-3
                else:
                    tol = 2e-4 * mag + 1e-5
                if ya.shape != yb.shape or np.max(np.abs(ya - yb)) > tol:
                    rel = (0.08 if drq else 2e-4)
                    floor = 0.08 * mag if drq else 0.0
                    cls = localise(interp, res["out"], ref, data, lambda mag_: max(rel * mag_, floor) + (1e-3 if drq else 1e-5), ctx)
                    if cls is None:
                        cls = producer_class(res["out"], sig, k)
                    if cls is None or ":" not in cls:
                        cls = upstream_variant(res["out"], sig, k) or cls
                    if cls and "hybrid-tensorwise" in cls and "TENSORWISE" not in _requested_granularities(res["q"], case.mb, "DEPTHWISE_CONV_2D"):
                        # finding D27 is about a TENSORWISE config; a per-tensor weight nobody asked for is another matter
                        cls += "!no-tensorwise-config"
                    return fail(f"output {k} differs from the float model with dequantized constants by "
                                f"{float(np.max(np.abs(ya - yb))):.4g} (tolerance {tol:.4g}, modes {sorted(modes)}, first operator off: {cls})",
                                f"c06-mismatch:{cls}")


def compare_static(ctx, interp, case, res, fail, max_ops=4):
    """C07: static-range models on the calibration input vs the float model"""
    modes = modes_in(res["q"], case.mb) - {"none"}
    if "srq" not in modes:
        return
    nops = max(len(sg["ops"]) for sg in case.info["subgraphs"])
    if "runtime_weight" in case.info.get("tags", ()):
        # the weight operand is a second quantized ACTIVATION: its rounding error enters the result like that of one more operator, and
        # the 'float model with the dequantized constants' has no dequantized weight to account for it
        nops += 3
    if nops > max_ops:
        return
    data = {k: v[:1] for k, v in case.data.items()}
    a = outputs_of(interp, res["out"], data, ctx)
    b = outputs_of(interp, case.mb, data, ctx)
    if a[0] != "ok":
        return fail(f"quantized model does not run: {a[0]} {str(a[1])[:120]}", "quantized-does-not-run:" + pl.interp_err_class(a, res["out"]))
    if b[0] != "ok":
        return
    ctx.tag("c07_checked")
    mo = pl.read(res["out"])
    amag = abs_magnitudes(interp, case.mb, data, ctx)
    types = {t.type for sg in mo.subgraphs for t in sg.tensors}
    abits, wbits = (16 if TT.INT16 in types else 8), (4 if TT.INT4 in types else 8)
    # Two comparisons. (1) against the float model: the statement's observable, with a loose relative term (4-bit weights alone may
    # move an output by 15 %). (2) against the float model with the DEQUANTIZED constants (built from the input model + independent
    # decoder): what remains is activation quantization and clipping to the ranges calibrated on the float model, so the bound is
    # "activation term + distance between the two float models"; this is what exposes a kernel reading the stored constants wrongly.
    # Constants being close to the originals is C05's oracle.
    # (4-bit weights: 15 levels for a whole tensor / channel -- a row of small weights vanishes altogether and its output is the bias alone,
    # so against the FLOAT model the deviation can reach the magnitude itself; the comparison with the stored-constants model below stays tight)
    c_float = {(8, 8): 0.2, (16, 8): 0.2, (8, 4): 1.0, (16, 4): 1.0}[(abits, wbits)]
    c_ref = 0.06 if abits == 8 else 0.015
    ref, why_ = reference_model(case.mb, res["out"])
    if ref is None and isinstance(why_, str) and why_.startswith("cannot decode"):
        # the bytes stored for a rewritten constant are not an encoding of its type and shape (wrong length, ...): the integer kernel reads
        # whatever lies there; how far the outputs are off is reported along with it
        err_ = max((float(np.max(np.abs(np.asarray(ra[k], dtype=np.float64) - np.asarray(rb[k], dtype=np.float64))))
                    for sig in a[1] for ra, rb in zip(a[1][sig], b[1][sig]) for k in ra
                    if np.asarray(ra[k]).shape == np.asarray(rb[k]).shape and np.asarray(rb[k]).dtype != bool and np.asarray(rb[k]).size), default=0.0)
        return fail(f"a constant of the static-range model is not stored the way the integer kernels read it ({why_}); "
                    f"outputs are {err_:.4g} away from the float outputs", "c07-constant-not-decodable")
    c = outputs_of(interp, ref, data, ctx) if ref is not None else ("none", None)
    # kernels with a FIXED output range (tanh / logistic / softmax: step 1/128 or 1/256 at 8 bits whatever the data) put a floor under
    # the resolution of everything downstream, however small the calibrated magnitudes are
    fixed_step = 0.0
    for sg_ in mo.subgraphs:
        for op_ in sg_.operators:
            if pl.BO_NAME.get(mo.operatorCodes[op_.opcodeIndex].builtinCode) in ("TANH", "LOGISTIC", "SOFTMAX"):
                for o_ in op_.outputs:
                    qt_ = pl.quant_tuple(sg_.tensors[o_])
                    if qt_:
                        fixed_step = max(fixed_step, float.fromhex(qt_["scale"][0]))
    # the 16-bit kernels of GELU / TANH / LOGISTIC evaluate a 512-cell piecewise-linear table over the WHOLE range of their input tensor
    # (cell = 128 input steps), its entries clipped to the output range: data that occupy a fraction of one cell (an input tensor with a
    # FIXED range, e.g. the output of an int16 TANH, holding tiny values) come out with an error of up to min(output range, cell width)
    lut_floor = 0.0
    for sg_ in mo.subgraphs:
        for op_ in sg_.operators:
            name_ = pl.BO_NAME.get(mo.operatorCodes[op_.opcodeIndex].builtinCode)
            if name_ in ("TANH", "LOGISTIC") and len(op_.inputs) and len(op_.outputs):
                # a saturating activation turns ONE step of its quantized operand into up to L steps of output (L = 1/4 for logistic, 1
                # for tanh): an operand tensor whose calibrated range is dominated by a few large values (step 14.5 for values around 4)
                # loses the small values entirely -- inherent to the bit width, whatever the parameters
                ti_, to_ = sg_.tensors[op_.inputs[0]], sg_.tensors[op_.outputs[0]]
                qi_, qo_ = pl.quant_tuple(ti_), pl.quant_tuple(to_)
                if qi_ and qo_ and ti_.type in (TT.INT8, TT.INT16):
                    out_range = (65535 if to_.type == TT.INT16 else 255) * float.fromhex(qo_["scale"][0])
                    lut_floor += min(out_range, (0.25 if name_ == "LOGISTIC" else 1.0) * float.fromhex(qi_["scale"][0]))
            if name_ in ("GELU", "TANH", "LOGISTIC", "RSQRT") and len(op_.inputs) and len(op_.outputs):
                ti_, to_ = sg_.tensors[op_.inputs[0]], sg_.tensors[op_.outputs[0]]
                qi_, qo_ = pl.quant_tuple(ti_), pl.quant_tuple(to_)
                if ti_.type == TT.INT16 and qi_ and qo_:
                    out_max = 32767 * float.fromhex(qo_["scale"][0])
                    # slope of the function over the cell next to the clipped entry: <= 1 for gelu / tanh / logistic; rsqrt is steepest
                    # at the smallest operand x_min = out_max^-2 (the calibrated output maximum IS rsqrt(x_min)): |f'| = out_max^3 / 2
                    slope = 0.5 * out_max ** 3 if name_ == "RSQRT" else 1.0
                    lut_floor += min(out_max, slope * 128 * float.fromhex(qi_["scale"][0]))
    for sig in a[1]:
        sd = [x for x in (mo.signatureDefs or []) if x.signatureKey.decode() == sig]
        for oi, (ra, rb) in enumerate(zip(a[1][sig], b[1][sig])):
            for k in ra:
                if np.asarray(rb[k]).dtype == bool:
                    continue   # a mask flips when its operand moves across the threshold: no bound applies
                ya, yb = np.asarray(ra[k], dtype=np.float64), np.asarray(rb[k], dtype=np.float64)
                if not np.all(np.isfinite(yb)) or yb.size == 0:
                    continue
                if not np.all(np.isfinite(ya)):
                    cls = producer_class(res["out"], sig, k)
                    return fail(f"output {k} is not finite although the float output is (computed by {cls})", f"c07-mismatch:{cls}")
                step = 0.0
                if sd:
                    for tm in sd[0].outputs:
                        if tm.name.decode() == k:
                            t = mo.subgraphs[sd[0].subgraphIndex].tensors[tm.tensorIndex]
                            qt = pl.quant_tuple(t)
                            if not qt:   # float output: the step is that of the quantized tensor behind the DEQUANTIZE
                                sgq = mo.subgraphs[sd[0].subgraphIndex]
                                prod = next((o for o in sgq.operators if tm.tensorIndex in list(o.outputs)), None)
                                if prod is not None and len(prod.inputs) == 1 and pl.BO_NAME.get(mo.operatorCodes[prod.opcodeIndex].builtinCode) == "DEQUANTIZE":
                                    qt = pl.quant_tuple(sgq.tensors[prod.inputs[0]])
                            if qt:
                                step = float.fromhex(qt["scale"][0])
                ymag = float(np.max(np.abs(yb)))
                mag = max(ymag, amag.get((sig, k), 0.0))
                tol = 8 * step + 2 * fixed_step * nops + lut_floor + c_float * mag * nops + 1e-3 * mag + 1e-7
                err = float(np.max(np.abs(ya - yb))) if ya.shape == yb.shape else float("inf")
                off = err > tol
                which = "float output"
                if not off and c[0] == "ok":
                    yc = np.asarray(c[1][sig][oi][k], dtype=np.float64)
                    if yc.shape == ya.shape and np.all(np.isfinite(yc)):
                        # every quantized tensor is clipped to the range calibrated on the FLOAT model, so the integer model may sit
                        # anywhere between the two float models: allow their distance D on top of the activation-only term
                        dist = float(np.max(np.abs(yc - yb)))
                        tol_r = 8 * step + 2 * fixed_step * nops + lut_floor + c_ref * mag * nops + dist + 1e-3 * mag + 1e-7
                        err_r = float(np.max(np.abs(ya - yc)))
                        if err_r > tol_r:
                            off, err, tol, which = True, err_r, tol_r, "output of the float model with the dequantized constants"
                const = np.ptp(yb) > 0.5 * ymag and ymag > 0 and np.ptp(yb) > 16 * max(step, fixed_step) and step > 0 and yb.size > 1 and np.ptp(ya) == 0
                if const and c[0] == "ok":
                    yc_ = np.asarray(c[1][sig][oi][k], dtype=np.float64)
                    if yc_.shape == ya.shape and np.ptp(yc_) <= 16 * max(step, fixed_step):
                        const = False   # the float model with the stored constants is constant too, up to the output resolution (the stored
                        #                 4-bit weights moved the operand into the flat tail of the activation function)
                if off or const:
                    cls = localise(interp, res["out"], ref if (c[0] == "ok" and which != "float output") else case.mb, data,
                                   lambda mag_: (c_ref if which != "float output" else c_float) * mag_ + 8 * step + 2 * fixed_step + lut_floor + 1e-3 * mag_ + 1e-7, ctx, constant=const)
                    if cls is None:   # deviation below the localisation tolerance everywhere: blame the output's own producer
                        cls = producer_class(res["out"], sig, k)
                    if cls is None or ":" not in cls:
                        cls = upstream_variant(res["out"], sig, k) or cls
                    if const:
                        own = producer_class(res["out"], sig, k)
                        if own and ":" in own:
                            cls = own   # the operator computing this very output belongs to a structurally recognisable class
                        return fail(f"static-range output {k} is constant although the float output is not (first operator off: {cls})",
                                    f"c07-constant:{cls}")
                    return fail(f"static-range output {k} is {err:.4g} away from the {which} "
                                f"(tolerance {tol:.4g}, magnitude {mag:.4g}, {nops} ops, a{abits}w{wbits}, first operator off: {cls})", f"c07-mismatch:{cls}")
