"""Correspondence family `calib.*`: Quantizer.calibrate vs QModel/Calib.lean (bit-exact), with tensor
contents captured by the harness's own interpreter run; plus the independent C09 oracle."""
from __future__ import annotations

import copy

import numpy as np
from ai_edge_litert import interpreter as tfl
from ai_edge_litert import schema_py_generated as s

from . import common
from . import fam_arith as fa
from . import fam_mat as fmat
from . import fam_recipe as fr
from . import pipeline as pl
from .common import rat

TT = s.TensorType
PRX = dict(fa.PR)


def farr_any(a):
    a = np.asarray(a)
    if a.dtype.kind == "f":
        return fa.farr(a)
    return {"shape": list(a.shape), "data": [f"{int(x)}/1" for x in a.flatten()], "pr": "exact"}


def env_json_all(mb):
    """like fam_mat.env_json but with the data of integer constants too"""
    d = fmat.env_json(mb)
    m = pl.read(mb)
    seen = {c["buffer"] for c in d["consts"]}
    for sg in m.subgraphs:
        for t in sg.tensors:
            b = m.buffers[t.buffer]
            if b.data is not None and t.buffer not in seen and t.type in (TT.INT32, TT.INT64):
                seen.add(t.buffer)
                dt = "<i4" if t.type == TT.INT32 else "<i8"
                arr = np.frombuffer(np.asarray(b.data, dtype=np.uint8).tobytes(), dtype=dt)
                d["consts"].append({"buffer": int(t.buffer), "data": [f"{int(x)}/1" for x in arr]})
    return d


def capture(mb, sig, samples):
    """per-sample tensor contents of the signature's subgraph from the harness's own interpreter"""
    it = tfl.Interpreter(model_content=bytes(mb), experimental_preserve_all_tensors=True,
                         experimental_op_resolver_type=tfl.OpResolverType.BUILTIN_WITHOUT_DEFAULT_DELEGATES)
    it.allocate_tensors()
    out = []
    sgi = it.get_signature_runner(sig)._subgraph_index
    for smp in samples:
        runner = it.get_signature_runner(sig)
        runner(**smp)
        cont = {}
        for td in it.get_tensor_details(sgi):
            if not td["name"]:
                continue
            try:
                cont[td["name"]] = np.array(it.get_tensor(td["index"], sgi))
            except ValueError:
                pass
        out.append(cont)
        it.reset_all_variables()
    return sgi, out


def qsv_rows(cr):
    rows = []
    for name, q in cr.items():
        if not q:
            rows.append({"name": name, "min": None, "max": None})
        else:
            rows.append({"name": name, "min": farr_any(q["min"]), "max": farr_any(q["max"])})
    return rows


def contents_finite(conts):
    return all(np.all(np.isfinite(v)) for c in conts for v in c.values() if v.dtype.kind == "f")


def cmp_calibrate(ctx, drv, mb, q, sig, samples, previous, family="calib"):
    """returns the real result (dict) or ('raise', cls)"""
    sgi, conts = capture(mb, sig, samples)
    if not contents_finite(conts):
        ctx.tag("nonfinite_contents_skipped")
    rec = fr.plain(q.get_quantization_recipe())
    rq = env_json_all(mb)
    rq.update({"op": "calibrate", "recipe": fr.enc_obj(rec), "rx": fmat.rx_rows(mb, rec), "requireWeight": False, "sg": int(sgi),
               "qsvs": None if previous is None else qsv_rows(previous),
               "samples": [[{"name": k, "data": farr_any(v)} for k, v in c.items() if v.dtype.kind in "fib" and np.all(np.isfinite(v.astype(np.float64)))] for c in conts]})
    prev_copy = copy.deepcopy(previous)
    try:
        # the dataset is any iterable: a list, a one-shot generator, an iterator (each sample must be consumed exactly once)
        kind = ctx.rng.choice(["list", "list", "generator", "iterator"]) if ctx is not None and hasattr(ctx, "rng") else "list"
        dataset = samples if kind == "list" else ((x for x in list(samples)) if kind == "generator" else iter(list(samples)))
        if ctx is not None and kind != "list":
            ctx.tag("dataset_" + kind)
        real = q.calibrate(dataset, signature_key=sig, previous_calibration_result=previous)
        rr = ("ok", real)
    except Exception as e:  # noqa: BLE001
        rr = ("raise", type(e).__name__)
    if previous is not None and not _same_qsvs(previous, prev_copy):
        ctx.fail("calibrate() modified the previous calibration result passed in", {"sig": sig}, "calib-mutates-previous")
    if not contents_finite(conts):
        return rr
    m = drv.ask(rq)
    if rr[0] == "ok":
        want = qsv_rows(rr[1])
        if m.get("err") == "nonfinite":
            ctx.tag("model_nonfinite_out_of_model")
        elif "ok" not in m:
            ctx.disagree(family, {"recipe": rec, "sg": sgi, "n": len(samples)}, str(m)[:300], "ok")
        else:
            d = fmat.first_diff(m["ok"], want)
            if d:
                ctx.disagree(family, {"recipe": rec, "sg": sgi, "n": len(samples), "prev": previous is not None}, d, "statistics differ")
    elif m.get("err") != rr[1]:
        ctx.disagree(family, {"recipe": rec, "sg": sgi}, str(m)[:300], rr[1])
    return rr


def _same_qsvs(a, b):
    if a.keys() != b.keys():
        return False
    for k in a:
        if bool(a[k]) != bool(b[k]):
            return False
        if a[k]:
            for f in ("min", "max"):
                x, y = np.asarray(a[k][f]), np.asarray(b[k][f])
                if x.dtype != y.dtype or x.shape != y.shape or not np.array_equal(x, y):
                    return False
    return True


def oracle_ema(ctx, mb, q, sig, samples, result, fail, values=True):
    """independent: every runtime tensor's statistics are the EMA (0.95) of its true per-sample
    min/max in dataset order; constants have their true per-tensor / per-channel min/max"""
    sgi, conts = capture(mb, sig, samples)
    if not contents_finite(conts):
        return
    m = pl.read(mb)
    sg = m.subgraphs[sgi]
    names = {pl.tname(t): t for t in sg.tensors}
    # completeness: every float32 operand / result (constants included) of every operator of the calibrated subgraph that the recipe
    # selects for static-range quantization has an entry, whatever was calibrated before and in whatever order the signatures came
    from . import oracles as orc
    for op in sg.operators:
        key = orc.op_key_of(m.operatorCodes[op.opcodeIndex].builtinCode)
        if key is None:
            continue
        scope = "".join(pl.tname(sg.tensors[t]) + ";" for t in op.outputs if t != -1)
        try:
            mode, _cfg = orc.mode_of(q, key, scope)
        except Exception:  # noqa: BLE001
            continue
        if mode != "srq":
            continue
        # a constant weight under CHANNELWISE granularity is recorded per channel of the dimension the kernel expects
        wc = _cfg.weight_tensor_config
        if key in orc.WEIGHT_OPS and wc is not None and str(getattr(wc.granularity, "value", wc.granularity)) == "CHANNELWISE" \
                and len(op.inputs) > orc.WEIGHT_SLOT[key] and op.inputs[orc.WEIGHT_SLOT[key]] != -1:
            tw = sg.tensors[op.inputs[orc.WEIGHT_SLOT[key]]]
            ent = result.get(pl.tname(tw))
            if m.buffers[tw.buffer].data is not None and tw.type == TT.FLOAT32 and ent and len(tw.shape) >= 2:
                shp = [int(x) for x in tw.shape]
                if key == "BATCH_MATMUL":
                    qd = len(shp) - 2 if (op.builtinOptions is not None and op.builtinOptions.adjY) else len(shp) - 1
                else:
                    qd = orc.WEIGHT_QDIM[key]
                want = [shp[d] if d == qd else 1 for d in range(len(shp))]
                got = list(np.asarray(ent["min"]).shape)
                ctx.tag("per_channel_statistics_shape_checked")
                if got != want and shp[qd] > 1:
                    return fail(f"statistics of the CHANNELWISE weight {pl.tname(tw)} of {key} have shape {got}, expected one value per channel "
                                f"of dimension {qd}: {want}", "const-stats-granularity")
        for ti in list(op.inputs) + list(op.outputs):
            if ti == -1 or sg.tensors[ti].type != TT.FLOAT32 or 0 in [int(x) for x in sg.tensors[ti].shape]:
                continue
            nm = pl.tname(sg.tensors[ti])
            ctx.tag("statistics_presence_checked")
            if not result.get(nm):
                kind = "constant" if m.buffers[sg.tensors[ti].buffer].data is not None else "runtime tensor"
                return fail(f"no statistics recorded for {kind} {nm}, an operand/result of the selected operator {key} of the calibrated subgraph", "stats-missing-" + kind.split()[0])
    if not values:
        return
    for name, qv in result.items():
        if name not in names or not qv:
            continue
        t = names[name]
        if m.buffers[t.buffer].data is not None:
            if t.type != TT.FLOAT32:
                continue
            data = np.frombuffer(np.asarray(m.buffers[t.buffer].data, dtype=np.uint8).tobytes(), dtype="<f4").reshape([int(x) for x in t.shape])
            mn, mx = np.asarray(qv["min"]), np.asarray(qv["max"])
            # per-tensor or per-channel: every recorded value must be the min/max of the slice it covers
            red = tuple(d for d in range(data.ndim) if mn.shape[d] == 1) if mn.ndim == data.ndim else None
            tm, tx = np.min(data, axis=red, keepdims=True), np.max(data, axis=red, keepdims=True)
            if mn.shape != tm.shape or not np.array_equal(mn, tm) or not np.array_equal(mx, tx):
                return fail(f"statistics of constant {name} are not its true min/max", "const-stats")
            continue
        if t.type not in (TT.FLOAT32, TT.INT32, TT.INT64, TT.INT16, TT.INT8):
            continue
        # an INTEGER runtime tensor (token ids of an EMBEDDING_LOOKUP, integer data paths) has a moving average like any other: its
        # min/max are integers, the average is not (evaluated in double precision; the 1e-5 tolerance below absorbs the format)
        f = np.float32 if t.type == TT.FLOAT32 else np.float64
        if t.type != TT.FLOAT32:
            ctx.tag("integer_runtime_tensor_statistics")
        w_min = w_max = None
        for c in conts:
            if name not in c:
                w_min = None
                break
            v = c[name]
            lo, hi = f(np.min(v)), f(np.max(v))
            if w_min is None:
                w_min, w_max = lo, hi
            else:
                w_min = f(0.95) * w_min + f(1.0 - 0.95) * lo
                w_max = f(0.95) * w_max + f(1.0 - 0.95) * hi
        if w_min is None:
            continue
        gmin, gmax = float(np.asarray(qv["min"]).reshape(-1)[0]), float(np.asarray(qv["max"]).reshape(-1)[0])
        tol = 1e-5 * (abs(float(w_min)) + abs(float(w_max)) + 1e-30)
        if abs(gmin - float(w_min)) > tol or abs(gmax - float(w_max)) > tol:
            return fail(f"statistics of {name} are not the 0.95-EMA of its per-sample min/max in dataset order "
                        f"(got [{gmin}, {gmax}], expected [{float(w_min)}, {float(w_max)}])", "ema-mismatch")
