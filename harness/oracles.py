"""Independent property oracles on the real quantize() output (C03, C04, C05, C15).
Nothing here uses the Lean model or the library's arithmetic helpers."""
from __future__ import annotations

import copy
import json
import math
import re

import numpy as np
from ai_edge_litert import schema_py_generated as s

from . import pipeline as pl

TT = s.TensorType
BO = s.BuiltinOperator
ITEM = {TT.FLOAT32: 4, TT.FLOAT16: 2, TT.INT8: 1, TT.INT16: 2, TT.INT32: 4, TT.INT64: 8, TT.UINT8: 1, TT.BOOL: 1}
INT_OF_BITS = {4: TT.INT4, 8: TT.INT8, 16: TT.INT16, 32: TT.INT32, 64: TT.INT64}
NP_INT = {TT.INT8: np.int8, TT.INT16: np.int16, TT.INT32: np.int32, TT.INT64: np.int64}

SUPPORTED_CODES = None


def op_key_of(code):
    global SUPPORTED_CODES
    if SUPPORTED_CODES is None:
        from ai_edge_quantizer.utils import tfl_flatbuffer_utils as fbu
        SUPPORTED_CODES = {int(v): str(getattr(k, "value", k)) for k, v in fbu.TFL_OP_NAME_TO_CODE.items()}
    return SUPPORTED_CODES.get(int(code))


WEIGHT_OPS = {"FULLY_CONNECTED", "CONV_2D", "BATCH_MATMUL", "EMBEDDING_LOOKUP", "DEPTHWISE_CONV_2D", "CONV_2D_TRANSPOSE"}
BIAS_SLOT = {"FULLY_CONNECTED": 2, "CONV_2D": 2, "DEPTHWISE_CONV_2D": 2, "CONV_2D_TRANSPOSE": 3}
WEIGHT_SLOT = {"FULLY_CONNECTED": 1, "CONV_2D": 1, "DEPTHWISE_CONV_2D": 1, "CONV_2D_TRANSPOSE": 1, "EMBEDDING_LOOKUP": 1, "BATCH_MATMUL": 1}
INPUT_SLOT = {"FULLY_CONNECTED": 0, "CONV_2D": 0, "DEPTHWISE_CONV_2D": 0, "CONV_2D_TRANSPOSE": 2, "BATCH_MATMUL": 0}
WEIGHT_QDIM = {"FULLY_CONNECTED": 0, "CONV_2D": 0, "DEPTHWISE_CONV_2D": 3, "EMBEDDING_LOOKUP": 0, "CONV_2D_TRANSPOSE": 0}
SAME_AS_INPUT = {"RESHAPE": 0, "TRANSPOSE": 0, "SPLIT": 1, "STRIDED_SLICE": 0, "AVERAGE_POOL_2D": 0}


def is_const(m, sg, ti):
    return ti >= 0 and m.buffers[sg.tensors[ti].buffer].data is not None


def kept_ops(mi, mo, si):
    """original ops of subgraph si in the output model, in order (inserted Q/DQ skipped)"""
    gi, go = mi.subgraphs[si], mo.subgraphs[si]
    n0 = len(gi.tensors)
    kept, inserted = [], []
    for op in go.operators:
        code = mo.operatorCodes[op.opcodeIndex].builtinCode
        if code in (BO.QUANTIZE, BO.DEQUANTIZE) and len(op.outputs) == 1 and op.outputs[0] >= n0:
            inserted.append(op)
        else:
            kept.append(op)
    return kept, inserted


_FRESH = {}
ACTIVE_POLICY = [None]   # file name of a custom policy loaded (process-globally) by the case being run, or None


def reset_fresh():
    _FRESH.clear()


_STRICT_POLICY = [None]


def strict_policy_file():
    """a custom policy that is the default one WITHOUT the weight-only and the 4-bit dynamic-range entries (written to a scratch file:
    the public API loads policies from files only)"""
    if _STRICT_POLICY[0] is None:
        import tempfile
        from ai_edge_quantizer import default_policy
        pol = json.loads(default_policy.DEFAULT_JSON_POLICY)
        pol["ops_per_config"] = {k: v for k, v in pol["ops_per_config"].items() if not k.startswith("weightonly") and k != "dynamic_wi4_afp32"}
        f = tempfile.NamedTemporaryFile("w", suffix="_strict_policy.json", delete=False)
        json.dump(pol, f)
        f.close()
        _STRICT_POLICY[0] = f.name
    return _STRICT_POLICY[0]


def _register_policy(fname):
    import os
    from ai_edge_quantizer import algorithm_manager, default_policy, quantizer as qm
    if fname is None:
        pol = default_policy.DEFAULT_CONFIG_CHECK_POLICY
    else:
        with open(fname if os.path.isabs(fname) else os.path.join(os.path.dirname(qm.__file__), "policies", fname)) as f:
            pol = default_policy.update_default_config_policy(f.read())
    algorithm_manager.register_config_check_policy_func(algorithm_manager.AlgorithmName.MIN_MAX_UNIFORM_QUANT, pol)


def resolve(q, op_key, scope):
    """(algorithm, config) the EXPORTED recipe of `q` selects for (operator, scope), resolved by a fresh RecipeManager
    that loads that recipe — not by q's own manager, whose caches or partial updates are part of what is being checked
    (on the unchanged code both agree: C12.reload_reachable / C14)"""
    from ai_edge_quantizer import recipe_manager
    rec = q.get_quantization_recipe()
    key = json.dumps(rec, sort_keys=True, default=str)
    ent = _FRESH.get(id(q))
    if ent is None or ent[0] != key:
        if len(_FRESH) > 64:
            _FRESH.clear()
        rm = recipe_manager.RecipeManager()
        if ACTIVE_POLICY[0] is not None:
            # the rules were accepted under the default policy before the custom one was loaded; only resolution happens under the
            # custom policy (rules for specific operators are not re-validated, '*' rules are re-checked per operator)
            _register_policy(None)
            try:
                rm.load_quantization_recipe(copy.deepcopy(rec))
            finally:
                _register_policy(ACTIVE_POLICY[0])
        else:
            rm.load_quantization_recipe(copy.deepcopy(rec))
        ent = (key, rm)
        _FRESH[id(q)] = ent
    return ent[1].get_quantization_configs(op_key, scope)


def mode_of(q, op_key, scope):
    """resolved execution mode of an op (fresh resolution of the exported recipe)"""
    alg, cfg = resolve(q, op_key, scope)
    alg = str(getattr(alg, "value", alg))
    if alg == "no_quantize":
        return "none", cfg
    if alg == "float_casting":
        return "fp16", cfg
    cp = str(getattr(cfg.compute_precision, "value", cfg.compute_precision))
    if cp == "INTEGER" and cfg.activation_tensor_config is not None:
        return "srq", cfg
    if cp == "INTEGER":
        return "drq", cfg
    return "wo", cfg


def oracle_rule_history(ctx, case, res, fail):
    """'the mode its rule selected': the rules are what the caller's UPDATE CALLS said (last applicable rule in the order the scopes
    were first accepted), not merely what the object exports afterwards — for every operator of the model the declarative resolution of
    the accepted update calls (fam_recipe.spec_resolve, written from the property text) equals the resolution of the exported recipe"""
    from . import fam_recipe as fr
    if not case.cmds or case.recipe is not None or res.get("policy") or getattr(case, "late", None):
        return
    adds = [c for c in case.cmds if c.get("k") == "add"]
    if len(adds) != len(case.cmds) or any("accepted" not in c for c in adds):
        return
    adds_ok = [(c["regex"], c["operation"], c["alg"], c["cfg"]) for c in adds if c["accepted"]]
    mi = pl.read(case.mb)
    for gi in mi.subgraphs:
        for op in gi.operators:
            key = op_key_of(mi.operatorCodes[op.opcodeIndex].builtinCode)
            if key is None:
                continue
            scope = "".join(pl.tname(gi.tensors[t]) + ";" for t in op.outputs if t != -1)
            alg_s, cfg_s = fr.spec_resolve(adds_ok, key, scope)
            alg_r, cfg_r = resolve(res["q"], key, scope)
            alg_r = str(getattr(alg_r, "value", alg_r))
            want = json.dumps(fr.plain(fr.mk_cfg(cfg_s).to_dict()), sort_keys=True) if alg_s != "no_quantize" else None
            got = json.dumps(fr.plain(cfg_r.to_dict()), sort_keys=True) if alg_r != "no_quantize" else None
            ctx.tag("rule_history_checked")
            if alg_s != alg_r or want != got:
                return fail(f"operator {key} with scope {scope!r}: the update calls select ({alg_s}, {want}), the object resolves ({alg_r}, {got})",
                            "rule-history")


_POLICY_DATA = [None]


def policy_lists(op_key, cfg):
    """does the DEFAULT policy, read as data (the JSON text: named configs with lists of admissible values, and the operators listed per
    config), list this config for this operator? An independent reading: no unrolled table, no library matcher."""
    if _POLICY_DATA[0] is None:
        from ai_edge_quantizer import default_policy
        _POLICY_DATA[0] = json.loads(default_policy.DEFAULT_JSON_POLICY)
    pol = _POLICY_DATA[0]
    val = lambda x: str(getattr(x, "value", x))   # noqa: E731

    def tmatch(spec, t):
        if spec is None or t is None:
            return spec is None and t is None
        as_list = lambda x: x if isinstance(x, list) else [x]   # noqa: E731
        return (t.num_bits in as_list(spec["num_bits"]) and bool(t.symmetric) in as_list(spec["symmetric"])
                and val(t.granularity) in as_list(spec["granularity"]) and val(t.dtype) in as_list(spec.get("dtype", "INT"))
                and not getattr(t, "block_size", 0))

    for name, ops in pol["ops_per_config"].items():
        if op_key not in ops:
            continue
        c = pol["configs"][name]
        if (val(cfg.compute_precision) == c["compute_precision"] and bool(cfg.explicit_dequantize) == bool(c["explicit_dequantize"])
                and tmatch(c.get("activation_tensor_config"), cfg.activation_tensor_config)
                and tmatch(c.get("weight_tensor_config"), cfg.weight_tensor_config)):
            return True
    return False


def oracle_c03(ctx, case, res, fail):
    """every operand of every original op has the dtype its resolved mode prescribes"""
    mi, mo = pl.read(case.mb), pl.read(res["out"])
    q = res["q"]
    # "an operator given a config it does not support stays untouched": whatever resolution says, an operator may only run in a quantized
    # mode under a config the policy DATA lists for it (rules with skip_checks, float16 casting and custom policies aside)
    if ACTIVE_POLICY[0] is None and not res.get("policy") and not any(c.get("k") == "policy" for c in (getattr(case, "late", None) or [])):
        for gi in mi.subgraphs:
            for a in gi.operators:
                key = op_key_of(mi.operatorCodes[a.opcodeIndex].builtinCode)
                if key is None:
                    continue
                scope = "".join(pl.tname(gi.tensors[t]) + ";" for t in a.outputs if t != -1)
                mode, cfg = mode_of(q, key, scope)
                if mode in ("srq", "drq", "wo") and not getattr(cfg, "skip_checks", False):
                    ctx.tag("policy_data_checked")
                    if not policy_lists(key, cfg):
                        return fail(f"operator {key} (scope {scope!r}) is run in mode {mode} under a config the policy does not list for it: "
                                    f"{json.dumps(cfg.to_dict(), default=str, sort_keys=True)[:300]}", "unsupported-config-selected")
    for si, (gi, go) in enumerate(zip(mi.subgraphs, mo.subgraphs)):
        kept, inserted = kept_ops(mi, mo, si)
        if len(kept) != len(gi.operators):
            return  # C02's business
        producer = {}
        for op in go.operators:
            for o in op.outputs:
                producer[o] = op
        for oi, (a, b) in enumerate(zip(gi.operators, kept)):
            code = mi.operatorCodes[a.opcodeIndex].builtinCode
            key = op_key_of(code)
            scope = "".join(pl.tname(gi.tensors[t]) + ";" for t in a.outputs if t != -1)
            mode, cfg = ("none", None) if key is None else mode_of(q, key, scope)
            ctx.tag("mode_" + mode)
            abits = cfg.activation_tensor_config.num_bits if mode == "srq" else None
            slots = [(False, k, x, y) for k, (x, y) in enumerate(zip(a.inputs, b.inputs))] + \
                    [(True, k, x, y) for k, (x, y) in enumerate(zip(a.outputs, b.outputs))]
            for is_out, slot, ta, tb in slots:
                if ta == -1:
                    continue
                orig, cur = gi.tensors[ta], go.tensors[tb]
                where = f"sg{si} op{oi} {key or pl.BO_NAME.get(code)} {'out' if is_out else 'in'}{slot} mode={mode}"
                if orig.type != TT.FLOAT32:
                    if cur.type != orig.type or pl.quant_tuple(cur) is not None:
                        return fail("non-float operand was quantized: " + where, "nonfloat-quantized")
                    continue
                const = is_const(mi, gi, ta)
                if mode == "none":
                    if cur.type != TT.FLOAT32:
                        return fail("unselected op reads/writes a non-float32 tensor: " + where, "noquant-dtype")
                    if const and not is_out and tb != ta:
                        return fail("constant operand of an unselected op was replaced by another tensor: " + where, "noquant-const-rewired")
                    if const and not is_out:
                        ob = bytes(np.asarray(mi.buffers[orig.buffer].data, dtype=np.uint8).tobytes())
                        src = go.tensors[tb]
                        nb = mo.buffers[src.buffer].data
                        if tb == ta and (nb is None or bytes(np.asarray(nb, dtype=np.uint8).tobytes()) != ob):
                            return fail("constant of an unselected op is not byte-identical: " + where, "noquant-const-bytes")
                elif mode in ("wo", "fp16"):
                    is_w = (not is_out) and const and key in WEIGHT_OPS and slot == WEIGHT_SLOT.get(key)
                    if cur.type != TT.FLOAT32:
                        return fail("weight-only/float16 op reads/writes a non-float32 tensor: " + where, "wo-dtype")
                    if is_w:
                        p = producer.get(tb)
                        if p is None or mo.operatorCodes[p.opcodeIndex].builtinCode != BO.DEQUANTIZE:
                            return fail("weight of a weight-only/float16 op does not come through DEQUANTIZE: " + where, "wo-no-dequant")
                        srct = go.tensors[p.inputs[0]]
                        want = {TT.FLOAT16} if mode == "fp16" else {INT_OF_BITS[cfg.weight_tensor_config.num_bits]}
                        if srct.type not in want or mo.buffers[srct.buffer].data is None:
                            return fail(f"DEQUANTIZE source of a weight-only weight has type {pl.TT_NAME.get(srct.type)}: " + where, "wo-source-type")
                elif mode == "drq":
                    is_w = (not is_out) and const and key in WEIGHT_OPS and slot == WEIGHT_SLOT.get(key)
                    if is_w:
                        if cur.type != INT_OF_BITS[cfg.weight_tensor_config.num_bits]:
                            return fail("dynamic-range weight is not an integer constant of the configured width: " + where, "drq-weight")
                    elif cur.type != TT.FLOAT32:
                        return fail("dynamic-range op reads/writes a non-float32 activation/bias: " + where, "drq-dtype")
                elif mode == "srq":
                    if (not is_out) and key in BIAS_SLOT and slot == BIAS_SLOT[key]:
                        want = TT.INT64 if abits == 16 else TT.INT32
                    elif (not is_out) and const and key in WEIGHT_OPS:
                        want = INT_OF_BITS[cfg.weight_tensor_config.num_bits]
                    else:
                        want = INT_OF_BITS[abits]
                    if cur.type != want:
                        return fail(f"static-range operand has type {pl.TT_NAME.get(cur.type)} instead of {pl.TT_NAME.get(want)}: " + where, "srq-dtype")
        for op in inserted:
            code = mo.operatorCodes[op.opcodeIndex].builtinCode
            tin, tout = go.tensors[op.inputs[0]], go.tensors[op.outputs[0]]
            if code == BO.QUANTIZE and not (tout.type in (TT.INT8, TT.INT16, TT.INT4) and tin.type in (TT.FLOAT32, TT.INT8, TT.INT16)):
                return fail(f"inserted QUANTIZE converts {pl.TT_NAME.get(tin.type)} -> {pl.TT_NAME.get(tout.type)}", "q-types")
            if code == BO.DEQUANTIZE and not (tout.type == TT.FLOAT32 and tin.type in (TT.INT8, TT.INT16, TT.INT4, TT.FLOAT16)):
                return fail(f"inserted DEQUANTIZE converts {pl.TT_NAME.get(tin.type)} -> {pl.TT_NAME.get(tout.type)}", "dq-types")


# --------------------------------------------------------------------------- constants (C05 / C15)

def unpack_int4(raw: bytes, n: int):
    out = []
    for b in raw:
        lo, hi = b & 0x0F, (b >> 4) & 0x0F
        out.append(lo - 16 if lo >= 8 else lo)
        out.append(hi - 16 if hi >= 8 else hi)
    return np.array(out[:n], dtype=np.int64)


def decode_const(mo, t):
    """(decoded ints|floats, error string)"""
    raw = mo.buffers[t.buffer].data
    if raw is None:
        return None, None
    raw = bytes(np.asarray(raw, dtype=np.uint8).tobytes())
    n = int(np.prod(t.shape)) if len(t.shape) else 1
    if t.type == TT.INT4:
        if len(raw) != (n + 1) // 2:
            return None, f"int4 buffer has {len(raw)} bytes for {n} elements"
        return unpack_int4(raw, n), None
    if t.type not in ITEM:
        return None, None
    if len(raw) != n * ITEM[t.type]:
        return None, f"buffer has {len(raw)} bytes for {n} elements of {pl.TT_NAME.get(t.type)}"
    if t.type == TT.FLOAT16:
        return np.frombuffer(raw, dtype="<f2").astype(np.float64), None
    if t.type == TT.FLOAT32:
        return np.frombuffer(raw, dtype="<f4").astype(np.float64), None
    if t.type in NP_INT:
        return np.frombuffer(raw, dtype=np.dtype(NP_INT[t.type]).newbyteorder("<")).astype(np.int64), None
    return None, None


def dequant(vals, t):
    qz = t.quantization
    scale = np.array(qz.scale, dtype=np.float64)
    zp = np.array(qz.zeroPoint, dtype=np.float64) if qz.zeroPoint is not None else np.zeros_like(scale)
    shape = [int(x) for x in t.shape]
    v = vals.reshape(shape).astype(np.float64) if shape else vals.astype(np.float64)
    if len(zp) != len(scale):
        raise ValueError(f"{len(scale)} scales but {len(zp)} zero points")
    if len(scale) > 1:
        if not (0 <= qz.quantizedDimension < len(shape)) or shape[qz.quantizedDimension] != len(scale):
            raise ValueError(f"{len(scale)} scales for quantized dimension {qz.quantizedDimension} of shape {shape}")
        bshape = [1] * len(shape)
        bshape[qz.quantizedDimension] = len(scale)
        scale, zp = scale.reshape(bshape), zp.reshape(bshape)
    return (v - zp) * scale, scale


def oracle_c05(ctx, case, res, fail):
    """stored constants: exact byte length, decode within half/one step of the float original"""
    mi, mo = pl.read(case.mb), pl.read(res["out"])
    for si, (gi, go) in enumerate(zip(mi.subgraphs, mo.subgraphs)):
        bias_of = {}
        for op in gi.operators:
            key = op_key_of(mi.operatorCodes[op.opcodeIndex].builtinCode)
            if key in BIAS_SLOT and len(op.inputs) > BIAS_SLOT[key] and op.inputs[BIAS_SLOT[key]] != -1:
                bias_of[op.inputs[BIAS_SLOT[key]]] = key
        for ti, orig in enumerate(gi.tensors):
            if orig.type != TT.FLOAT32 or mi.buffers[orig.buffer].data is None:
                continue
            cur = go.tensors[ti]
            ovals = np.frombuffer(np.asarray(mi.buffers[orig.buffer].data, dtype=np.uint8).tobytes(), dtype="<f4").astype(np.float64)
            vals, err = decode_const(mo, cur)
            where = f"sg{si} constant {pl.tname(orig)} ({pl.TT_NAME.get(cur.type)})"
            if err:
                return fail("stored constant has the wrong byte length: " + where + ": " + err, "const-length")
            if cur.type == TT.FLOAT32:
                continue
            ctx.tag("const_" + str(pl.TT_NAME.get(cur.type)))
            if cur.type == TT.FLOAT16:
                with np.errstate(all="ignore"):
                    want = ovals.astype(np.float32).astype(np.float16).astype(np.float64)
                if not np.array_equal(vals, want, equal_nan=True):
                    return fail("float16 constant is not the round-to-nearest float16 of the original: " + where, "fp16-cast")
                continue
            qz = cur.quantization
            if qz is None or qz.scale is None or len(qz.scale) == 0:
                return fail("integer constant without quantization parameters: " + where, "const-no-params")
            try:
                deq, scale = dequant(vals, cur)
            except ValueError as e:
                return fail(f"quantization parameters do not fit the tensor: {e}: " + where, "const-params-shape")
            shape = [int(x) for x in orig.shape]
            o = ovals.reshape(shape) if shape else ovals
            sym = all(int(z) == 0 for z in (qz.zeroPoint if qz.zeroPoint is not None else [0]))
            if ti in bias_of:
                # q = round(b / s) unless it saturates
                lim = 2 ** 31 - 1 if cur.type == TT.INT32 else 2 ** 63 - 1
                ideal = np.rint(o / scale)
                sat = np.abs(ideal) >= lim
                got = vals.reshape(shape) if shape else vals
                bad = (~sat) & (np.abs(got - o / scale) > 0.5 + 1e-3 * (1 + np.abs(o / scale)) * 2 ** -10)
                if np.any(bad):
                    return fail("quantized bias is not round(bias/scale): " + where, "bias-round")
                continue
            step = scale * (0.5 if sym else 1.0)
            tol = step * (1 + 1e-3) + np.abs(o) * 2e-6 + 1e-12
            if np.any(np.abs(deq - o) > tol):
                k = int(np.argmax(np.abs(deq - o) - tol))
                return fail(f"constant decodes more than {'half a' if sym else 'one'} step away from the original "
                            f"(orig {o.flatten()[k]:.6g}, decoded {deq.flatten()[k]:.6g}, scale {np.broadcast_to(scale, o.shape).flatten()[k]:.6g}): " + where,
                            "const-decode")


def oracle_c15(ctx, case, res, fail):
    """every buffer of the output: all tensors referencing it agree with its byte length / decoding"""
    mi, mo = pl.read(case.mb), pl.read(res["out"])
    refs = {}
    for si, go in enumerate(mo.subgraphs):
        for ti, t in enumerate(go.tensors):
            if mo.buffers[t.buffer].data is not None:
                refs.setdefault(t.buffer, []).append((si, ti, t))
    for b, lst in refs.items():
        if len(lst) > 1:
            ctx.tag("shared_buffer_in_output")
        sig = {(t.type, str(pl.quant_tuple(t))) for _, _, t in lst}
        if len(sig) > 1:
            return fail(f"tensors sharing buffer {b} have different dtype/parameters: {[(pl.tname(t), pl.TT_NAME.get(t.type)) for _, _, t in lst]}", "shared-disagree")
        for si, ti, t in lst:
            _, err = decode_const(mo, t)
            if err:
                return fail(f"tensor {pl.tname(t)} does not agree with the bytes of shared buffer {b}: {err}", "shared-bytes")
    # a float consumer never reads integer bytes and vice versa: every op operand that is a constant
    # must have the dtype class its consumer got in C03 terms; checked there. Here: decoded values.
    oracle_c05(ctx, case, res, fail)


# --------------------------------------------------------------------------- C04: parameters vs the TFLite-spec reference

FIXED = {("SOFTMAX", 8): (1.0 / 256, -128), ("LOGISTIC", 8): (1.0 / 256, -128), ("SOFTMAX", 16): (1.0 / 32768, 0),
         ("LOGISTIC", 16): (1.0 / 32768, 0), ("TANH", 8): (1.0 / 128, 0), ("TANH", 16): (1.0 / 32768, 0)}
BITS_OF = {TT.INT4: 4, TT.INT8: 8, TT.INT16: 16, TT.INT32: 32, TT.INT64: 64}


def ref_params(mn, mx, bits, sym):
    """reference min/max formulas of the TFLite quantization spec (float64 arithmetic, independent implementation)"""
    mn, mx = np.asarray(mn, dtype=np.float64), np.asarray(mx, dtype=np.float64)
    qmin, qmax = -(2 ** (bits - 1)), 2 ** (bits - 1) - 1
    if sym:
        bound = np.maximum(np.maximum(np.abs(mn), np.abs(mx)), 1e-4)
        return bound / qmax, np.zeros_like(bound)
    hi, lo = np.maximum(mx, 0.0), np.minimum(mn, 0.0)
    bound = np.maximum(hi - lo, 1e-4)
    scale = bound / (qmax - qmin)
    return scale, qmin - lo / scale   # unrounded zero point


def close_params(t, scale_ref, zp_ref):
    """does tensor t carry the reference parameters (float32 scale, rounded zero point)? returns error string or None"""
    qz = t.quantization
    sc = np.array(qz.scale, dtype=np.float64)
    zp = np.array(qz.zeroPoint if qz.zeroPoint is not None else [0] * len(sc), dtype=np.float64)
    sr, zr = np.asarray(scale_ref, dtype=np.float64).reshape(-1), np.asarray(zp_ref, dtype=np.float64).reshape(-1)
    if len(sc) != len(sr):
        return f"{len(sc)} scales, reference has {len(sr)}"
    if np.any(np.abs(sc - sr) > 3e-6 * np.abs(sr) + 1e-30):
        k = int(np.argmax(np.abs(sc - sr) / (np.abs(sr) + 1e-30)))
        return f"scale {sc[k]:.9g} but reference {sr[k]:.9g}"
    # zero point: round(reference) except within float32 noise of a tie
    d = np.abs(zp - zr)
    if np.any(d > 0.5 + 2e-3 + 1e-5 * np.abs(zr)):
        k = int(np.argmax(d))
        return f"zero point {int(zp[k])} but reference {zr[k]:.4f}"
    return None


def same_q(a, b):
    return a.type == b.type and pl.quant_tuple(a) == pl.quant_tuple(b)


def oracle_c04(ctx, case, res, fail, stats):
    """stats: {sg index: {tensor name: (min, max)}} recomputed by the check from its own float interpreter run"""
    mi, mo = pl.read(case.mb), pl.read(res["out"])
    q = res["q"]
    for si, (gi, go) in enumerate(zip(mi.subgraphs, mo.subgraphs)):
        n0 = len(gi.tensors)
        kept, inserted = kept_ops(mi, mo, si)
        if len(kept) != len(gi.operators):
            return
        st = stats.get(si, {})
        # roles of every tensor of the output graph
        weight_role, bias_role = {}, {}
        for a, b in zip(gi.operators, kept):
            key = op_key_of(mi.operatorCodes[a.opcodeIndex].builtinCode)
            if key in WEIGHT_OPS:
                for slot, tb in enumerate(b.inputs):
                    if tb != -1 and is_const(mo, go, tb) and go.tensors[tb].type != TT.INT32 or False:
                        pass
                ws = 1 if key != "BATCH_MATMUL" else 1
                if len(b.inputs) > ws and b.inputs[ws] != -1:
                    weight_role.setdefault(b.inputs[ws], (key, a))
            if key in BIAS_SLOT and len(b.inputs) > BIAS_SLOT[key] and b.inputs[BIAS_SLOT[key]] != -1:
                bias_role[b.inputs[BIAS_SLOT[key]]] = (key, a, b)
        # 1. sanity of every quantized tensor
        for ti, t in enumerate(go.tensors):
            qt = pl.quant_tuple(t)
            if qt is None:
                continue
            where = f"sg{si} tensor {pl.tname(t)}"
            sc = np.array(t.quantization.scale, dtype=np.float64)
            zp = list(t.quantization.zeroPoint) if t.quantization.zeroPoint is not None else []
            if not np.all(np.isfinite(sc)) or np.any(sc <= 0):
                return fail("scale not finite and positive: " + where, "scale-not-positive")
            if len(zp) != len(sc):
                return fail("scales and zero points of different length: " + where, "zp-len")
            shape = [int(x) for x in t.shape]
            if len(sc) != 1:
                qd = t.quantization.quantizedDimension
                if not (0 <= qd < len(shape)) or shape[qd] != len(sc):
                    return fail(f"{len(sc)} scales do not match the quantized dimension: " + where, "qdim-size")
                # per-channel only on a weight operand (dequantize sources of weight-only ops included) or a bias
                src_of = [op.outputs[0] for op in inserted if op.inputs[0] == ti]
                if ti not in weight_role and ti not in bias_role and not any(x in weight_role for x in src_of):
                    return fail("per-channel parameters on a tensor that is not a weight/bias operand: " + where, "perchannel-nonweight")
            bits = BITS_OF.get(t.type)
            if bits is None:
                return fail("quantization parameters on a non-integer tensor: " + where, "params-on-nonint")
            lo, hi = -(2 ** (bits - 1)), 2 ** (bits - 1) - 1
            if any(z < lo or z > hi for z in zp):
                return fail("zero point outside the range of the tensor type: " + where, "zp-range")
            ctx.tag("quantized_tensor")
        # 1b. ONE tensor, ONE set of statistics: between a producer and a consumer that are both static-range operators under the SAME
        # activation config (bits, symmetry) the tensor carries the reference parameters of its statistics on both sides, so no inserted
        # QUANTIZE may map an integer tensor to another integer tensor of the same type there (CONCATENATION legitimately rescales its
        # inputs to the output's parameters)
        prod_of = {}
        for a, b in zip(gi.operators, kept):
            for x in b.outputs:
                if x != -1:
                    prod_of[x] = a
        for qop in inserted:
            if pl.BO_NAME.get(mo.operatorCodes[qop.opcodeIndex].builtinCode) != "QUANTIZE" or not len(qop.inputs) or not len(qop.outputs):
                continue
            tin, tout = go.tensors[qop.inputs[0]], go.tensors[qop.outputs[0]]
            if tin.type != tout.type or tin.type not in (TT.INT8, TT.INT16) or qop.inputs[0] not in prod_of:
                continue
            pa = prod_of[qop.inputs[0]]
            pkey = op_key_of(mi.operatorCodes[pa.opcodeIndex].builtinCode)
            # a producer with a FIXED output range (or one that passes such a range on) hands a symmetric consumer a tensor whose
            # statistics in force are that range: rescaling to the consumer's symmetry is the library's documented behaviour
            if pkey is None or pkey in ("SOFTMAX", "LOGISTIC", "TANH") or pkey in SAME_AS_INPUT or same_q(tin, tout):
                continue
            pmode, pcfg = mode_of(q, pkey, "".join(pl.tname(gi.tensors[t]) + ";" for t in pa.outputs if t != -1))
            if pmode != "srq":
                continue
            readers = [(a, b) for a, b in zip(gi.operators, kept) if qop.outputs[0] in list(b.inputs)]
            same = bool(readers)
            for a, b in readers:
                rkey = op_key_of(mi.operatorCodes[a.opcodeIndex].builtinCode)
                if rkey is None or rkey == "CONCATENATION":
                    same = False
                    break
                rmode, rcfg = mode_of(q, rkey, "".join(pl.tname(gi.tensors[t]) + ";" for t in a.outputs if t != -1))
                if rmode != "srq" or rcfg.activation_tensor_config.num_bits != pcfg.activation_tensor_config.num_bits \
                        or bool(rcfg.activation_tensor_config.symmetric) != bool(pcfg.activation_tensor_config.symmetric):
                    same = False
                    break
            ctx.tag("requantize_seen")
            if same:
                return fail(f"sg{si}: tensor {pl.tname(tin)} is rescaled by an inserted QUANTIZE ({pl.quant_tuple(tin)['scale'][:1]} -> "
                            f"{pl.quant_tuple(tout)['scale'][:1]}) between two static-range operators under the same activation config: one of the two "
                            "sides does not carry the reference parameters of the tensor's statistics", "same-config-requantize")
        # 2. op-level rules, per original op as wired in the output graph
        for oi, (a, b) in enumerate(zip(gi.operators, kept)):
            code = mi.operatorCodes[a.opcodeIndex].builtinCode
            key = op_key_of(code)
            if key is None:
                continue
            scope = "".join(pl.tname(gi.tensors[t]) + ";" for t in a.outputs if t != -1)
            mode, cfg = mode_of(q, key, scope)
            where = f"sg{si} op{oi} {key}"
            if mode == "srq":
                abits = cfg.activation_tensor_config.num_bits
                asym = bool(cfg.activation_tensor_config.symmetric)
                outs = [go.tensors[x] for x in b.outputs if x != -1]
                if key in SAME_AS_INPUT:
                    tin = go.tensors[b.inputs[SAME_AS_INPUT[key]]]
                    for to in outs:
                        if not same_q(tin, to):
                            return fail("output does not share its input's parameters: " + where, "same-as-input")
                    ctx.tag("rule_same_as_input")
                    continue_free = False
                elif key == "CONCATENATION":
                    for x in b.inputs:
                        if x != -1 and not same_q(go.tensors[x], outs[0]):
                            return fail("concatenation input does not share the output's parameters: " + where, "concat-same-as-output")
                    ctx.tag("rule_concat")
                    continue_free = True
                else:
                    continue_free = True
                if (key, abits) in FIXED and key in ("SOFTMAX", "LOGISTIC", "TANH"):
                    fs, fz = FIXED[(key, abits)]
                    qz = outs[0].quantization
                    if abs(qz.scale[0] - fs) > 1e-9 or int(qz.zeroPoint[0]) != fz:
                        return fail(f"fixed output range of the runtime kernel not used ({qz.scale[0]}, {qz.zeroPoint[0]}): " + where, "fixed-range")
                    ctx.tag("rule_fixed_range")
                    continue_free = False
                # symmetric config => zero point 0 (fixed-range outputs excluded above)
                for x in list(b.inputs) + list(b.outputs):
                    if x == -1 or pl.quant_tuple(go.tensors[x]) is None or x in bias_role:
                        continue
                    t = go.tensors[x]
                    is_w = key in WEIGHT_OPS and x in weight_role and is_const(mo, go, x)
                    sym = bool(cfg.weight_tensor_config.symmetric) if is_w else asym
                    fixed_producer = False
                    if x in b.inputs and x < n0 or x >= n0:
                        pass
                    if sym and any(int(z) != 0 for z in t.quantization.zeroPoint) and not _fixed_output(mi, mo, gi, go, kept, x):
                        return fail(f"symmetric config but zero point {list(t.quantization.zeroPoint)[:3]} on {pl.tname(t)}: " + where, "sym-zp")
                # bias rule
                if key in BIAS_SLOT and len(b.inputs) > BIAS_SLOT[key] and b.inputs[BIAS_SLOT[key]] != -1:
                    tb = go.tensors[b.inputs[BIAS_SLOT[key]]]
                    tin = go.tensors[b.inputs[INPUT_SLOT[key]]]
                    tw = go.tensors[b.inputs[WEIGHT_SLOT[key]]]
                    want_t = TT.INT64 if abits == 16 else TT.INT32
                    if tb.type != want_t:
                        return fail("bias type does not match the activation width: " + where, "bias-type")
                    bs = np.array(tb.quantization.scale, dtype=np.float32)
                    ws = np.array(tw.quantization.scale, dtype=np.float32)
                    eff = (np.float32(tin.quantization.scale[0]) * ws).astype(np.float32)
                    if len(bs) != len(eff) or np.any(np.abs(bs.astype(np.float64) - eff.astype(np.float64)) > 1e-6 * np.abs(eff) + 1e-38) \
                            or any(int(z) != 0 for z in tb.quantization.zeroPoint):
                        return fail("bias scale is not input scale x weight scale with zero point 0: " + where, "bias-scale")
                    ctx.tag("rule_bias")
                # weights: true per-tensor / per-channel min/max of the original constant
                if key in WEIGHT_OPS and len(b.inputs) > WEIGHT_SLOT[key]:
                    err = _check_weight(mi, gi, go, a, b, key, cfg, where)
                    if err:
                        return fail(err, "weight-params")
                # free activations: reference formulas on the recomputed statistics
                if continue_free:
                    for x_orig, x in zip(a.outputs, b.outputs):
                        if x == -1 or (key, abits) in FIXED:
                            continue
                        name = pl.tname(gi.tensors[x_orig])
                        t = go.tensors[x]
                        if name in st and pl.quant_tuple(t) is not None and gi.tensors[x_orig].type == TT.FLOAT32:
                            s_ref, z_ref = ref_params(st[name][0], st[name][1], abits, asym)
                            err = close_params(t, s_ref, z_ref)
                            if err:
                                return fail(f"output {name} does not carry the reference parameters of its statistics ({err}): " + where, "act-ref")
                            ctx.tag("act_reference_checked")
            elif mode in ("drq", "wo") and key in WEIGHT_OPS and len(b.inputs) > WEIGHT_SLOT[key]:
                err = _check_weight(mi, gi, go, a, b, key, cfg, where, through_dq=(mode == "wo"), mo=mo)
                if err:
                    return fail(err, "weight-params")


def _fixed_output(mi, mo, gi, go, kept, x):
    """is tensor x (or the tensor it was derived from) the output of a softmax/logistic/tanh/same-scale chain"""
    return True if x >= len(gi.tensors) else any(
        op_key_of(mi.operatorCodes[a.opcodeIndex].builtinCode) in ("SOFTMAX", "LOGISTIC", "TANH", "RESHAPE", "TRANSPOSE", "SPLIT", "STRIDED_SLICE",
                                                                    "AVERAGE_POOL_2D", "CONCATENATION") and x in a.outputs or x in a.inputs
        for a in gi.operators)


def _check_weight(mi, gi, go, a, b, key, cfg, where, through_dq=False, mo=None):
    wslot = WEIGHT_SLOT[key]
    ta = a.inputs[wslot]
    if ta == -1 or mi.buffers[gi.tensors[ta].buffer].data is None or gi.tensors[ta].type != TT.FLOAT32:
        return None
    tw = go.tensors[ta]
    if pl.quant_tuple(tw) is None:
        return None
    wc = cfg.weight_tensor_config
    orig = gi.tensors[ta]
    shape = [int(x) for x in orig.shape]
    data = np.frombuffer(np.asarray(mi.buffers[orig.buffer].data, dtype=np.uint8).tobytes(), dtype="<f4").astype(np.float64).reshape(shape)
    gran = str(getattr(wc.granularity, "value", wc.granularity))
    if gran == "CHANNELWISE":
        if key == "BATCH_MATMUL":
            qd = len(shape) - 2 if (a.builtinOptions is not None and a.builtinOptions.adjY) else len(shape) - 1
        else:
            qd = WEIGHT_QDIM[key]
        red = tuple(d for d in range(len(shape)) if d != qd)
        mn, mx = data.min(axis=red), data.max(axis=red)
        if len(tw.quantization.scale) > 1 and tw.quantization.quantizedDimension != qd:
            return f"per-channel weight quantized along dimension {tw.quantization.quantizedDimension}, the runtime kernel expects {qd}: " + where
    else:
        mn, mx = data.min(), data.max()
    s_ref, z_ref = ref_params(mn, mx, wc.num_bits, bool(wc.symmetric))
    err = close_params(tw, s_ref, np.rint(z_ref) if not wc.symmetric else z_ref)
    if err:
        return f"weight {pl.tname(orig)} does not carry the reference parameters of its true min/max ({err}): " + where
    return None
