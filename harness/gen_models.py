"""Generator of float TFLite models in converter normal form (NF), built directly with the
flatbuffer object API (no converter dependency).  All randomness comes from the `rng` passed in.
"""
from __future__ import annotations

import numpy as np
from ai_edge_litert import schema_py_generated as s
from tensorflow.lite.tools import flatbuffer_utils

BO = s.BuiltinOperator
TT = s.TensorType
OPT = s.BuiltinOptions


class G:
    """tiny graph builder"""

    def __init__(self, own_buffers=True):
        self.m = s.ModelT()
        self.m.version = 3
        self.m.description = b"verif-gen"
        self.m.buffers = [s.BufferT()]
        self.m.operatorCodes = []
        self.m.subgraphs = []
        self.m.signatureDefs = []
        self.m.metadata = None
        self.m.metadataBuffer = None
        self.own_buffers = own_buffers  # every tensor gets its own (possibly empty) buffer, like the converter

    def subgraph(self, name=b"main"):
        sg = s.SubGraphT()
        sg.tensors, sg.inputs, sg.outputs, sg.operators, sg.name = [], [], [], [], name
        self.m.subgraphs.append(sg)
        self.sg = sg
        return sg

    def buffer(self, data=None):
        b = s.BufferT()
        if data is not None:
            b.data = np.frombuffer(np.ascontiguousarray(data).tobytes(), dtype=np.uint8)
        self.m.buffers.append(b)
        return len(self.m.buffers) - 1

    def tensor(self, name, shape, dtype=TT.FLOAT32, data=None, buffer=None, variable=False):
        t = s.TensorT()
        t.isVariable = bool(variable)
        t.name = name.encode()
        t.shape = [int(x) for x in shape]
        t.type = dtype
        t.quantization = None
        if buffer is not None:
            t.buffer = buffer
        elif data is not None or self.own_buffers:
            t.buffer = self.buffer(data)
        else:
            t.buffer = 0
        self.sg.tensors.append(t)
        return len(self.sg.tensors) - 1

    def opcode(self, code):
        for i, c in enumerate(self.m.operatorCodes):
            if c.builtinCode == code:
                return i
        c = s.OperatorCodeT()
        c.builtinCode = code
        c.deprecatedBuiltinCode = min(code, 127)
        c.version = 1
        self.m.operatorCodes.append(c)
        return len(self.m.operatorCodes) - 1

    def op(self, code, inputs, outputs, opt_type=0, opts=None):
        o = s.OperatorT()
        o.opcodeIndex = self.opcode(code)
        o.inputs = [int(i) for i in inputs]
        o.outputs = [int(i) for i in outputs]
        o.builtinOptionsType = opt_type
        o.builtinOptions = opts
        self.sg.operators.append(o)
        return len(self.sg.operators) - 1

    def io(self, inputs, outputs, sig=None, in_names=None, out_names=None):
        self.sg.inputs = list(inputs)
        self.sg.outputs = list(outputs)
        if sig is not None:
            sd = s.SignatureDefT()
            sd.signatureKey = sig.encode()
            sd.subgraphIndex = len(self.m.subgraphs) - 1
            sd.inputs, sd.outputs = [], []
            for i, t in enumerate(inputs):
                m = s.TensorMapT()
                m.name = (in_names[i] if in_names else "in%d" % i).encode()
                m.tensorIndex = t
                sd.inputs.append(m)
            for i, t in enumerate(outputs):
                m = s.TensorMapT()
                m.name = (out_names[i] if out_names else "out%d" % i).encode()
                m.tensorIndex = t
                sd.outputs.append(m)
            self.m.signatureDefs.append(sd)

    def bytes(self):
        return bytes(flatbuffer_utils.convert_object_to_bytearray(self.m))


# --------------------------------------------------------------------------- op templates

CONST_KINDS = ["normal", "normal", "normal", "pos", "neg", "small", "const", "big", "tiny", "rowtiny", "denorm"]
HUGE_KINDS = CONST_KINDS + ["huge", "huge", "huge"]   # magnitudes around the float16 overflow threshold (65504 / 65520)
BENIGN_KINDS = ["normal", "normal", "normal", "pos", "neg", "small", "const", "big"]


def _const(rng, shape, kind=None, kinds=None):
    kind = kind or rng.choice(kinds or CONST_KINDS)
    n = int(np.prod(shape)) if len(shape) else 1
    r = np.random.RandomState(rng.randrange(2 ** 31))
    if kind == "normal":
        a = r.randn(n)
    elif kind == "pos":
        a = np.abs(r.randn(n)) + 0.1
    elif kind == "neg":
        a = -np.abs(r.randn(n)) - 0.1
    elif kind == "small":
        a = r.randn(n) * 1e-3
    elif kind == "const":
        a = np.full(n, r.randn())
    elif kind == "tiny":
        a = r.randn(n) * 1e-6
    elif kind == "rowtiny":
        a = r.randn(n)
        if len(shape) >= 2:   # one channel with a range far below the 1e-4 floor, one all-zero channel
            a = a.reshape(shape)
            a[0] = a[0] * 1e-7
            if shape[0] > 1:
                a[-1] = 0.0
            a = a.reshape(-1)
    elif kind == "deadrow":
        a = r.randn(n)
        if len(shape) >= 2 and shape[0] > 1:   # a pruned output channel: all-zero weights (its bias is an ordinary number)
            a = a.reshape(shape)
            a[-1] = 0.0
            a = a.reshape(-1)
    elif kind == "denorm":
        # ordinary weights with a few float32 SUBNORMAL entries (pruned / underflowed weights): products with them underflow
        a = r.randn(n)
        for k in r.choice(n, size=max(1, n // 4), replace=False):
            a[k] = r.choice([1e-41, -1e-41, 1e-45, 3e-39])
    elif kind == "huge":
        a = r.choice([65504.0, 65519.0, 65520.0, 65536.0, 7e4, 1e5, 3e4, 1.0], size=n) * r.choice([-1.0, 1.0], size=n)
    else:
        a = r.randn(n) * 50
    return a.astype(np.float32).reshape(shape)


WEIGHT_HEAVY = ["FULLY_CONNECTED"] * 6 + ["CONV_2D", "DEPTHWISE_CONV_2D", "BATCH_MATMUL", "EMBEDDING_LOOKUP", "RESHAPE", "TANH", "ADD", "MUL", "ABS"]


class Grower:
    """typed DAG grower over one subgraph"""

    SUPPORTED = ["FULLY_CONNECTED", "CONV_2D", "DEPTHWISE_CONV_2D", "CONV_2D_TRANSPOSE", "AVERAGE_POOL_2D", "RESHAPE", "SOFTMAX",
                 "TANH", "LOGISTIC", "GELU", "RSQRT", "TRANSPOSE", "ADD", "SUB", "MUL", "MEAN", "CONCATENATION", "STRIDED_SLICE",
                 "SPLIT", "BATCH_MATMUL", "EMBEDDING_LOOKUP"]
    UNSUPPORTED = ["ABS", "NEG", "RELU", "EXP_CLAMPED", "MAXIMUM", "SQUARE"]

    def __init__(self, g: G, rng, prefix="", shared_consts=None):
        self.g, self.rng, self.prefix = g, rng, prefix
        self.acts = []  # (tensor id, shape)
        self.n = 0
        self.inputs = []
        self.op_kinds = []
        self.const_pool = shared_consts if shared_consts is not None else {}  # shape tuple -> list of (buffer idx, data)
        self.tags = set()
        self.int_inputs = []
        self.produced = []  # tensor ids produced by ops, in order

    def name(self, base):
        self.n += 1
        return f"{self.prefix}{base}{self.n}"

    def new_act(self, shape, base="t"):
        t = self.g.tensor(self.name(base), shape)
        return t

    def add_input(self, shape):
        t = self.g.tensor(self.name("in"), shape)
        if getattr(self, "dynamic_batch", 0.0) and len(shape) >= 2 and shape[0] == 1 and self.rng.random() < self.dynamic_batch:
            # a dynamic batch dimension: static shape 1, shape signature -1 (what converters emit for `None` batch sizes)
            self.g.sg.tensors[t].shapeSignature = [-1] + [int(x) for x in shape[1:]]
            self.tags.add("dynamic_batch_input")
        self.inputs.append(t)
        self.acts.append((t, tuple(shape)))
        return t

    def const(self, shape, kind=None, share=0.0, base="w"):
        key = tuple(shape)
        if share and self.const_pool.get(key) and self.rng.random() < share:
            buf, data = self.rng.choice(self.const_pool[key])
            self.tags.add("shared_buffer")
            return self.g.tensor(self.name(base), shape, data=None, buffer=buf)
        data = _const(self.rng, shape, kind, getattr(self, "const_kinds", None))
        t = self.g.tensor(self.name(base), shape, data=data)
        self.const_pool.setdefault(key, []).append((self.g.sg.tensors[t].buffer, data))
        return t

    def iconst(self, values, shape=None, base="idx"):
        a = np.array(values, dtype=np.int32)
        if shape is not None:
            a = a.reshape(shape)
        return self.g.tensor(self.name(base), list(a.shape), TT.INT32, data=a)

    def pick(self, rank=None, pred=None):
        c = [a for a in self.acts if (rank is None or len(a[1]) == rank) and (pred is None or pred(a[1]))]
        return self.rng.choice(c) if c else None

    def out(self, t, shape):
        self.acts.append((t, tuple(shape)))
        self.produced.append(t)

    def _fuse(self, opts):
        """a fused activation (what converters emit for relu(op(x))): part of the operator's options, never touched by quantization"""
        if getattr(self, "fused_act", 0.0) and self.rng.random() < self.fused_act:
            opts.fusedActivationFunction = self.rng.choice([s.ActivationFunctionType.RELU, s.ActivationFunctionType.RELU6])
            self.tags.add("fused_activation")

    # each template returns True if it emitted an op
    def emit(self, kind, share=0.0):
        g, rng = self.g, self.rng
        if kind == "FULLY_CONNECTED":
            a = self.pick(2)
            if not a:
                return False
            x, (b, f) = a
            o = rng.randint(1, 4)
            w = self.const([o, f], share=share)
            bias = self.const([o], share=share, base="b") if rng.random() < 0.7 else -1
            y = self.new_act([b, o])
            opts = s.FullyConnectedOptionsT()
            self._fuse(opts)
            g.op(BO.FULLY_CONNECTED, [x, w, bias], [y], OPT.FullyConnectedOptions, opts)
            self.out(y, [b, o])
        elif kind in ("CONV_2D", "DEPTHWISE_CONV_2D", "CONV_2D_TRANSPOSE", "AVERAGE_POOL_2D"):
            a = self.pick(4)
            if not a:
                return False
            x, (n, h, w_, c) = a
            if kind == "CONV_2D":
                o = rng.randint(1, 3)
                w = self.const([o, rng.choice([1, 2]), rng.choice([1, 2]), c], share=share)
                bias = self.const([o], share=share, base="b")
                y = self.new_act([n, h, w_, o])
                opts = s.Conv2DOptionsT()
                opts.padding, opts.strideH, opts.strideW, opts.dilationHFactor, opts.dilationWFactor = s.Padding.SAME, 1, 1, 1, 1
                self._fuse(opts)
                g.op(BO.CONV_2D, [x, w, bias], [y], OPT.Conv2DOptions, opts)
                self.out(y, [n, h, w_, o])
            elif kind == "DEPTHWISE_CONV_2D":
                w = self.const([1, rng.choice([1, 2]), rng.choice([1, 2]), c], share=share)
                bias = self.const([c], share=share, base="b")
                y = self.new_act([n, h, w_, c])
                opts = s.DepthwiseConv2DOptionsT()
                opts.padding, opts.strideH, opts.strideW, opts.depthMultiplier, opts.dilationHFactor, opts.dilationWFactor = s.Padding.SAME, 1, 1, 1, 1, 1
                g.op(BO.DEPTHWISE_CONV_2D, [x, w, bias], [y], OPT.DepthwiseConv2DOptions, opts)
                self.out(y, [n, h, w_, c])
            elif kind == "CONV_2D_TRANSPOSE":
                o = rng.randint(1, 3)
                w = self.const([o, rng.choice([1, 2]), rng.choice([1, 2]), c], share=share)
                oshape = self.iconst([n, h, w_, o], base="oshape")
                ins = [oshape, w, x]
                rb = rng.random()
                if rb < 0.4:
                    ins.append(self.const([o], base="b"))
                elif rb < 0.7:
                    ins.append(-1)   # absent optional bias written as -1 (what the MLIR converter emits)
                    self.tags.add("absent_optional_operand")
                y = self.new_act([n, h, w_, o])
                opts = s.TransposeConvOptionsT()
                opts.padding, opts.strideH, opts.strideW = s.Padding.SAME, 1, 1
                g.op(BO.TRANSPOSE_CONV, ins, [y], OPT.TransposeConvOptions, opts)
                self.out(y, [n, h, w_, o])
            else:
                y = self.new_act([n, h, w_, c])
                opts = s.Pool2DOptionsT()
                opts.padding, opts.strideH, opts.strideW, opts.filterHeight, opts.filterWidth = s.Padding.SAME, 1, 1, rng.choice([1, 2]), rng.choice([1, 2])
                self._fuse(opts)
                g.op(BO.AVERAGE_POOL_2D, [x], [y], OPT.Pool2DOptions, opts)
                self.out(y, [n, h, w_, c])
        elif kind == "RESHAPE":
            a = self.pick()
            if not a:
                return False
            x, shp = a
            scalar = None
            if rng.random() < 0.25:
                # reshape of a one-element tensor to a scalar: the shape operand is a ZERO-LENGTH constant (what converters emit)
                scalar = self.pick(pred=lambda sh: len(sh) > 0 and int(np.prod(sh)) == 1)
            if scalar is not None:
                x, shp = scalar
                sh = self.iconst([], base="shape")
                y = self.new_act([])
                opts = s.ReshapeOptionsT()
                opts.newShape = []
                g.op(BO.RESHAPE, [x, sh], [y], OPT.ReshapeOptions, opts)
                self.out(y, [])
                self.tags.add("reshape_to_scalar")
                self.op_kinds.append(kind)
                return True
            if len(shp) == 0:
                return False
            if rng.random() < 0.12:
                # pass-through op on a constant (a converter would fold it, but it is a legal model)
                shp = (rng.randint(1, 2), rng.choice([2, 4]))
                x = self.const(list(shp), base="c")
                self.tags.add("passthrough_on_const")
            n = int(np.prod(shp))
            if len(shp) == 4:
                new = [shp[0], n // shp[0]]
            elif len(shp) == 2 and rng.random() < 0.5:
                new = [1, 1, shp[0], shp[1]] if rng.random() < 0.5 else [shp[0], 1, 1, shp[1]]
            elif len(shp) == 2:
                new = [shp[0], shp[1], 1]
            else:
                new = [shp[0], n // shp[0]]
            sh = self.iconst(new, base="shape")
            y = self.new_act(new)
            opts = s.ReshapeOptionsT()
            opts.newShape = [int(v) for v in new]
            g.op(BO.RESHAPE, [x, sh], [y], OPT.ReshapeOptions, opts)
            self.out(y, new)
        elif kind in ("SOFTMAX", "TANH", "LOGISTIC", "GELU", "RSQRT", "ABS", "NEG", "RELU", "SQUARE", "EXP_CLAMPED"):
            a = self.pick()
            if not a:
                return False
            x, shp = a
            if kind == "SOFTMAX" and len(shp) < 1:
                return False   # (before any tensor is created: a dangling tensor is never allocated by the interpreter)
            y = self.new_act(shp)
            if kind == "SOFTMAX":
                opts = s.SoftmaxOptionsT()
                opts.beta = 1.0
                g.op(BO.SOFTMAX, [x], [y], OPT.SoftmaxOptions, opts)
            elif kind == "GELU":
                opts = s.GeluOptionsT()
                opts.approximate = False
                g.op(BO.GELU, [x], [y], OPT.GeluOptions, opts)
            elif kind == "RSQRT":
                # keep the operand bounded away from 0: rsqrt(|x| + 0.5) via ABS and ADD const
                ax = self.new_act(shp)
                g.op(BO.ABS, [x], [ax])
                self.out(ax, shp)
                c = self.g.tensor(self.name("half"), [1] * max(len(shp), 1) if shp else [], data=np.full([1] * max(len(shp), 1) if shp else [], 0.5, np.float32))
                sx = self.new_act(shp)
                ao = s.AddOptionsT()
                g.op(BO.ADD, [ax, c], [sx], OPT.AddOptions, ao)
                self.out(sx, shp)
                g.op(BO.RSQRT, [sx], [y])
            elif kind == "EXP_CLAMPED":
                tx = self.new_act(shp)
                g.op(BO.TANH, [x], [tx])
                self.out(tx, shp)
                g.op(BO.EXP, [tx], [y])
            else:
                code = {"TANH": BO.TANH, "LOGISTIC": BO.LOGISTIC, "ABS": BO.ABS, "NEG": BO.NEG, "RELU": BO.RELU, "SQUARE": BO.SQUARE}[kind]
                g.op(code, [x], [y])
            self.out(y, shp)
        elif kind == "TRANSPOSE":
            a = self.pick(2)
            if not a:
                return False
            x, (b, f) = a
            perm = self.iconst([1, 0], base="perm")
            y = self.new_act([f, b])
            g.op(BO.TRANSPOSE, [x, perm], [y], OPT.TransposeOptions, s.TransposeOptionsT())
            self.out(y, [f, b])
        elif kind in ("ADD", "SUB", "MUL", "MAXIMUM"):
            a = self.pick()
            if not a:
                return False
            x, shp = a
            mode = rng.random()
            if mode < 0.25:
                other = x  # repeated operand
                self.tags.add("repeated_operand")
            elif mode < 0.6:
                cands = [t for t, sh in self.acts if sh == shp and t != x]
                other = rng.choice(cands) if cands else self.const(list(shp), base="c")
            else:
                other = self.const(list(shp), share=share, base="c")
            ins = [x, other] if rng.random() < 0.7 else [other, x]
            y = self.new_act(shp)
            if kind == "ADD":
                g.op(BO.ADD, ins, [y], OPT.AddOptions, s.AddOptionsT())
            elif kind == "SUB":
                g.op(BO.SUB, ins, [y], OPT.SubOptions, s.SubOptionsT())
            elif kind == "MUL":
                g.op(BO.MUL, ins, [y], OPT.MulOptions, s.MulOptionsT())
            else:
                g.op(BO.MAXIMUM, ins, [y], OPT.MaximumMinimumOptions, s.MaximumMinimumOptionsT())
            self.out(y, shp)
        elif kind == "MEAN":
            a = self.pick(2) or self.pick(4)
            if not a:
                return False
            x, shp = a
            axis = len(shp) - 1 if len(shp) == 2 else rng.choice([1, 2])
            ax = self.iconst([axis], base="axis")
            new = list(shp)
            new[axis] = 1
            y = self.new_act(new)
            opts = s.ReducerOptionsT()
            opts.keepDims = True
            g.op(BO.MEAN, [x, ax], [y], OPT.ReducerOptions, opts)
            self.out(y, new)
        elif kind == "CONCATENATION":
            a = self.pick(2) or self.pick(4)
            if not a:
                return False
            x, shp = a
            if rng.random() < 0.25:
                # several CONSTANT operands of different widths next to one activation (each must keep its own bytes)
                axis = len(shp) - 1
                widths = [rng.randint(1, 3), rng.randint(1, 3)]
                ins = [x]
                for w in widths:
                    cs = list(shp)
                    cs[axis] = w
                    ins.append(self.const(cs, base="c"))
                rng.shuffle(ins)
                new = list(shp)
                new[axis] = shp[axis] + sum(widths)
                y = self.new_act(new)
                opts = s.ConcatenationOptionsT()
                opts.axis = axis
                g.op(BO.CONCATENATION, ins, [y], OPT.ConcatenationOptions, opts)
                self.out(y, new)
                self.tags.add("concat_multi_const")
                self.op_kinds.append(kind)
                return True
            k = rng.randint(2, 3)
            ins = [x]
            for _ in range(k - 1):
                r = rng.random()
                cands = [t for t, sh in self.acts if sh == shp]
                if r < 0.3:
                    ins.append(x)
                    self.tags.add("repeated_operand")
                elif r < 0.8 and cands:
                    ins.append(rng.choice(cands))
                else:
                    ins.append(self.const(list(shp), base="c"))
            rng.shuffle(ins)
            axis = len(shp) - 1
            new = list(shp)
            new[axis] = shp[axis] * k
            y = self.new_act(new)
            opts = s.ConcatenationOptionsT()
            opts.axis = axis
            g.op(BO.CONCATENATION, ins, [y], OPT.ConcatenationOptions, opts)
            self.out(y, new)
        elif kind == "STRIDED_SLICE":
            a = self.pick(2, lambda sh: sh[1] >= 2)
            if not a:
                return False
            x, (b, f) = a
            e = rng.randint(1, f)
            if b == 1 and rng.random() < 0.35:
                e = 1
            bg, en = self.iconst([0, 0], base="begin"), self.iconst([b, e], base="end")
            if (b, e) == (1, 1) and rng.random() < 0.7:
                st = en    # converters de-duplicate equal small constants: `end` and `strides` are ONE tensor in two operand positions
                self.tags.add("one_constant_in_two_index_slots")
            else:
                st = self.iconst([1, 1], base="strides")
            y = self.new_act([b, e])
            g.op(BO.STRIDED_SLICE, [x, bg, en, st], [y], OPT.StridedSliceOptions, s.StridedSliceOptionsT())
            self.out(y, [b, e])
        elif kind == "SPLIT":
            a = self.pick(2, lambda sh: sh[1] % 2 == 0)
            if not a:
                return False
            x, (b, f) = a
            ax = self.g.tensor(self.name("axis"), [], TT.INT32, data=np.array(1, np.int32))
            y1, y2 = self.new_act([b, f // 2]), self.new_act([b, f // 2])
            opts = s.SplitOptionsT()
            opts.numSplits = 2
            g.op(BO.SPLIT, [ax, x], [y1, y2], OPT.SplitOptions, opts)
            self.out(y1, [b, f // 2])
            self.out(y2, [b, f // 2])
            self.tags.add("multi_output_op")
        elif kind == "BATCH_MATMUL":
            a = self.pick(2)
            if not a:
                return False
            x, (b, f) = a
            # lift to rank 3 through RESHAPE so that batch matmul sees [1,b,f]
            sh = self.iconst([1, b, f], base="shape")
            x3 = self.new_act([1, b, f])
            ro = s.ReshapeOptionsT()
            ro.newShape = [1, b, f]
            g.op(BO.RESHAPE, [x, sh], [x3], OPT.ReshapeOptions, ro)
            self.out(x3, [1, b, f])
            n = rng.randint(1, 3)
            adjy = rng.random() < 0.4
            force = getattr(self, "bmm_force", None)
            if force is not None:
                adjy = force[0]
                n = rng.randint(2, 3)
            if force is None and getattr(self, "bmm_const_lhs", 0.0) and rng.random() < self.bmm_const_lhs:
                # the CONSTANT is the left operand (tf.matmul(constant, x)): [1,n,b] x [1,b,f] -> [1,n,f]
                adjx = rng.random() < 0.3
                lhs = self.const([1, b, n] if adjx else [1, n, b])
                z = self.new_act([1, n, f])
                opts = s.BatchMatMulOptionsT()
                opts.adjX, opts.adjY = adjx, False
                g.op(BO.BATCH_MATMUL, [lhs, x3], [z], OPT.BatchMatMulOptions, opts)
                self.out(z, [1, n, f])
                self.tags.add("bmm_constant_left_operand")
                self.op_kinds.append(kind)
                return True
            if (force[1] if force is not None else rng.random() < 0.7):
                yv = self.const([1, n, f] if adjy else [1, f, n])
            else:
                cands = [t for t, shp in self.acts if shp == ((1, n, f) if adjy else (1, f, n))]
                yv = rng.choice(cands) if cands else self.const([1, n, f] if adjy else [1, f, n])
            z = self.new_act([1, b, n])
            opts = s.BatchMatMulOptionsT()
            opts.adjX, opts.adjY = False, adjy
            g.op(BO.BATCH_MATMUL, [x3, yv], [z], OPT.BatchMatMulOptions, opts)
            self.out(z, [1, b, n])
        elif kind == "RNN":
            # stateful cell: the hidden state lives in a VARIABLE tensor (what converters emit for Keras recurrent layers);
            # never quantized itself, but everything downstream depends on the interpreter state being reset per sample
            a = self.pick(2)
            if not a:
                return False
            x, (b, f) = a
            u = rng.randint(1, 3)
            w_in = self.const([u, f], kind="normal", base="rk")
            w_rec = self.const([u, u], kind="normal", base="rr")
            bias = self.const([u], kind="small", base="rb")
            h = self.g.tensor(self.name("state"), [b, u], variable=True)
            y = self.new_act([b, u])
            opts = s.RNNOptionsT()
            opts.fusedActivationFunction = s.ActivationFunctionType.TANH
            g.op(BO.RNN, [x, w_in, w_rec, bias, h], [y], OPT.RNNOptions, opts)
            self.out(y, [b, u])
            self.tags.add("stateful_rnn")
        elif kind == "EMBEDDING_LOOKUP":
            v, d, n = rng.randint(2, 4), rng.randint(1, 4), rng.randint(1, 3)
            ids = self.g.tensor(self.name("ids"), [n], TT.INT32)
            self.inputs.append(ids)
            self.int_inputs.append((ids, v))
            table = self.const([v, d], share=share)
            y = self.new_act([n, d])
            g.op(BO.EMBEDDING_LOOKUP, [ids, table], [y])
            self.out(y, [n, d])
        else:
            raise ValueError(kind)
        self.op_kinds.append(kind)
        return True


def grow_subgraph(g: G, rng, n_ops, prefix="", sig=None, kinds=None, share=0.0, shared_consts=None, p_unsupported=0.25,
                  name_hazard=0.0, extra_outputs=0.3, allow_dead=0.1, const_output=0.0, const_kinds=None, alias_sig=None, bool_mask=0.06, sig_names=None, p_stateful=0.0, dup_output=0.0, dynamic_batch=0.0, fused_act=0.0, bmm_force=None, bmm_const_lhs=0.0):
    g.subgraph(name=(prefix or "main").encode())
    gr = Grower(g, rng, prefix, shared_consts)
    gr.const_kinds = const_kinds
    gr.dynamic_batch = dynamic_batch
    gr.fused_act = fused_act
    gr.bmm_force = bmm_force   # (adj_y, constant right-hand side) of every BATCH_MATMUL, or None = random
    gr.bmm_const_lhs = bmm_const_lhs
    # inputs
    r = rng.random()
    if r < 0.55:
        gr.add_input([rng.randint(1, 2), rng.choice([2, 3, 4])])
    elif r < 0.8:
        gr.add_input([1, rng.randint(1, 2), rng.randint(1, 2), rng.randint(1, 3)])
    else:
        gr.add_input([rng.randint(1, 2), rng.choice([2, 4])])
        gr.add_input([1, 2, 2, rng.randint(1, 2)])
    tries = 0
    while len(gr.op_kinds) < n_ops and tries < n_ops * 12:
        tries += 1
        if p_stateful and rng.random() < p_stateful:
            k = "RNN"
        elif kinds:
            k = rng.choice(kinds)
        elif rng.random() < p_unsupported:
            k = rng.choice(Grower.UNSUPPORTED)
        else:
            k = rng.choice(Grower.SUPPORTED)
        gr.emit(k, share)
    sg = g.sg
    # outputs: every produced tensor nobody consumes (unless deliberately left dead), plus exported intermediates
    consumed = {i for op in sg.operators for i in op.inputs if i >= 0}
    outs = []
    for t in gr.produced:
        if t not in consumed:
            if rng.random() < allow_dead and len(gr.produced) > 1 and outs:
                gr.tags.add("dead_output")
                continue
            outs.append(t)
    if not outs:
        outs = [gr.produced[-1]] if gr.produced else [gr.inputs[0]]
    for t in gr.produced:
        if t in consumed and t not in outs and rng.random() < extra_outputs / max(1, len(gr.produced)) * 2:
            outs.append(t)
            gr.tags.add("graph_output_consumed")
    if rng.random() < 0.05 and gr.inputs:
        outs.append(gr.inputs[0])
        gr.tags.add("input_is_output")
    if const_output and rng.random() < const_output:
        consts = [i for i, t in enumerate(sg.tensors) if t.type == TT.FLOAT32 and g.m.buffers[t.buffer].data is not None and i not in outs]
        if consts:
            outs.append(rng.choice(consts))
            gr.tags.add("const_is_output")
    if bool_mask and rng.random() < bool_mask and gr.produced:
        # a BOOL tensor exported as graph output (e.g. a mask computed by GREATER): non-float runtime tensors must be carried through
        src = rng.choice(gr.produced)
        shp = [int(v) for v in sg.tensors[src].shape]
        if sg.tensors[src].type == TT.FLOAT32 and len(shp) >= 1:
            thr = g.tensor(gr.name("thr"), [1] * len(shp), data=np.zeros([1] * len(shp), np.float32))
            mask = g.tensor(gr.name("mask"), shp, TT.BOOL)
            g.op(BO.GREATER, [src, thr], [mask])
            outs.append(mask)
            gr.tags.add("bool_output")
    if dup_output and rng.random() < dup_output and outs:
        # one tensor exported under two output names (`return {'logits': y, 'scores': y}`): listed twice, two signature entries
        outs.append(rng.choice(outs))
        gr.tags.add("duplicate_output")
    rng.shuffle(outs)
    # drop unused inputs (interpreter is fine with them, but keep graphs tidy): keep all
    if name_hazard and rng.random() < name_hazard and gr.produced:
        victim = rng.choice(gr.produced)
        base = sg.tensors[victim].name
        other = rng.choice([i for i in range(len(sg.tensors)) if i != victim])
        sg.tensors[other].name = base + rng.choice([b"_quantized", b"_dequant"])
        gr.tags.add("name_hazard")
    g.io(gr.inputs, outs, sig=sig)
    if len(sg.operators) == 1:
        gr.tags.add("single_op")
    multi = [t for t in range(len(sg.tensors)) if sum(1 for op in sg.operators for i in op.inputs if i == t) > 1]
    if multi:
        gr.tags.add("multi_consumer")
    if any(t in consumed for t in outs):
        gr.tags.add("graph_output_consumed")
    return gr


def gen_model(rng, n_ops=None, n_subgraphs=1, kinds=None, share=0.0, own_buffers=True, **kw):
    """returns (bytes, info) ; info: tags, int input ranges per subgraph, signature keys"""
    g = G(own_buffers=own_buffers)
    info = {"tags": set(), "subgraphs": []}
    shared = {} if share else None
    for i in range(n_subgraphs):
        n = n_ops if n_ops is not None else rng.randint(1, 6)
        prefix = "" if n_subgraphs == 1 and rng.random() < 0.5 else f"s{i}/"
        sig = f"sig{i}" if n_subgraphs > 1 else rng.choice(["serving_default", "serving_default", "serving_default", "encode"])
        gr = grow_subgraph(g, rng, n, prefix=prefix, sig=sig, kinds=kinds, share=share, shared_consts=shared, **kw)
        info["tags"] |= gr.tags
        info["subgraphs"].append({"sig": sig, "int_inputs": [(g.sg.tensors[t].name.decode(), v) for t, v in gr.int_inputs], "ops": gr.op_kinds})
        if kw.get("alias_sig", 0.08) and rng.random() < kw.get("alias_sig", 0.08) and g.m.signatureDefs:
            # a second signature key exporting the SAME subgraph (legal; every signature must follow a retargeted output)
            import copy as _copy
            sd = _copy.deepcopy(g.m.signatureDefs[-1])
            sd.signatureKey = (sig + "_alias").encode()
            g.m.signatureDefs.append(sd)
            info["tags"].add("two_signatures_one_subgraph")
    if n_subgraphs > 1:
        info["tags"].add("multi_subgraph")
    return g.bytes(), info


def random_inputs(model_bytes, rng, sg_info=None, n=1, scale=None, spread=False, batch=None):
    """signature-keyed input data for calibrate()/validate(): {sig_key or None: [ {arg: array} ]}"""
    m = flatbuffer_utils.read_model_from_bytearray(bytearray(model_bytes))
    out = {}
    r = np.random.RandomState(rng.randrange(2 ** 31))
    if scale is None:
        scale = rng.choice([1.0, 1.0, 1.0, 1.0, 3.0, 0.05, 1e-5, 0.003, 0.003, 0.0004])   # small magnitudes: scales of 1e-7..1e-6 (absolute tolerances matter there)
    sigs = m.signatureDefs or []
    for sd in sigs:
        sg = m.subgraphs[sd.subgraphIndex]
        samples = []
        for _ in range(n):
            d = {}
            for tm in sd.inputs:
                t = sg.tensors[tm.tensorIndex]
                shape = [int(x) for x in t.shape]
                sig_ = getattr(t, "shapeSignature", None)
                if batch and sig_ is not None and len(sig_) and int(sig_[0]) == -1:
                    shape[0] = batch    # a dynamic batch dimension accepts any batch size
                if t.type == TT.INT32:
                    d[tm.name.decode()] = r.randint(0, 2, size=shape).astype(np.int32)
                else:
                    d[tm.name.decode()] = (r.randn(*shape) * scale * (r.choice([0.3, 1.0, 3.0, 8.0]) if spread else 1.0)).astype(np.float32)
            samples.append(d)
        out[sd.signatureKey.decode()] = samples
    return out


def gen_tied(rng, shared_bias=0.0, nsg=None, extras=True):
    """models with tied constants: one buffer referenced by several tensors (within / across subgraphs)
    and one constant tensor feeding 2..3 operators. With probability `shared_bias` the FULLY_CONNECTED ops of a subgraph
    also share ONE bias tensor while reading inputs of different ranges (the bias scale input_scale*weight_scale then differs
    per consumer: the quantizer must refuse or get both right)."""
    nsg = nsg or rng.choice([1, 1, 2])
    g = G()
    info = {"tags": {"tied"}, "subgraphs": []}
    f, o = rng.choice([2, 3, 4]), rng.choice([2, 3])
    wdata = _const(rng, [o, f])
    shared_buf = None
    for si in range(nsg):
        prefix = f"s{si}/" if nsg > 1 else ""
        g.subgraph(name=(prefix or "main").encode())
        gr = Grower(g, rng, prefix)
        x = gr.add_input([rng.randint(1, 2), f])
        kinds = []
        if si > 0 and rng.random() < 0.6:
            # the readers of the tied weight sit at other operator positions than in the first subgraph
            for _ in range(rng.randint(1, 2)):
                x2 = gr.new_act(list(g.sg.tensors[x].shape))
                g.op(rng.choice([BO.TANH, BO.ABS, BO.LOGISTIC]), [x], [x2])
                gr.out(x2, list(g.sg.tensors[x].shape))
                x = x2
                kinds.append("UNARY")
            info["tags"].add("tied_readers_at_different_positions")
        mode = rng.choice(["same_tensor", "same_buffer", "mixed"]) if si == 0 else "same_buffer"
        if shared_buf is None:
            w0 = g.tensor(gr.name("w"), [o, f], data=wdata)
            shared_buf = g.sg.tensors[w0].buffer
        else:
            if rng.random() < 0.35:
                # the tied weight carries the SAME NAME in both subgraphs (the library must refuse duplicate names model-wide)
                w0 = g.tensor(first_w_name, [o, f], buffer=shared_buf)
                gr.n += 1
                info["tags"].add("tied_same_name_across_subgraphs")
            else:
                w0 = g.tensor(gr.name("w"), [o, f], buffer=shared_buf)
            info["tags"].add("tied_across_subgraphs")
        if si == 0:
            first_w_name = g.sg.tensors[w0].name.decode()
        k = rng.randint(2, 3)
        cur = x
        outs = []
        if extras and rng.random() < 0.12:
            outs.append(w0)   # the weight itself is also exported as a graph output
            info["tags"].add("tied_weight_is_output")
        sb = rng.random() < shared_bias
        b_shared = gr.const([o], kind="normal", base="b") if sb else None
        if sb:
            info["tags"].add("shared_bias")
        xs = [x]
        for j in range(1, k):
            if sb:   # a differently scaled view of the input for the later consumers
                xj = gr.new_act(list(g.sg.tensors[x].shape))
                g.op(rng.choice([BO.LOGISTIC, BO.TANH]), [x], [xj])
                kinds.append("UNARY")
                xs.append(xj)
            else:
                xs.append(x)
        for j in range(k):
            if mode == "same_tensor" or (mode == "mixed" and j < 2):
                w = w0
                info["tags"].add("same_tensor_multi_consumer")
            else:
                w = g.tensor(gr.name("w"), [o, f], buffer=shared_buf) if j > 0 else w0
                if j > 0:
                    info["tags"].add("tied_within_subgraph")
            b = b_shared if sb else (gr.const([o], base="b") if rng.random() < 0.6 else -1)
            y = gr.new_act([g.sg.tensors[x].shape[0], o])
            g.op(BO.FULLY_CONNECTED, [xs[j], w, b], [y], OPT.FullyConnectedOptions, s.FullyConnectedOptionsT())
            kinds.append("FULLY_CONNECTED")
            gr.out(y, [g.sg.tensors[x].shape[0], o])
            outs.append(y)
            if rng.random() < 0.4:
                z = gr.new_act([g.sg.tensors[x].shape[0], o])
                g.op(rng.choice([BO.TANH, BO.ABS, BO.LOGISTIC]), [y], [z])
                gr.out(z, [g.sg.tensors[x].shape[0], o])
                outs[-1] = z
                kinds.append("UNARY")
        if extras and rng.random() < 0.35:
            # tied embedding: the SAME table tensor is looked up and used as projection weights
            n = rng.randint(1, 3)
            ids = g.tensor(gr.name("ids"), [n], TT.INT32)
            gr.inputs.append(ids)
            gr.int_inputs.append((ids, o))
            e = gr.new_act([n, f])
            g.op(BO.EMBEDDING_LOOKUP, [ids, w0], [e])
            gr.out(e, [n, f])
            outs.append(e)
            kinds.append("EMBEDDING_LOOKUP")
            info["tags"].add("tied_embedding")
        if extras and rng.random() < 0.4:
            # the shared constant also feeds an elementwise op directly
            c = g.tensor(gr.name("wt"), [o, f], buffer=shared_buf) if rng.random() < 0.5 else w0
            xx = gr.add_input([o, f])
            y = gr.new_act([o, f])
            g.op(rng.choice([BO.ADD, BO.MUL]), [xx, c], [y], OPT.AddOptions, s.AddOptionsT())
            gr.out(y, [o, f])
            outs.append(y)
            kinds.append("ELEMENTWISE_CONST")
            info["tags"].add("tied_elementwise")
        if extras and rng.random() < 0.3:
            # the shared constant is ALSO read by an operator the quantizer does not know (GATHER is what converters emit for
            # tf.gather / nn.Embedding; MAXIMUM stands for any elementwise op outside its table): that reader needs the float bytes
            c = g.tensor(gr.name("wu"), [o, f], buffer=shared_buf) if rng.random() < 0.4 else w0
            if rng.random() < 0.5:
                n = rng.randint(1, 3)
                ids = g.tensor(gr.name("gids"), [n], TT.INT32)
                gr.inputs.append(ids)
                gr.int_inputs.append((ids, o))
                e = gr.new_act([n, f])
                go = s.GatherOptionsT()
                go.axis = 0
                g.op(BO.GATHER, [c, ids], [e], OPT.GatherOptions, go)
                gr.out(e, [n, f])
                outs.append(e)
                kinds.append("GATHER")
            else:
                xx = gr.add_input([o, f])
                y = gr.new_act([o, f])
                g.op(BO.MAXIMUM, [xx, c], [y], OPT.MaximumMinimumOptions, s.MaximumMinimumOptionsT())
                gr.out(y, [o, f])
                outs.append(y)
                kinds.append("MAXIMUM")
            info["tags"].add("tied_unknown_op_reader")
        if extras and rng.random() < 0.3:
            # two SCALAR constants (shape []: one element) over one buffer, as converters de-duplicate `x + 0.5` and `x * 0.5`;
            # a recipe may cover only one of the two readers
            val = np.array(rng.choice([0.5, -1.25, 3.0]), np.float32)
            c1 = g.tensor(gr.name("k"), [], data=val)
            c2 = g.tensor(gr.name("k"), [], buffer=g.sg.tensors[c1].buffer)
            src = outs[-1] if outs and g.sg.tensors[outs[-1]].type == TT.FLOAT32 and outs[-1] != w0 else x
            shp = [int(v) for v in g.sg.tensors[src].shape]
            y1, y2 = gr.new_act(shp), gr.new_act(shp)
            g.op(BO.ADD, [src, c1], [y1], OPT.AddOptions, s.AddOptionsT())
            second = rng.choice(["MUL", "SUB", "MAXIMUM"])
            if second == "MUL":
                g.op(BO.MUL, [src, c2], [y2], OPT.MulOptions, s.MulOptionsT())
            elif second == "SUB":
                g.op(BO.SUB, [src, c2], [y2], OPT.SubOptions, s.SubOptionsT())
            else:
                g.op(BO.MAXIMUM, [src, c2], [y2], OPT.MaximumMinimumOptions, s.MaximumMinimumOptionsT())
            gr.out(y1, shp)
            gr.out(y2, shp)
            outs += [y1, y2]
            kinds += ["ADD", second]
            info["tags"].add("tied_scalars")
        if extras and rng.random() < 0.2:
            # the shared buffer also backs a constant that NO operator reads: exported as a graph output, or just left in the table
            we = g.tensor(gr.name("w_export"), [o, f], buffer=shared_buf)
            if rng.random() < 0.6:
                outs.append(we)
            info["tags"].add("tied_unread_constant")
        g.io(gr.inputs, outs, sig=f"sig{si}" if nsg > 1 else "serving_default")
        info["subgraphs"].append({"sig": None, "int_inputs": [], "ops": kinds})
    return g.bytes(), info


def gen_twin_signatures(rng):
    """the same function exported under two signatures: identical structure in both subgraphs, the weight tensor carries the SAME NAME
    and the same buffer in both (everything else is named per subgraph). The library requires model-wide unique names and must refuse it."""
    g = G()
    info = {"tags": {"tied", "twin_signatures_same_weight_name"}, "subgraphs": []}
    f, o = rng.choice([2, 3, 4, 8]), rng.choice([2, 3, 8])
    wdata = _const(rng, [o, f], kind="normal")
    buf = None
    tail = rng.choice([None, BO.TANH, BO.LOGISTIC])
    with_bias = rng.random() < 0.5
    for si in range(2):
        prefix = f"s{si}/"
        g.subgraph(name=prefix.encode())
        gr = Grower(g, rng, prefix)
        x = gr.add_input([rng.randint(1, 2), f])
        if buf is None:
            w = g.tensor("shared/kernel", [o, f], data=wdata)
            buf = g.sg.tensors[w].buffer
        else:
            w = g.tensor("shared/kernel", [o, f], buffer=buf)
        b = gr.const([o], kind="small", base="b") if with_bias else -1
        y = gr.new_act([g.sg.tensors[x].shape[0], o])
        g.op(BO.FULLY_CONNECTED, [x, w, b], [y], OPT.FullyConnectedOptions, s.FullyConnectedOptionsT())
        gr.out(y, [g.sg.tensors[x].shape[0], o])
        kinds = ["FULLY_CONNECTED"]
        out = y
        if tail is not None:
            z = gr.new_act([g.sg.tensors[x].shape[0], o])
            g.op(tail, [y], [z])
            gr.out(z, [g.sg.tensors[x].shape[0], o])
            out = z
            kinds.append("UNARY")
        g.io(gr.inputs, [out], sig=f"sig{si}")
        info["subgraphs"].append({"sig": None, "int_inputs": [], "ops": kinds})
    return g.bytes(), info


def gen_tied_scalars(rng):
    """nothing tied but SCALAR constants (shape []: one element) sharing one buffer, within one subgraph or across two signatures
    (converters de-duplicate `x + 0.5` and `x * 0.5`); the readers are different operators, so a recipe can cover only one of them"""
    nsg = rng.choice([1, 1, 2])
    g = G()
    info = {"tags": {"tied", "tied_scalars", "tied_scalars_only"}, "subgraphs": []}
    val = np.array(rng.choice([0.5, -1.25, 3.0, 0.001]), np.float32)
    shared = None
    second_kinds = ["MUL", "SUB", "MAXIMUM", "ADD"]
    for si in range(nsg):
        prefix = f"s{si}/" if nsg > 1 else ""
        g.subgraph(name=(prefix or "main").encode())
        gr = Grower(g, rng, prefix)
        x = gr.add_input([rng.randint(1, 2), rng.choice([2, 3, 4])])
        if rng.random() < 0.5:
            gr.emit(rng.choice(["TANH", "FULLY_CONNECTED", "ABS", "LOGISTIC"]))
        src, shp = gr.acts[-1]
        kinds = list(gr.op_kinds)
        outs = []
        readers = ["ADD"] + ([rng.choice(second_kinds)] if nsg == 1 or rng.random() < 0.3 else [])
        if si > 0:
            readers = [rng.choice(second_kinds)]
        for kind in readers:
            if shared is None:
                c = g.tensor(gr.name("k"), [], data=val)
                shared = g.sg.tensors[c].buffer
            else:
                c = g.tensor(gr.name("k"), [], buffer=shared)
            y = gr.new_act(list(shp))
            ins = [src, c] if rng.random() < 0.8 else [c, src]
            if kind == "ADD":
                g.op(BO.ADD, ins, [y], OPT.AddOptions, s.AddOptionsT())
            elif kind == "MUL":
                g.op(BO.MUL, ins, [y], OPT.MulOptions, s.MulOptionsT())
            elif kind == "SUB":
                g.op(BO.SUB, ins, [y], OPT.SubOptions, s.SubOptionsT())
            else:
                g.op(BO.MAXIMUM, ins, [y], OPT.MaximumMinimumOptions, s.MaximumMinimumOptionsT())
            gr.out(y, list(shp))
            outs.append(y)
            kinds.append(kind)
        g.io(gr.inputs, outs, sig=f"sig{si}" if nsg > 1 else "serving_default")
        info["subgraphs"].append({"sig": None, "int_inputs": [], "ops": kinds})
    return g.bytes(), info


def gen_near_equal(rng):
    """tensors whose ranges differ by a fraction of a percent to a few percent meet where parameters must be EQUAL (concatenation
    operands, one tensor read by two consumers): returns (bytes, info); meant to be calibrated on small magnitudes, where scales are
    1e-7..1e-6 and any absolute tolerance in a parameter comparison is a relative tolerance of percents"""
    g = G()
    g.subgraph()
    gr = Grower(g, rng, "")
    b, f = rng.randint(1, 2), rng.choice([2, 3, 4])
    x = gr.add_input([b, f])
    kinds = []
    parts = [x]
    for _ in range(rng.randint(1, 2)):
        factor = rng.choice([1.0005, 1.003, 1.01, 1.02, 0.99, 0.975])
        c = g.tensor(gr.name("near_one"), [1, 1], data=np.full([1, 1], factor, np.float32))
        y = gr.new_act([b, f])
        g.op(BO.MUL, [rng.choice(parts), c], [y], OPT.MulOptions, s.MulOptionsT())
        gr.out(y, [b, f])
        parts.append(y)
        kinds.append("MUL")
    rng.shuffle(parts)
    z = gr.new_act([b, f * len(parts)])
    co = s.ConcatenationOptionsT()
    co.axis = 1
    g.op(BO.CONCATENATION, parts, [z], OPT.ConcatenationOptions, co)
    gr.out(z, [b, f * len(parts)])
    kinds.append("CONCATENATION")
    outs = [z]
    if rng.random() < 0.5:
        w = gr.new_act([b, f * len(parts)])
        g.op(BO.ABS, [z], [w])
        gr.out(w, [b, f * len(parts)])
        outs = [w]
        kinds.append("ABS")
    if rng.random() < 0.4:
        outs.append(rng.choice(parts[1:] or parts))
    g.io(gr.inputs, outs, sig="serving_default")
    info = {"tags": {"near_equal_ranges", "multi_consumer"}, "subgraphs": [{"sig": "serving_default", "int_inputs": [], "ops": kinds}]}
    return g.bytes(), info


def gen_fanout(rng):
    """one float tensor feeding 2..4 operators (so that per-consumer rules with different parameters
    need several QUANTIZE ops on the same tensor); the tensor may also be a graph output"""
    g = G()
    g.subgraph()
    gr = Grower(g, rng, "")
    f = rng.choice([2, 3, 4])
    x0 = gr.add_input([rng.randint(1, 2), f])
    if rng.random() < 0.5:
        gr.emit(rng.choice(["TANH", "ABS", "FULLY_CONNECTED", "RELU"]))
    x, shp = gr.acts[-1]
    k = rng.randint(2, 4)
    outs = []
    kinds = []
    for _ in range(k):
        kind = rng.choice(["TANH", "LOGISTIC", "GELU", "SOFTMAX", "ABS"])
        y = gr.new_act(shp)
        code = {"TANH": BO.TANH, "LOGISTIC": BO.LOGISTIC, "ABS": BO.ABS}.get(kind)
        if kind == "GELU":
            o = s.GeluOptionsT(); o.approximate = False
            g.op(BO.GELU, [x], [y], OPT.GeluOptions, o)
        elif kind == "SOFTMAX":
            o = s.SoftmaxOptionsT(); o.beta = 1.0
            g.op(BO.SOFTMAX, [x], [y], OPT.SoftmaxOptions, o)
        else:
            g.op(code, [x], [y])
        gr.out(y, shp)
        outs.append(y)
        kinds.append(kind)
    if rng.random() < 0.4:
        outs.append(x)
    g.io(gr.inputs, outs, sig="serving_default")
    info = {"tags": {"fanout", "multi_consumer"}, "subgraphs": [{"sig": "serving_default", "int_inputs": [], "ops": gr.op_kinds + kinds}]}
    return g.bytes(), info
