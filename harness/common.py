"""Shared machinery of the /verif checks: Lean build + audit, model driver, evidence, verdicts.

Exit codes of a check: 0 = property held on everything explored (KNOWN-FINDING lines
may be printed), 1 = violation (a line `VIOLATION property=<id> replay=<path>` is printed),
2 = infrastructure error / time-out.
"""
from __future__ import annotations

import fcntl
import hashlib
import json
import os
import random
import re
import subprocess
import sys
import time
from fractions import Fraction
from pathlib import Path

VERIF = Path(__file__).resolve().parent.parent
LEAN_DIR = VERIF / "lean" / "QVerif"
DRIVER = LEAN_DIR / ".lake" / "build" / "bin" / "driver"
# evidence/<id>.json is rewritten by every run; tools that run checks against deliberately broken trees (seed evaluation)
# redirect it so that the committed evidence always describes the unchanged tree
EVIDENCE = Path(os.environ.get("VERIF_EVIDENCE_DIR") or (VERIF / "evidence"))
REPLAYS = VERIF / "replays"
CORPUS = VERIF / "corpus"
KNOWN = VERIF / "known_findings.json"
REPO = Path(os.environ.get("VERIF_REPO", "/repo"))
GUARD = "AI_EDGE_QUANTIZER_VERIF"

ALLOWED_AXIOMS = {"propext", "Classical.choice", "Quot.sound"}
FORBIDDEN = re.compile(
    r"\bsorry\b|\badmit\b|^\s*axiom\s|native_decide|bv_decide|implemented_by|\bunsafe\s|maxHeartbeats\s+0\b|@\[extern",
    re.M,
)

TRUSTED_BASE = [
    "Lean 4.33.0 kernel (thorough tier: compiled .olean of QProps re-checked with leanchecker)",
    "axioms: subset of {propext, Classical.choice, Quot.sound}, audited per theorem with #print axioms on every run; no sorry/admit/native_decide/bv_decide/own axioms (source grep on every run)",
    "Mathlib v4.33.0 lemmas used in QProofs/QProps (kernel-checked; only their statements are trusted to mean what they say)",
    "hand-written executable Lean model QModel/** of the Python code (modelled, not verified); tied to /repo by (A) tables regenerated from the live modules on every run and (B) the exact differential correspondence run of this check",
    "harness/** (generators, canonicaliser, oracles, table extractor) and the compiled driver (Lean compiler + C toolchain, used only for the correspondence, not for proofs)",
    "assumed external behaviour: numpy float16/32/64 ops are correctly rounded RNE with NEP-50 promotion; re.search is a function of (pattern, string); flatbuffers writer and LiteRT interpreter are parameters of the model",
]


class Timeout(Exception):
    pass


def log(*a):
    print(*a, file=sys.stderr, flush=True)


# --------------------------------------------------------------------------- exact numbers

def rat(x) -> str:
    """exact rational string of a python/numpy float or int"""
    import numpy as np

    if isinstance(x, (int, np.integer)):
        return f"{int(x)}/1"
    f = float(x)
    if f != f or f in (float("inf"), float("-inf")):
        raise ValueError("nonfinite")
    fr = Fraction(f)
    return f"{fr.numerator}/{fr.denominator}"


def unrat(s: str) -> Fraction:
    n, d = s.split("/")
    return Fraction(int(n), int(d))


# --------------------------------------------------------------------------- Lean build / audit

def _run(cmd, cwd=None, timeout=None, env=None):
    """runs in its own process group so that a time-out also ends the children (lake -> lean); a time-out is reported as
    return code 124 with the partial output, never raised"""
    import signal
    p = subprocess.Popen(cmd, cwd=cwd, env=env, stdout=subprocess.PIPE, stderr=subprocess.STDOUT, text=True, start_new_session=True)
    try:
        out, _ = p.communicate(timeout=timeout)
        return p.returncode, out
    except subprocess.TimeoutExpired:
        try:
            os.killpg(p.pid, signal.SIGKILL)
        except ProcessLookupError:
            pass
        out, _ = p.communicate()
        return 124, (out or "") + f"\n[timed out after {timeout} s]"


class LeanLock:
    def __enter__(self):
        self.f = open(LEAN_DIR / ".build.lock", "w")
        fcntl.flock(self.f, fcntl.LOCK_EX)
        return self

    def __exit__(self, *a):
        fcntl.flock(self.f, fcntl.LOCK_UN)
        self.f.close()


def lean_env():
    env = dict(os.environ)
    env.pop("LEAN_PATH", None)
    return env


def lake_build(targets, timeout=None):
    """returns (ok, log). Build is incremental; runs under a file lock. A build that does not finish (e.g. tables regenerated
    from a changed tree that the kernel cannot evaluate in time) is a broken proof obligation, not a hang."""
    if timeout is None:
        timeout = float(os.environ.get("VERIF_BUILD_TIMEOUT_S", 0)) or (600 if os.environ.get("VERIF_TIER", "quick") == "quick" else 2400)
    with LeanLock():
        # a build of byte-identical sources that already FAILED or timed out (with at least this much time) fails again: remember
        # failures only (a success is re-established by lake's own incremental build), so that 19 checks against one broken tree do not
        # each wait for the same time-out
        h = hashlib.sha256()
        for sub in ("QModel", "QProofs", "QProps"):
            for p in sorted((LEAN_DIR / sub).rglob("*.lean")):
                h.update(p.read_bytes())
        h.update((LEAN_DIR / "Driver.lean").read_bytes())
        memo = LEAN_DIR / ".lake" / "failed_build.json"
        try:
            m = json.loads(memo.read_text())
        except Exception:  # noqa: BLE001
            m = {}
        fresh = (not m.get("timed_out")) or time.time() - m.get("ts", 0) < 3600   # a time-out may be load: believe it for an hour only
        if m.get("sources") == h.hexdigest() and m.get("timeout", 0) >= timeout and set(m.get("failed_targets", [])) & set(targets) and fresh:
            return False, "[same sources as a build that already failed]\n" + m.get("log", "")[-1500:]
        rc, out = _run(["lake", "build", *targets], cwd=LEAN_DIR, timeout=timeout, env=lean_env())
        if rc != 0:
            bad = [t for t in targets if re.search(r"(✖|error).*" + re.escape(t.split(".")[-1]), out)] or list(targets)
            if rc == 124:
                bad = list(targets)
            (LEAN_DIR / ".lake").mkdir(exist_ok=True)
            memo.write_text(json.dumps({"sources": h.hexdigest(), "timeout": timeout, "failed_targets": bad, "log": out[-3000:],
                                        "timed_out": rc == 124, "ts": time.time()}))
    return rc == 0, out


def source_grep():
    """forbidden tokens in Lean sources (comments stripped)."""
    hits = []
    for sub in ("QModel", "QProofs", "QProps"):
        for p in sorted((LEAN_DIR / sub).rglob("*.lean")):
            txt = p.read_text()
            txt = re.sub(r"/-.*?-/", "", txt, flags=re.S)
            txt = re.sub(r"--.*", "", txt)
            for m in FORBIDDEN.finditer(txt):
                hits.append(f"{p.relative_to(LEAN_DIR)}: {m.group(0).strip()}")
    return hits


def audit_axioms(modules, theorems: list[str], timeout=1200):
    """#print axioms for every theorem; returns {name: set(axioms) | None if missing}, raw log."""
    if isinstance(modules, str):
        modules = [modules]
    tmp = LEAN_DIR / ".lake" / f"audit_{modules[0].replace('.', '_')}_{os.getpid()}.lean"
    tmp.parent.mkdir(exist_ok=True)
    lines = [f"import {m}" for m in modules]
    for t in theorems:
        lines.append(f"#print axioms {t}")
    tmp.write_text("\n".join(lines) + "\n")
    try:
        with LeanLock():
            rc, out = _run(["lake", "env", "lean", str(tmp)], cwd=LEAN_DIR, timeout=timeout, env=lean_env())
    finally:
        try:
            tmp.unlink()
        except OSError:
            pass
    res: dict[str, set | None] = {t: None for t in theorems}
    # messages may wrap over several lines
    flat = re.sub(r"\s+", " ", out)
    for t in theorems:
        m = re.search(r"'" + re.escape(t) + r"' depends on axioms: \[([^\]]*)\]", flat)
        if m:
            res[t] = {a.strip() for a in m.group(1).split(",") if a.strip()}
        elif re.search(r"'" + re.escape(t) + r"' does not depend on any axioms", flat):
            res[t] = set()
    return res, out


def leanchecker(modules, timeout=3000):
    with LeanLock():
        rc, out = _run(["lake", "env", "leanchecker", *modules], cwd=LEAN_DIR, timeout=timeout, env=lean_env())
    return rc == 0, out


# --------------------------------------------------------------------------- model driver

class Driver:
    """line protocol to the compiled Lean model."""

    def __init__(self):
        if not DRIVER.exists():
            raise RuntimeError(f"driver not built: {DRIVER}")
        self.p = subprocess.Popen([str(DRIVER)], stdin=subprocess.PIPE, stdout=subprocess.PIPE, text=True, bufsize=1 << 20)
        self.n = 0

    def ask(self, obj) -> dict:
        self.p.stdin.write(json.dumps(obj, separators=(",", ":")) + "\n")
        self.p.stdin.flush()
        line = self.p.stdout.readline()
        self.n += 1
        if not line:
            # the model process died on this request (stack overflow, crash): a fresh one takes over; the caller sees an answer that
            # agrees with no behaviour of the code, so the request is recorded as a disagreement and the run goes on
            self.fails = getattr(self, "fails", 0) + 1
            if self.fails > 50:
                raise RuntimeError("driver died repeatedly; last request " + json.dumps(obj)[:400])
            try:
                self.p.kill()
            except Exception:  # noqa: BLE001
                pass
            self.__init__()
            self.fails = getattr(self, "fails", 0) + 1
            return {"err": "model-driver-died", "driver_failure": True}
        r = json.loads(line)
        if "fail" in r:
            # a request the driver cannot even parse (a state the code accepted but the model's types cannot express): same treatment
            return {"err": "model-driver-rejected-request: " + str(r["fail"])[:200], "driver_failure": True}
        return r

    def ask_many(self, objs):
        """pipelined: write all, read all (keeps both processes busy)."""
        import threading

        out = []

        def writer():
            for o in objs:
                self.p.stdin.write(json.dumps(o, separators=(",", ":")) + "\n")
            self.p.stdin.flush()

        th = threading.Thread(target=writer)
        th.start()
        for o in objs:
            line = self.p.stdout.readline()
            if not line:
                raise RuntimeError("driver died on request " + json.dumps(o)[:400])
            r = json.loads(line)
            if "fail" in r:
                raise RuntimeError("driver protocol failure: " + r["fail"] + " on " + json.dumps(o)[:400])
            out.append(r)
        th.join()
        self.n += len(objs)
        return out

    def close(self):
        try:
            self.p.stdin.close()
            self.p.wait(timeout=10)
        except Exception:
            self.p.kill()


# --------------------------------------------------------------------------- run context

def canon_hash(obj) -> str:
    return hashlib.sha256(json.dumps(obj, sort_keys=True, default=str).encode()).hexdigest()[:16]


class Ctx:
    def __init__(self, prop: str, tier: str, seed: int):
        self.prop, self.tier, self.seed = prop, tier, seed
        self.rng = random.Random(f"{prop}:{seed}")
        self.t0 = time.time()
        self.t_begin = self.t0
        self.budget_s = float(os.environ.get("VERIF_BUDGET_S", 0)) or (240 if tier == "quick" else 1500)
        # proof side
        self.obligations: list[dict] = []  # {name, kind, ok, detail}
        # correspondence / exploration side
        self.evaluations = 0
        self.distinct: set[str] = set()
        self.samples: list = []
        self.tags: dict[str, int] = {}
        self.errkinds: dict[str, int] = {}
        self.disagreements: list[dict] = []  # model vs code
        self.failures: list[dict] = []  # property oracle failed on real code (concrete failing inputs)
        self.known_hits: list[str] = []
        self.extra: dict = {}
        self.exhaustive = False
        self.interp_runs = 0
        self.rule = ""
        self.explanation = ""
        self.assumptions: list[str] = []

    # -- bookkeeping
    def left(self) -> float:
        return self.budget_s - (time.time() - self.t0)

    def tag(self, *tags):
        for t in tags:
            self.tags[t] = self.tags.get(t, 0) + 1

    def case(self, obj, nontrivial=True, sample_every=0):
        self.evaluations += 1
        if nontrivial:
            h = canon_hash(obj)
            if h not in self.distinct:
                self.distinct.add(h)
                if len(self.samples) < 6:
                    self.samples.append(obj)

    def obligation(self, name, kind, ok, detail=""):
        self.obligations.append({"name": name, "kind": kind, "ok": bool(ok), "detail": detail[-2000:] if detail else ""})

    def disagree(self, family, inp, model, code):
        self.disagreements.append({"family": family, "input": inp, "model": model, "code": code})

    def fail(self, what, replay_obj, key=None):
        """a concrete failing input against the real code."""
        self.failures.append({"what": what, "replay": replay_obj, "key": key or what})


# --------------------------------------------------------------------------- known findings

def load_known():
    if KNOWN.exists():
        return json.loads(KNOWN.read_text())
    return {"findings": [], "fixed": []}


def match_known(prop, key: str):
    for f in load_known().get("findings", []):
        if f["property"] == prop and re.fullmatch(f["match"], key):
            return f
    return None


# --------------------------------------------------------------------------- verdict

def write_replay(prop, obj) -> Path:
    REPLAYS.mkdir(exist_ok=True)
    h = canon_hash(obj)
    p = REPLAYS / f"{prop}-{h}.json"
    p.write_text(json.dumps(obj, indent=1, default=str))
    return p


def finish(ctx: Ctx, failing_input_search=None) -> int:
    """Produce verdict lines, evidence file and the exit code."""
    broken = [o for o in ctx.obligations if not o["ok"]]
    if ctx.disagreements:
        fams = sorted({d["family"] for d in ctx.disagreements})
        for fam in fams:
            n = sum(1 for d in ctx.disagreements if d["family"] == fam)
            broken.append({"name": f"correspondence:{fam}", "kind": "correspondence", "ok": False,
                           "detail": f"{n} disagreement(s) between model and code"})
    violations = 0
    printed = []
    # 1. concrete failing inputs on the real code
    seen_keys = set()
    for f in ctx.failures:
        k = match_known(ctx.prop, f["key"])
        if k is not None:
            if k["id"] not in ctx.known_hits:
                ctx.known_hits.append(k["id"])
                printed.append(f"KNOWN-FINDING: property={ctx.prop} {k['id']}: {k['what']}")
            continue
        if f["key"] in seen_keys:
            continue
        seen_keys.add(f["key"])
        rp = write_replay(ctx.prop, {"property": ctx.prop, "kind": "failing-input", "what": f["what"], "replay": f["replay"],
                                     "seed": ctx.seed, "tier": ctx.tier})
        printed.append(f"VIOLATION property={ctx.prop} replay={rp}")
        violations += 1
        if violations >= 5:
            break
    # 2. broken obligations → search for a failing input, else no-failing-input-found
    if broken and violations == 0:
        found = None
        if failing_input_search is not None:
            try:
                found = failing_input_search(ctx, broken)
            except Timeout:
                found = None
        if found is not None and match_known(ctx.prop, found.get("key", "")) is None:
            rp = write_replay(ctx.prop, {"property": ctx.prop, "kind": "failing-input", "what": found["what"], "replay": found["replay"],
                                         "broken": broken, "seed": ctx.seed, "tier": ctx.tier})
            printed.append(f"VIOLATION property={ctx.prop} replay={rp}")
        else:
            rp = write_replay(ctx.prop, {"property": ctx.prop, "kind": "broken-obligation", "broken": broken,
                                         "disagreements": ctx.disagreements[:5], "seed": ctx.seed, "tier": ctx.tier})
            printed.append(f"VIOLATION property={ctx.prop} replay={rp} no-failing-input-found")
        violations += 1
    for l in printed:
        print(l, flush=True)
    if os.environ.get("VERIF_DEBUG"):  # reporting only: every disagreement / failure in full, for the developer
        dbg = REPLAYS / f"{ctx.prop}-debug.json"
        REPLAYS.mkdir(exist_ok=True)
        dbg.write_text(json.dumps({"disagreements": ctx.disagreements, "failures": ctx.failures, "broken": broken}, indent=1, default=str))
    write_evidence(ctx, violations)
    return 1 if violations else 0


def write_evidence(ctx: Ctx, violations: int):
    EVIDENCE.mkdir(exist_ok=True)
    n_ob = len(ctx.obligations)
    n_ok = sum(1 for o in ctx.obligations if o["ok"])
    cov = {
        "obligations": n_ob,
        "discharged": n_ok,
        "checker_cmd": f"cd {LEAN_DIR} && lake build {ctx.extra.get('lean_modules', 'QProps.' + ctx.prop)} && lake env lean <generated #print axioms file>"
        + (" && lake env leanchecker " + ctx.extra.get('lean_modules', 'QProps.' + ctx.prop) if ctx.tier == "thorough" else ""),
        "trusted_base": TRUSTED_BASE,
        "obligation_list": [{k: o[k] for k in ("name", "kind", "ok")} for o in ctx.obligations],
        "evaluations": ctx.evaluations,
        "distinct_nontrivial": len(ctx.distinct),
        "rule": ctx.rule,
        "samples": ctx.samples[:6] or [{"note": "no generated cases in this run"}],
        "exhaustive": ctx.exhaustive,
        "branch_tags": ctx.tags,
        "error_kinds": ctx.errkinds,
        "disagreements_model_vs_code": len(ctx.disagreements),
        "interpreter_executions": ctx.interp_runs,
        "known_findings_hit": ctx.known_hits,
        "explanation": ctx.explanation,
    }
    cov.update(ctx.extra)
    ev = {
        "property_id": ctx.prop,
        "tier": ctx.tier,
        "seed": ctx.seed,
        "level": "proof",
        "coverage": cov,
        "assumptions": ctx.assumptions or TRUSTED_BASE[3:],
        "wall_s": round(time.time() - ctx.t_begin, 2),
        "violations": violations,
    }
    (EVIDENCE / f"{ctx.prop}.json").write_text(json.dumps(ev, indent=1, default=str))


# --------------------------------------------------------------------------- proof side shared by all properties

def proof_side(ctx: Ctx, theorems: list[str], extra_targets=(), modules=None):
    """tables → lake build → grep → axioms audit (+ leanchecker in thorough tier)."""
    from . import extract_tables

    try:
        changed = extract_tables.regenerate()
        ctx.obligation("tables:regenerated-from-live-repo", "tie-A", True, f"changed={changed}")
    except Exception as e:  # the live modules no longer import / expose the tables
        ctx.obligation("tables:regenerated-from-live-repo", "tie-A", False, repr(e))
    mods = modules or [f"QProps.{ctx.prop}"]
    ctx.extra["lean_modules"] = " ".join(mods)
    mod = " ".join(mods)
    ok, out = lake_build([*mods, "driver", *extra_targets])
    ctx.obligation(f"lake build {mod} driver", "build", ok, out)
    hits = source_grep()
    ctx.obligation("source grep: no sorry/admit/axiom/native_decide/bv_decide/implemented_by/unsafe", "audit", not hits, "\n".join(hits))
    if ok:
        res, out = audit_axioms(mods, theorems)
        for t in theorems:
            ax = res[t]
            good = ax is not None and ax <= ALLOWED_AXIOMS
            ctx.obligation(f"theorem {t}", "theorem", good,
                           "missing" if ax is None else "axioms: " + ", ".join(sorted(ax)))
        if ctx.tier == "thorough":
            okc, outc = leanchecker(mods)
            ctx.obligation(f"leanchecker {mod}", "recheck", okc, outc)
    else:
        for t in theorems:
            ctx.obligation(f"theorem {t}", "theorem", False, "build failed")
    # the exploration budget (correspondence + failing-input search) starts now: a slow or failed build must not eat it
    ctx.t0 = time.time()
    return ok
