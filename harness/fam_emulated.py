"""Correspondence check  transformations/emulated_subchannel.py  vs  QModel/Emulated.lean  (driver command "emulated").

run:  PYTHONPATH=/verif:/repo AI_EDGE_QUANTIZER_VERIF=1 /venv/bin/python /tmp/agents/A15/fam_emulated.py [n_random] [seed]

For every generated case the REAL `emulated_subchannel(TransformationInput(...))` runs on a deep copy of the flatbuffer
object model; the Lean model runs through the driver binary; both results are canonicalised and compared field by field.
"""
from __future__ import annotations

import collections
import copy
import dataclasses
import json
import random
import subprocess
import sys
import warnings

import numpy as np
from ai_edge_litert import schema_py_generated as s

from harness import gen_models as gm
from harness import pipeline as pl
from harness import fam_graph as fg
from harness import fam_recipe as fr

from ai_edge_quantizer import params_generator, qtyping, recipe_manager
from ai_edge_quantizer.transformations import emulated_subchannel as es
from ai_edge_quantizer.transformations import transformation_utils as tu

from harness import common as _common

warnings.filterwarnings("ignore")
DRIVER = str(_common.DRIVER)
BO, TT, OPT = gm.BO, gm.TT, gm.OPT
AF = s.ActivationFunctionType
UNITQ, AXES, SH1, SH2 = 900, 100001, 100002, 100003


class Driver:
    def __init__(self):
        self.p = subprocess.Popen([DRIVER], stdin=subprocess.PIPE, stdout=subprocess.PIPE, text=True, bufsize=1)

    def ask(self, obj):
        self.p.stdin.write(json.dumps(obj) + "\n")
        self.p.stdin.flush()
        return json.loads(self.p.stdout.readline())

    def close(self):
        self.p.stdin.close()
        self.p.wait()


# ----------------------------------------------------------------------------------------------- parameters by the library

_PCACHE = {}


def library_params(w: np.ndarray, block: int):
    """8-bit symmetric BLOCKWISE parameters of weight `w`, produced by the library's own ParamsGenerator on a clean model"""
    key = (w.tobytes(), w.shape, block)
    if key in _PCACHE:
        return _PCACHE[key]
    o, f = w.shape
    g = gm.G()
    g.subgraph()
    x = g.tensor("x", [1, 2, f])
    wt = g.tensor("w", [o, f], data=w)
    y = g.tensor("y", [1, 2, o])
    fco = s.FullyConnectedOptionsT()
    fco.keepNumDims = True
    g.op(BO.FULLY_CONNECTED, [x, wt, -1], [y], OPT.FullyConnectedOptions, fco)
    for t in g.sg.tensors:
        t.quantization = s.QuantizationParametersT()
    g.io([x], [y], sig="serving_default")
    rm = recipe_manager.RecipeManager()
    cfg = fr.mk_cfg(fr.cdesc(None, fr.tdesc(8, True, "BLOCKWISE", "INT", block), "FLOAT", True, True))
    rm.add_quantization_config(".*", qtyping.TFLOperationName.FULLY_CONNECTED, cfg, "min_max_uniform_quantize")
    params = params_generator.ParamsGenerator(g.bytes()).generate_quantization_parameters(rm)
    tp = params["w"]
    assert tp.consumers and tp.consumers[0].transformations == [qtyping.QuantTransformation.EMULATED_SUBCHANNEL], tp
    p = tp.consumers[0].parameters
    assert p.quantized_data is not None and p.quantized_data.ndim == 4
    _PCACHE[key] = p
    return p


# ----------------------------------------------------------------------------------------------- case generation

UNARY = [BO.TANH, BO.ABS, BO.LOGISTIC, BO.NEG]
PATTERN_CODES = [BO.RESHAPE, BO.BATCH_MATMUL, BO.MUL, BO.SUM, BO.ADD, BO.RELU]


@dataclasses.dataclass
class Opts:
    nsg: int = 1
    sgi: int = 0
    rank: int = 3
    pre: int = 0
    post: int = 0
    bias: str = "const"        # const | none | absent | computed | weight
    fused: int = AF.NONE
    no_options: bool = False
    block: int = 16
    y_is_output: bool = False
    second_out: bool = False
    share: bool = False         # a second FULLY_CONNECTED reads the same weight tensor
    collisions: tuple = ()
    prefill_front: tuple = ()
    prefill_back: tuple = ()
    weight_quant_table: bool = True
    # the transformation input
    consumers: str = "fc"       # fc | both | empty | minus1 | other | past
    producer: int = -1
    param: str = "lib"          # lib | none | nonlinear | nodata | zp | bits4 | bits70
    neg_tensor_id: bool = False
    qshape3: bool = False       # (hand-made) parameters whose quantized_data is 3-D
    w_runtime: bool = False     # the "weight" is a graph input without data (buffer 0): the transformation writes buffer 0


def other_subgraph(g, rng, si):
    g.subgraph(b"other%d" % si)
    x = g.tensor("o%d/x" % si, [1, 4])
    cur = x
    for i in range(rng.randint(0, 2)):
        y = g.tensor("o%d/t%d" % (si, i), [1, 4])
        g.op(rng.choice(UNARY + [BO.RELU]), [cur], [y])
        cur = y
    if rng.random() < 0.5:   # an ordinary FULLY_CONNECTED elsewhere
        w = g.tensor("o%d/w" % si, [3, 4], data=np.ones([3, 4], np.float32))
        y = g.tensor("o%d/y" % si, [1, 3])
        g.op(BO.FULLY_CONNECTED, [cur, w, -1], [y], OPT.FullyConnectedOptions, s.FullyConnectedOptionsT())
        cur = y
    for t in g.sg.tensors:
        t.quantization = s.QuantizationParametersT()
    g.io([x], [cur], sig="other%d" % si)


def build(rng, o: Opts):
    """returns (model bytes, info dict)"""
    g = gm.G()
    for c in o.prefill_front:
        g.opcode(c)
    info = {}
    for si in range(o.nsg):
        if si != o.sgi:
            other_subgraph(g, rng, si)
            continue
        g.subgraph(b"target")
        f, od = rng.choice([32, 64]), rng.choice([2, 4, 8])
        in_shape = {2: [2, f], 3: [rng.choice([1, 2, 3]), 2, f], 4: [1, 1, 2, f]}[o.rank]
        out_shape = in_shape[:-1] + [od]
        x = g.tensor("x", in_shape)
        inputs, cur = [x], x
        for i in range(o.pre):
            y = g.tensor("pre%d" % i, in_shape)
            g.op(rng.choice(UNARY), [cur], [y])
            cur = y
        wdata = rng_np(rng).normal(size=[od, f]).astype(np.float32)
        if o.w_runtime:
            w = g.tensor("w", [od, f], buffer=0)
            inputs.append(w)
        else:
            w = g.tensor("w", [od, f], data=wdata)
        if o.bias == "const":
            ops_in = [cur, w, g.tensor("b", [od], data=rng_np(rng).normal(size=[od]).astype(np.float32))]
        elif o.bias == "none":
            ops_in = [cur, w, -1]
        elif o.bias == "absent":
            ops_in = [cur, w]
        elif o.bias == "computed":
            bi = g.tensor("bias_in", [od])
            inputs.append(bi)
            b = g.tensor("bias_act", [od])
            g.op(BO.ABS, [bi], [b])
            ops_in = [cur, w, b]
        elif o.bias == "weight":
            ops_in = [cur, w, w]
        else:
            raise ValueError(o.bias)
        y = g.tensor("y", out_shape)
        outs = [y]
        if o.second_out:
            outs.append(g.tensor("y_aux", out_shape))
        fco = None
        if not o.no_options:
            fco = s.FullyConnectedOptionsT()
            fco.keepNumDims = True
            fco.fusedActivationFunction = o.fused
        k = g.op(BO.FULLY_CONNECTED, ops_in, outs, OPT.FullyConnectedOptions if fco is not None else 0, fco)
        gouts = []
        k2 = None
        if o.share:
            y3 = g.tensor("y_share", out_shape)
            fco2 = s.FullyConnectedOptionsT()
            fco2.keepNumDims = True
            k2 = g.op(BO.FULLY_CONNECTED, [cur, w, -1], [y3], OPT.FullyConnectedOptions, fco2)
            gouts.append(y3)
        cur2 = y
        other_k = None
        for i in range(o.post):
            z = g.tensor("post%d" % i, out_shape)
            other_k = g.op(rng.choice(UNARY), [cur2], [z])
            cur2 = z
        for nm in o.collisions:
            nm = nm.replace("<w>", "w").replace("<y>", "y")
            z = g.tensor(nm, out_shape)
            g.op(BO.ABS, [y], [z])
            gouts.append(z)
        if o.second_out:
            gouts.append(outs[1])
        final = [cur2] + gouts + ([y] if (o.y_is_output and cur2 != y) else [])
        for t in g.sg.tensors:
            t.quantization = s.QuantizationParametersT()
        if not o.weight_quant_table:
            g.sg.tensors[w].quantization = None
        g.io(inputs, final, sig="serving_default")
        nops = len(g.sg.operators)
        cons = {"fc": [k], "both": [k, k2 if k2 is not None else k], "empty": [], "minus1": [-1],
                "other": [other_k if other_k is not None else (0 if k != 0 else k)], "past": [nops + 3]}[o.consumers]
        info = {"w": w, "y": y, "k": k, "consumers": cons, "wdata": wdata, "ntensors": len(g.sg.tensors)}
    for c in o.prefill_back:
        g.opcode(c)
    return g.bytes(), info


def rng_np(rng):
    return np.random.default_rng(rng.randrange(1 << 30))


def make_param(o: Opts, wdata):
    if o.param == "none":
        return None
    if o.param == "nonlinear":
        return qtyping.NonLinearQuantParams(num_bits=16, quantized_data=wdata.astype(np.float16))
    p = library_params(wdata, o.block)
    if o.param == "nodata":
        return dataclasses.replace(p, quantized_data=None)
    if o.param == "zp":
        zp = np.array(p.zero_point, copy=True)
        zp.flat[zp.size - 1] = 3
        return dataclasses.replace(p, zero_point=zp)
    if o.param == "bits4":
        return dataclasses.replace(p, num_bits=4)
    if o.param == "bits70":
        return dataclasses.replace(p, num_bits=70)
    if o.qshape3:
        q = np.asarray(p.quantized_data)
        return dataclasses.replace(p, quantized_data=q.reshape(q.shape[1:]))
    return p


COLL = ["<w>_scale", "<w>_reduce_axes", "<y>_reshape_op1_shape", "<y>_reshape_op2_shape", "<y>_bmm_input", "<y>_mul_input",
        "<y>_reduce_sum_input", "<y>_reshape_op2_input", "<y>_reshape_op2_output", "<y>_relu", "<y>_relu_relu_input",
        "<y>_relu_1", "<w>_scale_1", "<y>_relu_1_relu_input", "<y>_bmm_input_1", "<y>_relu_2"]


def random_opts(rng) -> Opts:
    o = Opts()
    o.nsg = rng.choice([1, 1, 2, 3])
    o.sgi = rng.randrange(o.nsg)
    o.rank = rng.choice([3] * 10 + [2, 4])
    o.pre, o.post = rng.randint(0, 2), rng.randint(0, 2)
    o.bias = rng.choice(["const", "const", "none", "absent", "computed", "weight"])
    o.fused = rng.choice([AF.NONE] * 5 + [AF.RELU] * 5 + [AF.RELU6, AF.TANH, AF.RELU_N1_TO_1])
    o.no_options = rng.random() < 0.03
    o.block = rng.choice([16, 32])
    o.y_is_output = rng.random() < 0.4
    o.second_out = rng.random() < 0.1
    o.share = rng.random() < 0.2
    if rng.random() < 0.5:
        o.collisions = tuple(rng.sample(COLL, rng.randint(1, 5)))
    o.prefill_front = tuple(rng.sample(PATTERN_CODES, rng.randint(0, 3))) if rng.random() < 0.5 else ()
    o.prefill_back = tuple(rng.sample(PATTERN_CODES, rng.randint(0, 3))) if rng.random() < 0.4 else ()
    o.weight_quant_table = rng.random() > 0.05
    r = rng.random()
    o.consumers = "fc" if r < 0.9 else rng.choice(["both", "empty", "minus1", "other", "past"])
    o.producer = -1 if rng.random() < 0.95 else rng.choice([0, 1, -2])
    r = rng.random()
    o.param = "lib" if r < 0.88 else rng.choice(["none", "nonlinear", "nodata", "zp", "bits4", "bits70"])
    o.neg_tensor_id = rng.random() < 0.05
    o.qshape3 = rng.random() < 0.03
    o.w_runtime = rng.random() < 0.04
    return o


def directed_opts():
    """the grid of the main success / failure branches, so that coverage does not depend on the random draw"""
    out = []
    for bias in ["const", "none", "absent", "computed", "weight"]:
        for fused in [AF.NONE, AF.RELU, AF.RELU6]:
            for rank in [3, 2]:
                for pre, post in [(0, 0), (1, 1), (2, 0), (0, 2)]:
                    out.append(Opts(bias=bias, fused=fused, rank=rank, pre=pre, post=post, block=16 if pre else 32,
                                    y_is_output=(post == 0)))
    for coll in [("<y>_relu",), ("<y>_relu", "<y>_relu_1"), ("<y>_relu_relu_input",), ("<y>_relu", "<y>_relu_1_relu_input"),
                 ("<w>_scale", "<w>_scale_1"), tuple(COLL[:9]), tuple(COLL)]:
        for fused in [AF.NONE, AF.RELU]:
            out.append(Opts(collisions=coll, fused=fused, pre=1, post=1))
    for front in [(), (BO.RESHAPE,), (BO.RELU, BO.ADD), tuple(PATTERN_CODES), tuple(reversed(PATTERN_CODES))]:
        for back in [(), (BO.SUM, BO.MUL), (BO.ADD,)]:
            out.append(Opts(prefill_front=front, prefill_back=back, fused=AF.RELU, pre=1))
    for nsg in [2, 3]:
        for sgi in range(nsg):
            out.append(Opts(nsg=nsg, sgi=sgi, fused=AF.RELU, pre=1, post=1))
    for cons in ["both", "empty", "minus1", "other", "past"]:
        out.append(Opts(consumers=cons, share=(cons == "both"), post=1))
    for prm in ["none", "nonlinear", "nodata", "zp", "bits4", "bits70"]:
        out.append(Opts(param=prm, pre=1))
    out += [Opts(producer=0), Opts(weight_quant_table=False), Opts(no_options=True), Opts(second_out=True, fused=AF.RELU),
            Opts(share=True, fused=AF.RELU, post=1), Opts(neg_tensor_id=True, fused=AF.RELU), Opts(qshape3=True), Opts(rank=4),
            Opts(w_runtime=True), Opts(w_runtime=True, fused=AF.RELU, pre=1, post=1)]
    return out


# ----------------------------------------------------------------------------------------------- one case

def ints(x):
    return [] if x is None else [int(v) for v in x]


def canon_real(m):
    sgs = []
    for sg in m.subgraphs:
        sgs.append({"tensors": [{"name": pl.tname(t), "dtype": int(t.type), "shape": ints(t.shape), "buffer": int(t.buffer)} for t in sg.tensors],
                    "ops": [{"code": int(op.opcodeIndex), "builtin": int(m.operatorCodes[op.opcodeIndex].builtinCode), "in": ints(op.inputs),
                             "out": ints(op.outputs)} for op in sg.operators],
                    "inputs": ints(sg.inputs), "outputs": ints(sg.outputs)})
    return {"subgraphs": sgs, "opcodes": [int(c.builtinCode) for c in m.operatorCodes],
            "buffers": [None if b.data is None else bytes(np.asarray(b.data, dtype=np.uint8).tobytes()) for b in m.buffers]}


def env_of(m0, sgi, tensor_id, consumers, param):
    sg = m0.subgraphs[sgi]
    env = {"weightHasQuant": True, "qshape": [], "scaleShape": [], "zpAllZero": True, "unitQ": UNITQ, "axesTok": AXES, "shape1Tok": SH1,
           "shape2Tok": SH2}
    if consumers and 0 <= consumers[0] < len(sg.operators):
        op = sg.operators[consumers[0]]
        if op.builtinOptions is not None and hasattr(op.builtinOptions, "fusedActivationFunction"):
            env["fused"] = int(op.builtinOptions.fusedActivationFunction)
    if -len(sg.tensors) <= tensor_id < len(sg.tensors):
        env["weightHasQuant"] = sg.tensors[tensor_id].quantization is not None
    if isinstance(param, qtyping.UniformQuantParams):
        if param.quantized_data is not None:
            env["qshape"] = ints(np.asarray(param.quantized_data).shape)
        env["scaleShape"] = ints(np.asarray(param.scale).shape)
        env["zpAllZero"] = bool(all(int(v) == 0 for v in np.asarray(param.zero_point).flatten()))
    return env


def compare(mo, info_m, m0, mr, info_r, before_ops, param, pid):
    d = []
    cr = canon_real(mr)
    if info_m != {"opId": int(info_r.op_id), "added": int(info_r.num_ops_added), "outTensor": int(info_r.output_tensor_id)}:
        d.append(f"info: model {info_m} code {info_r}")
    if mo["opcodes"] != cr["opcodes"]:
        d.append(f"opcodes: model {mo['opcodes']} code {cr['opcodes']}")
    if mo["sigs"] != fg.model_json_obj(m0)["sigs"]:
        d.append("sigs changed in the model")
    if len(mo["subgraphs"]) != len(cr["subgraphs"]):
        return d + ["number of subgraphs"]
    for si, (ms, rs) in enumerate(zip(mo["subgraphs"], cr["subgraphs"])):
        for key in ("inputs", "outputs"):
            if ms[key] != rs[key]:
                d.append(f"sg{si}.{key}: model {ms[key]} code {rs[key]}")
        mops = [{"code": x["code"], "in": x["in"], "out": x["out"]} for x in ms["ops"]]
        rops = [{"code": x["code"], "in": x["in"], "out": x["out"]} for x in rs["ops"]]
        if mops != rops:
            d.append(f"sg{si}.ops: model {mops} code {rops}")
        # resolved builtin codes through the model's own table
        if [mo["opcodes"][x["code"]] if x["code"] < len(mo["opcodes"]) else None for x in ms["ops"]] != [x["builtin"] for x in rs["ops"]]:
            d.append(f"sg{si}: resolved operator codes differ")
        # identity of surviving operators
        real_orig = []
        for op in mr.subgraphs[si].operators:
            idx = [i for i, b in enumerate(before_ops[si]) if b is op]
            real_orig.append(idx[0] if idx else None)
        if [x["orig"] for x in ms["ops"]] != real_orig:
            d.append(f"sg{si}.orig: model {[x['orig'] for x in ms['ops']]} code {real_orig}")
        if len(ms["tensors"]) != len(rs["tensors"]):
            d.append(f"sg{si}: tensor count model {len(ms['tensors'])} code {len(rs['tensors'])}")
            continue
        for ti, (mt, rt) in enumerate(zip(ms["tensors"], rs["tensors"])):
            for key in ("name", "dtype", "shape", "buffer"):
                if mt[key] != rt[key]:
                    d.append(f"sg{si}.t{ti}.{key}: model {mt[key]!r} code {rt[key]!r}")
            real_t = mr.subgraphs[si].tensors[ti]
            rq = pl.quant_tuple(real_t)
            if mt["quant"] is None:
                oq = pl.quant_tuple(m0.subgraphs[si].tensors[ti]) if ti < len(m0.subgraphs[si].tensors) else None
                if rq != oq:
                    d.append(f"sg{si}.t{ti}: quantization changed in the code ({rq}), not in the model")
            elif mt["quant"] == UNITQ:
                if rq is None or [float.fromhex(x) for x in rq["scale"]] != [1.0] or rq["zp"] != [0]:
                    d.append(f"sg{si}.t{ti}: expected unit quantization, code {rq}")
            else:
                d.append(f"sg{si}.t{ti}: unexpected quant token {mt['quant']}")
    # buffers
    if len(mo["buffers"]) != len(cr["buffers"]):
        d.append(f"buffer count model {len(mo['buffers'])} code {len(cr['buffers'])}")
    else:
        users = collections.defaultdict(list)
        for si, sg in enumerate(mr.subgraphs):
            for ti, t in enumerate(sg.tensors):
                users[int(t.buffer)].append((si, ti, t))
        for bi, (mb_, rb) in enumerate(zip(mo["buffers"], cr["buffers"])):
            if mb_ is None:
                if rb is not None:
                    d.append(f"buffer {bi}: code has data, model none")
                continue
            if rb is None:
                d.append(f"buffer {bi}: model has data, code none")
                continue
            if "p" in mb_:
                if mb_["p"] != pid:
                    d.append(f"buffer {bi}: parameter token {mb_['p']}")
                us = users[bi]
                is_scale = bool(us) and all(int(t.type) == TT.FLOAT32 for _, _, t in us) and bi >= len(m0.buffers)
                want = np.asarray(param.scale).tobytes() if is_scale else np.asarray(param.quantized_data).tobytes()
                if rb != want:
                    d.append(f"buffer {bi}: bytes are not the {'scale' if is_scale else 'quantized data'} of the parameter")
            else:
                k = mb_["k"]
                if k < len(m0.buffers):
                    if k != bi or rb != bytes(np.asarray(m0.buffers[k].data, dtype=np.uint8).tobytes()):
                        d.append(f"buffer {bi}: expected the original bytes of buffer {k}")
                elif k == AXES:
                    if rb != np.array([1], dtype=np.int32).tobytes():
                        d.append(f"buffer {bi}: not the reduce axes [1]")
                elif k in (SH1, SH2):
                    # the shape operand of a RESHAPE: its bytes are the int32 shape of that operator's result
                    found = False
                    for si, sg in enumerate(mr.subgraphs):
                        for oi, op in enumerate(sg.operators):
                            if len(op.inputs) == 2 and int(sg.tensors[op.inputs[1]].buffer) == bi and \
                                    mr.operatorCodes[op.opcodeIndex].builtinCode == BO.RESHAPE:
                                found = True
                                # the first token belongs to the first new operator, the second to the fifth
                                if oi != int(info_r.op_id) + (0 if k == SH1 else 4):
                                    d.append(f"buffer {bi}: shape token of the wrong RESHAPE")
                                if rb != np.array(ints(sg.tensors[op.outputs[0]].shape), dtype=np.int32).tobytes():
                                    d.append(f"buffer {bi}: not the shape of the RESHAPE result")
                                if ints(op.builtinOptions.newShape) != ints(sg.tensors[op.outputs[0]].shape):
                                    d.append(f"buffer {bi}: newShape option differs from the result shape")
                    if not found:
                        d.append(f"buffer {bi}: shape constant not read by a RESHAPE")
                else:
                    d.append(f"buffer {bi}: unknown token {k}")
    return d


def _p_name(mo, info, sgi):
    mo["subgraphs"][sgi]["tensors"][-1]["name"] += "x"


def _p_added(mo, info, sgi):
    info["added"] += 1


def _p_opid(mo, info, sgi):
    info["opId"] += 1


def _p_swap(mo, info, sgi):
    ops = mo["subgraphs"][sgi]["ops"]
    k = info["opId"]
    ops[k], ops[k + 1] = ops[k + 1], ops[k]


def _p_codes(mo, info, sgi):
    mo["opcodes"][-1], mo["opcodes"][-2] = mo["opcodes"][-2], mo["opcodes"][-1]
    return mo["opcodes"][-1] != mo["opcodes"][-2]


def _p_buf(mo, info, sgi):
    mo["buffers"][-1] = None


def _p_buftok(mo, info, sgi):
    mo["buffers"][-1], mo["buffers"][-2] = mo["buffers"][-2], mo["buffers"][-1]


def _p_shape(mo, info, sgi):
    mo["subgraphs"][sgi]["tensors"][-2]["shape"] = mo["subgraphs"][sgi]["tensors"][-2]["shape"][:-1]


def _p_wire(mo, info, sgi):
    op = mo["subgraphs"][sgi]["ops"][info["opId"] + 1]
    op["in"] = list(reversed(op["in"]))


def _p_keep(mo, info, sgi):
    ops = mo["subgraphs"][sgi]["ops"]
    ops.insert(info["opId"] + info["added"] + 1, {"code": 0, "in": [0], "out": [0], "orig": info["opId"]})


def _p_quant(mo, info, sgi):
    for t in mo["subgraphs"][sgi]["tensors"]:
        if t["quant"] is not None:
            t["quant"] = None
            return True
    return False


def _p_dtype(mo, info, sgi):
    for t in mo["subgraphs"][sgi]["tensors"]:
        if t["quant"] is not None:
            t["dtype"] = 0
            return True
    return False


PERTURB = [("name", _p_name), ("added", _p_added), ("opId", _p_opid), ("swap", _p_swap), ("codes", _p_codes), ("buf", _p_buf),
           ("buftok", _p_buftok), ("shape", _p_shape), ("wire", _p_wire), ("keep", _p_keep), ("quant", _p_quant), ("dtype", _p_dtype)]


def run_case(drv, rng, o: Opts, stats, log):
    mb, inf = build(rng, o)
    m0 = pl.read(mb)
    sgi = o.sgi
    param = make_param(o, inf["wdata"])
    tensor_id = inf["w"] - (inf["ntensors"] if o.neg_tensor_id else 0)
    consumers = inf["consumers"]
    # the real code
    mr = copy.deepcopy(m0)
    before_ops = [list(sg.operators) for sg in mr.subgraphs]
    ti = tu.TransformationInput(tensor_id, mr.operatorCodes, mr.buffers, mr.subgraphs[sgi], o.producer, list(consumers), param)
    try:
        with np.errstate(all="ignore"):
            real = ("ok", es.emulated_subchannel(ti))
    except Exception as e:  # noqa: BLE001
        real = ("raise", type(e).__name__, str(e).replace("Emulated Subchannel transformation ", "")[:70])
    # the model
    pt = fg.PTab()
    pid = pt.pid(param)
    inp = {"tensor": tensor_id, "producer": o.producer, "consumers": consumers}
    if pid is not None:
        inp["param"] = pid
    req = {"op": "emulated", "model": fg.model_json_obj(m0), "ptable": pt.table(), "env": env_of(m0, sgi, tensor_id, consumers, param),
           "sg": sgi, "inp": inp}
    ans = drv.ask(req)
    diffs = []
    if "fail" in ans:
        diffs = ["driver failure: " + str(ans["fail"])]
    elif ans.get("err") == "unsupported":
        stats["out_of_model(unsupported):code " + (real[1] if real[0] == "raise" else "ok")] += 1
        return
    elif real[0] == "raise":
        if ans.get("err") != real[1]:
            diffs = [f"code raises {real[1]}, model {('err ' + ans['err']) if 'err' in ans else 'ok'}"]
        stats["raise " + real[1]] += 1
        stats["   raise %s: %s" % (real[1], real[2])] += 1
    else:
        if "ok" not in ans:
            diffs = [f"code ok, model err {ans.get('err')}"]
        else:
            diffs = compare(ans["ok"]["model"], ans["ok"]["info"], m0, mr, real[1], before_ops, param, pid)
            if not diffs and stats["ok"] % 25 == 0:
                # sensitivity of the comparison: every perturbation of the model's answer must be noticed
                for name, f in PERTURB:
                    mo2, info2 = copy.deepcopy(ans["ok"]["model"]), dict(ans["ok"]["info"])
                    if f(mo2, info2, sgi) is False:
                        continue
                    stats["selftest perturbations"] += 1
                    if not compare(mo2, info2, m0, mr, real[1], before_ops, param, pid):
                        stats["SELFTEST MISSED " + name] += 1
            stats["ok"] += 1
            stats["ok added=%d" % ans["ok"]["info"]["added"]] += 1
            stats["ok wf_in=%s wf_out=%s" % (ans["ok"]["wf_in"], ans["ok"]["wf"])] += 1
            bias_taken = o.bias in ("const", "computed", "weight")
            stats["ok bias=%s relu=%s" % (bias_taken, o.fused == AF.RELU)] += 1
            stats["ok position k=%d of %d" % (inf["k"], len(m0.subgraphs[sgi].operators))] += 1
            if o.collisions:
                stats["ok with name collisions"] += 1
            if o.prefill_front or o.prefill_back:
                stats["ok with pre-filled op codes"] += 1
            if o.nsg > 1:
                stats["ok multi-subgraph (target %d of %d)" % (o.sgi, o.nsg)] += 1
            if o.y_is_output:
                stats["ok result is graph output"] += 1
            if o.share:
                stats["ok weight read by a second FC"] += 1
            if o.second_out:
                stats["ok FC with a second result"] += 1
            if o.bias == "computed":
                stats["ok bias computed by an earlier op"] += 1
            if o.bias == "weight":
                stats["ok weight tensor is also the bias operand"] += 1
            if o.w_runtime:
                stats["ok weight is a graph input over buffer 0"] += 1
            if not ans["ok"]["wf"] and ans["ok"]["wf_in"]:
                log.append({"wf_lost": dataclasses.asdict(o)})
    if diffs:
        stats["DISAGREE"] += 1
        log.append({"opts": dataclasses.asdict(o), "diffs": diffs[:8], "request": req})


def cmp_emulated(ctx, n_random, directed=True):
    """the family as a part of a check run: every difference is a disagreement of the correspondence `emulated`; a well-formed input that
    meets the hypotheses of C01.emulated_wf (one result, non-negative tensor id, a weight with data) and comes back ill formed is a failing
    input of C01 (model and code agree on the result, so the model's own WF.modelOK verdict is the verdict on the real result)"""
    drv = Driver()
    stats, log = collections.Counter(), []
    try:
        cases = (directed_opts() if directed else []) + [random_opts(ctx.rng) for _ in range(n_random)]
        for o in cases:
            if ctx.left() < 20:
                break
            run_case(drv, ctx.rng, o, stats, log)
            ctx.case({"emulated": repr(o)}, True)
    finally:
        drv.close()
    log = json.loads(json.dumps(log, default=str))
    for k, v in stats.items():
        if not k.startswith("   "):
            ctx.tags["emulated:" + k.strip()] = ctx.tags.get("emulated:" + k.strip(), 0) + v
    for e in log:
        if "diffs" in e:
            ctx.disagree("emulated", {"opts": e["opts"], "request": e["request"]}, e["diffs"][:4], "real emulated_subchannel()")
        elif "wf_lost" in e:
            w = e["wf_lost"]
            if not (w["second_out"] or w["neg_tensor_id"] or w["w_runtime"]):
                ctx.fail("the emulated sub-channel transformation turned a well-formed model into an ill-formed one although the hypotheses of "
                         "C01.emulated_wf hold (one result, non-negative tensor id, constant weight)", {"opts": w}, "emulated-wf-lost")
    missed = [k for k in stats if k.startswith("SELFTEST MISSED")]
    if missed:
        ctx.disagree("emulated", {"selftest": missed}, "a perturbed model answer was not noticed by the comparison", "comparison must notice it")
    return stats


def main():
    n = int(sys.argv[1]) if len(sys.argv) > 1 else 600
    seed = int(sys.argv[2]) if len(sys.argv) > 2 else 20260930
    rng = random.Random(seed)
    drv = Driver()
    assert drv.ask({"op": "ping"}) == {"ok": "pong"}
    stats, log = collections.Counter(), []
    cases = directed_opts() + [random_opts(rng) for _ in range(n)]
    for o in cases:
        run_case(drv, rng, o, stats, log)
    drv.close()
    print("cases:", len(cases), "(directed %d, random %d)" % (len(cases) - n, n))
    for k in sorted(stats):
        print("  %-60s %d" % (k, stats[k]))
    wf_lost = [e for e in log if "wf_lost" in e]
    dis = [e for e in log if "diffs" in e]
    print("well-formed input, ill-formed result:", len(wf_lost))
    seen = set()
    for e in wf_lost:
        w = e["wf_lost"]
        key = (w["second_out"], w["neg_tensor_id"], w["w_runtime"])
        if key not in seen:
            seen.add(key)
            print("   e.g.", json.dumps(w))
    print("   ill-formed results by cause:", dict(collections.Counter(
        ("second result " if e["wf_lost"]["second_out"] else "") + ("negative tensor id " if e["wf_lost"]["neg_tensor_id"] else "")
        + ("weight without data (buffer 0 written) " if e["wf_lost"]["w_runtime"] else "")
        for e in wf_lost)))
    unexplained = [e for e in wf_lost if not (e["wf_lost"]["second_out"] or e["wf_lost"]["neg_tensor_id"] or e["wf_lost"]["w_runtime"])]
    print("   ill-formed results NOT explained by a violated hypothesis of C01.emulated_wf (second result / negative id / weight without data):",
          len(unexplained))
    print("DISAGREEMENTS:", len(dis))
    for e in dis[:10]:
        print(json.dumps({"opts": e["opts"], "diffs": e["diffs"]}, default=str)[:3000])
    if dis:
        with open("/tmp/agents/A15/fam_emulated_disagreements.json", "w") as fh:
            json.dump(dis, fh, default=str)
    return 1 if (dis or unexplained or any(k.startswith("SELFTEST MISSED") for k in stats)) else 0


if __name__ == "__main__":
    sys.exit(main())
