"""Correspondence families `materialize.*` (ParamsGenerator + materialize functions vs QModel/Materialize.lean,
bit-exact) and `pipeline.*` (whole quantize() vs Pipeline.quantizePure)."""
from __future__ import annotations

import copy
import json
import re
from fractions import Fraction

import numpy as np
from ai_edge_litert import schema_py_generated as s

from . import common
from . import fam_arith as fa
from . import fam_graph as fg
from . import fam_recipe as fr
from . import pipeline as pl
from .common import rat, unrat

from ai_edge_quantizer import qtyping  # noqa: E402
from ai_edge_quantizer.transformations import quantize_tensor as qt_mod  # noqa: E402

TT = s.TensorType
BO = s.BuiltinOperator


def env_json(mb):
    m = pl.read(mb)
    mj = fg.model_json_obj(m)
    consts, seen = [], set()
    adj = []
    for si, sg in enumerate(m.subgraphs):
        for t in sg.tensors:
            b = m.buffers[t.buffer]
            if b.data is not None and t.type == TT.FLOAT32 and t.buffer not in seen:
                seen.add(t.buffer)
                arr = np.frombuffer(np.asarray(b.data, dtype=np.uint8).tobytes(), dtype=np.float32)
                consts.append({"buffer": int(t.buffer), "data": [rat(float(x)) for x in arr]})
        for oi, op in enumerate(sg.operators):
            if m.operatorCodes[op.opcodeIndex].builtinCode == BO.BATCH_MATMUL and op.builtinOptions is not None and op.builtinOptions.adjY:
                adj.append([si, oi])
    return {"model": mj, "consts": consts, "adjY": adj}


def all_scopes(mb):
    m = pl.read(mb)
    out = set([""])
    for sg in m.subgraphs:
        out.add("".join(pl.tname(sg.tensors[t]) + ";" for t in sg.inputs))
        for op in sg.operators:
            out.add("".join(pl.tname(sg.tensors[t]) + ";" for t in op.outputs if t != -1))
    return sorted(out)


def rx_rows(mb, recipe_plain):
    regs = sorted({e["regex"] for e in recipe_plain})
    return [[r, sc, bool(re.search(r, sc))] for r in regs for sc in all_scopes(mb)]


def qsvs_json(cr):
    if cr is None:
        return None
    rows = []
    for name, q in cr.items():
        if not q:
            rows.append({"name": name, "min": None, "max": None})
        else:
            mn, mx = np.asarray(q["min"]), np.asarray(q["max"])
            if mn.dtype.kind != "f":  # statistics of integer tensors (never read by materialisation)
                mn, mx = mn.astype(np.float64), mx.astype(np.float64)
            rows.append({"name": name, "min": fa.farr(mn), "max": fa.farr(mx)})
    return rows


def qsv_finite(cr):
    if cr is None:
        return True
    return all((not q) or (fa.finite(np.asarray(q["min"], dtype=np.float64)) and fa.finite(np.asarray(q["max"], dtype=np.float64))) for q in cr.values())


def param_json(p):
    if p is None:
        return None
    if isinstance(p, qtyping.UniformQuantParams):
        return {"kind": "uniform", "bits": int(p.num_bits), "qdim": None if p.quantized_dimension is None else int(p.quantized_dimension),
                "sym": bool(p.symmetric), "scale": fa.farr(p.scale), "zp": fa.iarr(p.zero_point),
                "data": None if p.quantized_data is None else fa.iarr(p.quantized_data)}
    d = p.quantized_data
    return {"kind": "nonlinear", "bits": int(p.num_bits),
            "data": None if d is None else {"shape": list(d.shape), "data": [rat(float(x)) for x in np.asarray(d).flatten()]}}


def o2t_json(o):
    return {"op": int(o.subgraph_op_id), "xfs": [x.name for x in o.transformations], "param": param_json(o.parameters)}


def params_json(params):
    out = []
    for name, tp in params.items():
        out.append({"name": tp.tensor_name, "producer": None if tp.producer is None else o2t_json(tp.producer),
                    "consumers": None if tp.consumers is None else [o2t_json(c) for c in tp.consumers]})
    return out


def params_finite(params):
    for tp in params.values():
        for o in ([tp.producer] if tp.producer else []) + list(tp.consumers or []):
            p = o.parameters
            if isinstance(p, qtyping.UniformQuantParams) and not fa.finite(p.scale):
                return False
            if isinstance(p, qtyping.NonLinearQuantParams) and p.quantized_data is not None and not fa.finite(p.quantized_data):
                return False
    return True


def request(mb, q, cr, op):
    rec = fr.plain(q.get_quantization_recipe())
    d = env_json(mb)
    d.update({"op": op, "recipe": fr.enc_obj(rec), "rx": rx_rows(mb, rec), "requireWeight": False, "qsvs": qsvs_json(cr)})
    return d


def first_diff(a, b, path=""):
    if type(a) != type(b):
        return f"{path}: {str(a)[:80]} vs {str(b)[:80]}"
    if isinstance(a, dict):
        for k in sorted(set(a) | set(b)):
            if k not in a or k not in b:
                return f"{path}.{k}: missing"
            d = first_diff(a[k], b[k], path + "." + k)
            if d:
                return d
        return None
    if isinstance(a, list):
        if len(a) != len(b):
            return f"{path}: length {len(a)} vs {len(b)}"
        for i, (x, y) in enumerate(zip(a, b)):
            d = first_diff(x, y, f"{path}[{i}]")
            if d:
                return d
        return None
    return None if a == b else f"{path}: {str(a)[:80]} vs {str(b)[:80]}"


def cmp_materialize(ctx, drv, mb, q, cr, family="materialize"):
    """real ParamsGenerator vs model, bit-exact. returns ('ok', params) | ('raise', cls)"""
    if not qsv_finite(cr):
        ctx.tag("qsv_nonfinite_skipped")
        return ("skip", None)
    rq = request(mb, q, cr, "materialize")
    try:
        params = q._get_quantization_params(copy.deepcopy(cr))
        real = ("ok", params)
    except Exception as e:  # noqa: BLE001
        real = ("raise", type(e).__name__)
    m = drv.ask(rq)
    if real[0] == "ok":
        if not params_finite(real[1]):
            ctx.tag("param_nonfinite")
            if m.get("err") != "nonfinite":
                ctx.disagree(family, {"desc": "non-finite params"}, str(m)[:300], "nonfinite")
            return real
        if m.get("err") == "nonfinite":
            ctx.tag("model_nonfinite_out_of_model")
            return real
        rj = params_json(real[1])
        if "ok" not in m:
            ctx.disagree(family, _small(rq), m, "ok")
        else:
            d = first_diff(m["ok"], rj)
            if d:
                ctx.disagree(family, _small(rq), d, "params differ")
    else:
        if m.get("err") != real[1] and m.get("err") != "nonfinite":
            ctx.disagree(family, _small(rq), str(m)[:300], real[1])
    return real


def _small(rq):
    d = {k: rq[k] for k in ("recipe", "qsvs", "adjY")}
    d["model"] = rq["model"]
    d["consts"] = rq["consts"]
    return d


# --------------------------------------------------------------------------- whole pipeline

def model_param_expect(p):
    """(dtype code, quant tuple, packed bytes|None) the flatbuffer must show for a model-rendered parameter object"""
    if p["kind"] == "uniform":
        ty = int(qt_mod.quant_params_to_tflite_type(p["bits"]))
        sc = [float(np.float32(float(unrat(x)))).hex() for x in p["scale"]["data"]]
        q = {"scale": sc, "zp": [int(z) for z in p["zp"]["data"]], "qdim": p["qdim"] if p["qdim"] is not None else 0}
        data = None
        if p["data"] is not None:
            dt = {8: np.int8, 16: np.int16, 32: np.int32, 64: np.int64}[p["data"]["w"]]
            raw = np.array(p["data"]["data"], dtype=dt).tobytes()
            flat = np.frombuffer(raw, dtype=np.uint8)
            data = bytes(np.asarray(qt_mod._pack_data(p["bits"], flat)).tobytes())
        return ty, q, data
    ty = int(qt_mod.nonlinear_quant_params_to_tflite_type(p["bits"]))
    data = None
    if p["data"] is not None:
        data = np.array([float(unrat(x)) for x in p["data"]["data"]], dtype=np.float16).tobytes()
    return ty, None, data


def _nz16(b):
    a = np.frombuffer(b, dtype=np.uint16).copy()
    a[a == 0x8000] = 0
    return a.tobytes()


def cmp_pipeline(ctx, drv, mb, q, cr, real_out, family="pipeline"):
    """whole quantize(): model graph + params vs the real output bytes (or exception class)."""
    if not qsv_finite(cr):
        return
    rq = request(mb, q, cr, "pipeline")
    m = drv.ask(rq)
    if real_out[0] == "raise":
        if m.get("err") not in (real_out[1], "nonfinite"):
            ctx.disagree(family, _small(rq), str(m)[:300], real_out[1])
        return
    if m.get("err") == "nonfinite":
        ctx.tag("model_nonfinite_out_of_model")
        return
    if "ok" not in m:
        ctx.disagree(family, _small(rq), str(m)[:300], "ok")
        return
    if m.get("wf") is not True:
        ctx.disagree(family + ".wf", _small(rq), "model output does not satisfy WF.modelOK", "n/a")
    if m.get("skeleton") is not True:
        ctx.disagree(family + ".skeleton", _small(rq), "model output does not satisfy Skeleton.sameModelSkeleton", "n/a")
    mo, ptab = m["ok"], m["params"]
    ro = pl.read(real_out[1])
    rj = fg.model_json_obj(ro)
    in_model = pl.read(mb)
    diffs = []
    for k in ("opcodes", "sigs"):
        if mo[k] != rj[k]:
            diffs.append(f"{k}: model {mo[k]} code {rj[k]}")
    for si, (ms, rs) in enumerate(zip(mo["subgraphs"], rj["subgraphs"])):
        for k in ("inputs", "outputs"):
            if ms[k] != rs[k]:
                diffs.append(f"sg{si}.{k}")
        if [{k: o[k] for k in ("code", "in", "out")} for o in ms["ops"]] != rs["ops"]:
            diffs.append(f"sg{si}.ops")
        if len(ms["tensors"]) != len(rs["tensors"]):
            diffs.append(f"sg{si}: tensor count")
            continue
        for ti, (mt, rt) in enumerate(zip(ms["tensors"], rs["tensors"])):
            for k in ("name", "shape", "buffer", "dtype"):
                if mt[k] != rt[k]:
                    diffs.append(f"sg{si}.t{ti}.{k}: model {mt[k]} code {rt[k]}")
            rq_ = pl.quant_tuple(ro.subgraphs[si].tensors[ti])
            if mt["quant"] is None:
                if rq_ is not None:
                    diffs.append(f"sg{si}.t{ti}: code quantized, model not")
            else:
                _, eq, _ = model_param_expect(ptab[mt["quant"]])
                if rq_ != eq:
                    diffs.append(f"sg{si}.t{ti}: quant model {eq} code {rq_}")
    if len(mo["buffers"]) != len(ro.buffers):
        diffs.append("buffer count")
    else:
        for bi, (mb_, rb) in enumerate(zip(mo["buffers"], ro.buffers)):
            rdata = None if rb.data is None else bytes(np.asarray(rb.data, dtype=np.uint8).tobytes())
            if mb_ is None:
                if rdata is not None:
                    diffs.append(f"buffer {bi}: code has data")
            elif "k" in mb_:
                if rdata != bytes(np.asarray(in_model.buffers[mb_["k"]].data, dtype=np.uint8).tobytes()):
                    diffs.append(f"buffer {bi}: not the original bytes")
            else:
                _, _, ed = model_param_expect(ptab[mb_["p"]])
                if ptab[mb_["p"]]["kind"] != "uniform" and rdata is not None and ed is not None and len(rdata) == len(ed):
                    # exact rationals have no signed zero: float16 -0.0 and +0.0 are one value of the model
                    rdata, ed = _nz16(rdata), _nz16(ed)
                if rdata != ed:
                    diffs.append(f"buffer {bi}: bytes differ from the model's quantized data")
    if diffs:
        ctx.disagree(family, _small(rq), diffs[:6], "output differs")
    return m
