"""Generated (model, recipe, data) cases driven through the real pipeline, with the graph-stage
correspondence and the property oracles of C01/C02/C03/C15/C19."""
from __future__ import annotations

import copy
import json
import re

import numpy as np
from ai_edge_litert import schema_py_generated as s
from tensorflow.lite.tools import flatbuffer_utils

from . import common
from . import fam_graph as fg
from . import fam_recipe as fr
from . import gen_models as gm
from . import oracles as orc
from . import pipeline as pl

from ai_edge_quantizer import quantizer  # noqa: E402,F401

TT = s.TensorType
BO = s.BuiltinOperator


class Case:
    def __init__(self, mb, info, cmds=None, recipe=None, data=None, desc=None, late=None):
        self.mb, self.info, self.cmds, self.recipe, self.data = mb, info, cmds, recipe, data
        self.desc = desc
        self.late = late   # commands issued AFTER calibration and before the final quantize(): history on the same object

    def replay(self):
        import base64
        return {"model_b64": base64.b64encode(self.mb).decode(), "cmds": self.cmds, "recipe": self.recipe, "late": self.late,
                "data": {k: [{a: v.tolist() for a, v in smp.items()} for smp in v_] for k, v_ in (self.data or {}).items()},
                "ops": [sg["ops"] for sg in self.info["subgraphs"]],
                "dry_run_calibration_first": None if getattr(self, "dry_data", None) is None else
                {k: [{a: v.tolist() for a, v in smp.items()} for smp in v_] for k, v_ in self.dry_data.items()}}


def gen_fanout_case(rng, n_samples=1):
    mb, info = gm.gen_fanout(rng)
    data = gm.random_inputs(mb, rng, n=n_samples)
    m = pl.read(mb)
    sg = m.subgraphs[0]
    cmds = []
    cfgs = ["a8w8", "a8sw8t", "a16w8", "a8w4"]
    rng.shuffle(cfgs)
    j = 0
    for op in sg.operators:
        name = pl.tname(sg.tensors[op.outputs[0]])
        if rng.random() < 0.85:
            cmds.append({"k": "add", "regex": "^" + re.escape(name) + ";$", "operation": "*", "cfg": pl.UNIFORM[cfgs[j % len(cfgs)]],
                         "alg": "min_max_uniform_quantize"})
            j += 1
    return Case(mb, info, cmds=cmds, data=data, desc=[(c["regex"], "*") for c in cmds])


def gen_per_op_modes_case(rng, n_samples=1, nsg=None):
    """every operator gets its own mode (none / weight only / dynamic range / static range / float16) by a rule on its own scope: operators
    are inserted at many positions, in different numbers per subgraph"""
    mb, info = gm.gen_model(rng, n_ops=rng.randint(3, 7), n_subgraphs=nsg or rng.choice([1, 2, 3]), kinds=gm.WEIGHT_HEAVY, alias_sig=0.0)
    data = gm.random_inputs(mb, rng, n=n_samples)
    cmds = []
    for sc in pl.scopes_of(mb):
        if rng.random() < 0.25 or not sc:
            continue
        cfg = rng.choice([pl.UNIFORM["wo8"], pl.UNIFORM["wo4"], pl.UNIFORM["drq8"], pl.UNIFORM["a8w8"], pl.UNIFORM["a16w8"], pl.FP16])
        cmds.append({"k": "add", "regex": "^" + re.escape(sc) + "$", "operation": "FULLY_CONNECTED" if cfg is pl.FP16 else "*", "cfg": cfg,
                     "alg": "float_casting" if cfg is pl.FP16 else "min_max_uniform_quantize"})
    info["tags"].add("per_operator_modes")
    return Case(mb, info, cmds=cmds, data=data, desc=[(c["regex"], c["alg"], c["cfg"]["cp"]) for c in cmds])


BMM_CONST_LHS = [0.0]   # share of BATCH_MATMUL operators whose CONSTANT operand is the left one; set by the checks that classify finding D42


LEGACY_OPCODES = [0.07]   # share of generated cases whose operator codes use the pre-TF-2.4 encoding (deprecated_builtin_code only)


def to_legacy_opcodes(mb):
    """the same model with its operator codes written the way converters before TF 2.4 did: the code in `deprecated_builtin_code`,
    `builtin_code` left at 0; the runtime reads the larger of the two fields and runs such files (defect D43)"""
    m = flatbuffer_utils.read_model_from_bytearray(bytearray(mb))
    for oc in m.operatorCodes:
        if oc.builtinCode < 127:
            oc.deprecatedBuiltinCode, oc.builtinCode = oc.builtinCode, 0
    return bytes(flatbuffer_utils.convert_object_to_bytearray(m))


def with_int_branch(case, rng):
    """the same case with an INTEGER data branch next to the float graph (counts / lengths / ids that are averaged, added, transposed or
    concatenated -- all legal on INT32 in the runtime): one more INT32 signature input, one or two operators of quantizable KINDS on it,
    its INT32 result exported. Non-float tensors are never quantized, whatever rule covers those operators."""
    import numpy as np
    from ai_edge_litert import schema_py_generated as s
    m = flatbuffer_utils.read_model_from_bytearray(bytearray(case.mb))
    if not m.signatureDefs:
        return case
    sd = m.signatureDefs[0]
    sg = m.subgraphs[sd.subgraphIndex]
    names = {t.name for t in sg.tensors}
    BO, TT = s.BuiltinOperator, s.TensorType

    def tensor(base, shape, data=None):
        k = 0
        while (base + str(k)).encode() in names:
            k += 1
        t = s.TensorT()
        t.name = (base + str(k)).encode()
        names.add(t.name)
        t.shape = list(shape)
        t.type = TT.INT32
        if data is None:
            t.buffer = 0
        else:
            b = s.BufferT()
            b.data = np.frombuffer(np.asarray(data, np.int32).tobytes(), dtype=np.uint8)
            m.buffers.append(b)
            t.buffer = len(m.buffers) - 1
        sg.tensors.append(t)
        return len(sg.tensors) - 1

    def opcode(code):
        for i, oc in enumerate(m.operatorCodes):
            if max(oc.builtinCode, oc.deprecatedBuiltinCode) == code:
                return i
        oc = s.OperatorCodeT()
        oc.builtinCode = code
        oc.deprecatedBuiltinCode = min(code, 127)
        oc.version = 1
        m.operatorCodes.append(oc)
        return len(m.operatorCodes) - 1

    def op(code, ins, outs, otype=None, opts=None):
        o = s.OperatorT()
        o.opcodeIndex = opcode(code)
        o.inputs, o.outputs = list(ins), list(outs)
        if otype is not None:
            o.builtinOptionsType, o.builtinOptions = otype, opts
        sg.operators.append(o)

    f = rng.randint(2, 4)
    x = tensor("counts", [1, f])
    cur, shp, kinds = x, [1, f], []
    for _ in range(rng.randint(1, 2)):
        kind = rng.choice(["MEAN", "MEAN", "ADD", "TRANSPOSE", "CONCATENATION"])
        if kind == "MEAN" and shp[-1] > 1 and len(shp) == 2:
            ax = tensor("count_axis", [1], data=[1])
            y = tensor("count_mean", [shp[0], 1])
            opts = s.ReducerOptionsT()
            opts.keepDims = True
            op(BO.MEAN, [cur, ax], [y], s.BuiltinOptions.ReducerOptions, opts)
            cur, shp = y, [shp[0], 1]
        elif kind == "ADD":
            c = tensor("count_offset", shp, data=np.array([rng.randint(0, 3) for _ in range(shp[0] * shp[1])]).reshape(shp))
            y = tensor("count_sum", shp)
            opts = s.AddOptionsT()
            op(BO.ADD, [cur, c], [y], s.BuiltinOptions.AddOptions, opts)
            cur = y
        elif kind == "TRANSPOSE":
            perm = tensor("count_perm", [2], data=[1, 0])
            y = tensor("count_t", [shp[1], shp[0]])
            op(BO.TRANSPOSE, [cur, perm], [y], s.BuiltinOptions.TransposeOptions, s.TransposeOptionsT())
            cur, shp = y, [shp[1], shp[0]]
        elif kind == "CONCATENATION":
            y = tensor("count_cat", [shp[0], shp[1] * 2])
            opts = s.ConcatenationOptionsT()
            opts.axis = 1
            op(BO.CONCATENATION, [cur, cur], [y], s.BuiltinOptions.ConcatenationOptions, opts)
            cur, shp = y, [shp[0], shp[1] * 2]
        else:
            continue
        kinds.append(kind)
    if not kinds:
        return case
    sg.inputs = list(sg.inputs) + [x]
    sg.outputs = list(sg.outputs) + [cur]
    arg = "counts_in"
    tm = s.TensorMapT()
    tm.name, tm.tensorIndex = arg.encode(), x
    sd.inputs.append(tm)
    tm = s.TensorMapT()
    tm.name, tm.tensorIndex = b"counts_out", cur
    sd.outputs.append(tm)
    case.mb = bytes(flatbuffer_utils.convert_object_to_bytearray(m))
    key = sd.signatureKey.decode()
    r = np.random.RandomState(rng.randrange(2 ** 31))
    for d in (case.data, getattr(case, "dry_data", None)):
        if d and key in d:
            for smp in d[key]:
                smp[arg] = r.randint(0, 5, size=[1, f]).astype(np.int32)
    for sgi in case.info["subgraphs"]:
        if sgi.get("sig") == key or len(case.info["subgraphs"]) == 1:
            sgi["ops"] = list(sgi["ops"]) + kinds
            break
    case.info["tags"].add("integer_data_branch")
    return case


def gen_case(rng, i, **kw):
    case = _gen_case(rng, i, **kw)
    if LEGACY_OPCODES[0] and rng.random() < LEGACY_OPCODES[0]:
        case.mb = to_legacy_opcodes(case.mb)
        case.info["tags"].add("legacy_operator_codes")
    return case


def _gen_case(rng, i, multi_every=6, share_every=4, shipped_every=3, n_samples=1, **kw):
    if i % 9 == 4:
        return gen_fanout_case(rng, n_samples)
    if i % 13 == 11 and not kw:
        return gen_per_op_modes_case(rng, n_samples)
    kw = dict(kw)
    kw.setdefault("dup_output", 0.08)
    kw.setdefault("dynamic_batch", 0.15)
    kw.setdefault("fused_act", 0.2)
    kw.setdefault("bmm_const_lhs", BMM_CONST_LHS[0])
    if i % 7 == 5 and "kinds" not in kw and "n_ops" not in kw:
        # deep graphs with many weight-bearing operators in a row (op-position bookkeeping over many insertions)
        kw["n_ops"], kw["kinds"] = rng.randint(6, 12), gm.WEIGHT_HEAVY
    mb, info = gm.gen_model(rng, n_subgraphs=1 if i % multi_every else rng.choice([2, 2, 3]), share=0.3 if i % share_every == 0 else 0, name_hazard=0.1, **kw)
    if kw.get("kinds") is gm.WEIGHT_HEAVY:
        info["tags"].add("deep_weight_chain")
    data = gm.random_inputs(mb, rng, n=n_samples)
    if i % shipped_every == 0:
        name, rec = rng.choice(pl.shipped_recipes())
        return Case(mb, info, recipe=rec, data=data, desc=name)
    cmds = pl.gen_recipe(rng, mb)
    if "multi_output_op" in info["tags"] and rng.random() < 0.6:
        # a rule that matches a multi-result operator only through its SECOND result name (its scope is all result names joined)
        m_ = pl.read(mb)
        seconds = [pl.tname(sg.tensors[op.outputs[1]]) for sg in m_.subgraphs for op in sg.operators if len(op.outputs) > 1]
        if seconds:
            cmds.append({"k": "add", "regex": re.escape(rng.choice(seconds)) + ";", "operation": "*", "cfg": pl.UNIFORM[rng.choice(["a8w8", "a16w8"])],
                         "alg": "min_max_uniform_quantize"})
            info["tags"].add("rule_on_second_result_name")
    late = None
    r = rng.random()
    if r < 0.07:
        # the object quantizes once with the calibration result, then an operator is switched off and it quantizes again
        ops = sorted({o for sg in info["subgraphs"] for o in sg["ops"] if o in gm.Grower.SUPPORTED})
        if ops:
            late = [{"k": "quantize"}, {"k": "add", "regex": ".*", "operation": rng.choice(ops), "cfg": None, "alg": "no_quantize"}]
    elif r < 0.17:
        late = [{"k": "policy", "file": "example_config_policy.json"}]   # a shipped custom policy replaces the default one
        if rng.random() < 0.75:
            late = [{"k": "quantize"}] + late    # ... after the object has already resolved its rules once under the default policy
            if rng.random() < 0.7:
                # a '*' rule whose support is decided at resolution time and differs between the two policies (the example policy knows
                # no weight-only / float16 entries)
                cfg = rng.choice([pl.UNIFORM["wo8"], pl.UNIFORM["wo4"], pl.UNIFORM["wo8a"], pl.UNIFORM["drq4"], pl.UNIFORM["drq4c"]])
                cmds = [{"k": "add", "regex": ".*", "operation": "*", "cfg": cfg, "alg": "min_max_uniform_quantize"}]
                late[-1] = {"k": "policy", "file": "<strict>"}   # the default policy without its weight-only and 4-bit dynamic-range entries
    elif r < 0.25:
        # calibrate once, then explore recipes with the same calibration result: the weight granularity (and width) configured when
        # quantize() runs differs from the one in force while calibrating
        grans = {c["cfg"]["weight"]["gran"] for c in cmds if c.get("cfg") and c["cfg"].get("weight") and c["cfg"].get("act") and c["alg"] == "min_max_uniform_quantize"}
        pool = ["a8sw8t", "a8sw4t"] if "CHANNELWISE" in grans else (["a8w8", "a8w4", "a16w8"] if grans else ["a8sw8t", "a8w8", "a8sw4t", "a8w4", "a16w8"])
        late = [{"k": "add", "regex": ".*", "operation": rng.choice(["*", "*", "FULLY_CONNECTED", "CONV_2D", "DEPTHWISE_CONV_2D"]),
                 "cfg": pl.UNIFORM[rng.choice(pool)], "alg": "min_max_uniform_quantize"}]
    case = Case(mb, info, cmds=cmds, data=data, late=late,
                desc=[(c["regex"], c["operation"], c["alg"]) for c in cmds] + ([("late", c.get("k"), c.get("operation") or c.get("file")) for c in late] if late else []))
    if rng.random() < 0.08:
        case.dry_data = gm.random_inputs(mb, rng, n=1, scale=rng.choice([0.05, 8.0]))
        info["tags"].add("dry_run_calibration_first")
    return case


def make_quantizer(case):
    q = quantizer.Quantizer(case.mb, copy.deepcopy(case.recipe) if case.recipe is not None else None)
    if case.cmds:
        pl.apply_recipe(q, case.cmds)
    return q


def run_case(ctx, drv, case, graph_corr=True):
    """returns dict(status=ok|raise|empty, out=bytes, q=Quantizer, cr=..., exc=...)"""
    res = {"status": "empty"}
    try:
        q = make_quantizer(case)
    except Exception as e:  # noqa: BLE001
        return {"status": "raise", "exc": type(e).__name__, "stage": "recipe"}
    res["q"] = q
    if not q.get_quantization_recipe():
        return res
    try:
        if q.need_calibration and getattr(case, "dry_data", None):
            # an earlier, independent calibration session on the same object (a dry run on other data): the session that counts
            # starts from scratch (previous_calibration_result=None) and must not see it
            try:
                pl.calibrate_all(q, case.dry_data)
            except Exception:  # noqa: BLE001
                pass
        cr = pl.calibrate_all(q, case.data) if q.need_calibration else None
        if cr is not None and getattr(case, "unsigned_stats", None):
            # subgraphs that no signature exports (bodies of control flow, or a plain multi-subgraph file) cannot be calibrated through
            # the model itself: their statistics come from the same graph WITH its signature (same tensor names), as a user would do
            full_mb, sig, samples = case.unsigned_stats
            qf = quantizer.Quantizer(full_mb, copy.deepcopy(q.get_quantization_recipe()))
            extra = qf.calibrate(samples, signature_key=sig)
            for name, v in extra.items():
                if v and not cr.get(name):
                    cr[name] = v
    except Exception as e:  # noqa: BLE001
        return {"status": "raise", "exc": type(e).__name__, "stage": "calibrate", "q": q}
    res["cr"] = cr
    for c in (case.late or []):
        if c.get("k") == "quantize":
            try:
                q.quantize(cr)   # the caller's object itself, as a user would pass it
            except Exception:  # noqa: BLE001
                pass
        elif c.get("k") == "policy":
            import os as _os
            from ai_edge_quantizer import quantizer as _qm
            if c["file"] == "<strict>":
                c = dict(c, file=orc.strict_policy_file())
            q.load_config_policy(c["file"] if _os.path.isabs(c["file"]) else _os.path.join(_os.path.dirname(_qm.__file__), "policies", c["file"]))
            orc.reset_fresh()
            orc.ACTIVE_POLICY[0] = c["file"]
            res["policy"] = c["file"]
        else:
            pl.apply_recipe(q, [c])
    try:
        params = q._get_quantization_params(copy.deepcopy(cr))
    except Exception as e:  # noqa: BLE001
        return {"status": "raise", "exc": type(e).__name__, "stage": "params", "q": q, "cr": cr, "msg": str(e)[:200], "policy": res.get("policy")}
    res["params"] = params
    if graph_corr:
        real_m, insts = fg.stage_case(ctx, drv, case.mb, params)
        res["insts"] = insts
    try:
        out = q.quantize(copy.deepcopy(cr))
        res["status"] = "ok"
        res["out"] = bytes(out.quantized_model)
    except Exception as e:  # noqa: BLE001
        return {"status": "raise", "exc": type(e).__name__, "stage": "quantize", "q": q, "cr": cr, "policy": res.get("policy")}
    return res


def restore_policy(res):
    """load_config_policy replaces PROCESS-GLOBAL state: put the default policy back once the case's oracles have run"""
    if res.get("policy"):
        from ai_edge_quantizer import algorithm_manager, default_policy
        algorithm_manager.register_config_check_policy_func(algorithm_manager.AlgorithmName.MIN_MAX_UNIFORM_QUANT,
                                                            default_policy.DEFAULT_CONFIG_CHECK_POLICY)
        orc.ACTIVE_POLICY[0] = None
        orc.reset_fresh()


def count_tags(ctx, case, res):
    for t in case.info["tags"]:
        ctx.tag(t)
    if case.late:
        ctx.tag("late:" + "+".join(str(c.get("k")) for c in case.late))
    ctx.tag("status_" + res["status"])
    if res["status"] == "raise":
        k = res["exc"] + "@" + res["stage"]
        ctx.errkinds[k] = ctx.errkinds.get(k, 0) + 1
    for ti in res.get("insts") or []:
        xs = [i["xf"] for i in ti["insts"]]
        if len(xs) >= 2 and xs[0] == "QUANTIZE_TENSOR" and "ADD_QUANTIZE" in xs[1:]:
            ctx.tag("requant")
        if len(ti["insts"]) > 1:
            ctx.tag("group>1")
        for i in ti["insts"]:
            if -1 in i["consumers"] and len(i["consumers"]) > 1 and i["xf"] in ("ADD_QUANTIZE", "ADD_DEQUANTIZE"):
                ctx.tag("graph_output_and_consumer_in_one_inst")
            if i["producer"] == 0 and i["xf"] == "ADD_DEQUANTIZE":
                ctx.tag("producer0")
            if len(set(i["consumers"])) != len(i["consumers"]):
                ctx.tag("repeated_operand_inst")


# --------------------------------------------------------------------------- oracles

def oracle_c01(ctx, interp, case, res):
    v = pl.wf_violations(res["out"])
    if v:
        ctx.fail("quantize() returned an ill-formed model: " + v[0], case.replay(), "wf:" + re.sub(r"\d+", "N", v[0])[:60])
        return
    r = interp.run(res["out"], {k: v_[:1] for k, v_ in case.data.items()})
    ctx.interp_runs += 1
    if r[0] != "ok":
        ctx.fail(f"interpreter could not allocate/invoke the returned model: {r[0]} {str(r[1])[:160]}", case.replay(),
                 "interp:" + pl.interp_err_class(r, res["out"]))


def io_should_be_float(q, mb):
    """per subgraph: (inputs float?, outputs float?) expected from recipe resolution of INPUT/OUTPUT"""
    m = pl.read(mb)
    out = []
    for sg in m.subgraphs:
        scope_in = "".join(pl.tname(sg.tensors[t]) + ";" for t in sg.inputs)
        a_in, _ = orc.resolve(q, "INPUT", scope_in)
        a_out, _ = orc.resolve(q, "OUTPUT", "")
        out.append((str(getattr(a_in, "value", a_in)) == "no_quantize", str(getattr(a_out, "value", a_out)) == "no_quantize"))
    return out


def oracle_io_covered(ctx, case, res):
    """the other direction of the I/O contract, per SIGNATURE: where the recipe resolves the INPUT (OUTPUT) pseudo-operator of a subgraph to
    static-range quantization -- the very resolution calibration used -- every float32 graph input (output computed by an operator) of THAT
    subgraph is an integer tensor of the activation width in the result"""
    mi, mo = pl.read(case.mb), pl.read(res["out"])
    for si, (gi, go) in enumerate(zip(mi.subgraphs, mo.subgraphs)):
        scope_in = "".join(pl.tname(gi.tensors[t]) + ";" for t in gi.inputs)
        for what, opname, scope, ids_i, ids_o in (("input", "INPUT", scope_in, gi.inputs, go.inputs), ("output", "OUTPUT", "", gi.outputs, go.outputs)):
            try:
                mode, cfg = orc.mode_of(res["q"], opname, scope)
            except Exception:  # noqa: BLE001
                continue
            if mode != "srq":
                continue
            want = TT.INT16 if cfg.activation_tensor_config.num_bits == 16 else TT.INT8
            produced = {o for op in gi.operators for o in op.outputs}
            for a, b in zip(ids_i, ids_o):
                t = gi.tensors[a]
                if t.type != TT.FLOAT32 or mi.buffers[t.buffer].data is not None:
                    continue
                if what == "output" and a not in produced:
                    continue
                ctx.tag("io_covered_checked")
                if go.tensors[b].type != want:
                    ctx.fail(f"subgraph {si}: the recipe covers {opname} with {cfg.activation_tensor_config.num_bits}-bit static-range quantization, yet {what} "
                             f"{pl.tname(t)} is {pl.TT_NAME.get(go.tensors[b].type)} in the result", case.replay(), f"io-{what}-not-quantized")
                    return


def oracle_c02(ctx, case, res):
    v = pl.skeleton_violations(case.mb, res["out"])
    if v:
        ctx.fail("graph skeleton / IO contract not preserved: " + v[0], case.replay(), "skeleton:" + re.sub(r"\d+", "N", v[0])[:60])
        return
    mi, mo = pl.read(case.mb), pl.read(res["out"])
    for si, ((fin, fout), gi, go) in enumerate(zip(io_should_be_float(res["q"], case.mb), mi.subgraphs, mo.subgraphs)):
        if fin:
            for a, b in zip(gi.inputs, go.inputs):
                if gi.tensors[a].type == TT.FLOAT32 and go.tensors[b].type != TT.FLOAT32:
                    ctx.fail("model input is not float32 although no rule covers INPUT", case.replay(), "io-input-not-float")
        if fout:
            for a, b in zip(gi.outputs, go.outputs):
                if gi.tensors[a].type == TT.FLOAT32 and go.tensors[b].type != TT.FLOAT32:
                    ctx.fail("model output is not float32 although no rule covers OUTPUT", case.replay(), "io-output-not-float")


# --------------------------------------------------------------------------- C19: subgraph extraction

def extract_subgraph(mb, i):
    """single-subgraph model made of subgraph i (same tensor names, own buffer/opcode tables)"""
    m = pl.read(mb)
    g = gm.G()
    sg = m.subgraphs[i]
    g.subgraph(sg.name if sg.name else b"main")
    bufmap = {0: 0}
    for t in sg.tensors:
        if t.buffer not in bufmap:
            b = m.buffers[t.buffer]
            bufmap[t.buffer] = g.buffer(None if b.data is None else np.asarray(b.data, dtype=np.uint8))
        nt = s.TensorT()
        nt.name, nt.shape, nt.type, nt.quantization, nt.buffer = t.name, list(t.shape), t.type, copy.deepcopy(t.quantization), bufmap[t.buffer]
        g.sg.tensors.append(nt)
    for op in sg.operators:
        code = m.operatorCodes[op.opcodeIndex].builtinCode
        g.op(code, list(op.inputs), list(op.outputs), op.builtinOptionsType, copy.deepcopy(op.builtinOptions))
    sd = [x for x in (m.signatureDefs or []) if x.subgraphIndex == i]
    g.sg.inputs, g.sg.outputs = list(sg.inputs), list(sg.outputs)
    for x in sd:
        nsd = copy.deepcopy(x)
        nsd.subgraphIndex = 0
        g.m.signatureDefs.append(nsd)
    return g.bytes()


def canon_sg(mb, i):
    c = pl.canon(mb)
    return c["subgraphs"][i]


def explore(ctx, drv, n, per_case, gen=gen_case, graph_corr=True, reserve_s=25, mat_corr=False, pipe_corr=False):
    """generate n cases within the time budget; per_case(case, res) runs the property oracle"""
    from . import fam_mat as fmat
    rng = ctx.rng
    for i in range(n):
        if ctx.left() < reserve_s:
            break
        case = gen(rng, i)
        res = run_case(ctx, drv, case, graph_corr=graph_corr)
        count_tags(ctx, case, res)
        ctx.case({"ops": [sg["ops"] for sg in case.info["subgraphs"]], "recipe": case.desc}, res["status"] != "empty")
        if (mat_corr or pipe_corr) and res.get("q") is not None and res["status"] != "empty" and res.get("stage") not in ("recipe", "calibrate") \
                and not res.get("policy"):   # the model's policy tables are the default policy's
            if mat_corr:
                fmat.cmp_materialize(ctx, drv, case.mb, res["q"], res.get("cr"))
            if pipe_corr:
                out = ("ok", res["out"]) if res["status"] == "ok" else ("raise", res.get("exc"))
                res["model_resp"] = fmat.cmp_pipeline(ctx, drv, case.mb, res["q"], res.get("cr"), out)
                nf = (res["model_resp"] or {}).get("nf")
                if nf is not None:   # is this case inside the hypothesis NF of the end-to-end theorems? (NFCheck.nfOK, proved sound)
                    bad = [k for k, v in nf.items() if not v]
                    ctx.tag("nf_true" if not bad else "nf_false")
                    for k in bad:
                        ctx.tag("nf_false:" + k)
                mr = res["model_resp"] or {}
                if "ksig" in mr:
                    # C01b (kernel_signatures_ok): the output's operators all have a signature of the ASSUMED kernel table; the interpreter
                    # run of the same output (oracle_c01 / C13) is what validates the table.  A float input whose output leaves the table is
                    # outside the theorem's hypotheses (constant data operand / runtime convolution filter) or breaks the theorem's tie.
                    ctx.tag("ksig_" + ("ok" if mr["ksig"] else "REJECTED") + ("" if mr.get("ksig_in") else "_nonfloat_input"))
                    sigs = getattr(ctx, "ksig_seen", None)
                    if sigs is None:
                        sigs = ctx.ksig_seen = set()
                    for sg_ in mr.get("ksig_sigs") or []:
                        if sg_:
                            sigs.add(json.dumps(sg_[:3]))
                    res["ksig"] = mr["ksig"]
        try:
            per_case(case, res)
        except common.Timeout:
            restore_policy(res)
            raise
        except Exception as e:  # noqa: BLE001  an oracle that cannot even interpret the library's output
            import traceback
            ctx.fail(f"the property oracle could not interpret the library's output ({type(e).__name__}: {str(e)[:120]})",
                     {**case.replay(), "traceback": traceback.format_exc()[-1200:]}, "oracle-crash:" + type(e).__name__)
        finally:
            restore_policy(res)


def failer(ctx, case, prefix=""):
    def fail(msg, key):
        ctx.fail(prefix + msg, case.replay(), key)
    return fail


def gen_tied_case(rng, i, nsg=None, extras=True):
    """tied-constant models x recipes assigning equal / different / no quantization to the sharers"""
    if i % 6 == 5:
        # only scalar constants are tied; the rules cover one operator type at a time (so that only one sharer is requested)
        mb, info = gm.gen_tied_scalars(rng)
        data = gm.random_inputs(mb, rng, n=1)
        kinds = sorted({k for sg in info["subgraphs"] for k in sg["ops"] if k in ("ADD", "MUL", "SUB")})
        if rng.random() < 0.25:
            name, rec = rng.choice(pl.shipped_recipes())
            return Case(mb, info, recipe=rec, data=data, desc=name)
        cmds = [{"k": "add", "regex": ".*", "operation": op, "cfg": pl.UNIFORM[rng.choice(["a8w8", "a8sw8t", "a16w8"])],
                 "alg": "min_max_uniform_quantize"} for op in rng.sample(kinds, rng.randint(1, len(kinds)))]
        return Case(mb, info, cmds=cmds, data=data, desc=[(c["regex"], c["operation"], c["alg"]) for c in cmds])
    mb, info = gm.gen_tied(rng, nsg=nsg, extras=extras, shared_bias=0.25 if i % 4 == 2 else 0.0)
    data = gm.random_inputs(mb, rng, n=1)
    names = [n for sc in pl.scopes_of(mb) for n in sc.split(";") if n]
    r = rng.random()
    if r < 0.3:
        name, rec = rng.choice(pl.shipped_recipes())
        return Case(mb, info, recipe=rec, data=data, desc=name)
    cmds = []
    if "tied_unread_constant" in info["tags"] and rng.random() < 0.5:
        # everything (the OUTPUT pseudo-operator included) is static-range, but the operators reading the tied weight are switched
        # off: the only request that would rewrite the shared buffer is the one of the exported, unread constant itself
        cmds = [{"k": "add", "regex": ".*", "operation": "*", "cfg": pl.UNIFORM[rng.choice(["a8w8", "a16w8", "a8sw8t"])], "alg": "min_max_uniform_quantize"}]
        for op in ("FULLY_CONNECTED", "EMBEDDING_LOOKUP", "ADD", "MUL"):
            if rng.random() < 0.85:
                cmds.append({"k": "add", "regex": ".*", "operation": op, "cfg": None, "alg": "no_quantize"})
        info["tags"].add("only_unread_constant_requested")
        return Case(mb, info, cmds=cmds, data=data, desc=[(c["regex"], c["operation"], c["alg"]) for c in cmds])
    if r < 0.5:
        cmds.append({"k": "add", "regex": ".*", "operation": "FULLY_CONNECTED", "cfg": rng.choice(list(pl.UNIFORM.values())), "alg": "min_max_uniform_quantize"})
    elif r < 0.75:
        # the sharers get DIFFERENT modes with IDENTICAL weight settings (dynamic range vs weight only, 8 or 4 bit): the stored data
        # can be shared, but each consumer must still run in its own mode -- or with DIFFERENT weight settings (other width, other
        # symmetry, other granularity): one stored copy cannot serve both, the recipe has to be refused
        pair = rng.choice([("drq8", "wo8"), ("wo8", "drq8"), ("drq4c", "wo4"), ("wo4", "drq4c"),
                           ("drq8", "wo8a"), ("wo8a", "drq8"), ("wo8", "drq4"), ("drq4", "wo8"), ("drq8t", "wo8"), ("wo4a", "drq4c")])
        for j, n in enumerate(names):
            cmds.append({"k": "add", "regex": re.escape(n), "operation": "*", "cfg": pl.UNIFORM[pair[j % 2]], "alg": "min_max_uniform_quantize"})
    else:
        for n in names:
            rr = rng.random()
            if rr < 0.3:
                continue
            if rr < 0.4:
                cmds.append({"k": "add", "regex": re.escape(n), "operation": "*", "cfg": None, "alg": "no_quantize"})
            elif rr < 0.5:
                cmds.append({"k": "add", "regex": re.escape(n), "operation": "FULLY_CONNECTED", "cfg": pl.FP16, "alg": "float_casting"})
            else:
                cmds.append({"k": "add", "regex": re.escape(n), "operation": rng.choice(["*", "FULLY_CONNECTED"]),
                             "cfg": rng.choice(list(pl.UNIFORM.values())), "alg": "min_max_uniform_quantize"})
    return Case(mb, info, cmds=cmds, data=data, desc=[(c["regex"], c["operation"], c["alg"]) for c in cmds])


def blockwise_probe(ctx, drv, interp, n, sharing=False, extra=None, only_8_bits=False):
    """BLOCKWISE weights replace the FULLY_CONNECTED by a pattern of operators (emulated sub-channel quantization, only reachable with
    skip_checks): outside the Lean model, so only the independent well-formedness checker, the byte-length decoder and the interpreter
    look at these results.  sharing=True: the weight's buffer is also referenced by a tensor nobody reads / by the weight of a second
    FULLY_CONNECTED that the rule does not cover (regex on the first operator's result name)."""
    from ai_edge_litert import schema_py_generated as s_
    from . import fam_recipe as fr
    from . import gen_models as gm
    for j in range(n):
        g = gm.G()
        g.subgraph()
        gr = gm.Grower(g, ctx.rng, "")
        f, o = ctx.rng.choice([32, 64]), ctx.rng.choice([2, 4, 8])
        gr.add_input([1, 2, f])
        pre = ctx.rng.randint(0, 2)
        for _ in range(pre):   # the FULLY_CONNECTED is not the first operator
            gr.emit(ctx.rng.choice(["TANH", "ABS", "LOGISTIC"]))
        src, _shape = gr.acts[-1]
        w = gr.const([o, f], kind="normal")
        b = gr.const([o], kind="small", base="b") if ctx.rng.random() < 0.6 else -1
        y = gr.new_act([1, 2, o])
        fco = s_.FullyConnectedOptionsT()
        fco.keepNumDims = True
        relu = (not sharing) and ctx.rng.random() < 0.35
        if relu:   # a fused RELU becomes a RELU operator of its own (and the result tensor is renamed <name>_relu)
            fco.fusedActivationFunction = s_.ActivationFunctionType.RELU
        g.op(gm.BO.FULLY_CONNECTED, [src, w, b], [y], gm.OPT.FullyConnectedOptions, fco)
        gr.out(y, [1, 2, o])
        variant = "plain" + ("_relu" if relu else "")
        regex = ".*"
        outs = []
        if (not sharing) and ctx.rng.random() < 0.4:
            # name hazards: the model already holds tensors named like the constants / tensors the pattern creates
            wn, yn = g.sg.tensors[w].name.decode(), g.sg.tensors[y].name.decode()
            for nm in ctx.rng.sample([wn + "_scale", wn + "_reduce_axes", yn + "_reshape_op1_shape", yn + "_reshape_op2_shape", yn + "_bmm_input",
                                      yn + "_relu", yn + "_relu_relu_input", yn + "_reshape_op2_output"], ctx.rng.randint(1, 3)):
                z = g.tensor(nm, [1, 2, o])
                g.op(gm.BO.ABS, [y], [z], 0, None)
                outs.append(z)
            variant += "_name_hazard"
        if sharing:
            variant = ["dangling", "second_fc_float", "second_fc_same"][j % 3]
            buf = g.sg.tensors[w].buffer
            if variant == "dangling":
                g.tensor(gr.name("leftover"), [o, f], buffer=buf)
            else:
                w2 = g.tensor(gr.name("w"), [o, f], buffer=buf)
                y2 = gr.new_act([1, 2, o])
                fco2 = s_.FullyConnectedOptionsT()
                fco2.keepNumDims = True
                g.op(gm.BO.FULLY_CONNECTED, [src, w2, -1], [y2], gm.OPT.FullyConnectedOptions, fco2)
                outs.append(y2)
                if variant == "second_fc_float":
                    import re as _re
                    regex = _re.escape(g.sg.tensors[y].name.decode()) + ";"
        if ctx.rng.random() < 0.6:
            gr.emit(ctx.rng.choice(["TANH", "ABS"]))
        last = gr.acts[-1][0]
        for t in g.sg.tensors:
            t.quantization = s_.QuantizationParametersT()   # converters emit an EMPTY quantization table on every tensor
        g.io(gr.inputs, [last] + outs, sig="serving_default")
        mb = g.bytes()
        info = {"tags": {"blockwise_emulated_subchannel"}, "subgraphs": [{"sig": "serving_default", "int_inputs": [], "ops": ["FULLY_CONNECTED"]}]}
        bits = 8 if (sharing or only_8_bits) else ctx.rng.choice([8, 8, 4])   # 4 bits: finding D37 (C01)
        cfg = fr.cdesc(None, fr.tdesc(bits, True, "BLOCKWISE", "INT", ctx.rng.choice([16, 32])), "FLOAT", True, True)
        cmds = [{"k": "add", "regex": regex, "operation": "FULLY_CONNECTED", "cfg": cfg, "alg": "min_max_uniform_quantize"}]
        case = Case(mb, info, cmds=cmds, data=gm.random_inputs(mb, ctx.rng, n=1), desc=[("blockwise", variant, bits, "FULLY_CONNECTED", pre)])
        res = run_case(ctx, drv, case, graph_corr=False)
        ctx.case({"blockwise": [f, o], "ops_before_fc": pre, "variant": variant, "bits": bits}, res["status"] == "ok")
        ctx.tag(f"blockwise_probe_{variant}_" + res["status"])
        if res["status"] == "ok":
            mo = pl.read(res["out"])
            bad, int4_bad = None, False
            for go in mo.subgraphs:
                for t in go.tensors:
                    d = mo.buffers[t.buffer].data
                    if d is None or len(d) == 0:
                        continue
                    n_el = int(np.prod([int(x) for x in t.shape])) if t.shape is not None else 1   # a scalar is read back without a shape
                    need = n_el * {pl.TT.FLOAT32: 4, pl.TT.INT8: 1, pl.TT.INT16: 2, pl.TT.INT32: 4, pl.TT.INT64: 8, pl.TT.FLOAT16: 2}.get(t.type, 0)
                    if t.type == pl.TT.INT4:
                        need = (n_el + 1) // 2
                    if need and need != len(d):
                        int4_bad = int4_bad or t.type == pl.TT.INT4
                        bad = f"tensor {pl.tname(t)} ({pl.TT_NAME.get(t.type)} {[] if t.shape is None else list(t.shape)}) needs {need} bytes but its buffer {t.buffer} holds {len(d)}"
            if bad:
                ctx.fail("a tensor over a rewritten buffer no longer agrees with its bytes: " + bad, case.replay(),
                         "blockwise-int4-unpacked" if int4_bad and bits == 4 else "blockwise-shared-bytes")
            oracle_c01(ctx, interp, case, res)
            if extra:
                extra(case, res)


def gen_blockwise_multi(rng):
    """2-3 subgraphs / signatures; the FULLY_CONNECTED of ONE (or of every) subgraph gets BLOCKWISE weights (the emulated sub-channel pattern
    REPLACES the operator and adds operator codes to the table all subgraphs share); the others hold FULLY_CONNECTED and other operators"""
    from ai_edge_litert import schema_py_generated as s_
    nsg = rng.choice([2, 2, 3])
    g = gm.G()
    data_shapes = {}
    which = rng.randrange(nsg) if rng.random() < 0.75 else None   # None: every subgraph
    for si in range(nsg):
        g.subgraph(("sg%d" % si).encode())
        gr = gm.Grower(g, rng, "s%d/" % si)
        f, o = rng.choice([32, 64]), rng.choice([2, 4, 8])
        gr.add_input([1, 2, f])
        for _ in range(rng.randint(0, 2)):
            gr.emit(rng.choice(["TANH", "ABS", "LOGISTIC"]))
        src, _shape = gr.acts[-1]
        w = gr.const([o, f], kind="normal")
        b = gr.const([o], kind="small", base="b") if rng.random() < 0.5 else -1
        y = gr.new_act([1, 2, o])
        fco = s_.FullyConnectedOptionsT()
        fco.keepNumDims = True
        g.op(gm.BO.FULLY_CONNECTED, [src, w, b], [y], gm.OPT.FullyConnectedOptions, fco)
        gr.out(y, [1, 2, o])
        for _ in range(rng.randint(0, 2)):
            gr.emit(rng.choice(["TANH", "ABS", "NEG"]))
        for t in g.sg.tensors:
            t.quantization = s_.QuantizationParametersT()
        g.io(gr.inputs, [gr.acts[-1][0]], sig="sig%d" % si)
    mb = g.bytes()
    info = {"tags": {"blockwise_emulated_subchannel", "multi_subgraph"}, "subgraphs": [{"sig": "sig%d" % si, "int_inputs": [], "ops": ["FULLY_CONNECTED"]} for si in range(nsg)]}
    cfg = fr.cdesc(None, fr.tdesc(8, True, "BLOCKWISE", "INT", rng.choice([16, 32])), "FLOAT", True, True)
    cmds = [{"k": "add", "regex": ".*" if which is None else "^s%d/" % which, "operation": "FULLY_CONNECTED", "cfg": cfg, "alg": "min_max_uniform_quantize"}]
    if which is not None and rng.random() < 0.5:
        cmds.append({"k": "add", "regex": "^s%d/" % ((which + 1) % nsg), "operation": "FULLY_CONNECTED", "cfg": pl.UNIFORM[rng.choice(["wo8", "wo4", "drq8"])],
                     "alg": "min_max_uniform_quantize"})
    return Case(mb, info, cmds=cmds, data=gm.random_inputs(mb, rng, n=1), desc=[("blockwise", "all" if which is None else which, nsg)])


def gen_runtime_weight(rng, kind=None, mode=None):
    """an operator with weights whose weight operand is a RUNTIME tensor (a second graph input, or computed from one): what converters emit
    for tf.matmul(a, b) with a non-constant b (FULLY_CONNECTED) and for convolutions with a computed filter"""
    kind = kind or rng.choice(["FULLY_CONNECTED", "FULLY_CONNECTED", "CONV_2D", "DEPTHWISE_CONV_2D", "CONV_2D_TRANSPOSE"])
    mode = mode or rng.choice(["wo8", "drq8", "a8w8", "a16w8", "a8w8", "a16w8"])
    g = gm.G()
    g.subgraph()
    gr = gm.Grower(g, rng, "")
    pre = rng.random() < 0.4

    def weight(shape):
        w = gr.add_input(shape)
        if pre:   # the filter is computed: weight input -> unary operator -> weight operand
            w2 = gr.new_act(shape)
            g.op(gm.BO.ABS if rng.random() < 0.5 else gm.BO.NEG, [w], [w2], 0, None)
            return w2
        return w
    if kind == "FULLY_CONNECTED":
        b_, f, o = rng.randint(1, 3), rng.randint(2, 5), rng.randint(1, 4)
        x = gr.add_input([b_, f]); w = weight([o, f]); y = gr.new_act([b_, o])
        bias = gr.const([o], base="b") if rng.random() < 0.5 else -1
        g.op(gm.BO.FULLY_CONNECTED, [x, w, bias], [y], gm.OPT.FullyConnectedOptions, s.FullyConnectedOptionsT())
    elif kind == "CONV_2D":
        c, o = rng.randint(1, 3), rng.randint(1, 3)
        x = gr.add_input([1, 3, 3, c]); w = weight([o, 2, 2, c]); y = gr.new_act([1, 3, 3, o]); bias = gr.const([o], base="b")
        op_ = s.Conv2DOptionsT(); op_.padding, op_.strideH, op_.strideW, op_.dilationHFactor, op_.dilationWFactor = s.Padding.SAME, 1, 1, 1, 1
        g.op(gm.BO.CONV_2D, [x, w, bias], [y], gm.OPT.Conv2DOptions, op_)
    elif kind == "DEPTHWISE_CONV_2D":
        c = rng.randint(1, 3)
        x = gr.add_input([1, 3, 3, c]); w = weight([1, 2, 2, c]); y = gr.new_act([1, 3, 3, c]); bias = gr.const([c], base="b")
        op_ = s.DepthwiseConv2DOptionsT()
        op_.padding, op_.strideH, op_.strideW, op_.depthMultiplier, op_.dilationHFactor, op_.dilationWFactor = s.Padding.SAME, 1, 1, 1, 1, 1
        g.op(gm.BO.DEPTHWISE_CONV_2D, [x, w, bias], [y], gm.OPT.DepthwiseConv2DOptions, op_)
    else:
        c, o = rng.randint(1, 3), rng.randint(1, 3)
        x = gr.add_input([1, 3, 3, c]); w = weight([o, 2, 2, c]); y = gr.new_act([1, 3, 3, o]); osh = gr.iconst([1, 3, 3, o], base="oshape")
        op_ = s.TransposeConvOptionsT(); op_.padding, op_.strideH, op_.strideW = s.Padding.SAME, 1, 1
        g.op(gm.BO.TRANSPOSE_CONV, [osh, w, x] + ([gr.const([o], base="b")] if rng.random() < 0.5 else []), [y], gm.OPT.TransposeConvOptions, op_)
    g.io(gr.inputs, [y], sig="serving_default")
    mb = g.bytes()
    info = {"tags": {"runtime_weight"}, "subgraphs": [{"sig": "serving_default", "int_inputs": [], "ops": [kind]}]}
    cmds = [{"k": "add", "regex": ".*", "operation": kind, "cfg": pl.UNIFORM[mode], "alg": "min_max_uniform_quantize"}]
    return Case(mb, info, cmds=cmds, data=gm.random_inputs(mb, rng, n=2, scale=1.0), desc=[("runtime weight", kind, mode, pre)])
