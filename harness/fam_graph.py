"""Correspondence family `graph.*`: transformation_instruction_generator + transformation_performer +
transformations/* vs QModel/{InstGen,Perform}.lean.  The stage input (tensor requests) is produced by the
real ParamsGenerator; parameter objects are abstracted to their ==-classes."""
from __future__ import annotations

import copy
import json

import numpy as np
from ai_edge_litert import schema_py_generated as s

from . import common
from . import pipeline as pl

from ai_edge_quantizer import model_modifier, qtyping, transformation_instruction_generator as tig  # noqa: E402
from ai_edge_quantizer.transformations import quantize_tensor as qt_mod  # noqa: E402


def model_json(mb):
    m = pl.read(mb)
    return model_json_obj(m)


def model_json_obj(m):
    sgs = []
    for sg in m.subgraphs:
        sgs.append({
            "tensors": [{"name": pl.tname(t), "dtype": int(t.type), "shape": [int(x) for x in (t.shape if t.shape is not None else [])],
                         "buffer": int(t.buffer)} for t in sg.tensors],
            "ops": [{"code": int(op.opcodeIndex), "in": [int(i) for i in op.inputs], "out": [int(i) for i in op.outputs]} for op in sg.operators],
            "inputs": [int(i) for i in sg.inputs], "outputs": [int(i) for i in sg.outputs]})
    return {"subgraphs": sgs,
            "buffers": [None if b.data is None else i for i, b in enumerate(m.buffers)],
            "opcodes": [int(c.builtinCode) for c in m.operatorCodes],
            "sigs": [{"key": sd.signatureKey.decode(), "sg": int(sd.subgraphIndex),
                      "inputs": [[tm.name.decode(), int(tm.tensorIndex)] for tm in (sd.inputs or [])],
                      "outputs": [[tm.name.decode(), int(tm.tensorIndex)] for tm in (sd.outputs or [])]} for sd in (m.signatureDefs or [])]}


class PTab:
    """==-classes of parameter objects"""

    def __init__(self):
        self.reps = []

    def pid(self, p):
        if p is None:
            return None
        for i, r in enumerate(self.reps):
            if r == p:
                return i
        self.reps.append(p)
        return len(self.reps) - 1

    def table(self):
        out = []
        for i, p in enumerate(self.reps):
            out.append({"id": i, "uniform": isinstance(p, qtyping.UniformQuantParams), "bits": int(p.num_bits),
                        "hasData": p.quantized_data is not None})
        return out


def o2t_json(o, pt: PTab):
    d = {"op": int(o.subgraph_op_id), "xfs": [x.name for x in o.transformations]}
    pid = pt.pid(o.parameters)
    if pid is not None:
        d["param"] = pid
    return d


def reqs_json(params, pt: PTab):
    out = []
    for name, tp in params.items():
        out.append({"name": tp.tensor_name, "producer": None if tp.producer is None else o2t_json(tp.producer, pt),
                    "consumers": None if tp.consumers is None else [o2t_json(c, pt) for c in tp.consumers]})
    return out


def insts_json(insts, pt: PTab):
    out = []
    for name, ti in insts.items():
        out.append({"name": ti.tensor_name, "sg": int(ti.subgraph_id),
                    "insts": [{"xf": i.transformation.name, "tensor": int(i.tensor_id), "producer": int(i.producer) if i.producer is not None else -1,
                               "consumers": [int(c) for c in i.consumers], "param": pt.pid(i.parameters)} for i in ti.instructions]})
    return out


def expected_tensor(p):
    """(dtype code, quant tuple) that quantize_tensor gives a tensor for parameter object p"""
    if isinstance(p, qtyping.UniformQuantParams):
        ty = int(qt_mod.quant_params_to_tflite_type(p.num_bits))
        q = {"scale": [float(x).hex() for x in np.asarray(p.scale).flatten().astype(np.float32)],
             "zp": [int(z) for z in np.asarray(p.zero_point).flatten().astype(np.int64)],
             "qdim": int(p.quantized_dimension) if p.quantized_dimension is not None else 0}
        return ty, q
    return int(qt_mod.nonlinear_quant_params_to_tflite_type(p.num_bits)), None


def packed_bytes(p):
    flat = np.frombuffer(np.asarray(p.quantized_data).tobytes(), dtype=np.uint8).flatten()
    return bytes(np.asarray(qt_mod._pack_data(p.num_bits, flat)).tobytes())


def compare_output(mout, real_bytes, in_model, pt: PTab):
    """model's abstract output graph vs the real serialized output; returns list of differences"""
    diffs = []
    ro = pl.read(real_bytes)
    rj = model_json_obj(ro)
    for k in ("opcodes", "sigs"):
        if mout[k] != rj[k]:
            diffs.append(f"{k}: model {mout[k]} code {rj[k]}")
    if len(mout["subgraphs"]) != len(rj["subgraphs"]):
        return diffs + ["number of subgraphs"]
    for si, (ms, rs) in enumerate(zip(mout["subgraphs"], rj["subgraphs"])):
        for k in ("inputs", "outputs"):
            if ms[k] != rs[k]:
                diffs.append(f"sg{si}.{k}: model {ms[k]} code {rs[k]}")
        mo = [{k: o[k] for k in ("code", "in", "out")} for o in ms["ops"]]
        if mo != rs["ops"]:
            diffs.append(f"sg{si}.ops: model {mo} code {rs['ops']}")
        if len(ms["tensors"]) != len(rs["tensors"]):
            diffs.append(f"sg{si}: tensor count model {len(ms['tensors'])} code {len(rs['tensors'])}")
            continue
        for ti, (mt, rt) in enumerate(zip(ms["tensors"], rs["tensors"])):
            real_t = ro.subgraphs[si].tensors[ti]
            for k in ("name", "shape", "buffer", "dtype"):
                if mt[k] != rt[k]:
                    diffs.append(f"sg{si}.t{ti}.{k}: model {mt[k]} code {rt[k]}")
            rq = pl.quant_tuple(real_t)
            if mt["quant"] is None:
                if rq is not None:
                    diffs.append(f"sg{si}.t{ti}: code quantized, model not")
            else:
                ty, eq = expected_tensor(pt.reps[mt["quant"]])
                if rq != eq:
                    diffs.append(f"sg{si}.t{ti}: quantization of param {mt['quant']} expected {eq} code {rq}")
    if len(mout["buffers"]) != len(ro.buffers):
        diffs.append(f"buffer count model {len(mout['buffers'])} code {len(ro.buffers)}")
    else:
        for bi, (mb_, rb) in enumerate(zip(mout["buffers"], ro.buffers)):
            rdata = None if rb.data is None else bytes(np.asarray(rb.data, dtype=np.uint8).tobytes())
            if mb_ is None:
                if rdata is not None:
                    diffs.append(f"buffer {bi}: code has data, model none")
            elif "k" in mb_:
                orig = in_model.buffers[mb_["k"]].data
                if rdata != bytes(np.asarray(orig, dtype=np.uint8).tobytes()):
                    diffs.append(f"buffer {bi}: expected original bytes of buffer {mb_['k']}")
            else:
                if rdata != packed_bytes(pt.reps[mb_["p"]]):
                    diffs.append(f"buffer {bi}: expected packed data of param {mb_['p']}")
    return diffs


def stage_case(ctx, drv, mb, params, family="graph"):
    """params: dict from the real ParamsGenerator. Runs instruction generation and graph modification on both sides.
    Returns ('ok', out_bytes) or ('raise', cls)."""
    pt = PTab()
    mj = model_json(mb)
    reqs = reqs_json(params, pt)
    ptable = pt.table()
    in_model = pl.read(mb)
    # instructions
    try:
        gen = tig.TransformationInstructionsGenerator()
        insts = gen.quant_params_to_transformation_insts(copy.deepcopy(params), copy.deepcopy(in_model))
        real_i = ("ok", insts_json(insts, pt))
    except Exception as e:  # noqa: BLE001
        real_i = ("raise", type(e).__name__)
    ptable = pt.table()
    mi = drv.ask({"op": "graph_insts", "model": mj, "reqs": reqs})
    if real_i[0] == "ok":
        if mi.get("ok") != real_i[1]:
            ctx.disagree(family + ".insts", {"model": mj, "reqs": reqs}, mi, real_i[1])
    elif mi.get("err") != real_i[1]:
        ctx.disagree(family + ".insts", {"model": mj, "reqs": reqs}, mi, real_i[1])
    # full modification
    try:
        out = bytes(model_modifier.ModelModifier(mb).modify_model(copy.deepcopy(params)))
        real_m = ("ok", out)
    except Exception as e:  # noqa: BLE001
        real_m = ("raise", type(e).__name__)
    mm = drv.ask({"op": "graph_modify", "model": mj, "reqs": reqs, "ptable": ptable})
    if real_m[0] == "ok":
        if "ok" not in mm:
            ctx.disagree(family + ".modify", {"model": mj, "reqs": reqs, "ptable": ptable}, mm, "ok")
        else:
            d = compare_output(mm["ok"], real_m[1], in_model, pt)
            if d:
                ctx.disagree(family + ".modify", {"model": mj, "reqs": reqs, "ptable": ptable}, d[:6], "output graph differs")
    elif mm.get("err") != real_m[1]:
        ctx.disagree(family + ".modify", {"model": mj, "reqs": reqs, "ptable": ptable}, mm, real_m[1])
    return real_m, (real_i[1] if real_i[0] == "ok" else None)
