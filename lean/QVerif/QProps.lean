import QProofs
