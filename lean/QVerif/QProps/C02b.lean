import QProofs.IOContract
import QProps.C02
import QProps.C03d
import QProps.C08c
/-!
# C02, the I/O contract, end to end on `Pipeline.quantizePure`

"Every subgraph keeps the number, order, names and shapes of its inputs and outputs; every signature keeps
its key and argument names, and each signature input/output denotes the same tensor as the corresponding
subgraph input/output.  Model inputs and outputs stay float32 unless a recipe rule covers the model's
INPUT/OUTPUT."

`C02.quantize_skeleton` (`QProps/C02.lean`) gives the skeleton (`Skeleton.sameModelSkeleton`: operators,
wiring, names/shapes of the original tensors, `inputs` unchanged, `outputs.map root` unchanged, signatures
up to the retargeted outputs).  This file states the I/O contract itself; the only hypothesis besides a
successful run is the normal form `PipelineWF.NF` of C01/C02.

* `C02.io_counts_names_shapes` -- graph inputs are NEVER retargeted and keep name / shape / buffer; every
  graph output position holds the original tensor, or a NEW tensor that exactly one inserted
  QUANTIZE / DEQUANTIZE derives from it, with the original SHAPE and a NAME given exactly
  (`uniqueName`, `C02.uniqueName_form`);
* `C02.io_signatures`, `C02.sig_outputs_aligned` -- signatures;
* `C02.io_float_unless_covered`, `C02.io_dtype_unless_covered` -- INPUT / OUTPUT resolved to `no_quantize`;
* namespace `C02.E2E`: closed instances (the whole `quantizePure` evaluated by the kernel), among them
  the converse sanity facts: under the shipped static-range recipe the `'*'` rule covers INPUT/OUTPUT and
  the graph I/O become int8; an OUTPUT-covering rule with a float producer inserts a QUANTIZE in front of
  the graph output.

About the pseudo-operators of `Mat.generate`: INPUT has no operand and the graph inputs as results, so
its scope (`Mat.opScope`) is the concatenation of the graph-input names, each followed by `;`
(`"x;"` in the instances below); OUTPUT has the graph outputs as operands and NO result, so its scope
is the empty string (`IOContract.outputScope`) -- a recipe rule covers OUTPUT iff its regex matches `""`.
-/
open Graph Mat Perform

namespace C02

/-- what graph output position `j` (original tensor `o`, record `tn`) holds in the output:
    * `o` itself, which keeps name and shape; or
    * a NEW tensor `n` (index ≥ the number of original tensors), the result of the inserted operator
      `op(o) → n`, a QUANTIZE or a DEQUANTIZE, which `Skeleton.root` maps back to `o`; `n` has the shape of
      `o`, references the empty buffer 0, and its name is
      `uniqueName (names of the tensors 0 … n-1 of the output) (name of o ++ "_quantized" / "_dequant")`;
      the result of a DEQUANTIZE is float32 without quantization parameters. -/
abbrev OutputSlot := @IOContract.OutputSlot

/-- **the form of a made-unique name** (`_get_unique_tensor_name`, repaired): the base name itself when no
    tensor has it, else the base name followed by `_k`, `k ≥ 1` -- or, a fall-back of the model that the
    search bound `|names| + 1` makes unreachable, by `_` and underscores only -/
theorem uniqueName_form (names : List String) (base : String) :
    (base ∉ names ∧ uniqueName names base = base) ∨
    (base ∈ names ∧ ((∃ k, 1 ≤ k ∧ uniqueName names base = base ++ "_" ++ toString k) ∨
      uniqueName names base = longName names base)) :=
  IOContract.uniqueName_form names base

/-- … and it is not among the given names -/
theorem uniqueName_fresh (names : List String) (base : String) : uniqueName names base ∉ names :=
  GraphBasics.uniqueName_fresh names base

/-- **C02.io_counts_names_shapes.**  For every model in normal form, recipe state, regex semantics and
    statistics: if `quantize()` succeeds then, for every subgraph,
    * the list of graph inputs is unchanged (graph inputs are never retargeted), every graph input is an
      original tensor and keeps name, shape and buffer index;
    * the list of graph outputs has the same length, `Skeleton.root` maps it back to the original list, and
      position `j` is an `OutputSlot`: the original tensor (same name, same shape), or the result of an
      inserted QUANTIZE / DEQUANTIZE of it with the same shape and the name given by `uniqueName`. -/
theorem io_counts_names_shapes (rx : String → String → Bool) (env : Env) (st : Recipe.State)
    (qsvs : Option Qsvs) (m' : Model) (tbl : List Param) (hnf : PipelineWF.NF env st)
    (h : Pipeline.quantizePure rx env st qsvs = .ok (m', tbl))
    (s : Nat) (sg sg' : Subgraph) (hsg : env.model.subgraphs[s]? = some sg) (hsg' : m'.subgraphs[s]? = some sg') :
    sg'.inputs = sg.inputs ∧ sg'.outputs.length = sg.outputs.length ∧
    sg'.outputs.map (Skeleton.root sg') = sg.outputs ∧
    (∀ i ∈ sg.inputs, ∃ tn tn', 0 ≤ i ∧ sg.tensors[i.toNat]? = some tn ∧ sg'.tensors[i.toNat]? = some tn' ∧
      tn'.name = tn.name ∧ tn'.shape = tn.shape ∧ tn'.buffer = tn.buffer) ∧
    ∀ (j : Nat) (o : Int), sg.outputs[j]? = some o → OutputSlot m' sg sg' j o :=
  IOContract.io_shape rx env st qsvs m' tbl hnf h s sg sg' hsg hsg'

/-- **C02.io_signatures.**  The signature table keeps its length; signature `i` keeps key, subgraph index
    and its inputs (names and tensor indices; the subgraph's input list is unchanged too), and the number and
    NAMES of its outputs; output entry `k`, which denoted tensor `e0.2`, now denotes `e1.2` where
    * for every graph output position `j` that held `e0.2`, position `j` of the output holds `e1.2`
      ("each signature output denotes the same tensor as the corresponding subgraph output");
    * if `e0.2` was not a graph output at all, the entry is unchanged.
    (`WF.modelOK` only requires signature entries to be valid tensor indices, hence the two cases.) -/
theorem io_signatures (rx : String → String → Bool) (env : Env) (st : Recipe.State)
    (qsvs : Option Qsvs) (m' : Model) (tbl : List Param) (hnf : PipelineWF.NF env st)
    (h : Pipeline.quantizePure rx env st qsvs = .ok (m', tbl)) :
    m'.sigs.length = env.model.sigs.length ∧
    ∀ (i : Nat) (s0 : Sig), env.model.sigs[i]? = some s0 →
      ∃ (s1 : Sig) (sg sg' : Subgraph), m'.sigs[i]? = some s1 ∧ env.model.subgraphs[s0.sg]? = some sg ∧
        m'.subgraphs[s0.sg]? = some sg' ∧
        s1.key = s0.key ∧ s1.sg = s0.sg ∧ s1.inputs = s0.inputs ∧ sg'.inputs = sg.inputs ∧
        s1.outputs.length = s0.outputs.length ∧
        ∀ (k : Nat) (e0 : String × Int), s0.outputs[k]? = some e0 →
          ∃ e1, s1.outputs[k]? = some e1 ∧ e1.1 = e0.1 ∧
            (∀ j : Nat, sg.outputs[j]? = some e0.2 → sg'.outputs[j]? = some e1.2) ∧
            (e0.2 ∉ sg.outputs → e1 = e0) :=
  IOContract.io_signatures rx env st qsvs m' tbl hnf h

/-- corollary (the converter's layout): a signature whose outputs are the subgraph outputs, in order, is
    still one in the output -/
theorem sig_outputs_aligned (rx : String → String → Bool) (env : Env) (st : Recipe.State)
    (qsvs : Option Qsvs) (m' : Model) (tbl : List Param) (hnf : PipelineWF.NF env st)
    (h : Pipeline.quantizePure rx env st qsvs = .ok (m', tbl))
    (i : Nat) (s0 s1 : Sig) (sg sg' : Subgraph) (h0 : env.model.sigs[i]? = some s0)
    (h1 : m'.sigs[i]? = some s1) (hsg : env.model.subgraphs[s0.sg]? = some sg)
    (hsg' : m'.subgraphs[s0.sg]? = some sg')
    (hal : s0.outputs.map (·.2) = sg.outputs) : s1.outputs.map (·.2) = sg'.outputs :=
  IOContract.sig_outputs_aligned rx env st qsvs m' tbl hnf h i s0 s1 sg sg' h0 h1 hsg hsg' hal

/-- the INPUT / OUTPUT pseudo-operators of `Mat.generate` -/
abbrev inputOp := @IOContract.inputOp
abbrev outputOp := @IOContract.outputOp

/-- the recipe resolves the INPUT pseudo-operator of `sg` (scope: the graph-input names, each followed by
    `;`) to `no_quantize`: no rule matches, an explicit `no_quantize` rule, or only rules whose config INPUT
    does not support -/
abbrev InputNoQuant := @IOContract.InputNoQuant
/-- the recipe resolves the OUTPUT pseudo-operator (scope `""`) to `no_quantize` -/
abbrev OutputNoQuant := @IOContract.OutputNoQuant

/-- the scope of OUTPUT is the empty string: a recipe none of whose regexes matches `""` (e.g. only rules
    written for a name scope such as `dense/`) leaves the graph outputs unquantized, whatever its
    `operation` fields say -/
theorem outputNoQuant_of_nomatch (rx : String → String → Bool) (st : Recipe.State)
    (h : ∀ e ∈ st, rx e.1 "" = false) : OutputNoQuant rx st :=
  IOContract.outputNoQuant_of_nomatch rx st h

/-- what graph output position `j` (original tensor `o`) holds when OUTPUT is not covered: `o` itself
    with its ORIGINAL record, or -- `o` a float32 runtime tensor that is produced quantized -- a NEW float32
    tensor without quantization parameters over buffer 0 (shape of `o`, name `uniqueName … (name ++
    "_dequant")`), the result of an inserted `DEQUANTIZE(o)` -/
abbrev FloatOutput := @IOContract.FloatOutput

/-- **C02.io_float_unless_covered.**
    * If the recipe resolves INPUT to `no_quantize`, every graph input of the output is the original tensor
      with its ORIGINAL record (name, dtype, shape, buffer) and has no quantization parameters: float32
      inputs stay float32.
    * If the recipe resolves OUTPUT to `no_quantize`, every graph output position is a `FloatOutput`: the
      original tensor with its original record, or the float32 result of an inserted DEQUANTIZE of a float32
      tensor; in both cases without quantization parameters. -/
theorem io_float_unless_covered (rx : String → String → Bool) (env : Env) (st : Recipe.State)
    (qsvs : Option Qsvs) (m' : Model) (tbl : List Param) (hnf : PipelineWF.NF env st)
    (h : Pipeline.quantizePure rx env st qsvs = .ok (m', tbl))
    (s : Nat) (sg sg' : Subgraph) (hsg : env.model.subgraphs[s]? = some sg) (hsg' : m'.subgraphs[s]? = some sg') :
    (InputNoQuant rx st sg → sg'.inputs = sg.inputs ∧
      ∀ i ∈ sg.inputs, ∃ tn, 0 ≤ i ∧ sg.tensors[i.toNat]? = some tn ∧ sg'.tensors[i.toNat]? = some tn ∧
        tn.quant = none) ∧
    (OutputNoQuant rx st → ∀ (j : Nat) (o : Int), sg.outputs[j]? = some o → FloatOutput env m' sg sg' j o) :=
  ⟨IOContract.input_float rx env st qsvs m' tbl hnf h s sg sg' hsg hsg',
   IOContract.output_float rx env st qsvs m' tbl hnf h s sg sg' hsg hsg'⟩

/-- corollary, in terms of the tensors of the OUTPUT model only: with OUTPUT not covered, the tensor at
    graph output position `j` has the dtype and shape of the original output tensor and no quantization
    parameters (float32 outputs stay float32) -/
theorem io_dtype_unless_covered (rx : String → String → Bool) (env : Env) (st : Recipe.State)
    (qsvs : Option Qsvs) (m' : Model) (tbl : List Param) (hnf : PipelineWF.NF env st)
    (h : Pipeline.quantizePure rx env st qsvs = .ok (m', tbl))
    (s : Nat) (sg sg' : Subgraph) (hsg : env.model.subgraphs[s]? = some sg) (hsg' : m'.subgraphs[s]? = some sg')
    (hout : OutputNoQuant rx st) (j : Nat) (o : Int) (hj : sg.outputs[j]? = some o) :
    ∃ (o' : Int) (tn tn' : Tensor), sg'.outputs[j]? = some o' ∧ 0 ≤ o' ∧ sg.tensors[o.toNat]? = some tn ∧
      sg'.tensors[o'.toNat]? = some tn' ∧ tn'.dtype = tn.dtype ∧ tn'.shape = tn.shape ∧ tn'.quant = none := by
  obtain ⟨tn, h0, htn, hq, hcase⟩ :=
    (io_float_unless_covered rx env st qsvs m' tbl hnf h s sg sg' hsg hsg').2 hout j o hj
  rcases hcase with ⟨a, b⟩ | ⟨hf, -, n, ci, a, -, b, -⟩
  · exact ⟨o, tn, tn, a, h0, htn, b, rfl, rfl, hq⟩
  · exact ⟨(n : Int), tn, Wiring.fresh _ tn, a, by omega, htn, by rw [Int.toNat_natCast]; exact b, hf.symm,
      rfl, rfl⟩

/-! ## NON-VACUITY: FULLY_CONNECTED under a FULLY_CONNECTED-only static-range rule, with a signature

`y := FC(x, w)`; signature `serving_default(x) → y`; recipe: FULLY_CONNECTED ↦ static-range int8, nothing
else matches, so INPUT and OUTPUT resolve to `no_quantize`: a QUANTIZE is inserted after the graph input,
a DEQUANTIZE in front of the graph output, the graph I/O stay float32, the signature output follows the
retargeted graph output.  The model also contains an unused tensor that already has the name
`y_dequant`, so the new output tensor is named `y_dequant_1`. -/
namespace E2E
open C15.E2E C15.Defect C03.E2E

def sgS : Subgraph :=
  { tensors := [T "x" [1,2] 0, T "w" [2,2] 1, T "y" [1,2] 0, T "y_dequant" [1] 0],
    ops := [{ code := 0, inputs := [0,1,-1], outputs := [2], orig := some 0 }],
    inputs := [0], outputs := [2] }
def mS : Model :=
  { subgraphs := [sgS], buffers := [none, some (.inl 0)], opcodes := [9],
    sigs := [{ key := "serving_default", sg := 0, inputs := [("x", 0)], outputs := [("y", 2)] }] }
def envS : Env := { model := mS, consts := [(1, [1,2,3,4])], adjY := [] }
def qsS : Qsvs := [("x", some (f32 [1,1] [1], f32 [1,1] [2])), ("y", some (f32 [1,1] [1], f32 [1,1] [4]))]

def sgS' : Subgraph :=
  { tensors := [T "x" [1,2] 0, { T "w" [2,2] 1 with dtype := 9, quant := some 1 },
                { T "y" [1,2] 0 with dtype := 9, quant := some 2 }, T "y_dequant" [1] 0,
                { T "x_quantized" [1,2] 0 with dtype := 9, quant := some 0 }, T "y_dequant_1" [1,2] 0],
    ops := [{ code := 1, inputs := [0], outputs := [4] },
            { code := 0, inputs := [4, 1, -1], outputs := [2], orig := some 0 },
            { code := 2, inputs := [2], outputs := [5] }],
    inputs := [0], outputs := [5] }
def mS' : Model :=
  { subgraphs := [sgS'], buffers := [none, some (.inr 1)], opcodes := [9, 114, 6],
    sigs := [{ key := "serving_default", sg := 0, inputs := [("x", 0)], outputs := [("y", 5)] }] }

theorem nfS : PipelineWF.NF envS stA :=
  TypingE2E.nf_of_fcOrUnnamed envS stA (by decide) (by decide) (by decide) (by decide) (by decide)

theorem runS : ∃ tbl, Pipeline.quantizePure rxAll envS stA (some qsS) = .ok (mS', tbl) := by
  have h : (match Pipeline.quantizePure rxAll envS stA (some qsS) with
      | .ok r => decide (r.1 = mS')
      | .error _ => false) = true := by decide +kernel
  cases hq : Pipeline.quantizePure rxAll envS stA (some qsS) with
  | error e => rw [hq] at h; cases h
  | ok r =>
    rw [hq] at h
    simp only [decide_eq_true_eq] at h
    exact ⟨r.2, by rw [← h]⟩

/-- INPUT (scope `"x;"`) and OUTPUT (scope `""`) are not covered by the FULLY_CONNECTED-only recipe -/
theorem inputNoQuantS : InputNoQuant rxAll stA sgS := ⟨"x;", by decide, by decide⟩
theorem outputNoQuantS : OutputNoQuant rxAll stA := by
  show (Recipe.resolve rxAll stA "OUTPUT" "").1 = Tables.algNoQuantize
  decide

/-- all hypotheses of `io_counts_names_shapes` hold on the instance, the theorem applies … -/
theorem shape_instance :
    sgS'.inputs = sgS.inputs ∧ sgS'.outputs.length = sgS.outputs.length ∧
    sgS'.outputs.map (Skeleton.root sgS') = sgS.outputs ∧
    (∀ i ∈ sgS.inputs, ∃ tn tn', 0 ≤ i ∧ sgS.tensors[i.toNat]? = some tn ∧ sgS'.tensors[i.toNat]? = some tn' ∧
      tn'.name = tn.name ∧ tn'.shape = tn.shape ∧ tn'.buffer = tn.buffer) ∧
    ∀ (j : Nat) (o : Int), sgS.outputs[j]? = some o → OutputSlot mS' sgS sgS' j o := by
  obtain ⟨tbl, hrun⟩ := runS
  exact io_counts_names_shapes rxAll envS stA (some qsS) mS' tbl nfS hrun 0 sgS sgS' rfl rfl

/-- … and what it says here: output position 0 holds the NEW tensor 5, named `y_dequant_1` (the name
    `y_dequant` is taken), shape of `y`, float32 without parameters, produced by the inserted operator
    `{code := 2} : 2 → 5`, a DEQUANTIZE (builtin code 6), whose root is `y` -/
example : sgS'.outputs = [5] ∧ sgS'.tensors[5]? = some (T "y_dequant_1" [1,2] 0) ∧
    uniqueName ((sgS'.tensors.take 5).map (·.name)) ("y" ++ "_dequant") = "y_dequant_1" ∧
    ({ code := 2, inputs := [2], outputs := [5], orig := none } : Op) ∈ sgS'.ops ∧
    mS'.opcodes[2]? = some Tables.opDequantize ∧ Skeleton.root sgS' 5 = 2 := by decide

/-- the second alternative of `OutputSlot` is the one realised (position 0 does not hold `y` itself) -/
example : ¬ (sgS'.outputs[0]? = some 2) := by decide

/-- `io_signatures` applies: the signature keeps key / subgraph / inputs, and its output `y` now denotes
    tensor 5, the tensor at graph output position 0 -/
theorem sig_instance :
    ∃ s1, mS'.sigs[0]? = some s1 ∧ s1.key = "serving_default" ∧ s1.sg = 0 ∧ s1.inputs = [("x", 0)] ∧
      s1.outputs.map (·.2) = sgS'.outputs := by
  obtain ⟨tbl, hrun⟩ := runS
  obtain ⟨-, hall⟩ := io_signatures rxAll envS stA (some qsS) mS' tbl nfS hrun
  obtain ⟨s1, sg, sg', a1, a2, a3, a4, a5, a6, -⟩ := hall 0 _ rfl
  exact ⟨s1, a1, a4, a5, a6,
    sig_outputs_aligned rxAll envS stA (some qsS) mS' tbl nfS hrun 0 _ s1 sgS sgS' rfl a1 rfl rfl rfl⟩

example : mS'.sigs = [{ key := "serving_default", sg := 0, inputs := [("x", 0)], outputs := [("y", 5)] }] := rfl

/-- all hypotheses of `io_float_unless_covered` hold (INPUT and OUTPUT are not covered): the graph input
    `x` has its original float32 record, the graph output position 0 is a `FloatOutput` -/
theorem float_instance :
    (∀ i ∈ sgS.inputs, ∃ tn, 0 ≤ i ∧ sgS.tensors[i.toNat]? = some tn ∧ sgS'.tensors[i.toNat]? = some tn ∧
      tn.quant = none) ∧
    FloatOutput envS mS' sgS sgS' 0 2 := by
  obtain ⟨tbl, hrun⟩ := runS
  obtain ⟨hin, hout⟩ := io_float_unless_covered rxAll envS stA (some qsS) mS' tbl nfS hrun 0 sgS sgS' rfl rfl
  exact ⟨(hin inputNoQuantS).2, hout outputNoQuantS 0 2 rfl⟩

/-- read on the instance: `x` is untouched and float32, the graph output is the float32 tensor `y_dequant_1`
    (the quantized FULLY_CONNECTED sits between an inserted QUANTIZE and an inserted DEQUANTIZE) -/
example : sgS'.tensors[0]? = some (T "x" [1,2] 0) ∧ (T "x" [1,2] 0).dtype = Tables.ttFloat32 ∧
    sgS'.tensors[5]? = some (Wiring.fresh "y_dequant_1" (T "y" [1,2] 0)) ∧
    (Wiring.fresh "y_dequant_1" (T "y" [1,2] 0)).dtype = Tables.ttFloat32 ∧
    (sgS'.ops[0]'(by decide)) = { code := 1, inputs := [0], outputs := [4] } ∧
    mS'.opcodes[1]? = some Tables.opQuantize := by decide

/-! ### converse sanity facts

**(a) the shipped static-range recipe covers INPUT / OUTPUT.**  `C08.Inst`: `y := FC(x, w)`, `z := TANH(y)`
under `recipes/default_a8w8_recipe.json` (`C08.Inst.st_shipped`): the single `'.*'` / `'*'` rule matches the
scopes `"x;"` and `""` of INPUT and OUTPUT, the hypotheses of `io_float_unless_covered` FAIL, and the graph
input and output of the result are int8 with quantization parameters (no QUANTIZE / DEQUANTIZE at the
border): the documented behaviour of full-integer recipes. -/

theorem shipped_covers_io :
    ¬ InputNoQuant C08.Inst.rxAll C08.Inst.st C08.Inst.sg ∧ ¬ OutputNoQuant C08.Inst.rxAll C08.Inst.st ∧
    (Recipe.resolve C08.Inst.rxAll C08.Inst.st "INPUT" "x;").1 = Tables.algMinMax ∧
    (Recipe.resolve C08.Inst.rxAll C08.Inst.st "OUTPUT" "").1 = Tables.algMinMax := by
  refine ⟨?_, ?_, by decide, by decide⟩
  swap
  · show ¬ (Recipe.resolve C08.Inst.rxAll C08.Inst.st "OUTPUT" "").1 = Tables.algNoQuantize
    decide
  rintro ⟨scope, hs, hr⟩
  have : Mat.opScope C08.Inst.sg (inputOp C08.Inst.sg) = .ok "x;" := by decide
  rw [this] at hs
  cases hs
  revert hr
  decide

theorem shipped_io_integer :
    (match Pipeline.quantizePure C08.Inst.rxAll C08.Inst.env C08.Inst.st (some C08.Inst.qs) with
     | .ok r => r.1.subgraphs.map (fun (s : Subgraph) => (s.inputs, s.outputs,
           s.inputs.map (fun i => (s.tensors[i.toNat]?).map (fun (t : Tensor) => (t.name, t.dtype, t.quant.isSome))),
           s.outputs.map (fun i => (s.tensors[i.toNat]?).map (fun (t : Tensor) => (t.name, t.dtype, t.quant.isSome))),
           s.ops.all (·.orig.isSome))) ==
         [([0], [3], [some ("x", Tables.ttInt8, true)], [some ("z", Tables.ttInt8, true)], true)]
     | .error _ => false) = true := by
  decide +kernel

/-! **(b) an OUTPUT-covering rule with a float producer inserts a QUANTIZE in front of the graph output.**
The model `mS` under `C15.Defect.stG`: `'*'` ↦ static-range int8, then FULLY_CONNECTED ↦ `no_quantize`.
INPUT and OUTPUT are covered, the FULLY_CONNECTED stays float: the graph input `x` becomes int8 and is
dequantized for the operator; the operator's float32 result `y` is quantized for the graph output, which
is the NEW int8 tensor `y_quantized` (first alternative of the name clause of `OutputSlot`). -/

def sgQ' : Subgraph :=
  { tensors := [{ T "x" [1,2] 0 with dtype := 9, quant := some 0 }, T "w" [2,2] 1, T "y" [1,2] 0,
                T "y_dequant" [1] 0, T "x_dequant" [1,2] 0,
                { T "y_quantized" [1,2] 0 with dtype := 9, quant := some 1 }],
    ops := [{ code := 1, inputs := [0], outputs := [4] },
            { code := 0, inputs := [4, 1, -1], outputs := [2], orig := some 0 },
            { code := 2, inputs := [2], outputs := [5] }],
    inputs := [0], outputs := [5] }
def mQ' : Model :=
  { subgraphs := [sgQ'], buffers := [none, some (.inl 0)], opcodes := [9, 6, 114],
    sigs := [{ key := "serving_default", sg := 0, inputs := [("x", 0)], outputs := [("y", 5)] }] }

theorem nfQ : PipelineWF.NF envS stG :=
  TypingE2E.nf_of_fcOrUnnamed envS stG (by decide) (by decide) (by decide) (by decide) (by decide)

theorem runQ : ∃ tbl, Pipeline.quantizePure rxAll envS stG (some qsS) = .ok (mQ', tbl) := by
  have h : (match Pipeline.quantizePure rxAll envS stG (some qsS) with
      | .ok r => decide (r.1 = mQ')
      | .error _ => false) = true := by decide +kernel
  cases hq : Pipeline.quantizePure rxAll envS stG (some qsS) with
  | error e => rw [hq] at h; cases h
  | ok r =>
    rw [hq] at h
    simp only [decide_eq_true_eq] at h
    exact ⟨r.2, by rw [← h]⟩

/-- OUTPUT is covered (the hypothesis of the OUTPUT half of `io_float_unless_covered` fails), the
    FULLY_CONNECTED is not; the graph output of the result is the int8 tensor 5 `y_quantized`, the result of
    the inserted QUANTIZE (builtin code 114) of the float32 tensor `y` -/
theorem output_covered_quantize_inserted :
    ¬ OutputNoQuant rxAll stG ∧ (Recipe.resolve rxAll stG "FULLY_CONNECTED" "y;").1 = Tables.algNoQuantize ∧
    sgQ'.outputs = [5] ∧ sgQ'.tensors[2]? = some (T "y" [1,2] 0) ∧
    sgQ'.tensors[5]? = some { T "y_quantized" [1,2] 0 with dtype := Tables.ttInt8, quant := some 1 } ∧
    ({ code := 2, inputs := [2], outputs := [5], orig := none } : Op) ∈ sgQ'.ops ∧
    mQ'.opcodes[2]? = some Tables.opQuantize ∧ sgQ'.tensors[0]? = some { T "x" [1,2] 0 with dtype := Tables.ttInt8, quant := some 0 } := by
  refine ⟨?_, by decide⟩
  show ¬ (Recipe.resolve rxAll stG "OUTPUT" "").1 = Tables.algNoQuantize
  decide

/-- `io_counts_names_shapes` still applies (it does not depend on what the recipe covers): output position 0
    is an `OutputSlot`, here through its QUANTIZE alternative -/
theorem shape_instance_covered : OutputSlot mQ' sgS sgQ' 0 2 := by
  obtain ⟨tbl, hrun⟩ := runQ
  exact (io_counts_names_shapes rxAll envS stG (some qsS) mQ' tbl nfQ hrun 0 sgS sgQ' rfl rfl).2.2.2.2 0 2 rfl

example : uniqueName ((sgQ'.tensors.take 5).map (·.name)) ("y" ++ "_quantized") = "y_quantized" := by decide

end E2E

end C02
