import QModel.Pipeline
/-!
# C15 — shared constants are quantized consistently or the request is rejected (decision part)

`checkBufferSharing` accepts a buffer referenced by several tensor uses only if all requests are
pairwise `compatO2T`-compatible with the first one.  The theorems below say what that relation
guarantees: the same source class (all read the float constant, or all read the quantized constant)
and, for quantized uses, `==`-equal parameters — hence one set of stored bytes.  Writing those
bytes is idempotent.
-/
open Graph Mat

namespace C15

def floatSrc (x : Xf) : Bool := x == .addQuant || x == .noQuant
def quantSrc (x : Xf) : Bool := x == .quantTensor || x == .addDequant

/-- compatible requests read the constant through the same kind of source -/
theorem compat_same_class (a b : CO2T) (xa xb : Xf) (ha : a.xfs.head? = some xa) (hb : b.xfs.head? = some xb)
    (h : compatO2T a b = .ok true) :
    (floatSrc xa = true ∧ floatSrc xb = true) ∨ (quantSrc xa = true ∧ quantSrc xb = true) ∨
      (a.xfs = b.xfs ∧ optParamEq a.param b.param = true) := by
  unfold compatO2T at h
  simp only [bind, Except.bind, pure, Except.pure, ha, hb] at h
  by_cases h1 : (a.xfs == b.xfs && optParamEq a.param b.param) = true
  · right; right
    simp only [Bool.and_eq_true, beq_iff_eq] at h1
    exact h1
  · simp only [h1] at h
    by_cases h2 : (xa != Xf.noQuant && xb != Xf.noQuant && !optParamEq a.param b.param) = true
    · simp [h2] at h
    · simp only [h2] at h
      simp only [Bool.false_eq_true, if_false, Except.ok.injEq, Bool.or_eq_true, Bool.and_eq_true] at h
      rcases h with h | h
      · left; simpa [floatSrc] using h
      · right; left; simpa [quantSrc] using h

/-- two compatible quantizing requests carry `==`-equal parameter objects -/
theorem compat_params (a b : CO2T) (xa xb : Xf) (ha : a.xfs.head? = some xa) (hb : b.xfs.head? = some xb)
    (hqa : xa ≠ .noQuant) (hqb : xb ≠ .noQuant)
    (h : compatO2T a b = .ok true) : optParamEq a.param b.param = true := by
  unfold compatO2T at h
  simp only [bind, Except.bind, pure, Except.pure, ha, hb] at h
  by_cases h1 : (a.xfs == b.xfs && optParamEq a.param b.param) = true
  · simp only [Bool.and_eq_true] at h1; exact h1.2
  · simp only [h1] at h
    by_cases hp : optParamEq a.param b.param = true
    · exact hp
    · have : (xa != Xf.noQuant && xb != Xf.noQuant && !optParamEq a.param b.param) = true := by
        simp [hqa, hqb, hp]
      simp [this] at h

/-- writing the packed data of the same parameter object into a shared buffer twice is the same as
    writing it once: a tied constant is effectively quantized exactly once -/
theorem shared_write_idempotent (bufs : List BufContent) (i : Nat) (p : PId) :
    (bufs.set i (some (.inr p))).set i (some (.inr p)) = bufs.set i (some (.inr p)) := by
  simp

end C15
