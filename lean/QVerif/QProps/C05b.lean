import QProofs.BytesProofs
/-!
# C05 (continued) — little-endian storage of integer constants for every whole-byte width

`C05.lean` has the round trip for `w = 8`; here it is proved for every storage width that is a
whole number of bytes (int8, int16, int32, int64, …), together with the byte count and the
modular behaviour outside the signed range.
-/
open Bytes Num

namespace C05

/-- every byte is a byte -/
theorem encodeLE_bytes (w : Nat) (z : Int) : ∀ b ∈ encodeLE w z, b < 256 :=
  BytesProofs.encodeLE_bytes w z

/-- length: w/8 bytes per value -/
theorem encodeLE_length (w : Nat) (z : Int) : (encodeLE w z).length = w / 8 :=
  BytesProofs.encodeLE_length w z

theorem encodeAllLE_length (w : Nat) (zs : List Int) :
    (encodeAllLE w zs).length = zs.length * (w / 8) :=
  BytesProofs.encodeAllLE_length w zs

/-- **round trip for every storage width that is a whole number of bytes** (8, 16, 32, 64, …):
    decoding the stored bytes gives back every value of the signed range -/
theorem decode_encode (k : Nat) (hk : 1 ≤ k) (z : Int) (h1 : -(2:Int)^(8*k-1) ≤ z)
    (h2 : z < (2:Int)^(8*k-1)) : decodeLE (8*k) (encodeLE (8*k) z) = z :=
  BytesProofs.decode_encode k hk z h1 h2

/-- and values outside the range are stored modulo 2^w (what numpy's astype does) -/
theorem decode_encode_wrap (k : Nat) (hk : 1 ≤ k) (z : Int) :
    decodeLE (8*k) (encodeLE (8*k) z) = wrapInt (8*k) z :=
  BytesProofs.decode_encode_wrap k hk z

/-- decoding a whole array: chunks of k bytes -/
theorem decodeAll_encodeAll (k : Nat) (hk : 1 ≤ k) (zs : List Int)
    (h : ∀ z ∈ zs, -(2:Int)^(8*k-1) ≤ z ∧ z < (2:Int)^(8*k-1)) :
    (List.range zs.length).map
      (fun i => decodeLE (8*k) (((encodeAllLE (8*k) zs).drop (i*k)).take k)) = zs :=
  BytesProofs.decodeAll_encodeAll k hk zs h

/-- **float16 storage round trip**: the independent binary16 decoder `BytesProofs.f16Val`
    (sign bit, 5-bit exponent field, 10-bit mantissa; sub-normals when the exponent field is 0)
    applied to the stored bit pattern gives back every exactly representable finite value -/
theorem f16Val_f16Bits (x : Rat)
    (h : x = 0 ∨
      (∃ (s : Bool) (m : Nat) (e : Int), 1024 ≤ m ∧ m < 2048 ∧ -14 ≤ e ∧ e ≤ 15 ∧
        x = (if s then -1 else 1) * (m : Rat) * (2:Rat)^(e - 10)) ∨
      (∃ (s : Bool) (m : Nat), 0 < m ∧ m < 1024 ∧
        x = (if s then -1 else 1) * (m : Rat) * (2:Rat)^(-24 : Int))) :
    BytesProofs.f16Val (f16Bits x) = x :=
  BytesProofs.f16Val_f16Bits x h

end C05
