import QProofs.GraphSkeleton
/-!
# C02 — quantization preserves the graph skeleton and the model I/O contract
-/
open Graph Perform

namespace C02

/-- rewiring consumers (the only place where an original operator is modified) keeps the number
    and order of operators, their opcode, results and options (`frame`), and changes operand
    slots only from the transformed tensor `t` to the tensor `n` derived from it -/
theorem rewire_only_target (ops ops' : List Op) (cs : List Int) (t n : Int) (hn : n ≠ t)
    (h : rewire ops cs t n = .ok ops') :
    ops'.length = ops.length ∧
      ∀ (i : Nat) o, ops[i]? = some o → ∃ o', ops'[i]? = some o' ∧ GraphSkeleton.RewiredOp t n o o' :=
  GraphSkeleton.rewire_spec ops ops' cs t n hn h

end C02
