import QProofs.GraphSkeleton
import QProofs.SkeletonProof
import QProofs.GenInstsOK
import QProofs.PipelineWF
/-!
# C02 — quantization preserves the graph skeleton and the model I/O contract
-/
open Graph Perform Skeleton

namespace C02

/-- rewiring consumers (the only place where an original operator is modified) keeps the number
    and order of operators, their opcode, results and options (`frame`), and changes operand
    slots only from the transformed tensor `t` to the tensor `n` derived from it -/
theorem rewire_only_target (ops ops' : List Op) (cs : List Int) (t n : Int) (hn : n ≠ t)
    (h : rewire ops cs t n = .ok ops') :
    ops'.length = ops.length ∧
      ∀ (i : Nat) o, ops[i]? = some o → ∃ o', ops'[i]? = some o' ∧ GraphSkeleton.RewiredOp t n o o' :=
  GraphSkeleton.rewire_spec ops ops' cs t n hn h

/-- **erasing the inserted QUANTIZE/DEQUANTIZE operators of the performer's result gives back the
    input graph** (same ops, order, operands, results; no tensor renamed/reshaped/dropped; inputs
    unchanged; graph outputs and signature outputs denote the same original tensors; signatures
    keep key and argument names) -/
theorem performer_skeleton (pt : PTable) (m m' : Model) (tis : List TInsts)
    (hwf : WF.modelOK m = true) (htag : origTagged m = true)
    (hok : ∀ ti ∈ tis, GraphInv.TInstsOK pt m ti)
    (h : transformGraph pt m tis = .ok m') : sameModelSkeleton m m' = true :=
  SkeletonProof.transformGraph_skeleton pt m m' tis hwf htag hok h

/-- … and so does the whole graph stage, for requests of the registered algorithms' shape -/
theorem modify_skeleton (pt : PTable) (m m' : Model) (reqs : List TReq)
    (hwf : WF.modelOK m = true) (htag : origTagged m = true) (hnames : GenInstsOK.namesUnique m)
    (hreq : ∀ r ∈ reqs, GenInstsOK.ReqOK pt m r)
    (h : Perform.modify pt m reqs = .ok m') : sameModelSkeleton m m' = true := by
  unfold Perform.modify at h
  simp only [bind, Except.bind] at h
  cases hg : InstGen.genInsts m reqs with
  | error e => simp [hg] at h
  | ok tis =>
    simp only [hg] at h
    exact performer_skeleton pt m m' tis hwf htag (GenInstsOK.genInsts_ok pt m reqs tis hwf hnames hreq hg) h

/-- **C02, end to end**: for every model in converter normal form, every recipe, regex semantics
    and statistics, the graph returned by `quantize()` has exactly the input's skeleton and I/O contract -/
theorem quantize_skeleton (rx : String → String → Bool) (env : Mat.Env) (st : Recipe.State) (qsvs : Option Mat.Qsvs)
    (m' : Model) (tbl : List Mat.Param) (hnf : PipelineWF.NF env st)
    (h : Pipeline.quantizePure rx env st qsvs = .ok (m', tbl)) : Skeleton.sameModelSkeleton env.model m' = true :=
  PipelineWF.quantizePure_skeleton rx env st qsvs m' tbl hnf h

end C02
