import QModel.Recipe
/-!
# C12 — a saved recipe reloads to the same rules
-/
open Cfg Recipe

namespace C12

theorem gran_roundtrip (g : Gran) : Gran.ofStr? g.toStr = some g := by cases g <;> rfl
theorem dt_roundtrip (d : DT) : DT.ofStr? d.toStr = some d := by cases d <;> rfl
theorem cp_roundtrip (c : CP) : CP.ofStr? c.toStr = some c := by cases c <;> rfl

/-- tensor configs survive `to_dict` → `from_dict` -/
theorem tcfg_roundtrip (t : TCfg) : TCfg.fromDict t.toDict = .ok t := by
  obtain ⟨b, s, g, d, bs⟩ := t
  cases g <;> cases d <;> simp [TCfg.fromDict, TCfg.toDict, J.get?, tcfgKeys, Gran.ofStr?, Gran.toStr, DT.ofStr?, DT.toStr] <;> rfl

/-- **op configs survive `to_dict` → (JSON) → `from_dict`** in the repaired code, for every
    config the constructor accepts: with or without activation / weight sections, any enum
    values, `skip_checks`, block sizes. -/
theorem cfg_roundtrip (c : OpCfg) (h : ctorOk c = true) : OpCfg.fromDict false c.toDict = .ok c := by
  obtain ⟨a, w, cp, ed, sk⟩ := c
  cases a with
  | none =>
    cases w with
    | none =>
      cases cp <;> simp [OpCfg.fromDict, OpCfg.toDict, J.get?, opcfgKeys, CP.ofStr?, CP.toStr, mkOpCfg, ctorOk] <;> rfl
    | some wv =>
      have hw := tcfg_roundtrip wv
      cases cp <;> simp [OpCfg.fromDict, OpCfg.toDict, J.get?, opcfgKeys, CP.ofStr?, CP.toStr, mkOpCfg, ctorOk, hw] <;> rfl
  | some av =>
    have ha := tcfg_roundtrip av
    cases w with
    | none =>
      cases cp <;> simp [OpCfg.fromDict, OpCfg.toDict, J.get?, opcfgKeys, CP.ofStr?, CP.toStr, mkOpCfg, ctorOk, ha] <;> rfl
    | some wv =>
      have hw := tcfg_roundtrip wv
      have h' : ctorOk { act := some av, weight := some wv, cp := cp, explicitDeq := ed, skipChecks := sk } = true := h
      cases cp <;> simp [OpCfg.fromDict, OpCfg.toDict, J.get?, opcfgKeys, CP.ofStr?, CP.toStr, mkOpCfg, ha, hw, Except.map, bind, Except.bind, pure, Except.pure] <;> simp_all

/-- regression witness of D19: the *pinned* `from_dict` (weight section required) cannot reload
    the default config, which `update_quantization_recipe('.*', '*')` accepts -/
theorem d19_witness : OpCfg.fromDict true ({} : OpCfg).toDict = .error .keyError := by
  rfl

/-- every exported rule (any algorithm, `no_quantize` included) reloads as the very same `add` call -/
theorem rule_reload (r : Rule) (h : ctorOk r.cfg = true) (st : State) :
    loadFrom false st [ruleToJ r] =
      (match add st r.regex r.operation (some r.cfg) r.alg with
       | .ok st' => (.ok st', st')
       | .error e => (.error e, st)) := by
  obtain ⟨regex, op, alg, cfg⟩ := r
  have hc := cfg_roundtrip cfg h
  simp only [loadFrom, ruleToJ, J.get?, List.find?, beq_self_eq_true, Option.map, Except.map]
  cases hadd : add st regex op (some cfg) alg <;> simp [loadFrom, hadd, hc]

/-- every shipped recipe (files under recipes/ and the helpers of recipe.py, as regenerated
    from the live tree) loads without error in the repaired code -/
theorem shipped_load :
    Tables.shippedRecipes.all (fun e =>
      match e.2 with
      | .arr l => (match (load false l).1 with | .ok _ => true | .error _ => false)
      | _ => false) = true := by
  decide +kernel

/-- the shipped default recipes re-export to themselves: `get (load r) = r` -/
theorem defaults_fixpoint :
    (Tables.shippedRecipes.filter (fun e => e.1 != "file:sample_advanced_usage_recipe.json")).all (fun e =>
      match e.2 with
      | .arr l => (match (load false l).1 with
                   | .ok st => J.arr (getRecipe st) == e.2
                   | .error _ => false)
      | _ => false) = true := by
  decide +kernel

end C12
