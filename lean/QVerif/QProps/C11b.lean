import QProofs.RecipeHistory
import QProps.C11
/-!
# C11 / C12 — history-level theorems (state after an arbitrary sequence of updates; reload)
-/
open Cfg Recipe RecipeHistory

namespace C11

/-- **the rules present after any history are exactly the accepted updates that no later accepted
    update replaced (same regex and operator) or reset (same regex, `'*'`)** -/
theorem history_rules (cmds : List Cmd) (r : Rule) :
    r ∈ (run cmds).flatMap (·.2) ↔
      ∃ (i : Nat) (c : Cmd), cmds[i]? = some c ∧ accepted c = true ∧ ruleOf c = r ∧
        ∀ (j : Nat) (c' : Cmd), i < j → cmds[j]? = some c' → accepted c' = true → overrides c' c = false :=
  mem_run_iff cmds r

/-- scopes are scanned in order of first (accepted) insertion of their regex -/
theorem history_scope_order (cmds : List Cmd) :
    (run cmds).map (·.1) = ((cmds.filter accepted).map (·.regex)).eraseDups := keys_order cmds

/-- every reachable state satisfies the structural invariant (distinct regexes, distinct operators
    per regex, `'*'` only first, every stored rule supported or `'*'`/no-quantize) -/
theorem history_invariant (cmds : List Cmd) : StateInv (run cmds) := run_inv cmds

/-- resolution after a history, spelled out: last applicable surviving rule in scope order -/
theorem history_resolve (rx : String → String → Bool) (cmds : List Cmd) (op scope : String) :
    resolve rx (run cmds) op scope = C11.resolveSpec rx (run cmds) op scope := C11.resolve_eq_spec rx _ op scope

end C11

namespace C12

/-- **every recipe reachable through the API reloads to exactly the same state** (hence resolves
    every (operator, scope) pair identically, by C11) -/
theorem reload_reachable (cmds : List Cmd) (hctor : ∀ c ∈ cmds, ctorOk (c.cfg.getD {}) = true) :
    load false (getRecipe (run cmds)) = (.ok (run cmds), run cmds) :=
  RecipeHistory.reload_reachable cmds hctor

end C12
