import QProofs.EmulatedThms
/-!
# C01c — the EMULATED_SUBCHANNEL transformation (`transformations/emulated_subchannel.py`)

`Emulated.apply` (QModel/Emulated.lean) models the transformation function on its own; it is tied to the
Python function by the correspondence script `fam_emulated.py` (driver command `"emulated"`).
`Perform.applySingle` still answers `.unsupported` for `.emulated`: these theorems are about ONE application of
the transformation to a well-formed model, not about the performer.

Hypotheses `EmuOK` (each one is necessary, see the closed counterexamples at the end):
* `tvalid`  the weight tensor id is a valid NON-NEGATIVE index (Python would accept a negative alias);
* `wconst`  the weight tensor holds constant data (the transformation writes the weight's buffer without
            looking at it: for a tensor over buffer 0 it fills buffer 0);
* `single`  the replaced operator has exactly one result, a real tensor (a second result loses its producer).
Not needed: that the weight is read by this operator only, that the bias is a constant, that the operands
are distinct (the weight may also be the bias operand) — see `weight_as_bias_wf`, `computed_bias_wf`.
-/
open Graph Perform Emulated

namespace C01

/-- the hypotheses on the transformation input -/
abbrev EmuOK := EmuWF.EmuOK

section
variable (pt : PTable) (env : EmuEnv) (m m' : Model) (sgi : Nat) (sg : Subgraph) (inp : TIn) (info : TInfoOut)

/-- **(a)** the result is well-formed -/
theorem emulated_wf (hsg : m.subgraphs[sgi]? = some sg) (hwf : WF.modelOK m = true) (hinp : EmuOK m sg inp)
    (h : Emulated.apply pt env m sgi inp = .ok (m', info)) : WF.modelOK m' = true :=
  EmuThms.emulated_wf pt env m m' sgi sg inp info hsg hwf hinp h

/-- **(b) frame**: only subgraph `sgi` changes; the operator-code table and the buffer list grow at the end,
    except for the weight's own buffer; signatures, graph inputs and outputs are unchanged as index lists;
    the operator list is the old one with the operator at `k = consumers[0]` replaced by new
    (`orig = none`) operators: all other operators are still there, in the same order, with the same operands -/
theorem emulated_frame (hsg : m.subgraphs[sgi]? = some sg) (hwf : WF.modelOK m = true) (hinp : EmuOK m sg inp)
    (h : Emulated.apply pt env m sgi inp = .ok (m', info)) :
    ∃ (k : Nat) (N : List Op) (sg' : Subgraph) (wT : Tensor) (c : BufContent) (bext : List BufContent)
      (cext : List Nat),
      inp.consumers = [(k : Int)] ∧ k < sg.ops.length ∧
      m'.subgraphs = m.subgraphs.set sgi sg' ∧ (∀ j, j ≠ sgi → m'.subgraphs[j]? = m.subgraphs[j]?) ∧
      m'.opcodes = m.opcodes ++ cext ∧
      sg.tensors[inp.tensor.toNat]? = some wT ∧ m'.buffers = m.buffers.set wT.buffer c ++ bext ∧
      m'.sigs = m.sigs ∧ sg'.inputs = sg.inputs ∧ sg'.outputs = sg.outputs ∧
      sg'.ops = sg.ops.take k ++ N ++ sg.ops.drop (k + 1) ∧ (∀ o ∈ N, o.orig = none) :=
  EmuThms.emulated_frame pt env m m' sgi sg inp info hsg hwf hinp h

/-- **(c) bookkeeping** (what `transformation_performer._update_op_id_map` assumes): `info.opId` is the
    position `k` of the replaced operator = of the first new operator; exactly `info.added + 1` new operators
    occupy the positions `[k, k + added]`; the operators before `k` are untouched, those after `k` moved by
    exactly `info.added` (so the replaced operator is gone) -/
theorem emulated_bookkeeping (hsg : m.subgraphs[sgi]? = some sg) (hwf : WF.modelOK m = true)
    (hinp : EmuOK m sg inp) (h : Emulated.apply pt env m sgi inp = .ok (m', info)) :
    ∃ (k : Nat) (sg' : Subgraph), inp.consumers = [(k : Int)] ∧ m'.subgraphs[sgi]? = some sg' ∧
      info.opId = (k : Int) ∧
      sg'.ops.length = sg.ops.length + info.added ∧
      (∀ j, j < k → sg'.ops[j]? = sg.ops[j]?) ∧
      (∀ j, k ≤ j → j ≤ k + info.added → ∃ o, sg'.ops[j]? = some o ∧ o.orig = none) ∧
      (∀ j, k < j → sg'.ops[j + info.added]? = sg.ops[j]?) :=
  EmuThms.emulated_bookkeeping pt env m m' sgi sg inp info hsg hwf hinp h

/-- **(d)** the result tensor of the replaced operator (= `info.outTensor`) is produced by the LAST new operator -/
theorem emulated_result_tensor (hsg : m.subgraphs[sgi]? = some sg) (hwf : WF.modelOK m = true)
    (hinp : EmuOK m sg inp) (h : Emulated.apply pt env m sgi inp = .ok (m', info)) :
    ∃ (k : Nat) (fc : Op) (y : Int) (sg' : Subgraph) (last : Op),
      inp.consumers = [(k : Int)] ∧ sg.ops[k]? = some fc ∧ fc.outputs = [y] ∧
      m'.subgraphs[sgi]? = some sg' ∧ info.outTensor = y ∧
      sg'.ops[k + info.added]? = some last ∧ last.outputs = [y] ∧ last.orig = none :=
  EmuThms.emulated_result_tensor pt env m m' sgi sg inp info hsg hwf hinp h

/-- **(d)** at least 8 tensors are appended and every new tensor has a name that did not occur in the subgraph;
    the old tensors keep their index; apart from the weight (type, shape, quantization record) and the result
    tensor they are unchanged; the result tensor keeps its name or (fused RELU) gets a name that did not occur -/
theorem emulated_tensors (hsg : m.subgraphs[sgi]? = some sg) (hwf : WF.modelOK m = true)
    (hinp : EmuOK m sg inp) (h : Emulated.apply pt env m sgi inp = .ok (m', info)) :
    ∃ (sg' : Subgraph), m'.subgraphs[sgi]? = some sg' ∧ sg.tensors.length + 8 ≤ sg'.tensors.length ∧
      (∀ i t, sg.tensors.length ≤ i → sg'.tensors[i]? = some t → t.name ∉ sg.tensors.map (·.name)) ∧
      (∀ i, i < sg.tensors.length → i ≠ inp.tensor.toNat → i ≠ info.outTensor.toNat →
        sg'.tensors[i]? = sg.tensors[i]?) ∧
      (∀ t t', sg.tensors[info.outTensor.toNat]? = some t → sg'.tensors[info.outTensor.toNat]? = some t' →
        t'.name = t.name ∨ t'.name ∉ sg.tensors.map (·.name)) :=
  EmuThms.emulated_tensors pt env m m' sgi sg inp info hsg hwf hinp h
end

/-! ## A closed instance: FULLY_CONNECTED in the middle, with bias and fused RELU -/

namespace EmuExample

def T (n : String) (dt : Nat) (sh : List Int) (b : Nat) (q : Option PId := none) : Tensor :=
  { name := n, dtype := dt, shape := sh, buffer := b, quant := q }

/-- `x → TANH → h → FULLY_CONNECTED(h, w, b; fused RELU) → y → TANH → z` -/
def sgE : Subgraph :=
  { tensors := [T "x" 0 [1,2,32] 0, T "h" 0 [1,2,32] 0, T "w" 0 [4,32] 1, T "b" 0 [4] 2, T "y" 0 [1,2,4] 0,
                T "z" 0 [1,2,4] 0],
    ops := [ { code := 1, inputs := [0], outputs := [1], orig := some 0 },
             { code := 0, inputs := [1, 2, 3], outputs := [4], orig := some 1 },
             { code := 1, inputs := [4], outputs := [5], orig := some 2 } ],
    inputs := [0], outputs := [5] }
def mE : Model :=
  { subgraphs := [sgE], buffers := [none, some (.inl 0), some (.inl 1)], opcodes := [9, 28],
    sigs := [⟨"serving_default", 0, [("in0", 0)], [("out0", 5)]⟩] }
def ptE : PTable := [(0, { uniform := true, bits := 8, hasData := true })]
/-- block size 16: `quantized_data` has shape `[1, 32/16, 16, 4]` -/
def envE : EmuEnv :=
  { fused := some actRelu, weightHasQuant := true, qshape := [1, 2, 16, 4], scaleShape := [1, 2, 1, 4],
    zpAllZero := true, unitQ := 7, axesTok := 10, shape1Tok := 11, shape2Tok := 12 }
def inpE : TIn := { tensor := 2, producer := -1, consumers := [1], param := some 0 }

/-- the expected result: RESHAPE, BATCH_MATMUL, MUL, SUM, RESHAPE, ADD, RELU at positions 1..7; the result
    tensor renamed `y_relu` -/
def sgE' : Subgraph :=
  { tensors := [T "x" 0 [1,2,32] 0, T "h" 0 [1,2,32] 0, T "w" 9 [1,2,16,4] 1 (some 7), T "b" 0 [4] 2,
                T "y_relu" 0 [1,2,4] 0, T "z" 0 [1,2,4] 0,
                T "w_scale" 0 [1,2,1,4] 3, T "w_reduce_axes" 2 [1] 4,
                T "y_reshape_op1_shape" 2 [4] 5, T "y_reshape_op2_shape" 2 [3] 6,
                T "y_bmm_input" 0 [2,2,1,16] 0, T "y_mul_input" 0 [2,2,1,4] 0, T "y_reduce_sum_input" 0 [2,2,1,4] 0,
                T "y_reshape_op2_input" 0 [2,1,1,4] 0, T "y_reshape_op2_output" 0 [1,2,4] 0,
                T "y_relu_relu_input" 0 [1,2,4] 0],
    ops := [ { code := 1, inputs := [0], outputs := [1], orig := some 0 },
             { code := 2, inputs := [1, 8], outputs := [10] },
             { code := 3, inputs := [10, 2], outputs := [11] },
             { code := 4, inputs := [11, 6], outputs := [12] },
             { code := 5, inputs := [12, 7], outputs := [13] },
             { code := 2, inputs := [13, 9], outputs := [14] },
             { code := 6, inputs := [14, 3], outputs := [15] },
             { code := 7, inputs := [15], outputs := [4] },
             { code := 1, inputs := [4], outputs := [5], orig := some 2 } ],
    inputs := [0], outputs := [5] }
def mE' : Model :=
  { subgraphs := [sgE'],
    buffers := [none, some (.inr 0), some (.inl 1), some (.inr 0), some (.inl 10), some (.inl 11), some (.inl 12)],
    opcodes := [9, 28, opReshape, opBatchMatmul, opMul, opSum, opAdd, opRelu],
    sigs := [⟨"serving_default", 0, [("in0", 0)], [("out0", 5)]⟩] }

theorem run : Emulated.apply ptE envE mE 0 inpE = .ok (mE', ⟨1, 6, 4⟩) := rfl

theorem hwf : WF.modelOK mE = true := by decide

theorem hok : EmuOK mE sgE inpE := by
  refine ⟨by decide, by decide, ?_⟩
  intro k fc hk hfc
  have hk1 : k = 1 := by
    simp only [inpE, List.cons.injEq, and_true] at hk
    omega
  subst hk1
  have : fc = { code := 0, inputs := [1, 2, 3], outputs := [4], orig := some 1 } := by
    simp [sgE] at hfc; exact hfc.symm
  subst this
  exact ⟨4, rfl, by decide⟩

/-- all hypotheses of the five theorems hold on the example -/
example : WF.modelOK mE' = true := emulated_wf ptE envE mE mE' 0 sgE inpE ⟨1, 6, 4⟩ rfl hwf hok run
/-- … and the conclusion can also be checked directly -/
example : WF.modelOK mE' = true := by decide

/-! ### operands that need not be distinct or constant -/

/-- the weight tensor is ALSO the bias operand: the hypotheses hold, the result is well-formed -/
def sgW : Subgraph :=
  { tensors := [T "x" 0 [1,2,32] 0, T "w" 0 [4,32] 1, T "y" 0 [1,2,4] 0],
    ops := [ { code := 0, inputs := [0, 1, 1], outputs := [2], orig := some 0 } ],
    inputs := [0], outputs := [2] }
def mW : Model := { subgraphs := [sgW], buffers := [none, some (.inl 0)], opcodes := [9], sigs := [] }
def envN : EmuEnv := { envE with fused := some actNone }
def inpW : TIn := { tensor := 1, producer := -1, consumers := [0], param := some 0 }

theorem okW : EmuOK mW sgW inpW := by
  refine ⟨by decide, by decide, ?_⟩
  intro k fc hk hfc
  have hk0 : k = 0 := by
    simp only [inpW, List.cons.injEq, and_true] at hk
    omega
  subst hk0
  have : fc = { code := 0, inputs := [0, 1, 1], outputs := [2], orig := some 0 } := by
    simp [sgW] at hfc; exact hfc.symm
  subst this
  exact ⟨2, rfl, by decide⟩

theorem weight_as_bias_wf : ∃ m' info, Emulated.apply ptE envN mW 0 inpW = .ok (m', info) ∧ info.added = 5 ∧
    WF.modelOK m' = true := by
  refine ⟨(match Emulated.apply ptE envN mW 0 inpW with | .ok r => r.1 | .error _ => default),
    ⟨0, 5, 2⟩, rfl, rfl, ?_⟩
  exact emulated_wf ptE envN mW _ 0 sgW inpW ⟨0, 5, 2⟩ rfl (by decide) okW rfl

/-- the bias operand is the result of an earlier operator (`ABS(bias_in)`) -/
def sgC : Subgraph :=
  { tensors := [T "x" 0 [1,2,32] 0, T "bias_in" 0 [4] 0, T "bias_act" 0 [4] 0, T "w" 0 [4,32] 1, T "y" 0 [1,2,4] 0],
    ops := [ { code := 1, inputs := [1], outputs := [2], orig := some 0 },
             { code := 0, inputs := [0, 3, 2], outputs := [4], orig := some 1 } ],
    inputs := [0, 1], outputs := [4] }
def mC : Model := { subgraphs := [sgC], buffers := [none, some (.inl 0)], opcodes := [9, 101], sigs := [] }
def inpC : TIn := { tensor := 3, producer := -1, consumers := [1], param := some 0 }

theorem okC : EmuOK mC sgC inpC := by
  refine ⟨by decide, by decide, ?_⟩
  intro k fc hk hfc
  have hk1 : k = 1 := by
    simp only [inpC, List.cons.injEq, and_true] at hk
    omega
  subst hk1
  have : fc = { code := 0, inputs := [0, 3, 2], outputs := [4], orig := some 1 } := by
    simp [sgC] at hfc; exact hfc.symm
  subst this
  exact ⟨4, rfl, by decide⟩

theorem computed_bias_wf : ∃ m' info, Emulated.apply ptE envE mC 0 inpC = .ok (m', info) ∧ info.added = 6 ∧
    WF.modelOK m' = true := by
  refine ⟨(match Emulated.apply ptE envE mC 0 inpC with | .ok r => r.1 | .error _ => default),
    ⟨1, 6, 4⟩, rfl, rfl, ?_⟩
  exact emulated_wf ptE envE mC _ 0 sgC inpC ⟨1, 6, 4⟩ rfl (by decide) okC rfl

/-! ### the hypotheses are necessary: well-formed inputs with ill-formed results -/

/-- **`single` is necessary.**  A FULLY_CONNECTED with a SECOND result `y2` (here a graph output): the
    transformation deletes the operator, only `outputs[0]` gets a new producer, `y2` is left without one. -/
def sgS : Subgraph :=
  { tensors := [T "x" 0 [1,2,32] 0, T "w" 0 [4,32] 1, T "y" 0 [1,2,4] 0, T "y2" 0 [1,2,4] 0],
    ops := [ { code := 0, inputs := [0, 1, -1], outputs := [2, 3], orig := some 0 } ],
    inputs := [0], outputs := [2, 3] }
def mS : Model := { subgraphs := [sgS], buffers := [none, some (.inl 0)], opcodes := [9], sigs := [] }

theorem second_result_not_wf : ∃ m' info, WF.modelOK mS = true ∧
    Emulated.apply ptE envN mS 0 inpW = .ok (m', info) ∧ WF.modelOK m' = false := by
  refine ⟨(match Emulated.apply ptE envN mS 0 inpW with | .ok r => r.1 | .error _ => default),
    ⟨0, 4, 2⟩, by decide, rfl, by decide⟩

/-- **`wconst` is necessary.**  The "weight" is a graph input without data (buffer 0): the transformation
    stores the quantized data in `buffers[weight.buffer]` = buffer 0, which must stay empty. -/
def sgR : Subgraph :=
  { tensors := [T "x" 0 [1,2,32] 0, T "w" 0 [4,32] 0, T "y" 0 [1,2,4] 0],
    ops := [ { code := 0, inputs := [0, 1, -1], outputs := [2], orig := some 0 } ],
    inputs := [0, 1], outputs := [2] }
def mR : Model := { subgraphs := [sgR], buffers := [none], opcodes := [9], sigs := [] }

theorem runtime_weight_not_wf : ∃ m' info, WF.modelOK mR = true ∧
    Emulated.apply ptE envN mR 0 inpW = .ok (m', info) ∧ m'.buffers.head? = some (some (.inr 0)) ∧
    WF.modelOK m' = false := by
  refine ⟨(match Emulated.apply ptE envN mR 0 inpW with | .ok r => r.1 | .error _ => default),
    ⟨0, 4, 2⟩, by decide, rfl, rfl, by decide⟩

/-- **`tvalid` (non-negative id) is necessary.**  Python accepts `tensor_id = -2` as an alias of tensor 1
    (`tensors[-2]`), but the BATCH_MATMUL it creates then has the operand `-2`. -/
def sgP : Subgraph :=
  { tensors := [T "x" 0 [1,2,32] 0, T "w" 0 [4,32] 1, T "y" 0 [1,2,4] 0],
    ops := [ { code := 0, inputs := [0, 1, -1], outputs := [2], orig := some 0 } ],
    inputs := [0], outputs := [2] }
def mP : Model := { subgraphs := [sgP], buffers := [none, some (.inl 0)], opcodes := [9], sigs := [] }
def inpP : TIn := { tensor := -2, producer := -1, consumers := [0], param := some 0 }

theorem negative_id_not_wf : ∃ m' info, WF.modelOK mP = true ∧
    Emulated.apply ptE envN mP 0 inpP = .ok (m', info) ∧ WF.modelOK m' = false := by
  refine ⟨(match Emulated.apply ptE envN mP 0 inpP with | .ok r => r.1 | .error _ => default),
    ⟨0, 4, 2⟩, by decide, rfl, by decide⟩

end EmuExample

end C01
