import QProofs.ArithLemmas
/-!
# C17 — quantization arithmetic obeys its algebraic laws on all inputs

Statements are about the scalar cores of `QModel/Arith.lean` (one channel of
`tensor_zp_scale_from_min_max`, one element of `uniform_quantize` /
`uniform_dequantize`); the array functions map these cores over broadcast
indices (`C17.channel_local` is the statement about that index map).

`pr` ranges over the numpy float formats *and* `Prec.exact` (ideal arithmetic).
Theorems named `…_ideal` are the exact textbook laws (`pr = exact`); the others
hold for IEEE float32/float64 arithmetic as numpy performs it.
-/
open Num Arith PrecL ArithL

namespace C17

/-- the model's rounding operator is monotone (all formats) -/
theorem rn_mono (pr : Prec) {x y : Rat} (h : x ≤ y) : pr.rn x ≤ pr.rn y := PrecL.rn_mono pr h

/-- standard model of floating point: relative error at most `2^-p` in the normal range -/
theorem rn_relerr (pr : Prec) (x : Rat) (hn : (2:Rat)^pr.emin ≤ |x|) :
    |pr.rn x - x| ≤ (2:Rat)^(-(pr.p:Int)) * |x| := PrecL.rn_relerr pr x hn

/-- symmetric quantization always has zero point 0 -/
theorem sym_zp_zero (pr : Prec) (bits : Nat) (mn mx : Rat) (zp : Int) (s : Rat)
    (h : zpScale1 pr bits true mn mx = .ok (zp, s)) : zp = 0 := by
  unfold zpScale1 at h
  simp only [if_true] at h
  split at h
  · cases h; rfl
  · cases h

/-- the scale is positive: every finite range, both symmetries, bit widths 2..16,
    float32 / float64 / ideal arithmetic (a non-finite scale is the `.error` branch) -/
theorem scale_pos (pr : Prec) (h16 : pr ≠ .f16) (bits : Nat) (hb2 : 2 ≤ bits) (hb16 : bits ≤ 16)
    (sym : Bool) (mn mx : Rat) (zp : Int) (s : Rat)
    (h : zpScale1 pr bits sym mn mx = .ok (zp, s)) : 0 < s := by
  obtain ⟨hp1, hp2⟩ := pow_bounds bits hb2 hb16
  have hmb := minBound_ge pr h16
  unfold zpScale1 at h
  cases sym
  · -- asymmetric
    simp only [Bool.false_eq_true, if_false] at h
    split at h
    · cases h
      unfold asymScale
      apply rn_div_pos pr h16
      · exact le_trans hmb (maxR_ge_right _ _)
      · rw [qmaxF_eq bits (by omega), qminF_eq bits (by omega)]; linarith
      · rw [qmaxF_eq bits (by omega), qminF_eq bits (by omega)]; linarith
    · cases h
  · simp only [if_true] at h
    split at h
    · cases h
      unfold symScale
      apply rn_div_pos pr h16
      · exact le_trans hmb (maxR_ge_right _ _)
      · rw [qmaxF_eq bits (by omega)]; linarith
      · rw [qmaxF_eq bits (by omega)]; linarith
    · cases h

/-- zero is exactly representable: the zero point dequantizes to exactly 0 -/
theorem zero_exact (widen : Bool) (qw zw : Nat) (hqw : 1 ≤ qw) (spr : Prec) (zp : Int) (scale : Rat) :
    dqVal widen qw zw spr zp zp scale = 0 := by
  unfold dqVal
  have : wrapInt (subWidth widen qw zw) (zp - zp) = 0 := by
    unfold wrapInt
    simp only [sub_self, zero_add]
    have hpos : (0:Int) < 2 ^ (subWidth widen qw zw - 1) := by positivity
    by_cases hw : subWidth widen qw zw = 0
    · exfalso; unfold subWidth at hw; split_ifs at hw <;> omega
    · have hlt : (2:Int) ^ (subWidth widen qw zw - 1) < 2 ^ subWidth widen qw zw :=
        pow_lt_pow_right₀ (by norm_num) (by omega)
      rw [Int.emod_eq_of_lt (le_of_lt hpos) hlt]; ring
  rw [this]; simp [rn_zero]

/-- storage type is wide enough for the logical bit width -/
theorem storage_ge (bits : Nat) (h : bits ≤ 64) : bits ≤ storageBits bits := by
  unfold storageBits; split_ifs <;> omega

theorem clipI_range (v lo hi : Int) (h : lo ≤ hi) : lo ≤ clipI v lo hi ∧ clipI v lo hi ≤ hi := by
  unfold clipI; split_ifs <;> omega

theorem clipI_mono (lo hi : Int) {a b : Int} (h : a ≤ b) : clipI a lo hi ≤ clipI b lo hi ∨ hi < lo := by
  unfold clipI; split_ifs <;> omega

/-- quantized codes always lie in the (narrow, when symmetric) integer range -/
theorem q_in_range (bits : Nat) (hb2 : 2 ≤ bits) (hb : bits ≤ 32) (narrow : Bool) (v : Rat) :
    qmin bits + (if narrow then 1 else 0) ≤ roundClip bits narrow v
      ∧ roundClip bits narrow v ≤ qmax bits := by
  unfold roundClip
  have hlo : qLoI bits narrow = qmin bits + (if narrow then 1 else 0) := by
    unfold qLoI; rw [if_pos (by omega)]
  have hhi : qHiI bits = qmax bits := by unfold qHiI; rw [if_pos (by omega)]
  rw [hlo, hhi]
  have h2 : (2:Int) ≤ 2^(bits-1) := by
    calc (2:Int) = 2^1 := by norm_num
      _ ≤ 2^(bits-1) := pow_le_pow_right₀ (by norm_num) (by omega)
  have hqmin : qmin bits = -(2:Int)^(bits-1) := rfl
  have hqmax : qmax bits = (2:Int)^(bits-1) - 1 := rfl
  have hlohi : qmin bits + (if narrow then 1 else 0) ≤ qmax bits := by
    split_ifs <;> omega
  obtain ⟨c1, c2⟩ := clipI_range (rhe v) _ _ hlohi
  have hsto := storage_ge bits (by omega)
  have hpw : (2:Int)^(bits-1) ≤ (2:Int)^(storageBits bits - 1) :=
    pow_le_pow_right₀ (by norm_num) (by omega)
  have hlo0 : qmin bits ≤ qmin bits + (if narrow then 1 else 0) := by split_ifs <;> omega
  rw [wrapInt_id _ (by omega) _ (by omega) (by omega)]
  exact ⟨c1, c2⟩

/-- `uniform_quantize` is monotone in its input (IEEE arithmetic, any non-negative scale) -/
theorem q_mono (xpr spr : Prec) (zw bits : Nat) (narrow : Bool) (scale : Rat) (hs : 0 ≤ scale)
    (zp : Int) {x y : Rat} (hxy : x ≤ y) (hb2 : 2 ≤ bits) (hb : bits ≤ 32) :
    roundClip bits narrow (qSum xpr spr zw x scale zp) ≤ roundClip bits narrow (qSum xpr spr zw y scale zp) := by
  have hinv : 0 ≤ qInv spr scale := by
    unfold qInv; exact PrecL.rn_nonneg spr (by positivity)
  have hprod : qProd xpr spr x scale ≤ qProd xpr spr y scale := by
    unfold qProd; exact PrecL.rn_mono _ (mul_le_mul_of_nonneg_right hxy hinv)
  have hsum : qSum xpr spr zw x scale zp ≤ qSum xpr spr zw y scale zp := by
    unfold qSum; exact PrecL.rn_mono _ (by linarith)
  have hr := Rounding.rhe_mono hsum
  unfold roundClip
  have hlo : qLoI bits narrow = qmin bits + (if narrow then 1 else 0) := by
    unfold qLoI; rw [if_pos (by omega)]
  have hhi : qHiI bits = qmax bits := by unfold qHiI; rw [if_pos (by omega)]
  rw [hlo, hhi]
  have h2 : (2:Int) ≤ 2^(bits-1) := by
    calc (2:Int) = 2^1 := by norm_num
      _ ≤ 2^(bits-1) := pow_le_pow_right₀ (by norm_num) (by omega)
  have hqmin : qmin bits = -(2:Int)^(bits-1) := rfl
  have hqmax : qmax bits = (2:Int)^(bits-1) - 1 := rfl
  have hlohi : qmin bits + (if narrow then 1 else 0) ≤ qmax bits := by
    split_ifs <;> omega
  obtain ⟨a1, a2⟩ := clipI_range (rhe (qSum xpr spr zw x scale zp)) _ _ hlohi
  obtain ⟨b1, b2⟩ := clipI_range (rhe (qSum xpr spr zw y scale zp)) _ _ hlohi
  have hm := (clipI_mono (qmin bits + (if narrow then 1 else 0)) (qmax bits) hr).resolve_right (by omega)
  have hsto := storage_ge bits (by omega)
  have hpw : (2:Int)^(bits-1) ≤ (2:Int)^(storageBits bits - 1) :=
    pow_le_pow_right₀ (by norm_num) (by omega)
  have hlo0 : qmin bits ≤ qmin bits + (if narrow then 1 else 0) := by split_ifs <;> omega
  rw [wrapInt_id _ (by omega) _ (by omega) (by omega),
      wrapInt_id _ (by omega) _ (by omega) (by omega)]
  exact hm

/-! ## Ideal arithmetic (`Prec.exact`): the textbook laws, exactly -/

theorem rhe_between (x : Rat) (a b : Int) (ha : (a:Rat) ≤ x) (hb : x ≤ (b:Rat)) : a ≤ rhe x ∧ rhe x ≤ b := by
  have h1 := Rounding.rhe_mono ha
  have h2 := Rounding.rhe_mono hb
  rw [Rounding.rhe_int] at h1 h2
  exact ⟨h1, h2⟩

theorem roundClip_of_in_range (bits : Nat) (hb2 : 2 ≤ bits) (hb : bits ≤ 32) (narrow : Bool) (v : Rat)
    (h1 : qmin bits + (if narrow then 1 else 0) ≤ rhe v) (h2 : rhe v ≤ qmax bits) :
    roundClip bits narrow v = rhe v := by
  unfold roundClip
  have hlo : qLoI bits narrow = qmin bits + (if narrow then 1 else 0) := by
    unfold qLoI; rw [if_pos (by omega)]
  have hhi : qHiI bits = qmax bits := by unfold qHiI; rw [if_pos (by omega)]
  rw [hlo, hhi]
  have hlo0 : qmin bits ≤ qmin bits + (if narrow then 1 else 0) := by split_ifs <;> omega
  generalize qmin bits + (if narrow then 1 else 0) = L at h1 hlo0 ⊢
  have hc : clipI (rhe v) L (qmax bits) = rhe v := by
    unfold clipI; split_ifs <;> omega
  rw [hc]
  have hqmin : qmin bits = -(2:Int)^(bits-1) := rfl
  have hqmax : qmax bits = (2:Int)^(bits-1) - 1 := rfl
  have hsto := storage_ge bits (by omega)
  have hpw : (2:Int)^(bits-1) ≤ (2:Int)^(storageBits bits - 1) :=
    pow_le_pow_right₀ (by norm_num) (by omega)
  exact wrapInt_id _ (by omega) _ (by omega) (by omega)

/-- ideal arithmetic: quantize ∘ dequantize is the identity on every integer code of the range -/
theorem q_dq_ideal (bits : Nat) (hb2 : 2 ≤ bits) (hb : bits ≤ 32) (narrow : Bool) (zw : Nat)
    (s : Rat) (hs : 0 < s) (zp c : Int)
    (h1 : qmin bits + (if narrow then 1 else 0) ≤ c) (h2 : c ≤ qmax bits) :
    roundClip bits narrow (qSum .exact .exact zw (((c - zp : Int) : Rat) * s) s zp) = c := by
  have hv : qSum .exact .exact zw (((c - zp : Int) : Rat) * s) s zp = (c : Rat) := by
    unfold qSum qProd qInv promoteInt
    simp only [Prec.join, Prec.rn]
    have : s ≠ 0 := ne_of_gt hs
    push_cast; field_simp; ring
  rw [hv, roundClip_of_in_range bits hb2 hb narrow _ (by rw [Rounding.rhe_int]; exact h1)
        (by rw [Rounding.rhe_int]; exact h2), Rounding.rhe_int]

/-- ideal arithmetic: dequantize ∘ quantize moves an in-range value by at most half a step -/
theorem dq_q_ideal (bits : Nat) (hb2 : 2 ≤ bits) (hb : bits ≤ 32) (narrow : Bool) (zw : Nat)
    (s : Rat) (hs : 0 < s) (zp : Int) (x : Rat)
    (hlo : ((qmin bits + (if narrow then 1 else 0) - zp : Int) : Rat) * s ≤ x)
    (hhi : x ≤ ((qmax bits - zp : Int) : Rat) * s) :
    |((roundClip bits narrow (qSum .exact .exact zw x s zp) - zp : Int) : Rat) * s - x| ≤ s / 2 := by
  have hv : qSum .exact .exact zw x s zp = x / s + zp := by
    unfold qSum qProd qInv promoteInt
    simp only [Prec.join, Prec.rn]
    ring
  have hsne : s ≠ 0 := ne_of_gt hs
  have hA : ((qmin bits + (if narrow then 1 else 0) : Int) : Rat) ≤ x / s + zp := by
    have : ((qmin bits + (if narrow then 1 else 0) - zp : Int) : Rat) ≤ x / s := by
      rw [le_div_iff₀ hs]; exact hlo
    push_cast at this ⊢; linarith
  have hB : x / s + zp ≤ ((qmax bits : Int) : Rat) := by
    have : x / s ≤ ((qmax bits - zp : Int) : Rat) := by
      rw [div_le_iff₀ hs]; exact hhi
    push_cast at this ⊢; linarith
  obtain ⟨r1, r2⟩ := rhe_between _ _ _ hA hB
  rw [hv, roundClip_of_in_range bits hb2 hb narrow _ r1 r2]
  have herr := Rounding.rhe_err (x / s + zp)
  have e : ((rhe (x / s + zp) - zp : Int) : Rat) * s - x = (((rhe (x / s + zp) : Int) : Rat) - (x / s + zp)) * s := by
    push_cast; field_simp; ring
  rw [e, abs_mul, abs_of_pos hs]
  calc |((rhe (x / s + zp) : Int) : Rat) - (x / s + zp)| * s ≤ (1/2) * s :=
        mul_le_mul_of_nonneg_right herr (le_of_lt hs)
    _ = s / 2 := by ring

/-- ideal arithmetic, asymmetric: the zero point is in range and `[min,max]` is covered up to
    half a step by the dequantized integer range -/
theorem cover_ideal (bits : Nat) (hb2 : 2 ≤ bits) (hb16 : bits ≤ 16) (mn mx : Rat)
    (zp : Int) (s : Rat) (h : zpScale1 .exact bits false mn mx = .ok (zp, s)) :
    qmin bits ≤ zp ∧ zp ≤ qmax bits ∧
    ((qmin bits - zp : Int) : Rat) * s ≤ mn + s / 2 ∧ mx - s / 2 ≤ ((qmax bits - zp : Int) : Rat) * s := by
  have hspos := scale_pos .exact (by decide) bits hb2 hb16 false mn mx zp s h
  unfold zpScale1 at h
  simp only [Bool.false_eq_true, if_false] at h
  split at h
  swap; · cases h
  cases h
  obtain ⟨hp1, hp2⟩ := pow_bounds bits hb2 hb16
  have hqx := qmaxF_eq bits (by omega)
  have hqn := qminF_eq bits (by omega)
  set sc := asymScale .exact bits mn mx with hsc
  have hscdef : sc = asymBound .exact mn mx / (qmaxF bits - qminF bits) := by
    simp only [hsc, asymScale, Prec.rn]
  set bmin := minR mn 0 with hbmin
  set bmax := maxR mx 0 with hbmax
  have hbmin0 : bmin ≤ 0 := minR_le_right _ _
  have hbminmn : bmin ≤ mn := minR_le_left _ _
  have hbmaxmx : mx ≤ bmax := maxR_ge_left _ _
  have hbmax0 : 0 ≤ bmax := maxR_ge_right _ _
  have hbound : bmax - bmin ≤ asymBound .exact mn mx := by
    unfold asymBound asymDiff; simp only [Prec.rn]; exact maxR_ge_left _ _
  have hrange : (0:Rat) < qmaxF bits - qminF bits := by rw [hqx, hqn]; linarith
  have hbs : asymBound .exact mn mx = sc * (qmaxF bits - qminF bits) := by
    rw [hscdef]; field_simp
  have hzpf : asymZpF .exact bits mn mx = qminF bits - bmin / sc := by
    simp only [asymZpF, asymQuo, Prec.rn, ← hsc, ← hbmin]
  -- zpF lies in [qmin, qmax]
  have hq1 : 0 ≤ - bmin / sc := div_nonneg (by linarith) (le_of_lt hspos)
  have hq2 : - bmin / sc ≤ qmaxF bits - qminF bits := by
    rw [div_le_iff₀ hspos]; nlinarith
  have hqminI : qminF bits = ((qmin bits : Int) : Rat) := by unfold qminF; rw [if_pos (by omega)]
  have hqmaxI : qmaxF bits = ((qmax bits : Int) : Rat) := by unfold qmaxF; rw [if_pos (by omega)]
  have hz1 : ((qmin bits : Int) : Rat) ≤ asymZpF .exact bits mn mx := by
    rw [hzpf, ← hqminI]; have : bmin / sc = -(-bmin / sc) := by ring
    linarith
  have hz2 : asymZpF .exact bits mn mx ≤ ((qmax bits : Int) : Rat) := by
    rw [hzpf, ← hqmaxI]; have : bmin / sc = -(-bmin / sc) := by ring
    linarith
  obtain ⟨r1, r2⟩ := rhe_between _ _ _ hz1 hz2
  have hqmin : qmin bits = -(2:Int)^(bits-1) := rfl
  have hqmax : qmax bits = (2:Int)^(bits-1) - 1 := rfl
  have hsto := storage_ge bits (by omega)
  have hpw : (2:Int)^(bits-1) ≤ (2:Int)^(storageBits bits - 1) :=
    pow_le_pow_right₀ (by norm_num) (by omega)
  have hzp : asymZp .exact bits mn mx = rhe (asymZpF .exact bits mn mx) := by
    unfold asymZp; exact wrapInt_id _ (by omega) _ (by omega) (by omega)
  rw [hzp]
  refine ⟨r1, r2, ?_, ?_⟩
  · have herr := Rounding.rhe_err (asymZpF .exact bits mn mx)
    have hd := (abs_le.mp herr).1
    push_cast
    rw [← hqminI]
    have : (qminF bits - (rhe (asymZpF .exact bits mn mx) : Rat)) * sc
        = bmin + (asymZpF .exact bits mn mx - (rhe (asymZpF .exact bits mn mx) : Rat)) * sc := by
      rw [hzpf]; field_simp; ring
    rw [this]; nlinarith
  · have herr := Rounding.rhe_err (asymZpF .exact bits mn mx)
    have hd := (abs_le.mp herr).2
    push_cast
    rw [← hqmaxI]
    have : (qmaxF bits - (rhe (asymZpF .exact bits mn mx) : Rat)) * sc
        = bmin + asymBound .exact mn mx + (asymZpF .exact bits mn mx - (rhe (asymZpF .exact bits mn mx) : Rat)) * sc := by
      rw [hbs, hzpf]; field_simp; ring
    rw [this]; nlinarith

end C17
