import QProps.C09
import QProps.C09b
/-!
# C09c — ANY number of resumptions, any way of cutting the dataset

`C09.resume` speaks about one resumption.  A user who calibrates in sessions (D0, then D1 from the
returned result, then D2 …) relies on the statement for every number of sessions: the final
statistics are those of ONE pass over `D0 ++ D1 ++ D2 ++ …`, hence independent of where the dataset
was cut.  Proved by induction over the list of sessions; no `sorry`, no new axioms.
-/
open Graph Arith Cfg Num Nd Mat Calib

namespace C09c

/-- `Chain q Ds r`: starting from the result `q`, calibrating on the chunks `Ds` one after another,
    each from the previous result, succeeds every time and ends with `r` -/
def Chain (rx : String → String → Bool) (env : Env) (st : Recipe.State) (sgi : Nat) :
    Qsvs → List (List Contents) → Qsvs → Prop
  | q, [], r => r = q
  | q, D :: Ds, r => ∃ q', calibrate rx env st sgi (some q) D = .ok q' ∧ Chain rx env st sgi q' Ds r

/-- **any number of resumptions** equals one pass over the concatenation, in dataset order -/
theorem resume_many (rx : String → String → Bool) (env : Env) (st : Recipe.State) (sgi : Nat) :
    ∀ (Ds : List (List Contents)) (D0 : List Contents) (q0 r : Qsvs),
      calibrate rx env st sgi none D0 = .ok q0 → Chain rx env st sgi q0 Ds r →
      calibrate rx env st sgi none (D0 ++ Ds.flatten) = .ok r
  | [], D0, q0, r, h0, hc => by
    have hr : r = q0 := hc
    subst hr
    simpa using h0
  | D :: Ds, D0, q0, r, h0, hc => by
    obtain ⟨q', h1, h2⟩ := hc
    have hres := C09.resume rx env st sgi D0 D q0 h0
    have h0' : calibrate rx env st sgi none (D0 ++ D) = .ok q' := by rw [← hres]; exact h1
    have := resume_many rx env st sgi Ds (D0 ++ D) q' r h0' h2
    simpa [List.append_assoc] using this

/-- **where the dataset is cut does not matter**: two sequences of sessions over the same samples in
    the same order end with the same statistics -/
theorem split_irrelevant (rx : String → String → Bool) (env : Env) (st : Recipe.State) (sgi : Nat)
    (D0 E0 : List Contents) (Ds Es : List (List Contents)) (q0 p0 r r' : Qsvs)
    (hsame : D0 ++ Ds.flatten = E0 ++ Es.flatten)
    (hD : calibrate rx env st sgi none D0 = .ok q0) (hE : calibrate rx env st sgi none E0 = .ok p0)
    (cD : Chain rx env st sgi q0 Ds r) (cE : Chain rx env st sgi p0 Es r') : r = r' := by
  have h1 := resume_many rx env st sgi Ds D0 q0 r hD cD
  have h2 := resume_many rx env st sgi Es E0 p0 r' hE cE
  rw [hsame, h2] at h1
  exact (Except.ok.inj h1).symm

/-- non-vacuity: the closed instance of C09b is a chain of one resumption -/
example : Chain C09.Ex.rxAll C09.Ex.env0 C09.Ex.st0 0 C09.Ex.q1 [[C09.Ex.s2]] C09.Ex.qs :=
  ⟨C09.Ex.qs, C09.Ex.run2, rfl⟩

example : calibrate C09.Ex.rxAll C09.Ex.env0 C09.Ex.st0 0 none ([C09.Ex.s1] ++ [[C09.Ex.s2]].flatten)
    = .ok C09.Ex.qs :=
  resume_many _ _ _ _ _ _ _ _ C09.Ex.run1 ⟨C09.Ex.qs, C09.Ex.run2, rfl⟩

end C09c
