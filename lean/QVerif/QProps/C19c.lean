import QProofs.LocalityMat
import QProofs.LocalityPipe
import QProofs.LocalityShape
import QProofs.PipelineWFExamples
/-!
# C19 — each subgraph is transformed as if it stood alone: the two stages in front of the performer

* `C19.genInsts_local`, `C19.modify_local`: instruction generation (and hence `Perform.modify`) is
  local: the instructions generated for the tensors of subgraph `j` are the instructions generated,
  for the extracted single-subgraph model, from the requests that name a tensor of subgraph `j`.
  Hypothesis: tensor names are unique model-wide (`GenInstsOK.namesUnique`, which
  `ParamsGenerator.__init__` enforces).
* `C19.generate_local_full` (= the statement `C19.GenerateLocal`, UNCONDITIONAL): if the materialisation of
  the whole model succeeds, the stand-alone materialisation of subgraph `j` (`Locality.extractEnv`: same
  constant data, same statistics, same recipe) succeeds and returns exactly the requests of the big run
  for the tensors of subgraph `j`, in the same order.  The delicate step is the buffer-sharing check of
  the stand-alone run: the check of the big model compares every reader of a constant buffer with the
  FIRST reader only, and "compatible" is not transitive in general (`C19.check_not_local`: for ARBITRARY
  dictionaries the check of the whole model can pass while the check of one subgraph fails).  It IS an
  equivalence on request sides whose transformation is not `add_quant`
  (`Locality.compatO2T_iff`, `compatReq_euclid`), and `generate` never gives a tensor with constant data
  an `add_quant` side (`Locality.generateCore_shape`, `dshape_const`); hence the step holds for the
  dictionaries `generate` builds (`Locality.check_local_full`, and `Locality.own_local` for the second
  check `checkUnreadOwn`).
  Weaker forms kept: `C19.generate_local_partial` (exposes the stand-alone dictionary),
  `C19.generate_local_ok`, `C19.generate_local` (under `Locality.NoCrossShare`).
* The converse is FALSE (`C19.shared_constant_rejected`): two subgraphs that read ONE constant
  buffer, one quantized and one not, are each quantized without complaint when they stand alone,
  while the two-subgraph model is rejected with `RuntimeError` by the buffer-sharing check: this is
  the "constants shared between subgraphs obey C15" caveat of the property.
* `C19.quantize_local`: END TO END for `Pipeline.quantizePure`.  The two runs number their parameter
  objects independently (ids = order of first appearance), so the results are compared up to a renaming:
  if the big run succeeds and the materialisation stage of the stand-alone run of subgraph `j` succeeds
  (its buffer-sharing check passes), then the whole stand-alone run succeeds and there is an INJECTIVE
  map `ρ` from its parameter ids to those of the big run such that (i) the parameter object of id `i`
  (stand-alone) and that of id `ρ i` (big) are equal in the sense of the library's `__eq__`
  (`Param.eqv`), (ii) subgraph `j` of the big result, as seen by `Locality.view` (tensors with names,
  dtypes, shapes, buffer indices and quantization parameter ids; operators with RESOLVED opcodes,
  operands, results; graph inputs/outputs), equals subgraph 0 of the stand-alone result with every id
  `i` replaced by `ρ i`, (iii) the signatures of subgraph `j` (re-indexed to 0) equal those of the
  stand-alone result.  Buffer CONTENTS are not compared (`view` does not contain them; the statement
  about them is the shared-table part of the property).  The witness below has `ρ 0 = 1`.
  `C19.quantize_local_full`: the success of the big run ALONE suffices (no hypothesis on the stand-alone
  run, no sharing hypothesis).
-/
open Graph Mat Perform GenInstsOK

namespace C19

/-- **C19 (instruction generation).** -/
theorem genInsts_local (m : Model) (hnu : namesUnique m) (j : Nat) (sg : Subgraph)
    (hsg : m.subgraphs[j]? = some sg) (reqs : List TReq) (tis : List TInsts)
    (h : InstGen.genInsts m reqs = .ok tis) :
    InstGen.genInsts (Locality.extract m j sg) (Locality.restrictReqs reqs sg) = .ok (Locality.restrict tis j) :=
  Locality.genInsts_local m hnu j sg hsg reqs tis h

/-- **C19 (`ModelModifier.modify_model`, graph part).** -/
theorem modify_local (pt : PTable) (m m' : Model) (hnu : namesUnique m) (j : Nat) (sg : Subgraph)
    (hsg : m.subgraphs[j]? = some sg) (hcodes : ∀ o ∈ sg.ops, o.code < m.opcodes.length)
    (reqs : List TReq) (h : modify pt m reqs = .ok m') :
    ∃ m1', modify pt (Locality.extract m j sg) (Locality.restrictReqs reqs sg) = .ok m1' ∧
      Locality.view m' j = Locality.view m1' 0 ∧ Locality.sigsOf m' j = m1'.sigs :=
  Locality.modify_local pt m m' hnu j sg hsg hcodes reqs h

/-- the full statement for the materialisation stage -/
def GenerateLocal : Prop :=
  ∀ (rx : String → String → Bool) (env : Env) (st : Recipe.State) (qsvs : Option Qsvs) (j : Nat) (sg : Subgraph)
    (reqs : List CReq), env.model.subgraphs[j]? = some sg → Mat.generate rx env st qsvs = .ok reqs →
    Mat.generate rx (Locality.extractEnv env j sg) st qsvs = .ok (Locality.restrictCReqs reqs sg)

/-- **C19 (materialisation), unconditional.** -/
theorem generate_local_full : GenerateLocal :=
  fun rx env st qsvs j sg reqs hsg h => Locality.generate_local_full rx env st qsvs j sg hsg reqs h

/-- **C19 (materialisation), up to the buffer-sharing check of the stand-alone run.** -/
theorem generate_local_partial (rx : String → String → Bool) (env : Env) (st : Recipe.State) (qsvs : Option Qsvs)
    (j : Nat) (sg : Subgraph) (hsg : env.model.subgraphs[j]? = some sg) (reqs : List CReq)
    (h : Mat.generate rx env st qsvs = .ok reqs) :
    ∃ res1 : List (String × CReq), res1.map (·.2) = Locality.restrictCReqs reqs sg ∧
      Mat.generate rx (Locality.extractEnv env j sg) st qsvs =
        match checkBufferSharing (Locality.extract env.model j sg) res1 with
        | .error e => .error e
        | .ok _ => match checkUnreadOwn (Locality.extract env.model j sg) res1 with
          | .error e => .error e
          | .ok _ => .ok (Locality.restrictCReqs reqs sg) :=
  Locality.generate_local rx env st qsvs j sg hsg reqs h

/-- **C19 (materialisation)**, when no constant buffer of subgraph `j` is shared with another subgraph. -/
theorem generate_local (rx : String → String → Bool) (env : Env) (st : Recipe.State) (qsvs : Option Qsvs)
    (j : Nat) (sg : Subgraph) (hsg : env.model.subgraphs[j]? = some sg)
    (hshare : Locality.NoCrossShare env.model j sg) (reqs : List CReq)
    (h : Mat.generate rx env st qsvs = .ok reqs) :
    Mat.generate rx (Locality.extractEnv env j sg) st qsvs = .ok (Locality.restrictCReqs reqs sg) :=
  Locality.generate_local_noShare rx env st qsvs j sg hsg hshare reqs h

/-- when both runs succeed they agree -/
theorem generate_local_ok (rx : String → String → Bool) (env : Env) (st : Recipe.State) (qsvs : Option Qsvs)
    (j : Nat) (sg : Subgraph) (hsg : env.model.subgraphs[j]? = some sg) (reqs r1 : List CReq)
    (h : Mat.generate rx env st qsvs = .ok reqs)
    (h1 : Mat.generate rx (Locality.extractEnv env j sg) st qsvs = .ok r1) :
    r1 = Locality.restrictCReqs reqs sg :=
  Locality.generate_local_ok rx env st qsvs j sg hsg reqs r1 h h1

/-- **C19, end to end** (see the header for the reading of the conclusion). -/
theorem quantize_local (rx : String → String → Bool) (env : Env) (st : Recipe.State) (qsvs : Option Qsvs)
    (j : Nat) (sg : Subgraph) (hsg : env.model.subgraphs[j]? = some sg)
    (hcodes : ∀ o ∈ sg.ops, o.code < env.model.opcodes.length)
    (m' : Model) (tbl : List Param) (h : Pipeline.quantizePure rx env st qsvs = .ok (m', tbl))
    (r1 : List CReq) (hgen1 : Mat.generate rx (Locality.extractEnv env j sg) st qsvs = .ok r1) :
    ∃ (m1' : Model) (tbl1 : List Param) (ρ : PId → PId),
      Pipeline.quantizePure rx (Locality.extractEnv env j sg) st qsvs = .ok (m1', tbl1) ∧
      Function.Injective ρ ∧
      (∀ i P, tbl1[i]? = some P → ∃ Q, tbl[ρ i]? = some Q ∧ Q.eqv P = true) ∧
      Locality.view m' j = Locality.view (Rename.rnModel ρ m1') 0 ∧ Locality.sigsOf m' j = m1'.sigs :=
  Locality.quantize_local rx env st qsvs j sg hsg hcodes m' tbl h r1 hgen1

/-- **C19, end to end, unconditional**: only the run on the whole model is assumed to succeed. -/
theorem quantize_local_full (rx : String → String → Bool) (env : Env) (st : Recipe.State) (qsvs : Option Qsvs)
    (j : Nat) (sg : Subgraph) (hsg : env.model.subgraphs[j]? = some sg)
    (hcodes : ∀ o ∈ sg.ops, o.code < env.model.opcodes.length)
    (m' : Model) (tbl : List Param) (h : Pipeline.quantizePure rx env st qsvs = .ok (m', tbl)) :
    ∃ (m1' : Model) (tbl1 : List Param) (ρ : PId → PId),
      Pipeline.quantizePure rx (Locality.extractEnv env j sg) st qsvs = .ok (m1', tbl1) ∧
      Function.Injective ρ ∧
      (∀ i P, tbl1[i]? = some P → ∃ Q, tbl[ρ i]? = some Q ∧ Q.eqv P = true) ∧
      Locality.view m' j = Locality.view (Rename.rnModel ρ m1') 0 ∧ Locality.sigsOf m' j = m1'.sigs :=
  Locality.quantize_local_full rx env st qsvs j sg hsg hcodes m' tbl h

/-- **C19, end to end**, when no constant buffer of subgraph `j` is shared with another subgraph. -/
theorem quantize_local_noShare (rx : String → String → Bool) (env : Env) (st : Recipe.State) (qsvs : Option Qsvs)
    (j : Nat) (sg : Subgraph) (hsg : env.model.subgraphs[j]? = some sg)
    (hcodes : ∀ o ∈ sg.ops, o.code < env.model.opcodes.length)
    (hshare : Locality.NoCrossShare env.model j sg)
    (m' : Model) (tbl : List Param) (h : Pipeline.quantizePure rx env st qsvs = .ok (m', tbl)) :
    ∃ (m1' : Model) (tbl1 : List Param) (ρ : PId → PId),
      Pipeline.quantizePure rx (Locality.extractEnv env j sg) st qsvs = .ok (m1', tbl1) ∧
      Function.Injective ρ ∧
      (∀ i P, tbl1[i]? = some P → ∃ Q, tbl[ρ i]? = some Q ∧ Q.eqv P = true) ∧
      Locality.view m' j = Locality.view (Rename.rnModel ρ m1') 0 ∧ Locality.sigsOf m' j = m1'.sigs :=
  Locality.quantize_local_noShare rx env st qsvs j sg hsg hcodes hshare m' tbl h

/-! ## witnesses -/

namespace Witness2
open PipelineWFExample (rxAll cfgFC stOf)

def tw (n : String) (b : Nat) : Tensor := { name := n, dtype := 0, shape := [2, 2], buffer := b }
def tx (n : String) : Tensor := { name := n, dtype := 0, shape := [1, 2], buffer := 0 }
def fc : Op := { code := 0, inputs := [0, 1, -1], outputs := [2], orig := some 0 }

/-- `ya := FULLY_CONNECTED(xa, wa)`, `wa` constant in buffer `b` -/
def sgA (b : Nat) : Subgraph := { tensors := [tx "xa", tw "wa" b, tx "ya"], ops := [fc], inputs := [0], outputs := [2] }
def sgB (b : Nat) : Subgraph := { tensors := [tx "xb", tw "wb" b, tx "yb"], ops := [fc], inputs := [0], outputs := [2] }

def sigs : List Sig :=
  [{ key := "a", sg := 0, inputs := [("x", 0)], outputs := [("y", 2)] },
   { key := "b", sg := 1, inputs := [("x", 0)], outputs := [("y", 2)] }]

/-- two subgraphs, model-wide unique tensor names, one constant each -/
def m : Model :=
  { subgraphs := [sgA 1, sgB 2], buffers := [none, some (.inl 0), some (.inl 1)], opcodes := [9], sigs := sigs }

def env : Env := { model := m, consts := [(1, [1, 2, 3, 4]), (2, [1, 1, 1, 1])], adjY := [] }

def isOk {α} : PyM α → Bool | .ok _ => true | .error _ => false

theorem exists_of_isOk {α} (x : PyM α) (h : isOk x = true) : ∃ a, x = .ok a := by
  cases x with
  | ok a => exact ⟨a, rfl⟩
  | error e => cases h

theorem names_unique : namesUnique m := by unfold namesUnique; decide

/-! ### instruction generation / `modify` -/

def pt : PTable := [(0, { uniform := true, bits := 8, hasData := true })]

/-- DEQUANTIZE after the constant `wa` of subgraph 0, QUANTIZE after the input `xb` of subgraph 1 -/
def reqs : List TReq :=
  [{ name := "wa", producer := none, consumers := some [{ opId := 0, xfs := [.addDequant], param := some 0 }] },
   { name := "xb", producer := none, consumers := some [{ opId := 0, xfs := [.addQuant], param := some 0 }] }]

def tis : List TInsts :=
  [{ name := "wa", sg := 0,
     insts := [{ xf := .addDequant, tensor := 1, producer := -1, consumers := [0], param := some 0 }] },
   { name := "xb", sg := 1,
     insts := [{ xf := .addQuant, tensor := 0, producer := -1, consumers := [0], param := some 0 }] }]

theorem big_insts : InstGen.genInsts m reqs = .ok tis := by decide

/-- NON-VACUITY of `genInsts_local` (`j = 1`): the request of the other subgraph is dropped, the
    remaining instruction is re-indexed to subgraph 0 -/
example : Locality.restrictReqs reqs (sgB 2) = reqs.drop 1 ∧
    InstGen.genInsts (Locality.extract m 1 (sgB 2)) (Locality.restrictReqs reqs (sgB 2)) =
      .ok [{ name := "xb", sg := 0,
             insts := [{ xf := .addQuant, tensor := 0, producer := -1, consumers := [0], param := some 0 }] }] :=
  ⟨by decide, genInsts_local m names_unique 1 (sgB 2) rfl reqs tis big_insts⟩

theorem big_modify : isOk (modify pt m reqs) = true := by decide

/-- NON-VACUITY of `modify_local`: all hypotheses hold for `j = 1`, and the conclusion is obtained -/
example : ∃ m' m1', modify pt m reqs = .ok m' ∧
    modify pt (Locality.extract m 1 (sgB 2)) (Locality.restrictReqs reqs (sgB 2)) = .ok m1' ∧
    Locality.view m' 1 = Locality.view m1' 0 ∧ Locality.sigsOf m' 1 = m1'.sigs := by
  obtain ⟨m', hm'⟩ := exists_of_isOk _ big_modify
  obtain ⟨m1', h1, h2, h3⟩ := modify_local pt m m' names_unique 1 (sgB 2) rfl (by decide) reqs hm'
  exact ⟨m', m1', hm', h1, h2, h3⟩

/-! ### materialisation: float casting of FULLY_CONNECTED (no statistics needed) -/

def st : Recipe.State := stOf Tables.algFloatCasting cfgFC "FULLY_CONNECTED"

theorem big_generate : isOk (generate rxAll env st none) = true := by decide +kernel

theorem small_generate : isOk (generate rxAll (Locality.extractEnv env 1 (sgB 2)) st none) = true := by
  decide +kernel

/-- the big run makes six requests, in this order … -/
example : (match generate rxAll env st none with | .ok r => some (r.map (·.name)) | .error _ => none) =
    some ["xa", "wa", "ya", "xb", "wb", "yb"] := by decide +kernel

/-- … and the stand-alone run of subgraph 1 makes the last three (NON-VACUITY of `generate_local_ok`) -/
example : ∃ reqs r1, generate rxAll env st none = .ok reqs ∧
    generate rxAll (Locality.extractEnv env 1 (sgB 2)) st none = .ok r1 ∧
    r1 = Locality.restrictCReqs reqs (sgB 2) := by
  obtain ⟨reqs, h⟩ := exists_of_isOk _ big_generate
  obtain ⟨r1, h1⟩ := exists_of_isOk _ small_generate
  exact ⟨reqs, r1, h, h1, generate_local_ok rxAll env st none 1 (sgB 2) rfl reqs r1 h h1⟩

/-- the two weights live in different buffers -/
theorem no_share : Locality.NoCrossShare m 1 (sgB 2) := Locality.noCrossShare_of_B m 1 (sgB 2) (by decide)

/-- NON-VACUITY of `generate_local`: the hypotheses hold, the stand-alone run returns the last three requests -/
example : ∃ reqs, generate rxAll env st none = .ok reqs ∧
    generate rxAll (Locality.extractEnv env 1 (sgB 2)) st none = .ok (Locality.restrictCReqs reqs (sgB 2)) := by
  obtain ⟨reqs, h⟩ := exists_of_isOk _ big_generate
  exact ⟨reqs, h, generate_local rxAll env st none 1 (sgB 2) rfl no_share reqs h⟩

/-! ### end to end: weight-only int8 quantization of both FULLY_CONNECTED -/

def stWO : Recipe.State := [(".*", [⟨".*", "*", Tables.algMinMax, PipelineWFExample.cfgWO⟩])]

/-- the quantization parameter ids of the tensors of subgraph `j` -/
def quantsOf (m : Model) (j : Nat) : Option (List (Option PId)) :=
  (m.subgraphs[j]?).map fun sg => sg.tensors.map (·.quant)

/-- the big run makes two parameter objects; the weight of subgraph 1 gets id **1** … -/
theorem big_quantize : (match Pipeline.quantizePure rxAll env stWO none with
      | .ok r => some (r.2.length, quantsOf r.1 0, quantsOf r.1 1) | .error _ => none) =
    some (2, some [none, some 0, none], some [none, some 1, none]) := by decide +kernel

/-- … the stand-alone run of subgraph 1 makes one, and the same weight gets id **0** -/
theorem small_quantize : (match Pipeline.quantizePure rxAll (Locality.extractEnv env 1 (sgB 2)) stWO none with
      | .ok r => some (r.2.length, quantsOf r.1 0) | .error _ => none) =
    some (1, some [none, some 0, none]) := by decide +kernel

theorem big_quantize_ok : isOk (Pipeline.quantizePure rxAll env stWO none) = true := by decide +kernel

theorem small_generate_wo : isOk (generate rxAll (Locality.extractEnv env 1 (sgB 2)) stWO none) = true := by
  decide +kernel

/-- NON-VACUITY of `quantize_local`: all hypotheses hold on this run (`j = 1`), the conclusion follows -/
example : ∃ (m' m1' : Model) (tbl tbl1 : List Param) (ρ : PId → PId),
    Pipeline.quantizePure rxAll env stWO none = .ok (m', tbl) ∧
    Pipeline.quantizePure rxAll (Locality.extractEnv env 1 (sgB 2)) stWO none = .ok (m1', tbl1) ∧
    Function.Injective ρ ∧ (∀ i P, tbl1[i]? = some P → ∃ Q, tbl[ρ i]? = some Q ∧ Q.eqv P = true) ∧
    Locality.view m' 1 = Locality.view (Rename.rnModel ρ m1') 0 ∧ Locality.sigsOf m' 1 = m1'.sigs := by
  obtain ⟨⟨m', tbl⟩, h⟩ := exists_of_isOk _ big_quantize_ok
  obtain ⟨r1, h1⟩ := exists_of_isOk _ small_generate_wo
  obtain ⟨m1', tbl1, ρ, h2, h3, h4, h5, h6⟩ := quantize_local rxAll env stWO none 1 (sgB 2) rfl (by decide) m' tbl h r1 h1
  exact ⟨m', m1', tbl, tbl1, ρ, h, h2, h3, h4, h5, h6⟩

/-- NON-VACUITY of `quantize_local_full`: only the big run is evaluated -/
example : ∃ (m' m1' : Model) (tbl tbl1 : List Param) (ρ : PId → PId),
    Pipeline.quantizePure rxAll env stWO none = .ok (m', tbl) ∧
    Pipeline.quantizePure rxAll (Locality.extractEnv env 1 (sgB 2)) stWO none = .ok (m1', tbl1) ∧
    Function.Injective ρ ∧
    Locality.view m' 1 = Locality.view (Rename.rnModel ρ m1') 0 ∧ Locality.sigsOf m' 1 = m1'.sigs := by
  obtain ⟨⟨m', tbl⟩, h⟩ := exists_of_isOk _ big_quantize_ok
  obtain ⟨m1', tbl1, ρ, h2, h3, _, h5, h6⟩ :=
    quantize_local_full rxAll env stWO none 1 (sgB 2) rfl (by decide) m' tbl h
  exact ⟨m', m1', tbl, tbl1, ρ, h, h2, h3, h5, h6⟩

/-- NON-VACUITY of `quantize_local_noShare` -/
example : ∃ (m' m1' : Model) (tbl tbl1 : List Param) (ρ : PId → PId),
    Pipeline.quantizePure rxAll env stWO none = .ok (m', tbl) ∧
    Pipeline.quantizePure rxAll (Locality.extractEnv env 1 (sgB 2)) stWO none = .ok (m1', tbl1) ∧
    Function.Injective ρ ∧
    Locality.view m' 1 = Locality.view (Rename.rnModel ρ m1') 0 ∧ Locality.sigsOf m' 1 = m1'.sigs := by
  obtain ⟨⟨m', tbl⟩, h⟩ := exists_of_isOk _ big_quantize_ok
  obtain ⟨m1', tbl1, ρ, h2, h3, _, h5, h6⟩ :=
    quantize_local_noShare rxAll env stWO none 1 (sgB 2) rfl (by decide) no_share m' tbl h
  exact ⟨m', m1', tbl, tbl1, ρ, h, h2, h3, h5, h6⟩

/-! ### a constant shared between the two subgraphs -/

/-- both weights live in buffer 1 -/
def mS : Model :=
  { subgraphs := [sgA 1, sgB 1], buffers := [none, some (.inl 0)], opcodes := [9], sigs := sigs }

def envS : Env := { model := mS, consts := [(1, [1, 2, 3, 4])], adjY := [] }

/-- the recipe's scope regex selects the operator whose result is `ya` (subgraph 0) only -/
def rxEq : String → String → Bool := fun re scope => re == scope

def stS : Recipe.State := [("ya;", [⟨"ya;", "FULLY_CONNECTED", Tables.algFloatCasting, cfgFC⟩])]

/-- `mS` violates `NoCrossShare`: `wa` (subgraph 0) and `wb` (subgraph 1) both read the constant buffer 1 -/
theorem shared_violates : ¬ Locality.NoCrossShare mS 1 (sgB 1) := by
  intro h
  exact h 0 (sgA 1) rfl (by decide) (1, "wa") (by decide) (1, "wb") (by decide) ⟨.inl 0, rfl⟩ rfl

/-- casting the SHARED weight in both subgraphs is accepted … -/
theorem shared_both_big : isOk (generate rxAll envS st none) = true := by decide +kernel

/-- … and `generate_local_full` applies although `NoCrossShare` fails (NON-VACUITY beyond the no-sharing case) -/
example : ∃ reqs, generate rxAll envS st none = .ok reqs ∧
    generate rxAll (Locality.extractEnv envS 1 (sgB 1)) st none = .ok (Locality.restrictCReqs reqs (sgB 1)) := by
  obtain ⟨reqs, h⟩ := exists_of_isOk _ shared_both_big
  exact ⟨reqs, h, generate_local_full rxAll envS st none 1 (sgB 1) reqs rfl h⟩

theorem shared_big : generate rxEq envS stS none = .error .runtimeError := by
  have : (match generate rxEq envS stS none with | .ok _ => none | .error e => some e) = some PyErr.runtimeError := by
    decide +kernel
  cases h : generate rxEq envS stS none with
  | ok r => rw [h] at this; cases this
  | error e => rw [h] at this; cases this; rfl

theorem shared_small0 : isOk (generate rxEq (Locality.extractEnv envS 0 (sgA 1)) stS none) = true := by
  decide +kernel

theorem shared_small1 : isOk (generate rxEq (Locality.extractEnv envS 1 (sgB 1)) stS none) = true := by
  decide +kernel

end Witness2

/-- **The converse of C19 fails on shared constants** (the C15 caveat): `wa` and `wb` read the same
    constant buffer; the recipe casts the weight of subgraph 0 to float16 and leaves subgraph 1 alone.
    Every subgraph, quantized as a stand-alone model, is accepted; the two-subgraph model is rejected
    by the buffer-sharing check (`RuntimeError`). -/
theorem shared_constant_rejected :
    namesUnique Witness2.mS ∧
    Mat.generate Witness2.rxEq Witness2.envS Witness2.stS none = .error .runtimeError ∧
    (∃ r0, Mat.generate Witness2.rxEq (Locality.extractEnv Witness2.envS 0 (Witness2.sgA 1)) Witness2.stS none = .ok r0) ∧
    (∃ r1, Mat.generate Witness2.rxEq (Locality.extractEnv Witness2.envS 1 (Witness2.sgB 1)) Witness2.stS none = .ok r1) :=
  ⟨by unfold namesUnique; decide, Witness2.shared_big, Witness2.exists_of_isOk _ Witness2.shared_small0,
    Witness2.exists_of_isOk _ Witness2.shared_small1⟩

/-! ## the buffer-sharing check itself is not local -/

namespace Witness3

def qp (bits : Nat) : Arith.QParams :=
  { bits := bits, qdim := none, scale := ⟨⟨[], [1]⟩, .f32⟩, zp := ⟨⟨[], [0]⟩, 8⟩, symmetric := true }
def tc (n : String) : Tensor := { name := n, dtype := 0, shape := [1], buffer := 1 }
def sg0 : Subgraph :=
  { tensors := [tc "f"], ops := [{ code := 0, inputs := [0], outputs := [] }], inputs := [], outputs := [] }
def sg1 : Subgraph :=
  { tensors := [tc "a", tc "b"], ops := [{ code := 0, inputs := [0, 1], outputs := [] }], inputs := [], outputs := [] }
/-- three tensors in ONE constant buffer: `f` read in subgraph 0, `a` and `b` read in subgraph 1 -/
def m : Model := { subgraphs := [sg0, sg1], buffers := [none, some (.inl 0)], opcodes := [0], sigs := [] }
def cons (n : String) (x : Xf) (p : Option Param) : String × CReq := (n, ⟨n, none, some [⟨0, [x], p⟩]⟩)
/-- `f` stays float; `a`, `b` get `add_quant` with DIFFERENT parameters (8 / 16 bits) -/
def res : List (String × CReq) :=
  [cons "f" .noQuant none, cons "a" .addQuant (some (.uniform (qp 8) none)),
   cons "b" .addQuant (some (.uniform (qp 16) none))]
def err {α} : PyM α → Option PyErr | .ok _ => none | .error e => some e

end Witness3

/-- **`checkBufferSharing` is not local** (for arbitrary dictionaries): the check of the two-subgraph
    model passes (every reader is compared with the first reader `f` only), the check of subgraph 1
    alone, on the same requests, raises `RuntimeError` (`a` and `b` are incompatible). -/
theorem check_not_local :
    Witness3.err (checkBufferSharing Witness3.m Witness3.res) = none ∧
    Witness3.err (checkBufferSharing (Locality.extract Witness3.m 1 Witness3.sg1)
      (Locality.keep (Locality.nameIn Witness3.sg1) Witness3.res)) = some .runtimeError :=
  ⟨by decide +kernel, by decide +kernel⟩

end C19
