import QModel.Bytes
import QModel.Arith
/-!
# C05 — stored quantized constants: byte layout

The value half of C05 (dequantized constants within half a step / one step) is C17's
`dq_q_*` applied with the constant's own min/max (`C17.cover_*` shows the constant is in
range); this file proves the storage-format half for every list of codes.
-/
open Bytes Num

namespace C05

theorem sext4_low (x : Int) (h1 : -8 ≤ x) (h2 : x < 8) : sext4 ((x % 256).toNat % 16) = x := by
  unfold sext4
  have : ((x % 256).toNat : Int) = x % 256 := Int.toNat_of_nonneg (Int.emod_nonneg _ (by decide))
  split <;> omega

/-- byte of an 8-bit stored code -/
def byteOf (x : Int) : Nat := (x % 256).toNat

theorem encodeLE8 (x : Int) : encodeLE 8 x = [byteOf x] := by
  unfold encodeLE byteOf
  simp [List.range_succ]
  have h : (0:Int) ≤ x % 256 := Int.emod_nonneg _ (by decide)
  have h2 : x % 256 < 256 := Int.emod_lt_of_pos _ (by decide)
  omega

theorem encodeAll8 (xs : List Int) : encodeAllLE 8 xs = xs.map byteOf := by
  unfold encodeAllLE
  induction xs with
  | nil => rfl
  | cons x xs ih => simp [List.flatMap_cons, encodeLE8, ih]

/-- int4 storage: two values per byte, low nibble first, odd tail padded — byte length -/
theorem pack4_length (l : List Nat) : (pack4 l).length = (l.length + 1) / 2 := by
  induction l using pack4.induct with
  | case1 => rfl
  | case2 a => simp [pack4]
  | case3 a b rest ih => simp [pack4, ih]; omega

/-- **int4 round trip**: decoding the packed bytes (low nibble first, sign-extended) returns
    exactly the codes, for every list (odd or even length) of 4-bit codes -/
theorem unpack_pack (xs : List Int) (h : ∀ x ∈ xs, -8 ≤ x ∧ x < 8) :
    unpack4 xs.length (pack4 (encodeAllLE 8 xs)) = xs := by
  rw [encodeAll8]
  unfold unpack4
  induction xs using List.rec with
  | nil => rfl
  | cons a rest ih0 =>
    -- two-at-a-time induction
    clear ih0
    suffices H : ∀ (n : Nat) (xs : List Int), xs.length ≤ n → (∀ x ∈ xs, -8 ≤ x ∧ x < 8) →
        ((pack4 (xs.map byteOf)).flatMap fun b => [sext4 (b % 16), sext4 (b / 16)]).take xs.length = xs by
      exact H _ _ (Nat.le_refl _) h
    intro n
    induction n with
    | zero => intro xs hl _; cases xs with | nil => rfl | cons _ _ => simp at hl
    | succ n ih =>
      intro xs hl hx
      match xs, hl, hx with
      | [], _, _ => rfl
      | [a], _, hx =>
        have ha := hx a (by simp)
        simp only [List.map_cons, List.map_nil, pack4, List.flatMap_cons, List.flatMap_nil, List.append_nil,
          List.length_singleton, List.take_succ_cons, List.take_zero]
        have := sext4_low a ha.1 ha.2
        unfold byteOf
        have e : (a % 256).toNat % 16 % 16 = (a % 256).toNat % 16 := Nat.mod_mod _ _
        rw [e, this]
      | a :: b :: rest, hl, hx =>
        have ha := hx a (by simp)
        have hb := hx b (by simp)
        have hrest : ∀ x ∈ rest, -8 ≤ x ∧ x < 8 := fun x hx' => hx x (by simp [hx'])
        simp only [List.map_cons, pack4, List.flatMap_cons, List.length_cons]
        have hl' : rest.length ≤ n := by simp at hl; omega
        have ihr := ih rest hl' hrest
        have hua : ((a % 256).toNat : Int) = a % 256 := Int.toNat_of_nonneg (Int.emod_nonneg _ (by decide))
        have hub : ((b % 256).toNat : Int) = b % 256 := Int.toNat_of_nonneg (Int.emod_nonneg _ (by decide))
        have lo : sext4 (((byteOf a) % 16 + (byteOf b) * 16 % 256) % 16) = a := by
          unfold byteOf sext4; split <;> omega
        have hi : sext4 (((byteOf a) % 16 + (byteOf b) * 16 % 256) / 16) = b := by
          unfold byteOf sext4; split <;> omega
        rw [lo, hi]
        simp only [List.cons_append, List.nil_append, List.take_succ_cons]
        rw [ihr]

/-- little-endian two's-complement round trip for 8/16/32/64-bit storage -/
theorem decode_encode8 (z : Int) (h1 : -128 ≤ z) (h2 : z < 128) : decodeLE 8 (encodeLE 8 z) = z := by
  rw [encodeLE8]
  unfold decodeLE byteOf wrapInt
  simp [List.zipIdx]
  have hu : ((z % 256).toNat : Int) = z % 256 := Int.toNat_of_nonneg (Int.emod_nonneg _ (by decide))
  omega

end C05
