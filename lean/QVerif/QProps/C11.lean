import QModel.Recipe
/-!
# C11 — recipe resolution follows the last-applicable-rule-wins model

`rx` is Python's `re.search` as a parameter; every theorem holds for every `rx`.
Histories are lists of `Cmd` (the `update_quantization_recipe` calls); a failing
call leaves the state unchanged (`Recipe.add` is a function into `Except`).
-/
open Cfg Recipe

namespace C11

/-- a rule is applicable to `(op, scope)` — the regex part is handled by `flat` -/
def applicable (op : String) (r : Rule) : Bool :=
  (r.operation == Tables.allOpsKey || r.operation == op) &&
  (r.alg == Tables.algNoQuantize || Policy.accepts r.alg op r.cfg)

/-- all rules whose regex is found in the scope, scopes in state order, rules in scope order -/
def flat (rx : String → String → Bool) (st : State) (scope : String) : List Rule :=
  st.flatMap fun e => if rx e.1 scope then e.2 else []

/-- the declarative resolution: the last applicable rule, else no-quantize with the default config -/
def resolveSpec (rx : String → String → Bool) (st : State) (op scope : String) : String × OpCfg :=
  (((flat rx st scope).filter (applicable op)).getLast?.map fun r => (r.alg, r.cfg)).getD
    (Tables.algNoQuantize, {})

theorem foldl_last {α β} (P : α → Bool) (f : α → β) (l : List α) (acc : β) :
    l.foldl (fun acc a => if P a then f a else acc) acc =
      ((l.filter P).getLast?.map f).getD acc := by
  induction l generalizing acc with
  | nil => simp
  | cons x xs ih =>
    simp only [List.foldl_cons]
    rw [ih]
    by_cases hx : P x
    · simp only [hx, if_true, List.filter_cons_of_pos]
      cases hxs : (xs.filter P) with
      | nil => simp
      | cons y ys =>
        cases h : (y :: ys).getLast? with
        | none => simp at h
        | some a => simp [List.getLast?_cons_cons, h]
    · simp [hx]

/-- inner loop of `get_quantization_configs` over one scope's rules -/
theorem inner_eq (op : String) (rules : List Rule) (acc : String × OpCfg) :
    rules.foldl (fun acc r =>
        if r.operation != Tables.allOpsKey && r.operation != op then acc
        else if r.alg != Tables.algNoQuantize && !Policy.accepts r.alg op r.cfg then acc
        else (r.alg, r.cfg)) acc
      = ((rules.filter (applicable op)).getLast?.map fun r => (r.alg, r.cfg)).getD acc := by
  rw [← foldl_last (applicable op) (fun r => (r.alg, r.cfg)) rules acc]
  congr 1
  funext acc r
  unfold applicable
  by_cases h1 : r.operation == Tables.allOpsKey <;> by_cases h2 : r.operation == op <;>
    by_cases h3 : r.alg == Tables.algNoQuantize <;> by_cases h4 : Policy.accepts r.alg op r.cfg <;>
    simp [h1, h2, h3, h4, bne]

/-- **C11 (resolution)**: the code's nested loops compute exactly "the last applicable rule
    wins, scanning scopes in state order and rules in scope order; default = no-quantize". -/
theorem resolve_eq_spec (rx : String → String → Bool) (st : State) (op scope : String) :
    resolve rx st op scope = resolveSpec rx st op scope := by
  unfold resolve resolveSpec flat
  generalize (Tables.algNoQuantize, ({} : OpCfg)) = acc
  induction st generalizing acc with
  | nil => simp
  | cons e es ih =>
    simp only [List.foldl_cons, List.flatMap_cons]
    rw [ih]
    by_cases hm : rx e.1 scope
    · simp only [hm, if_true]
      rw [inner_eq, List.filter_append, List.getLast?_append]
      cases h1 : (List.filter (applicable op) (List.flatMap (fun e => if rx e.1 scope = true then e.2 else []) es)).getLast? with
      | some r => simp
      | none =>
        cases h2 : (List.filter (applicable op) e.2).getLast? <;> simp
    · simp [hm]

/-- no applicable rule ⇒ the operator is not quantized (default config) -/
theorem resolve_default (rx : String → String → Bool) (st : State) (op scope : String)
    (h : ∀ r ∈ flat rx st scope, applicable op r = false) :
    resolve rx st op scope = (Tables.algNoQuantize, {}) := by
  rw [resolve_eq_spec]; unfold resolveSpec
  have : (flat rx st scope).filter (applicable op) = [] := by
    rw [List.filter_eq_nil_iff]; intro r hr; simp [h r hr]
  rw [this]; rfl

/-- whatever resolution returns is either no-quantize or a config the algorithm's support
    check accepts for that very operator (an unsupported rule under `'*'` is never selected) -/
theorem resolve_sound (rx : String → String → Bool) (st : State) (op scope : String) :
    (resolve rx st op scope).1 = Tables.algNoQuantize ∨
      Policy.accepts (resolve rx st op scope).1 op (resolve rx st op scope).2 = true := by
  rw [resolve_eq_spec]; unfold resolveSpec
  cases h : ((flat rx st scope).filter (applicable op)).getLast? with
  | none => left; rfl
  | some r =>
    have hm : r ∈ (flat rx st scope).filter (applicable op) := List.mem_of_getLast? h
    have ha : applicable op r = true := (List.mem_filter.mp hm).2
    unfold applicable at ha
    simp only [Bool.and_eq_true, Bool.or_eq_true, beq_iff_eq] at ha
    rcases ha.2 with h1 | h1
    · left; exact h1
    · right; exact h1

/-- a rejected update leaves the recipe unchanged and is reported as `ValueError` -/
theorem failed_add_is_valueError (st : State) (regex op : String) (cfg : Option OpCfg) (alg : String) (e : PyErr)
    (h : add st regex op cfg alg = .error e) :
    e = .valueError ∧ op ≠ Tables.allOpsKey ∧ alg ≠ Tables.algNoQuantize
      ∧ Policy.accepts alg op (cfg.getD {}) = false := by
  unfold add at h
  simp only [] at h
  split at h
  · cases h
  · split at h
    · rename_i h1 h2
      cases h
      simp only [Bool.and_eq_true, bne_iff_ne, ne_eq, Bool.not_eq_true', beq_iff_eq] at h1 h2
      exact ⟨rfl, h1, h2.1, h2.2⟩
    · split at h <;> cases h

/-- adding `'*'` resets the scope to that single rule, whatever was there, and never fails -/
theorem add_star_resets (st : State) (regex : String) (cfg : Option OpCfg) (alg : String) :
    ∃ st', add st regex Tables.allOpsKey cfg alg = .ok st' ∧
      Py.dictGet? st' regex = some [⟨regex, Tables.allOpsKey, alg, cfg.getD {}⟩] := by
  refine ⟨Py.dictSet st regex [⟨regex, Tables.allOpsKey, alg, cfg.getD {}⟩], ?_, ?_⟩
  · unfold add; simp
  · generalize [(⟨regex, Tables.allOpsKey, alg, cfg.getD {}⟩ : Rule)] = v
    induction st with
    | nil => simp [Py.dictSet, Py.dictGet?]
    | cons e es ih =>
      obtain ⟨k, w⟩ := e
      unfold Py.dictSet
      cases hk : (k == regex) with
      | true => simp [hk, Py.dictGet?]
      | false =>
        simp only [Bool.false_eq_true, if_false]
        simp only [Py.dictGet?, List.find?_cons, hk] at ih ⊢
        exact ih

/-- non-vacuity: a concrete history where a later unsupported `'*'` rule is skipped and the
    earlier supported specific rule wins -/
example :
    let wo8 : OpCfg := { weight := some { bits := 8, symmetric := true, gran := .channelwise }, cp := .float, explicitDeq := true }
    let bad : OpCfg := { weight := some { bits := 16, symmetric := true }, cp := .integer }
    let st : State := [(".*", [⟨".*", "FULLY_CONNECTED", Tables.algMinMax, wo8⟩]), ("a", [⟨"a", "*", Tables.algMinMax, bad⟩])]
    resolve (fun _ _ => true) st "FULLY_CONNECTED" "a;" = (Tables.algMinMax, wo8) := by
  decide +kernel

end C11
