import QProofs.EvalProofs
/-!
# C06 — weight-only / float16 rewrites compute the reference model's values

The kernels are parameters (`Eval.Sem`): for *every* kernel semantics and every input, running the
rewritten subgraph (constants stored quantized, DEQUANTIZE operators inserted in front of their
consumers) gives the same values as running the input subgraph on the dequantized constants.
-/
open Graph Eval

namespace C06

/-- C06 (weight-only / float16, for every kernel semantics and every input): whenever the rewritten
    subgraph runs, the input subgraph run on the reference environment (constants replaced by their
    dequantized values) runs too and agrees on every tensor that is not an operand/result of an
    inserted operator — in particular on all graph outputs. -/
theorem weight_only_equiv {V : Type} (S : Sem V) (sg sg' : Subgraph)
    (hsk : Skeleton.sameSkeleton sg sg' = true) (hd : deqOnConst sg' = true)
    (e0 e0' : Env V) (href : RefEnv S sg' e0' e0) (e' : Env V)
    (hrun : run S sg'.ops e0' = some e') :
    ∃ e, run S sg.ops e0 = some e ∧ AgreeOff sg' e e' :=
  EvalProofs.weight_only_equiv S sg sg' hsk hd e0 e0' href e' hrun

/-- graph outputs are not operands/results of inserted operators when no graph output is derived, so
    the two runs agree on them -/
theorem weight_only_outputs {V : Type} (S : Sem V) (sg sg' : Subgraph)
    (hsk : Skeleton.sameSkeleton sg sg' = true) (hd : deqOnConst sg' = true)
    (hout : sg'.outputs.all (fun t => !(insInputs sg').contains t && !(insOutputs sg').contains t) = true)
    (e0 e0' : Env V) (href : RefEnv S sg' e0' e0) (e' : Env V)
    (hrun : run S sg'.ops e0' = some e') :
    sg'.outputs = sg.outputs ∧ ∃ e, run S sg.ops e0 = some e ∧ ∀ t ∈ sg.outputs, e t = e' t :=
  EvalProofs.weight_only_outputs S sg sg' hsk hd hout e0 e0' href e' hrun

/-- the converse: under the ordering condition `Eval.insBeforeUse` (every operator reading the
    result of an inserted operator occurs after an inserted operator producing it) and when every
    constant read by an inserted operator has data in the rewritten model, the rewritten subgraph
    runs whenever the input subgraph runs on the reference environment, with the same agreement.
    (`hconst` is needed only for inserted operators whose result nobody reads: such an operator makes
    the rewritten run fail on a missing constant although the reference run never looks at it.) -/
theorem weight_only_equiv_conv {V : Type} (S : Sem V) (sg sg' : Subgraph)
    (hsk : Skeleton.sameSkeleton sg sg' = true) (hd : deqOnConst sg' = true)
    (hord : Eval.insBeforeUse sg' = true)
    (e0 e0' : Env V) (href : RefEnv S sg' e0' e0)
    (hconst : ∀ c ∈ insInputs sg', e0' c ≠ none) (e : Env V)
    (hrun : run S sg.ops e0 = some e) :
    ∃ e', run S sg'.ops e0' = some e' ∧ AgreeOff sg' e e' :=
  EvalProofs.weight_only_equiv_conv S sg sg' hsk hd hord e0 e0' href hconst e hrun

/-! ## non-vacuity: a concrete instance satisfying all hypotheses -/

namespace Witness

def t (name : String) (buffer : Nat) : Tensor := { name := name, dtype := 0, shape := [2], buffer := buffer }

/-- input subgraph: one FULLY_CONNECTED-like operator `2 := op(0, 1)`, tensor 1 a constant -/
def sg : Subgraph :=
  { tensors := [t "x" 0, t "w" 1, t "y" 0],
    ops := [{ code := 9, inputs := [0, 1], outputs := [2], orig := some 0 }],
    inputs := [0], outputs := [2] }

/-- rewritten subgraph: `3 := DEQUANTIZE(1)` inserted, the operator now reads `[0, 3]` -/
def sg' : Subgraph :=
  { tensors := [t "x" 0, t "w" 1, t "y" 0, t "w_dequant" 0],
    ops := [{ code := 6, inputs := [1], outputs := [3], orig := none },
            { code := 9, inputs := [0, 3], outputs := [2], orig := some 0 }],
    inputs := [0], outputs := [2] }

/-- kernels over `Nat`: every original operator sums its operands, DEQUANTIZE doubles -/
def S : Sem Nat :=
  { op := fun _ args => some [args.foldl (fun a x => a + x.getD 0) 0],
    ins := fun _ v => 2 * v }

/-- rewritten model: input `5`, stored constant `7` -/
def e0' : Env Nat := fun x => if x = 0 then some 5 else if x = 1 then some 7 else none
/-- reference model: input `5`, dequantized constant `14` -/
def e0 : Env Nat := fun x => if x = 0 then some 5 else if x = 1 then some 14 else none

theorem shape : Skeleton.sameSkeleton sg sg' = true ∧ deqOnConst sg' = true ∧
    Eval.insBeforeUse sg' = true ∧
    sg'.outputs.all (fun t => !(insInputs sg').contains t && !(insOutputs sg').contains t) = true := by
  decide

theorem refEnv : RefEnv S sg' e0' e0 := by
  have hi : insInputs sg' = [1] := by decide
  have ho : insOutputs sg' = [3] := by decide
  have hops : insOps sg' = [{ code := 6, inputs := [1], outputs := [3], orig := none }] := by decide
  refine ⟨?_, ?_, ?_⟩
  · intro x hx
    rw [hi] at hx
    have : x ≠ 1 := by simpa using hx
    simp [e0, e0', this]
  · intro o ho' c n hc hn
    rw [hops] at ho'
    simp only [List.mem_singleton] at ho'
    subst ho'
    simp only [List.cons.injEq, and_true] at hc hn
    subst hc hn
    rfl
  · intro n hn
    rw [ho] at hn
    simp only [List.mem_singleton] at hn
    subst hn
    rfl

theorem runs : ∃ e', run S sg'.ops e0' = some e' ∧ e' 2 = some 19 := ⟨_, rfl, rfl⟩

theorem const_data : ∀ c ∈ insInputs sg', e0' c ≠ none := by
  have hi : insInputs sg' = [1] := by decide
  intro c hc
  rw [hi] at hc
  simp only [List.mem_singleton] at hc
  subst hc
  simp [e0']

end Witness

/-- the hypotheses of `weight_only_equiv` / `weight_only_outputs` (and of the converse) are jointly
    satisfiable, and the conclusion then pins the reference run's output to the rewritten run's -/
example : ∃ (sg sg' : Subgraph) (S : Sem Nat) (e0 e0' e' : Env Nat),
    Skeleton.sameSkeleton sg sg' = true ∧ deqOnConst sg' = true ∧
    sg'.outputs.all (fun t => !(insInputs sg').contains t && !(insOutputs sg').contains t) = true ∧
    RefEnv S sg' e0' e0 ∧ run S sg'.ops e0' = some e' ∧ e' 2 = some 19 := by
  obtain ⟨e', h1, h2⟩ := Witness.runs
  exact ⟨Witness.sg, Witness.sg', Witness.S, Witness.e0, Witness.e0', e',
    Witness.shape.1, Witness.shape.2.1, Witness.shape.2.2.2, Witness.refEnv, h1, h2⟩

/-- … and applying the theorem to the witness gives the expected reference output -/
example : ∃ e, run Witness.S Witness.sg.ops Witness.e0 = some e ∧ e 2 = some 19 := by
  obtain ⟨e', h1, h2⟩ := Witness.runs
  obtain ⟨_, e, hr, hag⟩ := weight_only_outputs Witness.S Witness.sg Witness.sg'
    Witness.shape.1 Witness.shape.2.1 Witness.shape.2.2.2 Witness.e0 Witness.e0' Witness.refEnv e' h1
  exact ⟨e, hr, by rw [hag 2 (by decide)]; exact h2⟩

/-- the converse's hypotheses are satisfiable as well -/
example : ∃ e', run Witness.S Witness.sg'.ops Witness.e0' = some e' :=
  have ⟨e, hr⟩ : ∃ e, run Witness.S Witness.sg.ops Witness.e0 = some e := ⟨_, rfl⟩
  have ⟨e', h, _⟩ := weight_only_equiv_conv Witness.S Witness.sg Witness.sg' Witness.shape.1
    Witness.shape.2.1 Witness.shape.2.2.1 Witness.e0 Witness.e0' Witness.refEnv Witness.const_data e hr
  ⟨e', h⟩

end C06
