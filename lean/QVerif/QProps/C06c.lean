import QProofs.EmuSemMain
/-!
# C06c — the EMULATED_SUBCHANNEL operator pattern computes FULLY_CONNECTED on the dequantized blockwise weight

`QProps/C06.lean` covers the float-compute modes realised by an inserted DEQUANTIZE.  BLOCKWISE weights are
realised differently: `transformations/emulated_subchannel.py` (graph-level model `QModel/Emulated.lean`,
well-formedness `QProps/C01c.lean`) REPLACES the FULLY_CONNECTED operator by

    RESHAPE(x : [d0, d1, B*S] → [d0*d1, B, 1, S]) → BATCH_MATMUL(·, Q : [1, B, S, C]) → MUL(·, scale)
      → SUM(axis 1, keep_dims) → RESHAPE(→ shape of the result tensor) [→ ADD(bias)] [→ RELU]

This file states what that pattern COMPUTES, over the denotational semantics `QModel/EmuSem.lean`.

## Assumptions (explicit, none is an axiom)

* The runtime's kernels implement the operators of `QModel/EmuSem.lean` (row-major dense tensors; RESHAPE keeps the
  data; BATCH_MATMUL without adjoints broadcasting the leading dimension 1 of its right operand; MUL with numpy
  broadcasting; SUM over axis 1 with keep_dims; ADD of a `[C]` vector along the last dimension; RELU;
  FULLY_CONNECTED `y[n][c] = Σ_f x[n][f] * w[c][f] + bias[c]`) on float32, rounding each arithmetic operation.
  The theorems are about the EXACT operators over `Rat` — the same discipline as `C06.weight_only_equiv`, which is
  about abstract kernels: what is proved is that the REWRITE is the identity of the mathematical function, not
  that float32 evaluation of the two sides agrees bit for bit (it does not: the summation order differs,
  `Σ_b (Σ_k …) * s` against `Σ_f …`).
* The integer codes are read as the numbers they denote (`Q : Nd.Arr Rat` holds integers in the instances).
* `Q[0][b][k][c]` is the code of `w[c][b*S + k]` (`uniform_quantize_for_emulated_subchannel`: transpose, then
  reshape) — this is the DEFINITION `EmuSem.dequantBlock`; `Witness.no_transpose_differs` shows it matters.
* The last dimension of the activation equals the weight's input dimension `F = B*S` (hypothesis `hx`).
* No data-length hypothesis is needed: `EmuSem.get` answers 0 outside the data on both sides alike.
-/
open EmuSem

namespace C06

/-! ## reading the two sides -/

/-- the dequantized weight: `ŵ[c][b*S + k] = Q[0][b][k][c] * scale[0][b or 0][0][c]` -/
theorem dequantBlock_elements {q scale : T} {B S C e : Nat} (hq : q.shape = [1, B, S, C])
    (hs : scale.shape = [1, e, 1, C]) (he : e = 1 ∨ e = B) :
    ∃ wq, dequantBlock q scale = some wq ∧ wq.shape = [C, B * S] ∧ wq.data.length = C * (B * S) ∧
      ∀ c b k, c < C → b < B → k < S →
        get wq (c * (B * S) + (b * S + k)) =
          get q (flat4 B S C 0 b k c) * get scale (flat4 e 1 C 0 (bi e b) 0 c) :=
  EmuSemProofs.dequantBlock_spec hq hs he

/-- the reference operator: `y[n][c] = Σ_f x[n][f] * w[c][f] + bias[c]` -/
theorem fullyConnected_elements {x w : T} {bias : Option T} {d0 d1 F C : Nat} (keep : Bool)
    (hx : x.shape = [d0, d1, F]) (hw : w.shape = [C, F]) (hb : ∀ b, bias = some b → b.shape = [C]) :
    ∃ y, fullyConnected keep x w bias = some y ∧ y.shape = fcOutShape keep d0 d1 C ∧
      y.data.length = d0 * d1 * C ∧
      ∀ n c, n < d0 * d1 → c < C →
        get y (n * C + c) = sumN F (fun f => get x (n * F + f) * get w (c * F + f)) + biasAt bias c :=
  EmuSemProofs.fullyConnected_spec keep hx hw (EmuSemProofs.biasOK_of hb)

/-- every operator of the pattern accepts its operands and the intermediate tensors have exactly the shapes the
    transformation records for the new tensors (`bmm_input_shape`, `intermediate_tensor_shape` twice,
    `sum_output_shape`; `bmmShape`, `midShape`, `sumShape` of `Emulated.io`) -/
theorem emulated_pattern_stage_shapes (d0 d1 B S C e : Nat) (x q scale : T) (hx : x.shape = [d0, d1, B * S])
    (hq : q.shape = [1, B, S, C]) (hs : scale.shape = [1, e, 1, C]) (he : e = 1 ∨ e = B) :
    ∃ t1 t2 t3 t4 : T, reshape x [d0 * d1, B, 1, S] = some t1 ∧ t1.shape = [d0 * d1, B, 1, S] ∧
      batchMatMul t1 q = some t2 ∧ t2.shape = [d0 * d1, B, 1, C] ∧
      mulBroadcast t2 scale = some t3 ∧ t3.shape = [d0 * d1, B, 1, C] ∧
      sumAxis1KeepDims t3 = some t4 ∧ t4.shape = [d0 * d1, 1, 1, C] :=
  EmuSemProofs.pattern_stage_shapes hx hq hs he

/-! ## (a) the pattern without ADD / RELU -/

/-- **C06c (a)**: for all shapes and all data, with the scales laid out `[1, 1, 1, C]` (`e = 1`) or
    `[1, B, 1, C]` (`e = B`), the pattern RESHAPE → BATCH_MATMUL → MUL → SUM → RESHAPE succeeds and yields
    exactly FULLY_CONNECTED (no bias) of `x` with the dequantized weight, in the shape of the operator's result
    tensor (`[d0, d1, C]` with keep_num_dims, `[d0*d1, C]` without). -/
theorem emulated_pattern_computes_fc (keep : Bool) (d0 d1 B S C e : Nat) (x q scale : T)
    (hx : x.shape = [d0, d1, B * S]) (hq : q.shape = [1, B, S, C]) (hs : scale.shape = [1, e, 1, C])
    (he : e = 1 ∨ e = B) :
    ∃ wq y : T, dequantBlock q scale = some wq ∧ wq.shape = [C, B * S] ∧
      fullyConnected keep x wq none = some y ∧
      pattern (fcOutShape keep d0 d1 C) x q scale none false = some y :=
  EmuSemProofs.pattern_eq_fc keep false hx hq hs he rfl

/-- (a), one scale per output channel: the layout the statistics produce today -/
theorem emulated_pattern_computes_fc_per_channel (keep : Bool) (d0 d1 B S C : Nat) (x q scale : T)
    (hx : x.shape = [d0, d1, B * S]) (hq : q.shape = [1, B, S, C]) (hs : scale.shape = [1, 1, 1, C]) :
    ∃ wq y : T, dequantBlock q scale = some wq ∧ wq.shape = [C, B * S] ∧
      fullyConnected keep x wq none = some y ∧
      pattern (fcOutShape keep d0 d1 C) x q scale none false = some y :=
  emulated_pattern_computes_fc keep d0 d1 B S C 1 x q scale hx hq hs (Or.inl rfl)

/-- (a), one scale per block and output channel -/
theorem emulated_pattern_computes_fc_per_block (keep : Bool) (d0 d1 B S C : Nat) (x q scale : T)
    (hx : x.shape = [d0, d1, B * S]) (hq : q.shape = [1, B, S, C]) (hs : scale.shape = [1, B, 1, C]) :
    ∃ wq y : T, dequantBlock q scale = some wq ∧ wq.shape = [C, B * S] ∧
      fullyConnected keep x wq none = some y ∧
      pattern (fcOutShape keep d0 d1 C) x q scale none false = some y :=
  emulated_pattern_computes_fc keep d0 d1 B S C B x q scale hx hq hs (Or.inr rfl)

/-! ## (b) with the ADD and RELU tails -/

/-- **C06c (b)**: with the optional ADD (present iff the operator had a bias operand, of shape `[C]`) and the
    optional RELU (present iff the fused activation function was RELU) the pattern yields the reference operator
    with that bias and that fused activation function. -/
theorem emulated_pattern_computes_fc_act (keep relu? : Bool) (d0 d1 B S C e : Nat) (x q scale : T)
    (bias : Option T) (hx : x.shape = [d0, d1, B * S]) (hq : q.shape = [1, B, S, C])
    (hs : scale.shape = [1, e, 1, C]) (he : e = 1 ∨ e = B) (hb : ∀ b, bias = some b → b.shape = [C]) :
    ∃ wq y : T, dequantBlock q scale = some wq ∧ wq.shape = [C, B * S] ∧
      fullyConnectedAct keep x wq bias relu? = some y ∧
      pattern (fcOutShape keep d0 d1 C) x q scale bias relu? = some y :=
  EmuSemProofs.pattern_eq_fcAct keep relu? hx hq hs he (EmuSemProofs.biasOK_of hb)

/-- (b), ADD only: `fullyConnected x ŵ bias` -/
theorem emulated_pattern_bias (keep : Bool) (d0 d1 B S C e : Nat) (x q scale b : T)
    (hx : x.shape = [d0, d1, B * S]) (hq : q.shape = [1, B, S, C]) (hs : scale.shape = [1, e, 1, C])
    (he : e = 1 ∨ e = B) (hb : b.shape = [C]) :
    ∃ wq y : T, dequantBlock q scale = some wq ∧ fullyConnected keep x wq (some b) = some y ∧
      pattern (fcOutShape keep d0 d1 C) x q scale (some b) false = some y := by
  obtain ⟨wq, y, h1, _, h2, h3⟩ := EmuSemProofs.pattern_eq_fc keep false (bias := some b) hx hq hs he
    (EmuSemProofs.biasOK_of (by intro b' h; cases h; exact hb))
  exact ⟨wq, y, h1, h2, h3⟩

/-- (b), ADD and RELU: `relu (fullyConnected x ŵ bias)` -/
theorem emulated_pattern_bias_relu (keep : Bool) (d0 d1 B S C e : Nat) (x q scale b : T)
    (hx : x.shape = [d0, d1, B * S]) (hq : q.shape = [1, B, S, C]) (hs : scale.shape = [1, e, 1, C])
    (he : e = 1 ∨ e = B) (hb : b.shape = [C]) :
    ∃ wq y : T, dequantBlock q scale = some wq ∧ fullyConnected keep x wq (some b) = some y ∧
      pattern (fcOutShape keep d0 d1 C) x q scale (some b) true = some (relu y) := by
  obtain ⟨wq, y, h1, _, h2, h3⟩ := EmuSemProofs.pattern_eq_fc keep true (bias := some b) hx hq hs he
    (EmuSemProofs.biasOK_of (by intro b' h; cases h; exact hb))
  exact ⟨wq, y, h1, h2, h3⟩

/-- (b), RELU only: `relu (fullyConnected x ŵ)` -/
theorem emulated_pattern_relu (keep : Bool) (d0 d1 B S C e : Nat) (x q scale : T)
    (hx : x.shape = [d0, d1, B * S]) (hq : q.shape = [1, B, S, C]) (hs : scale.shape = [1, e, 1, C])
    (he : e = 1 ∨ e = B) :
    ∃ wq y : T, dequantBlock q scale = some wq ∧ fullyConnected keep x wq none = some y ∧
      pattern (fcOutShape keep d0 d1 C) x q scale none true = some (relu y) := by
  obtain ⟨wq, y, h1, _, h2, h3⟩ := EmuSemProofs.pattern_eq_fc keep true (bias := none) hx hq hs he rfl
  exact ⟨wq, y, h1, h2, h3⟩

/-! ## (c) against the float operator -/

/-- **C06c (c)**: let `w : [C, B*S]` be the float weight and suppose the value law of the stored codes gives
    `|ŵ[c][f] − w[c][f]| ≤ err c` for the dequantized weight `ŵ`.  Then the pattern and the float operator (same
    bias, same fused activation) both succeed, with the same shape, and every output differs by at most
    `(Σ_f |x[n][f]|) * err c`. -/
theorem emulated_pattern_close_to_float (keep relu? : Bool) (d0 d1 B S C e : Nat) (x q scale w : T)
    (bias : Option T) (hx : x.shape = [d0, d1, B * S]) (hq : q.shape = [1, B, S, C])
    (hs : scale.shape = [1, e, 1, C]) (he : e = 1 ∨ e = B) (hb : ∀ b, bias = some b → b.shape = [C])
    (hw : w.shape = [C, B * S]) (err : Nat → Rat)
    (hval : ∀ wq, dequantBlock q scale = some wq → ∀ c f, c < C → f < B * S →
      |get wq (c * (B * S) + f) - get w (c * (B * S) + f)| ≤ err c) :
    ∃ p y : T, pattern (fcOutShape keep d0 d1 C) x q scale bias relu? = some p ∧
      fullyConnectedAct keep x w bias relu? = some y ∧ p.shape = y.shape ∧
      ∀ n c, n < d0 * d1 → c < C →
        |get p (n * C + c) - get y (n * C + c)| ≤ sumN (B * S) (fun f => |get x (n * (B * S) + f)|) * err c :=
  EmuSemProofs.pattern_close_to_fc keep relu? hx hq hs he (EmuSemProofs.biasOK_of hb) hw err hval

/-! ## (d) closed instances: `d0 = 1, d1 = 2, B = 2, S = 2, C = 3` -/

deriving instance DecidableEq for Nd.Arr

namespace EmuWitness

/-- activation `[1, 2, 4]` -/
def x : T := ⟨[1, 2, 4], [1, -2, 3, 1/2, 0, 5, -1, 2]⟩
/-- codes `[1, 2, 2, 3]`: `Q[0][b][k][c]` is the code of `w[c][2*b + k]` -/
def q : T := ⟨[1, 2, 2, 3], [3, -1, 2, 0, 4, -5, 7, 1, -2, -3, 2, 6]⟩
/-- the same codes in the weight's own layout `[C, F]`, merely RESHAPED to `[1, 2, 2, 3]` (no transpose) -/
def qNoTranspose : T := ⟨[1, 2, 2, 3], [3, 0, 7, -3, -1, 4, 1, 2, 2, -5, -2, 6]⟩
/-- one scale per channel -/
def sc : T := ⟨[1, 1, 1, 3], [1/2, 1/4, 2]⟩
/-- one scale per block and channel -/
def sb : T := ⟨[1, 2, 1, 3], [1/2, 1/4, 2, 1, 1/8, 3]⟩
def bias : T := ⟨[3], [1, -100, 1/3]⟩
/-- a float weight within `err = [1/4, 1/16, 1/2]` (per row) of the per-block dequantized weight -/
def w : T := ⟨[3, 4], [13/8, -1/10, 29/4, -3, -1/4, 17/16, 1/8, 3/16, 9/2, -10, -19/3, 73/4]⟩
def err : Nat → Rat := fun c => [1/4, 1/16, 1/2].getD c 0

/-- the dequantized weights of the two layouts -/
theorem wq_per_channel : dequantBlock q sc =
    some ⟨[3, 4], [3/2, 0, 7/2, -3/2, -1/4, 1, 1/4, 1/2, 4, -10, -4, 12]⟩ := by decide +kernel
theorem wq_per_block : dequantBlock q sb =
    some ⟨[3, 4], [3/2, 0, 7, -3, -1/4, 1, 1/8, 1/4, 4, -10, -6, 18]⟩ := by decide +kernel

/-- the pattern evaluated: per-channel scales, no tail -/
theorem pattern_per_channel : pattern [1, 2, 3] x q sc none false =
    some ⟨[1, 2, 3], [45/4, -5/4, 18, -13/2, 23/4, -22]⟩ := by decide +kernel
/-- … and the reference evaluated on the dequantized weight: the same tensor -/
theorem fc_per_channel :
    fullyConnected true x ⟨[3, 4], [3/2, 0, 7/2, -3/2, -1/4, 1, 1/4, 1/2, 4, -10, -4, 12]⟩ none =
    some ⟨[1, 2, 3], [45/4, -5/4, 18, -13/2, 23/4, -22]⟩ := by decide +kernel

/-- per-block scales: no tail / ADD / ADD and RELU / result tensor recorded without keep_num_dims -/
theorem pattern_per_block : pattern [1, 2, 3] x q sb none false =
    some ⟨[1, 2, 3], [21, -7/4, 15, -13, 43/8, -8]⟩ := by decide +kernel
theorem pattern_per_block_bias : pattern [1, 2, 3] x q sb (some bias) false =
    some ⟨[1, 2, 3], [22, -407/4, 46/3, -12, -757/8, -23/3]⟩ := by decide +kernel
theorem pattern_per_block_bias_relu : pattern [1, 2, 3] x q sb (some bias) true =
    some ⟨[1, 2, 3], [22, 0, 46/3, 0, 0, 0]⟩ := by decide +kernel
theorem pattern_per_block_flat : pattern [2, 3] x q sb (some bias) true =
    some ⟨[2, 3], [22, 0, 46/3, 0, 0, 0]⟩ := by decide +kernel
theorem fc_per_block_bias_relu :
    fullyConnectedAct true x ⟨[3, 4], [3/2, 0, 7, -3, -1/4, 1, 1/8, 1/4, 4, -10, -6, 18]⟩ (some bias) true =
    some ⟨[1, 2, 3], [22, 0, 46/3, 0, 0, 0]⟩ := by decide +kernel

/-- the hypotheses of (a) hold for the instance (both layouts), and the theorem's conclusion is the evaluated
    tensor -/
example : ∃ wq y : T, dequantBlock q sc = some wq ∧ wq.shape = [3, 2 * 2] ∧
    fullyConnected true x wq none = some y ∧ pattern [1, 2, 3] x q sc none false = some y :=
  emulated_pattern_computes_fc_per_channel true 1 2 2 2 3 x q sc rfl rfl rfl
example : ∃ wq y : T, dequantBlock q sb = some wq ∧ wq.shape = [3, 2 * 2] ∧
    fullyConnected true x wq none = some y ∧ pattern [1, 2, 3] x q sb none false = some y :=
  emulated_pattern_computes_fc_per_block true 1 2 2 2 3 x q sb rfl rfl rfl
example : ∃ wq y : T, dequantBlock q sb = some wq ∧ fullyConnected false x wq (some bias) = some y ∧
    pattern [1 * 2, 3] x q sb (some bias) true = some (relu y) :=
  emulated_pattern_bias_relu false 1 2 2 2 3 2 x q sb bias rfl rfl rfl (Or.inr rfl) rfl

/-- the value-law hypothesis of (c) holds for `w`, `err` -/
theorem hval : ∀ wq, dequantBlock q sb = some wq → ∀ c f, c < 3 → f < 2 * 2 →
    |get wq (c * (2 * 2) + f) - get w (c * (2 * 2) + f)| ≤ err c := by
  intro wq h
  rw [wq_per_block] at h
  cases h
  have h' : ∀ c, c < 3 → ∀ f, f < 2 * 2 →
      |get ⟨[3, 4], [3/2, 0, 7, -3, -1/4, 1, 1/8, 1/4, 4, -10, -6, 18]⟩ (c * (2 * 2) + f) -
        get w (c * (2 * 2) + f)| ≤ err c := by decide +kernel
  exact fun c f hc hf => h' c hc f hf

/-- the float operator on `w` -/
theorem fc_float : fullyConnectedAct true x w (some bias) false =
    some ⟨[1, 2, 3], [923/40, -3261/32, 359/24, -51/4, -1511/16, -41/6]⟩ := by decide +kernel

/-- (c) applied to the instance -/
example : ∃ p y : T, pattern [1, 2, 3] x q sb (some bias) false = some p ∧
    fullyConnectedAct true x w (some bias) false = some y ∧ p.shape = y.shape ∧
    ∀ n c, n < 1 * 2 → c < 3 →
      |get p (n * 3 + c) - get y (n * 3 + c)| ≤ sumN (2 * 2) (fun f => |get x (n * (2 * 2) + f)|) * err c :=
  emulated_pattern_close_to_float true false 1 2 2 2 3 2 x q sb w (some bias) rfl rfl rfl (Or.inr rfl)
    (by intro b h; cases h; rfl) rfl err hval

/-- … and the bound is not slack by orders of magnitude: output `[0][0][0]` moves by `43/40`, the bound is `13/8` -/
example : |(22 : Rat) - 923/40| = 43/40 ∧ sumN (2 * 2) (fun f => |get x f|) * err 0 = 13/8 := by
  decide +kernel

/-! ### the order matters: variants of the pattern that do NOT compute the operator -/

/-- the pattern (no tail) with the SUM over axis `ax` -/
def patternAxis (ax : Nat) (outShape : List Nat) (x q scale : T) : Option T :=
  match x.shape, q.shape with
  | [d0, d1, _], [_, b, s, _] =>
    (reshape x [d0 * d1, b, 1, s]).bind fun t1 =>
    (batchMatMul t1 q).bind fun t2 =>
    (mulBroadcast t2 scale).bind fun t3 =>
    (sumAxisKeepDims ax t3).bind fun t4 =>
    reshape t4 outShape
  | _, _ => none

/-- axis 1 is the pattern -/
theorem patternAxis_one (outShape : List Nat) (x q scale : T) :
    patternAxis 1 outShape x q scale = pattern outShape x q scale none false := by
  unfold patternAxis pattern
  split
  · rename_i hx hq
    simp [hx, hq, sumAxis1KeepDims, addBiasOpt]
  · rename_i h
    split
    · rename_i hx hq
      exact (h _ _ _ _ _ _ _ hx hq).elim
    · rfl

/-- SUM over axis 2 (the unit axis) or 3 (the channels): the last RESHAPE is rejected (12 resp. 4 elements for 6) -/
theorem axis2_fails : patternAxis 2 [1, 2, 3] x q sc = none := by decide +kernel
theorem axis3_fails : patternAxis 3 [1, 2, 3] x q sc = none := by decide +kernel

/-- SUM over axis 0 (the rows; here `d0*d1 = B`): every operator accepts its operands, the result has the
    right shape — and the wrong values -/
theorem axis0_differs : patternAxis 0 [1, 2, 3] x q sc = some ⟨[1, 2, 3], [3/2, 11/4, -26, 13/4, 7/4, 22]⟩ ∧
    patternAxis 0 [1, 2, 3] x q sc ≠ pattern [1, 2, 3] x q sc none false := by decide +kernel

/-- the codes in the weight's own layout, reshaped WITHOUT the transpose of
    `uniform_quantize_for_emulated_subchannel`: shapes fit, values differ -/
theorem no_transpose_differs :
    pattern [1, 2, 3] x qNoTranspose sc none false = some ⟨[1, 2, 3], [19/4, 7/4, 16, -13, -11/4, 60]⟩ ∧
    pattern [1, 2, 3] x qNoTranspose sc none false ≠ pattern [1, 2, 3] x q sc none false := by decide +kernel

/-- the two scale layouts give different operators: per-block scales are not a notational variant -/
theorem layouts_differ : pattern [1, 2, 3] x q sb none false ≠ pattern [1, 2, 3] x q sc none false := by
  decide +kernel

end EmuWitness

end C06
