import QProofs.Locality
/-!
# C19 — each subgraph is transformed as if it stood alone (whole run)

What the performer does to subgraph `j` of a multi-subgraph model is exactly what it does to the
single-subgraph model extracted from it (`Locality.extract`: the subgraph alone, all buffers and
opcodes kept, its signatures re-indexed to 0) with the instructions of that subgraph
(`Locality.restrict`), up to the position of QUANTIZE/DEQUANTIZE in the shared opcode table
(`Locality.view` resolves the operator codes through the table).

The statement needs one well-formedness fact: the operators of subgraph `j` refer to existing
entries of the opcode table (`hcodes`).  Without it the statement is false
(`C19.hcodes_needed`): a dangling code starts to resolve as soon as an instruction of ANOTHER
subgraph appends QUANTIZE/DEQUANTIZE to the shared table, which the stand-alone run never sees.
-/
open Graph Perform

namespace C19

/-- **C19.** -/
theorem performer_local (pt : PTable) (m m' : Model) (tis : List TInsts) (j : Nat) (sg : Subgraph)
    (hsg : m.subgraphs[j]? = some sg)
    (hcodes : ∀ o ∈ sg.ops, o.code < m.opcodes.length)
    (h : transformGraph pt m tis = .ok m') :
    ∃ m1', transformGraph pt (Locality.extract m j sg) (Locality.restrict tis j) = .ok m1' ∧
      Locality.view m' j = Locality.view m1' 0 ∧
      Locality.sigsOf m' j = m1'.sigs :=
  Locality.performer_local pt m m' tis j sg hsg hcodes h

/-! ## witnesses -/

namespace Witness

def t (n : String) (b : Nat) : Tensor := { name := n, dtype := 0, shape := [2], buffer := b }

/-- `y := OP9(x, w)`, `w` constant in buffer `b` -/
def sgW (b : Nat) : Subgraph :=
  { tensors := [t "x" 0, t "w" b, t "y" 0],
    ops := [{ code := 0, inputs := [0, 1], outputs := [2], orig := some 0 }],
    inputs := [0], outputs := [2] }

def m : Model :=
  { subgraphs := [sgW 1, sgW 2]
    buffers := [none, some (.inl 0), some (.inl 1)]
    opcodes := [9]
    sigs := [{ key := "a", sg := 0, inputs := [("x", 0)], outputs := [("y", 2)] },
             { key := "b", sg := 1, inputs := [("x", 0)], outputs := [("y", 2)] }] }

/-- one uniform 8-bit parameter object with packed data -/
def pt : PTable := [(0, { uniform := true, bits := 8, hasData := true })]

/-- (i) DEQUANTIZE after the constant `w` of subgraph 0, (ii) QUANTIZE after the input `x` of subgraph 1 -/
def tis : List TInsts :=
  [{ name := "w", sg := 0,
     insts := [{ xf := .addDequant, tensor := 1, producer := -1, consumers := [0], param := some 0 }] },
   { name := "x", sg := 1,
     insts := [{ xf := .addQuant, tensor := 0, producer := -1, consumers := [0], param := some 0 }] }]

/-- result of the big run: DEQUANTIZE is opcode 1, QUANTIZE is opcode **2** -/
def m' : Model :=
  { subgraphs :=
      [{ tensors := [t "x" 0, { name := "w", dtype := 9, shape := [2], buffer := 1, quant := some 0 }, t "y" 0,
                     t "w_dequant" 0],
         ops := [{ code := 1, inputs := [1], outputs := [3] },
                 { code := 0, inputs := [0, 3], outputs := [2], orig := some 0 }],
         inputs := [0], outputs := [2] },
       { tensors := [t "x" 0, t "w" 2, t "y" 0,
                     { name := "x_quantized", dtype := 9, shape := [2], buffer := 0, quant := some 0 }],
         ops := [{ code := 2, inputs := [0], outputs := [3] },
                 { code := 0, inputs := [3, 1], outputs := [2], orig := some 0 }],
         inputs := [0], outputs := [2] }]
    buffers := [none, some (.inr 0), some (.inl 1)]
    opcodes := [9, 6, 114]
    sigs := m.sigs }

/-- result of the stand-alone run of subgraph 1: QUANTIZE is opcode **1** -/
def m1' : Model :=
  { subgraphs :=
      [{ tensors := [t "x" 0, t "w" 2, t "y" 0,
                     { name := "x_quantized", dtype := 9, shape := [2], buffer := 0, quant := some 0 }],
         ops := [{ code := 1, inputs := [0], outputs := [3] },
                 { code := 0, inputs := [3, 1], outputs := [2], orig := some 0 }],
         inputs := [0], outputs := [2] }]
    buffers := [none, some (.inl 0), some (.inl 1)]
    opcodes := [9, 114]
    sigs := [{ key := "b", sg := 0, inputs := [("x", 0)], outputs := [("y", 2)] }] }

theorem big_run : transformGraph pt m tis = .ok m' := by rfl

theorem small_run : transformGraph pt (Locality.extract m 1 (sgW 2)) (Locality.restrict tis 1) = .ok m1' := by
  rfl

theorem codes_ok : ∀ o ∈ (sgW 2).ops, o.code < m.opcodes.length := by decide

/-- dangling opcode in subgraph 1 (code 1, table `[9]`) -/
def sgBad : Subgraph :=
  { sgW 2 with ops := [{ code := 1, inputs := [0, 1], outputs := [2], orig := some 0 }] }

def mBad : Model := { m with subgraphs := [sgW 1, sgBad] }

def mBad' : Model :=
  { m' with subgraphs := [m'.subgraphs[0]!, sgBad], opcodes := [9, 6] }

theorem bad_run : transformGraph pt mBad (tis.take 1) = .ok mBad' := by rfl

theorem bad_small_run :
    transformGraph pt (Locality.extract mBad 1 sgBad) (Locality.restrict (tis.take 1) 1) =
      .ok (Locality.extract mBad 1 sgBad) := by rfl

end Witness

/-- NON-VACUITY: the hypotheses of `performer_local` hold on a two-subgraph model whose two runs
    put QUANTIZE at DIFFERENT opcode indices (2 in the shared table, 1 stand-alone) … -/
example : ∃ m', Witness.m.subgraphs[1]? = some (Witness.sgW 2) ∧
    (∀ o ∈ (Witness.sgW 2).ops, o.code < Witness.m.opcodes.length) ∧
    transformGraph Witness.pt Witness.m Witness.tis = .ok m' ∧
    (m'.subgraphs[1]?).map (fun s => s.ops.map (·.code)) = some [2, 0] :=
  ⟨Witness.m', rfl, Witness.codes_ok, Witness.big_run, rfl⟩

/-- … and the theorem applied to it gives the conclusion for `j = 1`: the stand-alone run succeeds and
    subgraph 1 of the big result looks like subgraph 0 of the small result. -/
example : ∃ m1', transformGraph Witness.pt (Locality.extract Witness.m 1 (Witness.sgW 2))
      (Locality.restrict Witness.tis 1) = .ok m1' ∧
    Locality.view Witness.m' 1 = Locality.view m1' 0 ∧ Locality.sigsOf Witness.m' 1 = m1'.sigs :=
  performer_local Witness.pt Witness.m Witness.m' Witness.tis 1 (Witness.sgW 2) rfl Witness.codes_ok
    Witness.big_run

/-- the raw operator codes of the two results really differ (only the resolved view agrees) -/
example : (Witness.m'.subgraphs[1]?).map (fun s => s.ops.map (·.code)) = some [2, 0] ∧
    (Witness.m1'.subgraphs[0]?).map (fun s => s.ops.map (·.code)) = some [1, 0] ∧
    Locality.view Witness.m' 1 = Locality.view Witness.m1' 0 := ⟨rfl, rfl, rfl⟩

/-- **COUNTEREXAMPLE to the statement without `hcodes`.**  Subgraph 1 has an operator with the dangling
    code 1 (the table is `[9]`); the only instruction inserts a DEQUANTIZE in subgraph 0, which appends
    code 6 at index 1 of the SHARED table.  In the big result the operator of subgraph 1 resolves to
    `some 6`; the stand-alone run of subgraph 1 has nothing to do and the operator resolves to `none`. -/
theorem hcodes_needed :
    ¬ ∀ (pt : PTable) (m m' : Model) (tis : List TInsts) (j : Nat) (sg : Subgraph),
        m.subgraphs[j]? = some sg → transformGraph pt m tis = .ok m' →
        ∃ m1', transformGraph pt (Locality.extract m j sg) (Locality.restrict tis j) = .ok m1' ∧
          Locality.view m' j = Locality.view m1' 0 ∧ Locality.sigsOf m' j = m1'.sigs := by
  intro H
  obtain ⟨m1', h1, h2, -⟩ := H Witness.pt Witness.mBad Witness.mBad' (Witness.tis.take 1) 1 Witness.sgBad rfl
    Witness.bad_run
  rw [Witness.bad_small_run] at h1
  cases h1
  have h3 : (some [some 6] : Option (List (Option Nat))) = some [none] :=
    congrArg (fun v => v.map (fun x => x.2.1.map (·.1))) h2
  exact absurd h3 (by decide)

end C19
