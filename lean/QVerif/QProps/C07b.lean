import QProofs.KernelSpec
import QProps.C07
import QProps.C17
/-!
# C07b — static-range operators: the error of one integer operator over the SPECIFIED kernel semantics

`QProps/C07.lean` proves what the quantizer contributes (`accumulator_exact`, `dot_perturbation`).  This file
closes the loop for ONE operator, over the real-valued TFLite quantization specification of the kernel
(`QProofs/KernelSpec.lean`; the kernels themselves are outside the model):

* integer FULLY_CONNECTED row (`fcRowQ`): operands `qx` with `(sx, zx)`, symmetric weights `qw` with
  `(sw, 0)`, bias code `qb` at scale `sx·sw` (C04 `bias_params`), output `(sy, zy)`:
  `qy = clip(r(acc·(sx·sw/sy)) + zy, qmin, qmax)`, `acc = Σ (qx_i − zx)·qw_i + qb` (`C07.acc`).
* integer ADD (`addQ`): `qy = clip(r((s1(q1−z1) + s2(q2−z2))/sy) + zy, qmin, qmax)`.

`r` is ANY rounding with `|r t − t| ≤ 1/2` (`KernelSpec.IsRounding`; half-to-even `Num.rhe` and
half-away-from-zero `KernelSpec.rha` are instances).  `deq s z q = s·(q − z)`.

**Not modelled**: the kernels' fixed-point rescaling (the real factor `sx·sw/sy` is a 32-bit multiplier and a
shift in `MultiplyByQuantizedMultiplier`; known findings D29/D33 concern it), accumulator overflow, fused
activations.  The theorems are about the real-valued specification.

Hypotheses on the codes are exactly what the library's quantization provides: each dequantized activation
is within `sx/2` of the float activation when that lies in the calibrated (representable) range
(`C17.dq_q_ideal`, `C17.dq_q_rounded`), each dequantized weight within `sw/2` (C05c: clipped elements
included), the bias within `sx·sw/2` unless saturated.  `fc_row_error_quantized` discharges them from the
library's `uniform_quantize` in ideal arithmetic; `fc_row_error_slack` takes arbitrary tolerances
`dx, dw, db` (for the float32 evaluation: `dx = sx·(1/2 + 2^(bits+3)·2^-24)`, C17.dq_q_rounded).

Main results (`F = Σ x_i w_i + b` the float result):
* `fc_row_error`: `|sy(qy − zy) − F| ≤ sy/2 + Σ(|x_i|·sw/2 + |w_i|·sx/2 + sx·sw/4) + sx·sw/2` when `F` lies in
  the representable output range `[sy(qmin − zy), sy(qmax − zy)]`;
* `fc_row_error_sat`: WITHOUT that hypothesis the same bound holds against `F` clipped to that range (the
  nearest representable bound when `F` is outside), and `fc_row_saturates_hi/lo`: when `F` is beyond the
  range by more than the bound, the output code IS `qmax` / `qmin`;
* `fc_row_error_scales` and the instances `fc_row_error_a8w8`, `_a8w4`, `_a16w8`, `_a16w4`: with
  `sx = Rx/Nx`, `sw = Wmax/Nw` (`Rx` the calibrated activation range -- `max(mx,0) − min(mn,0)` for
  asymmetric 8 bit, `Nx = 255`; `max|x|` for symmetric 16 bit, `Nx = 32767` -- and `Wmax = max|w|`,
  `Nw = 127` / `7`), the error is at most `sy/2 + (n·c + c')·Rx·Wmax`: half an output step plus the fixed
  fraction `c = (2Nx + 2Nw + 1)/(4·Nx·Nw)` of the magnitude `Rx·Wmax` per accumulated term:
  `3/508 ≈ 0.59 %` (a8w8), `5/68 ≈ 7.4 %` (a8w4), `≈ 0.395 %` (a16w8), `≈ 7.1 %` (a16w4);
* `fc_row_in_range` (the output code is always in `[qmin, qmax]`: finite), `not_constant` (two inputs whose
  float outputs differ by more than the two bounds get DIFFERENT output codes), `fc_row_not_saturated`;
* `add_error`, `add_error_sat`: `|sy(qy − zy) − (a + b)| ≤ sy/2 + s1/2 + s2/2`.
-/
open KernelSpec Num

set_option autoImplicit false

namespace C07

/-- **integer FC row, saturating form** (no hypothesis on where the float result lies) -/
theorem fc_row_error_sat (r : Rat → Int) (hr : IsRounding r) (sx sw sy : Rat) (hsy : 0 < sy)
    (zx zy qmin qmax : Int) (hq : qmin ≤ qmax)
    (x w : List Rat) (b : Rat) (qx qw : List Int) (qb : Int)
    (hx : List.Forall₂ (fun t q => |t - deq sx zx q| ≤ sx / 2) x qx)
    (hw : List.Forall₂ (fun t (q : Int) => |t - sw * (q : Rat)| ≤ sw / 2) w qw)
    (hb : |b - sx * sw * (qb : Rat)| ≤ sx * sw / 2) :
    |deq sy zy (fcRowQ r sx sw sy zx zy qmin qmax qx qw qb)
        - clipR (dot x w + b) (deq sy zy qmin) (deq sy zy qmax)|
      ≤ sy / 2 + pertSum (sx / 2) (sw / 2) x w + sx * sw / 2 := by
  have := fc_row_sat_gen r hr sx sw sy hsy zx zy qmin qmax hq _ _ _ x w b qx qw qb hx hw hb
  linarith

/-- **C07, one integer fully-connected row**: the dequantized output is within
    `sy/2 + Σ(|x_i|·sw/2 + |w_i|·sx/2 + sx·sw/4) + sx·sw/2` of the float result, provided the float result lies
    in the representable output range -/
theorem fc_row_error (r : Rat → Int) (hr : IsRounding r) (sx sw sy : Rat) (hsy : 0 < sy)
    (zx zy qmin qmax : Int) (hq : qmin ≤ qmax)
    (x w : List Rat) (b : Rat) (qx qw : List Int) (qb : Int)
    (hx : List.Forall₂ (fun t q => |t - deq sx zx q| ≤ sx / 2) x qx)
    (hw : List.Forall₂ (fun t (q : Int) => |t - sw * (q : Rat)| ≤ sw / 2) w qw)
    (hb : |b - sx * sw * (qb : Rat)| ≤ sx * sw / 2)
    (hlo : deq sy zy qmin ≤ dot x w + b) (hhi : dot x w + b ≤ deq sy zy qmax) :
    |deq sy zy (fcRowQ r sx sw sy zx zy qmin qmax qx qw qb) - (dot x w + b)| ≤ fcBound sx sw sy x w := by
  have := fc_row_error_sat r hr sx sw sy hsy zx zy qmin qmax hq x w b qx qw qb hx hw hb
  rwa [clipR_id _ _ _ hlo hhi] at this

/-- the sum in `fcBound` is the one of the statement: `Σ (|x_i|·sw/2 + |w_i|·sx/2 + sx·sw/4)` -/
theorem fcBound_cons (sx sw sy t u : Rat) (ts us : List Rat) :
    fcBound sx sw sy (t :: ts) (u :: us)
      = (|t| * sw / 2 + |u| * sx / 2 + sx * sw / 4) + fcBound sx sw sy ts us := by
  unfold fcBound; simp only [pertSum]; ring

/-- arbitrary operand tolerances (e.g. half a step plus the float32 evaluation slack of C17.dq_q_rounded) -/
theorem fc_row_error_slack (r : Rat → Int) (hr : IsRounding r) (sx sw sy : Rat) (hsy : 0 < sy)
    (zx zy qmin qmax : Int) (hq : qmin ≤ qmax) (dx dw db : Rat)
    (x w : List Rat) (b : Rat) (qx qw : List Int) (qb : Int)
    (hx : List.Forall₂ (fun t q => |t - deq sx zx q| ≤ dx) x qx)
    (hw : List.Forall₂ (fun t (q : Int) => |t - sw * (q : Rat)| ≤ dw) w qw)
    (hb : |b - sx * sw * (qb : Rat)| ≤ db)
    (hlo : deq sy zy qmin ≤ dot x w + b) (hhi : dot x w + b ≤ deq sy zy qmax) :
    |deq sy zy (fcRowQ r sx sw sy zx zy qmin qmax qx qw qb) - (dot x w + b)|
      ≤ sy / 2 + (pertSum dx dw x w + db) := by
  have := fc_row_sat_gen r hr sx sw sy hsy zx zy qmin qmax hq dx dw db x w b qx qw qb hx hw hb
  rwa [clipR_id _ _ _ hlo hhi] at this

/-- saturation above: a float result beyond the range by more than the bound gives the largest code, so the
    dequantized output is the upper end of the representable range -/
theorem fc_row_saturates_hi (r : Rat → Int) (hr : IsRounding r) (sx sw sy : Rat) (hsy : 0 < sy)
    (zx zy qmin qmax : Int) (hq : qmin ≤ qmax)
    (x w : List Rat) (b : Rat) (qx qw : List Int) (qb : Int)
    (hx : List.Forall₂ (fun t q => |t - deq sx zx q| ≤ sx / 2) x qx)
    (hw : List.Forall₂ (fun t (q : Int) => |t - sw * (q : Rat)| ≤ sw / 2) w qw)
    (hb : |b - sx * sw * (qb : Rat)| ≤ sx * sw / 2)
    (hF : deq sy zy qmax + fcBound sx sw sy x w ≤ dot x w + b) :
    fcRowQ r sx sw sy zx zy qmin qmax qx qw qb = qmax := by
  rw [fcRowQ_eq]
  refine requant_saturates_hi r hr sy hsy zy qmin qmax hq _ _ _
    (deqDot_close sx sw zx _ _ _ b qb hb x qx hx w qw hw) ?_
  unfold fcBound at hF; linarith

/-- saturation below -/
theorem fc_row_saturates_lo (r : Rat → Int) (hr : IsRounding r) (sx sw sy : Rat) (hsy : 0 < sy)
    (zx zy qmin qmax : Int) (hq : qmin ≤ qmax)
    (x w : List Rat) (b : Rat) (qx qw : List Int) (qb : Int)
    (hx : List.Forall₂ (fun t q => |t - deq sx zx q| ≤ sx / 2) x qx)
    (hw : List.Forall₂ (fun t (q : Int) => |t - sw * (q : Rat)| ≤ sw / 2) w qw)
    (hb : |b - sx * sw * (qb : Rat)| ≤ sx * sw / 2)
    (hF : dot x w + b ≤ deq sy zy qmin - fcBound sx sw sy x w) :
    fcRowQ r sx sw sy zx zy qmin qmax qx qw qb = qmin := by
  rw [fcRowQ_eq]
  refine requant_saturates_lo r hr sy hsy zy qmin qmax hq _ _ _
    (deqDot_close sx sw zx _ _ _ b qb hb x qx hx w qw hw) ?_
  unfold fcBound at hF; linarith

/-- the output code is always in the output range: outputs are finite -/
theorem fc_row_in_range (r : Rat → Int) (sx sw sy : Rat) (zx zy qmin qmax : Int) (hq : qmin ≤ qmax)
    (qx qw : List Int) (qb : Int) :
    qmin ≤ fcRowQ r sx sw sy zx zy qmin qmax qx qw qb ∧ fcRowQ r sx sw sy zx zy qmin qmax qx qw qb ≤ qmax :=
  C17.clipI_range _ _ _ hq

/-- **the codes the library produces satisfy the hypotheses** (ideal arithmetic): activations quantized
    with `(sx, zx)` at `abits` bits, weights symmetric narrow-range at `wbits` bits, bias symmetric at 32 bits
    with scale `sx·sw`, all inside their representable ranges -/
theorem fc_row_error_quantized (r : Rat → Int) (hr : IsRounding r)
    (abits wbits : Nat) (ha2 : 2 ≤ abits) (ha : abits ≤ 32) (hw2 : 2 ≤ wbits) (hw32 : wbits ≤ 32)
    (anarrow : Bool) (za zw zb : Nat)
    (sx sw sy : Rat) (hsx : 0 < sx) (hsw : 0 < sw) (hsy : 0 < sy) (zx zy qlo qhi : Int) (hq : qlo ≤ qhi)
    (x w : List Rat) (b : Rat)
    (hx : ∀ t ∈ x, deq sx zx (Arith.qmin abits + (if anarrow then 1 else 0)) ≤ t ∧ t ≤ deq sx zx (Arith.qmax abits))
    (hw : ∀ t ∈ w, deq sw 0 (Arith.qmin wbits + 1) ≤ t ∧ t ≤ deq sw 0 (Arith.qmax wbits))
    (hb : deq (sx * sw) 0 (Arith.qmin 32 + 1) ≤ b ∧ b ≤ deq (sx * sw) 0 (Arith.qmax 32))
    (hlo : deq sy zy qlo ≤ dot x w + b) (hhi : dot x w + b ≤ deq sy zy qhi) :
    |deq sy zy (fcRowQ r sx sw sy zx zy qlo qhi
          (x.map (quantIdeal abits anarrow za sx zx)) (w.map (quantIdeal wbits true zw sw 0))
          (quantIdeal 32 true zb (sx * sw) 0 b)) - (dot x w + b)| ≤ fcBound sx sw sy x w := by
  refine fc_row_error r hr sx sw sy hsy zx zy qlo qhi hq x w b _ _ _
    (quantIdeal_list_close abits ha2 ha anarrow za sx hsx zx x hx) ?_ ?_ hlo hhi
  · have := quantIdeal_list_close wbits hw2 hw32 true zw sw hsw 0 w (by simpa using hw)
    simpa only [deq_zero] using this
  · have := quantIdeal_close 32 (by norm_num) (by norm_num) true zb (sx * sw) (mul_pos hsx hsw) 0 b
      (by simpa using hb.1) hb.2
    simpa only [deq_zero] using this

/-! ## the "fixed fraction of the activation magnitude", from the scale definitions -/

/-- scales `sx = Rx/Nx`, `sw = Wmax/Nw`, `|x_i| ≤ Rx`, `|w_i| ≤ Wmax`, `n` accumulated terms: the error is at most
    `sy/2 + (n·(2Nx + 2Nw + 1)/(4·Nx·Nw) + 1/(2·Nx·Nw))·Rx·Wmax` -/
theorem fc_row_error_scales (r : Rat → Int) (hr : IsRounding r) (Nx Nw Rx Wmax : Rat) (hNx : 0 < Nx)
    (hNw : 0 < Nw) (hRx : 0 ≤ Rx) (hWmax : 0 ≤ Wmax) (sy : Rat) (hsy : 0 < sy)
    (zx zy qmin qmax : Int) (hq : qmin ≤ qmax)
    (x w : List Rat) (b : Rat) (qx qw : List Int) (qb : Int)
    (hX : ∀ t ∈ x, |t| ≤ Rx) (hW : ∀ t ∈ w, |t| ≤ Wmax)
    (hx : List.Forall₂ (fun t q => |t - deq (Rx / Nx) zx q| ≤ Rx / Nx / 2) x qx)
    (hw : List.Forall₂ (fun t (q : Int) => |t - Wmax / Nw * (q : Rat)| ≤ Wmax / Nw / 2) w qw)
    (hb : |b - Rx / Nx * (Wmax / Nw) * (qb : Rat)| ≤ Rx / Nx * (Wmax / Nw) / 2)
    (hlo : deq sy zy qmin ≤ dot x w + b) (hhi : dot x w + b ≤ deq sy zy qmax) :
    |deq sy zy (fcRowQ r (Rx / Nx) (Wmax / Nw) sy zx zy qmin qmax qx qw qb) - (dot x w + b)|
      ≤ sy / 2 + ((x.length : Rat) * ((2 * Nx + 2 * Nw + 1) / (4 * Nx * Nw)) + 1 / (2 * Nx * Nw)) * (Rx * Wmax) := by
  have h := fc_row_error r hr (Rx / Nx) (Wmax / Nw) sy hsy zx zy qmin qmax hq x w b qx qw qb hx hw hb hlo hhi
  have hp := pertSum_le (Rx / Nx / 2) (Wmax / Nw / 2) Rx Wmax (by positivity) (by positivity) hRx hWmax x w hX hW
  unfold fcBound at h
  have e : (x.length : Rat) * (Rx * (Wmax / Nw / 2) + Wmax * (Rx / Nx / 2) + Rx / Nx / 2 * (Wmax / Nw / 2))
        + Rx / Nx * (Wmax / Nw) / 2
      = ((x.length : Rat) * ((2 * Nx + 2 * Nw + 1) / (4 * Nx * Nw)) + 1 / (2 * Nx * Nw)) * (Rx * Wmax) := by
    field_simp; ring
  linarith

/-- 8-bit asymmetric activations (`sx = Rx/255`), 8-bit symmetric weights (`sw = Wmax/127`): half an output step
    plus `3/508 ≈ 0.59 %` of `Rx·Wmax` per accumulated term (plus `Rx·Wmax/64770` for the bias) -/
theorem fc_row_error_a8w8 (r : Rat → Int) (hr : IsRounding r) (Rx Wmax : Rat)
    (hRx : 0 ≤ Rx) (hWmax : 0 ≤ Wmax) (sy : Rat) (hsy : 0 < sy)
    (zx zy qmin qmax : Int) (hq : qmin ≤ qmax)
    (x w : List Rat) (b : Rat) (qx qw : List Int) (qb : Int)
    (hX : ∀ t ∈ x, |t| ≤ Rx) (hW : ∀ t ∈ w, |t| ≤ Wmax)
    (hx : List.Forall₂ (fun t q => |t - deq (Rx / 255) zx q| ≤ Rx / 255 / 2) x qx)
    (hw : List.Forall₂ (fun t (q : Int) => |t - Wmax / 127 * (q : Rat)| ≤ Wmax / 127 / 2) w qw)
    (hb : |b - Rx / 255 * (Wmax / 127) * (qb : Rat)| ≤ Rx / 255 * (Wmax / 127) / 2)
    (hlo : deq sy zy qmin ≤ dot x w + b) (hhi : dot x w + b ≤ deq sy zy qmax) :
    |deq sy zy (fcRowQ r (Rx / 255) (Wmax / 127) sy zx zy qmin qmax qx qw qb) - (dot x w + b)|
      ≤ sy / 2 + ((x.length : Rat) * (3 / 508) + 1 / 64770) * (Rx * Wmax) := by
  have := fc_row_error_scales r hr 255 127 Rx Wmax (by norm_num) (by norm_num) hRx hWmax sy hsy zx zy qmin qmax hq
    x w b qx qw qb hX hW hx hw hb hlo hhi
  norm_num at this ⊢
  linarith

/-- 8-bit activations, 4-bit weights (`sw = Wmax/7`): `5/68 ≈ 7.4 %` of `Rx·Wmax` per term -/
theorem fc_row_error_a8w4 (r : Rat → Int) (hr : IsRounding r) (Rx Wmax : Rat)
    (hRx : 0 ≤ Rx) (hWmax : 0 ≤ Wmax) (sy : Rat) (hsy : 0 < sy)
    (zx zy qmin qmax : Int) (hq : qmin ≤ qmax)
    (x w : List Rat) (b : Rat) (qx qw : List Int) (qb : Int)
    (hX : ∀ t ∈ x, |t| ≤ Rx) (hW : ∀ t ∈ w, |t| ≤ Wmax)
    (hx : List.Forall₂ (fun t q => |t - deq (Rx / 255) zx q| ≤ Rx / 255 / 2) x qx)
    (hw : List.Forall₂ (fun t (q : Int) => |t - Wmax / 7 * (q : Rat)| ≤ Wmax / 7 / 2) w qw)
    (hb : |b - Rx / 255 * (Wmax / 7) * (qb : Rat)| ≤ Rx / 255 * (Wmax / 7) / 2)
    (hlo : deq sy zy qmin ≤ dot x w + b) (hhi : dot x w + b ≤ deq sy zy qmax) :
    |deq sy zy (fcRowQ r (Rx / 255) (Wmax / 7) sy zx zy qmin qmax qx qw qb) - (dot x w + b)|
      ≤ sy / 2 + ((x.length : Rat) * (5 / 68) + 1 / 3570) * (Rx * Wmax) := by
  have := fc_row_error_scales r hr 255 7 Rx Wmax (by norm_num) (by norm_num) hRx hWmax sy hsy zx zy qmin qmax hq
    x w b qx qw qb hX hW hx hw hb hlo hhi
  norm_num at this ⊢
  linarith

/-- 16-bit symmetric activations (`sx = Xmax/32767`), 8-bit weights: `65789/16645636 ≈ 0.395 %` per term -/
theorem fc_row_error_a16w8 (r : Rat → Int) (hr : IsRounding r) (Xmax Wmax : Rat)
    (hXmax : 0 ≤ Xmax) (hWmax : 0 ≤ Wmax) (sy : Rat) (hsy : 0 < sy)
    (zx zy qmin qmax : Int) (hq : qmin ≤ qmax)
    (x w : List Rat) (b : Rat) (qx qw : List Int) (qb : Int)
    (hX : ∀ t ∈ x, |t| ≤ Xmax) (hW : ∀ t ∈ w, |t| ≤ Wmax)
    (hx : List.Forall₂ (fun t q => |t - deq (Xmax / 32767) zx q| ≤ Xmax / 32767 / 2) x qx)
    (hw : List.Forall₂ (fun t (q : Int) => |t - Wmax / 127 * (q : Rat)| ≤ Wmax / 127 / 2) w qw)
    (hb : |b - Xmax / 32767 * (Wmax / 127) * (qb : Rat)| ≤ Xmax / 32767 * (Wmax / 127) / 2)
    (hlo : deq sy zy qmin ≤ dot x w + b) (hhi : dot x w + b ≤ deq sy zy qmax) :
    |deq sy zy (fcRowQ r (Xmax / 32767) (Wmax / 127) sy zx zy qmin qmax qx qw qb) - (dot x w + b)|
      ≤ sy / 2 + ((x.length : Rat) * (65789 / 16645636) + 1 / 8322818) * (Xmax * Wmax) := by
  have := fc_row_error_scales r hr 32767 127 Xmax Wmax (by norm_num) (by norm_num) hXmax hWmax sy hsy zx zy qmin
    qmax hq x w b qx qw qb hX hW hx hw hb hlo hhi
  norm_num at this ⊢
  linarith

/-- 16-bit activations, 4-bit weights: `65549/917476 ≈ 7.1 %` per term -/
theorem fc_row_error_a16w4 (r : Rat → Int) (hr : IsRounding r) (Xmax Wmax : Rat)
    (hXmax : 0 ≤ Xmax) (hWmax : 0 ≤ Wmax) (sy : Rat) (hsy : 0 < sy)
    (zx zy qmin qmax : Int) (hq : qmin ≤ qmax)
    (x w : List Rat) (b : Rat) (qx qw : List Int) (qb : Int)
    (hX : ∀ t ∈ x, |t| ≤ Xmax) (hW : ∀ t ∈ w, |t| ≤ Wmax)
    (hx : List.Forall₂ (fun t q => |t - deq (Xmax / 32767) zx q| ≤ Xmax / 32767 / 2) x qx)
    (hw : List.Forall₂ (fun t (q : Int) => |t - Wmax / 7 * (q : Rat)| ≤ Wmax / 7 / 2) w qw)
    (hb : |b - Xmax / 32767 * (Wmax / 7) * (qb : Rat)| ≤ Xmax / 32767 * (Wmax / 7) / 2)
    (hlo : deq sy zy qmin ≤ dot x w + b) (hhi : dot x w + b ≤ deq sy zy qmax) :
    |deq sy zy (fcRowQ r (Xmax / 32767) (Wmax / 7) sy zx zy qmin qmax qx qw qb) - (dot x w + b)|
      ≤ sy / 2 + ((x.length : Rat) * (65549 / 917476) + 1 / 458738) * (Xmax * Wmax) := by
  have := fc_row_error_scales r hr 32767 7 Xmax Wmax (by norm_num) (by norm_num) hXmax hWmax sy hsy zx zy qmin
    qmax hq x w b qx qw qb hX hW hx hw hb hlo hhi
  norm_num at this ⊢
  linarith

/-! ## "in particular": not constant, not saturated -/

/-- **not constant**: two activation vectors (same weights, bias and parameters) whose float outputs differ by
    more than the sum of their error bounds get different output codes -/
theorem not_constant (r : Rat → Int) (hr : IsRounding r) (sx sw sy : Rat) (hsy : 0 < sy)
    (zx zy qmin qmax : Int) (hq : qmin ≤ qmax)
    (x x' w : List Rat) (b : Rat) (qx qx' qw : List Int) (qb : Int)
    (hx : List.Forall₂ (fun t q => |t - deq sx zx q| ≤ sx / 2) x qx)
    (hx' : List.Forall₂ (fun t q => |t - deq sx zx q| ≤ sx / 2) x' qx')
    (hw : List.Forall₂ (fun t (q : Int) => |t - sw * (q : Rat)| ≤ sw / 2) w qw)
    (hb : |b - sx * sw * (qb : Rat)| ≤ sx * sw / 2)
    (hlo : deq sy zy qmin ≤ dot x w + b) (hhi : dot x w + b ≤ deq sy zy qmax)
    (hlo' : deq sy zy qmin ≤ dot x' w + b) (hhi' : dot x' w + b ≤ deq sy zy qmax)
    (hvary : fcBound sx sw sy x w + fcBound sx sw sy x' w < |(dot x w + b) - (dot x' w + b)|) :
    fcRowQ r sx sw sy zx zy qmin qmax qx qw qb ≠ fcRowQ r sx sw sy zx zy qmin qmax qx' qw qb :=
  ne_of_far sy zy _ _ _ _ _ _
    (fc_row_error r hr sx sw sy hsy zx zy qmin qmax hq x w b qx qw qb hx hw hb hlo hhi)
    (fc_row_error r hr sx sw sy hsy zx zy qmin qmax hq x' w b qx' qw qb hx' hw hb hlo' hhi')
    hvary

/-- **not saturated**: a float result further than the bound from both ends of the representable range gives a
    code strictly inside `(qmin, qmax)` -/
theorem fc_row_not_saturated (r : Rat → Int) (hr : IsRounding r) (sx sw sy : Rat) (hsy : 0 < sy)
    (zx zy qmin qmax : Int) (hq : qmin ≤ qmax)
    (x w : List Rat) (b : Rat) (qx qw : List Int) (qb : Int)
    (hx : List.Forall₂ (fun t q => |t - deq sx zx q| ≤ sx / 2) x qx)
    (hw : List.Forall₂ (fun t (q : Int) => |t - sw * (q : Rat)| ≤ sw / 2) w qw)
    (hb : |b - sx * sw * (qb : Rat)| ≤ sx * sw / 2)
    (hlo : deq sy zy qmin + fcBound sx sw sy x w < dot x w + b)
    (hhi : dot x w + b < deq sy zy qmax - fcBound sx sw sy x w) :
    fcRowQ r sx sw sy zx zy qmin qmax qx qw qb ≠ qmin ∧ fcRowQ r sx sw sy zx zy qmin qmax qx qw qb ≠ qmax := by
  have hB : 0 ≤ fcBound sx sw sy x w :=
    le_trans (abs_nonneg _) (fc_row_error_sat r hr sx sw sy hsy zx zy qmin qmax hq x w b qx qw qb hx hw hb)
  exact not_saturated sy zy _ qmin qmax _ _
    (fc_row_error r hr sx sw sy hsy zx zy qmin qmax hq x w b qx qw qb hx hw hb (by linarith) (by linarith))
    hlo hhi

/-! ## element-wise ADD -/

/-- integer ADD, saturating form -/
theorem add_error_sat (r : Rat → Int) (hr : IsRounding r) (s1 s2 sy : Rat) (hsy : 0 < sy)
    (z1 z2 zy qmin qmax : Int) (hq : qmin ≤ qmax) (a b : Rat) (q1 q2 : Int)
    (h1 : |a - deq s1 z1 q1| ≤ s1 / 2) (h2 : |b - deq s2 z2 q2| ≤ s2 / 2) :
    |deq sy zy (addQ r s1 s2 sy z1 z2 zy qmin qmax q1 q2) - clipR (a + b) (deq sy zy qmin) (deq sy zy qmax)|
      ≤ sy / 2 + s1 / 2 + s2 / 2 := by
  have := requant_error_sat r hr sy hsy zy qmin qmax hq _ _ _ (add_close a b _ _ _ _ h1 h2)
  unfold addQ; linarith

/-- **integer ADD**: within `sy/2 + s1/2 + s2/2` of the float sum, inside the representable output range -/
theorem add_error (r : Rat → Int) (hr : IsRounding r) (s1 s2 sy : Rat) (hsy : 0 < sy)
    (z1 z2 zy qmin qmax : Int) (hq : qmin ≤ qmax) (a b : Rat) (q1 q2 : Int)
    (h1 : |a - deq s1 z1 q1| ≤ s1 / 2) (h2 : |b - deq s2 z2 q2| ≤ s2 / 2)
    (hlo : deq sy zy qmin ≤ a + b) (hhi : a + b ≤ deq sy zy qmax) :
    |deq sy zy (addQ r s1 s2 sy z1 z2 zy qmin qmax q1 q2) - (a + b)| ≤ sy / 2 + s1 / 2 + s2 / 2 := by
  have := add_error_sat r hr s1 s2 sy hsy z1 z2 zy qmin qmax hq a b q1 q2 h1 h2
  rwa [clipR_id _ _ _ hlo hhi] at this

/-! ## non-vacuity: closed instances satisfying every hypothesis

One FC row with `(sx, zx) = (1/2, -3)`, `sw = 1/4`, `(sy, zy) = (1/8, 1)`, int8 output; activations
`[0.6, -1.2]`, weights `[0.3, 0.55]`, bias `0.2`; the library's codes are `[-2, -5]`, `[1, 2]`, `2`. -/

namespace Ex

def x : List Rat := [3/5, -6/5]
def x' : List Rat := [5, 5]
def w : List Rat := [3/10, 11/20]

/-- the codes are the library's (`uniform_quantize`, ideal arithmetic) -/
example : x.map (quantIdeal 8 false 8 (1/2) (-3)) = [-2, -5] ∧ x'.map (quantIdeal 8 false 8 (1/2) (-3)) = [7, 7] ∧
    w.map (quantIdeal 8 true 8 (1/4) 0) = [1, 2] ∧ quantIdeal 32 true 32 (1/2 * (1/4)) 0 (1/5) = 2 := by
  decide +kernel

theorem hx : List.Forall₂ (fun t q => |t - deq (1/2) (-3) q| ≤ 1/2 / 2) x [-2, -5] :=
  .cons (by decide +kernel) (.cons (by decide +kernel) .nil)
theorem hx' : List.Forall₂ (fun t q => |t - deq (1/2) (-3) q| ≤ 1/2 / 2) x' [7, 7] :=
  .cons (by decide +kernel) (.cons (by decide +kernel) .nil)
theorem hw : List.Forall₂ (fun t (q : Int) => |t - 1/4 * (q : Rat)| ≤ 1/4 / 2) w [1, 2] :=
  .cons (by decide +kernel) (.cons (by decide +kernel) .nil)

/-- `fc_row_error`: output code `0`, dequantized `-1/8`, float result `-7/25`, bound `5/8` -/
example : |deq (1/8) 1 (fcRowQ rhe (1/2) (1/4) (1/8) (-3) 1 (-128) 127 [-2, -5] [1, 2] 2) - (dot x w + 1/5)|
    ≤ fcBound (1/2) (1/4) (1/8) x w :=
  fc_row_error rhe rhe_isRounding (1/2) (1/4) (1/8) (by norm_num) (-3) 1 (-128) 127 (by decide) x w (1/5)
    [-2, -5] [1, 2] 2 hx hw (by decide +kernel) (by decide +kernel) (by decide +kernel)

example : fcRowQ rhe (1/2) (1/4) (1/8) (-3) 1 (-128) 127 [-2, -5] [1, 2] 2 = 0 ∧
    deq (1/8) 1 0 = -1/8 ∧ dot x w + 1/5 = -7/25 ∧ fcBound (1/2) (1/4) (1/8) x w = 5/8 := by decide +kernel

/-- `fc_row_error_quantized` on the same row: the hypotheses are range conditions only -/
example : |deq (1/8) 1 (fcRowQ rha (1/2) (1/4) (1/8) (-3) 1 (-128) 127
      (x.map (quantIdeal 8 false 8 (1/2) (-3))) (w.map (quantIdeal 8 true 8 (1/4) 0))
      (quantIdeal 32 true 32 (1/2 * (1/4)) 0 (1/5))) - (dot x w + 1/5)| ≤ fcBound (1/2) (1/4) (1/8) x w :=
  fc_row_error_quantized rha rha_isRounding 8 8 (by decide) (by decide) (by decide) (by decide) false 8 8 32
    (1/2) (1/4) (1/8) (by norm_num) (by norm_num) (by norm_num) (-3) 1 (-128) 127 (by decide) x w (1/5)
    (by decide +kernel) (by decide +kernel) (by decide +kernel) (by decide +kernel) (by decide +kernel)

/-- `fc_row_error_a8w8`: `Rx = 255/2`, `Wmax = 127/4` give the same scales `1/2`, `1/4` -/
example : |deq (1/8) 1 (fcRowQ rhe (255/2 / 255) (127/4 / 127) (1/8) (-3) 1 (-128) 127 [-2, -5] [1, 2] 2)
      - (dot x w + 1/5)|
    ≤ 1/8 / 2 + ((x.length : Rat) * (3 / 508) + 1 / 64770) * (255/2 * (127/4)) :=
  fc_row_error_a8w8 rhe rhe_isRounding (255/2) (127/4) (by norm_num) (by norm_num) (1/8) (by norm_num) (-3) 1
    (-128) 127 (by decide) x w (1/5) [-2, -5] [1, 2] 2 (by decide +kernel) (by decide +kernel)
    (.cons (by decide +kernel) (.cons (by decide +kernel) .nil))
    (.cons (by decide +kernel) (.cons (by decide +kernel) .nil))
    (by decide +kernel) (by decide +kernel) (by decide +kernel)

/-- `fc_row_saturates_hi`: bias `20` (code `160`) pushes the float result `19.52` beyond the largest
    representable output `15.75` by more than the bound: the code is `127` -/
example : fcRowQ rhe (1/2) (1/4) (1/8) (-3) 1 (-128) 127 [-2, -5] [1, 2] 160 = 127 :=
  fc_row_saturates_hi rhe rhe_isRounding (1/2) (1/4) (1/8) (by norm_num) (-3) 1 (-128) 127 (by decide) x w 20
    [-2, -5] [1, 2] 160 hx hw (by decide +kernel) (by decide +kernel)

/-- `not_constant`: activations `[0.6, -1.2]` and `[5, 5]`: float results `-0.28` and `4.45` differ by `4.73`, the
    bounds add up to `2.275`: the output codes differ (they are `0` and `33`) -/
example : fcRowQ rhe (1/2) (1/4) (1/8) (-3) 1 (-128) 127 [-2, -5] [1, 2] 2
    ≠ fcRowQ rhe (1/2) (1/4) (1/8) (-3) 1 (-128) 127 [7, 7] [1, 2] 2 :=
  not_constant rhe rhe_isRounding (1/2) (1/4) (1/8) (by norm_num) (-3) 1 (-128) 127 (by decide) x x' w (1/5)
    [-2, -5] [7, 7] [1, 2] 2 hx hx' hw (by decide +kernel) (by decide +kernel) (by decide +kernel)
    (by decide +kernel) (by decide +kernel) (by decide +kernel)

example : fcRowQ rhe (1/2) (1/4) (1/8) (-3) 1 (-128) 127 [7, 7] [1, 2] 2 = 33 ∧
    fcBound (1/2) (1/4) (1/8) x w + fcBound (1/2) (1/4) (1/8) x' w = 91/40 ∧
    |(dot x w + 1/5) - (dot x' w + 1/5)| = 473/100 := by decide +kernel

/-- `fc_row_not_saturated` on the first row -/
example : fcRowQ rhe (1/2) (1/4) (1/8) (-3) 1 (-128) 127 [-2, -5] [1, 2] 2 ≠ -128 ∧
    fcRowQ rhe (1/2) (1/4) (1/8) (-3) 1 (-128) 127 [-2, -5] [1, 2] 2 ≠ 127 :=
  fc_row_not_saturated rhe rhe_isRounding (1/2) (1/4) (1/8) (by norm_num) (-3) 1 (-128) 127 (by decide) x w (1/5)
    [-2, -5] [1, 2] 2 hx hw (by decide +kernel) (by decide +kernel) (by decide +kernel)

/-- `add_error`: `0.6 + 0.55` with `(s1, z1) = (1/2, -3)`, `(s2, z2) = (1/4, 0)`, output `(1, 0)`: code `1`,
    error `0.15 ≤ 0.875` -/
example : |deq 1 0 (addQ rhe (1/2) (1/4) 1 (-3) 0 0 (-128) 127 (-2) 2) - (3/5 + 11/20)| ≤ 1 / 2 + 1/2 / 2 + 1/4 / 2 :=
  add_error rhe rhe_isRounding (1/2) (1/4) 1 (by norm_num) (-3) 0 0 (-128) 127 (by decide) (3/5) (11/20) (-2) 2
    (by decide +kernel) (by decide +kernel) (by decide +kernel) (by decide +kernel)

example : addQ rhe (1/2) (1/4) 1 (-3) 0 0 (-128) 127 (-2) 2 = 1 := by decide +kernel

/-- the half-step term of the bound is needed, whatever the operand errors: exact operands (`a = deq q1`,
    `b = deq q2`), sum `1/2` at output scale `1`: every rounding rule is off by exactly `sy/2` -/
example (r : Rat → Int) (hr : IsRounding r) :
    |deq 1 0 (addQ r (1/2) (1/4) 1 0 0 0 (-128) 127 1 0) - (1/2 + 0)| = 1 / 2 := by
  have e : addQ r (1/2) (1/4) 1 0 0 0 (-128) 127 1 0 = clipI (r (1/2) + 0) (-128) 127 := by
    unfold addQ requant; congr 3; norm_num [deq]
  rw [e]
  rcases round_half r hr with h | h <;> rw [h] <;> decide +kernel

end Ex

end C07
