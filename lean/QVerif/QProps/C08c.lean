import QProofs.MatTotalPipe
import QProofs.MatTotalSound
import QProofs.MatTotalCalib
import QProofs.PipelineWFExamples
import QProps.C08
import QProps.C08b
/-!
# C08c — the materialisation stage `Mat.generate`: inventory of its raise sites, and totality up to
the numeric sites

`C08b` showed that the GRAPH stage cannot raise.  Here the MATERIALISATION stage
(`ParamsGenerator.generate_quantization_parameters`, model `Mat.generate`):

1. `generate_error_sites` -- a complete INVENTORY of the raise sites.  A site is a named predicate
   (`GenSite` → `StepSite` → `OpSite` → `StdSite` / `BiasSite` / `FixedSite` / `CastSite` →
   `TensorSite`, all in `QProofs/MatTotal.lean`); the Boolean index says whether the site is
   NUMERIC (`true`: a failure of `tensor_zp_scale_from_min_max`, `uniform_quantize`,
   `symmetric_quantize_bias_tensor` or the float16 cast on the actual data) or STRUCTURAL (`false`).
2. `generate_structural_excluded`, `generate_total_partial` -- under the normal-form hypotheses
   `Hyp` (converter normal form `PipelineWF.NF`, float model with unique names, statistics given and
   complete, a recipe without `skip_checks` rules, non-empty constants, operator shapes that match the
   registered materialize functions) and `Unshared` (no shared constants), NO structural site can
   fire: `generate` returns, or it stops at a numeric site.
3. the side conditions "a registered, modelled function exists" and "the config is a legal runtime
   mode" for every shipped recipe and every operator name of the coverage table
   (`shipped_resolution`, by kernel evaluation over the regenerated tables), and in general for
   every recipe state without `skip_checks` (`resolved_registered`).
-/
open Graph Mat Cfg Recipe MatTotal

namespace C08

/-! ## 1. the inventory -/

/-- a raise site of `generate`; `num = true`: numeric, `num = false`: structural.  Constructors
    (`QProofs/MatTotal.lean`):
    (a) `notFloat`, `dupNames`, `noStats` -- the three guards;
    (b)–(f) `atOp`: at one entry `q` of the operator list, from the state reached on the entries
      before it, a `StepSite`: `opcode` (b), `slot` (c), `unregistered` (d), `op` (e: an `OpSite` of
      the operator's materialisation), `conflict` (f);
    (g) `sharing`, `unreadOwn` -- the two buffer-sharing checks. -/
abbrev GenSite := @MatTotal.GenSite
abbrev StepSite := @MatTotal.StepSite
abbrev OpSite := @MatTotal.OpSite
abbrev TensorSite := @MatTotal.TensorSite

/-- **C08, inventory**: every error of the materialisation stage arises at one of the listed sites -/
theorem generate_error_sites (rx : String → String → Bool) (env : Env) (st : Recipe.State) (qsvs : Option Qsvs)
    (e : PyErr) (h : Mat.generate rx env st qsvs = .error e) : ∃ num, GenSite rx env st qsvs num e :=
  generate_sited rx env st qsvs e h

/-- the dispatch of `kindOf` is the one of `C08.knownFn`: a function is modelled iff its kind is known -/
theorem knownFn_iff_kind :
    Tables.registry.all (fun e => e.2.all (fun p => knownFn e.1 p.2 == !(kindOf e.1 p.2).isUnknown)) = true := by
  decide +kernel

/-- **what each registered materialize function does** (`Kind`): `std c gi` = `materialize_standard_op`
    with constraint `c`, the operand positions `gi` ignored; `conv` / `convT` = standard op, then the
    bias; `fixed` = hard-coded output range; `cast a w b` = float casting with data / weight / bias
    positions.  The shape hypotheses `OpShape` of `Hyp` are stated per kind. -/
theorem registry_kinds :
    Tables.registry.map (fun e => (e.1, e.2.map (fun p => (p.1, kindOf e.1 p.2)))) =
    [("min_max_uniform_quantize",
       [("INPUT", .std .none []), ("OUTPUT", .std .none []), ("FULLY_CONNECTED", .conv), ("BATCH_MATMUL", .std .none []),
        ("CONV_2D", .conv), ("DEPTHWISE_CONV_2D", .conv), ("CONV_2D_TRANSPOSE", .convT), ("RESHAPE", .std .sameAsInput [1]),
        ("AVERAGE_POOL_2D", .std .sameAsInput []), ("EMBEDDING_LOOKUP", .std .none [0]), ("SOFTMAX", .fixed true),
        ("TANH", .fixed false), ("TRANSPOSE", .std .sameAsInput [1]), ("GELU", .std .none []), ("ADD", .std .none []),
        ("SUB", .std .none []), ("MUL", .std .none []), ("MEAN", .std .none [1]), ("RSQRT", .std .none []),
        ("CONCATENATION", .std .sameAsOutput []), ("STRIDED_SLICE", .std .sameAsInput [1, 2, 3]),
        ("SPLIT", .std .sameAsInput [0]), ("LOGISTIC", .fixed true)]),
     ("float_casting",
       [("FULLY_CONNECTED", .cast 0 1 2), ("CONV_2D", .cast 0 1 2), ("DEPTHWISE_CONV_2D", .cast 0 1 2),
        ("CONV_2D_TRANSPOSE", .cast 2 1 3), ("EMBEDDING_LOOKUP", .cast 0 1 2)])] := by
  decide +kernel

/-! ## 2. totality up to the numeric sites -/

/-- the normal-form hypotheses (fields documented in `QProofs/MatTotalGen.lean`) -/
abbrev Hyp := @MatTotal.Hyp
/-- no constant is shared: every constant buffer is referenced by one tensor, which one operand slot of
    one reader reads -/
abbrev Unshared := @MatTotal.Unshared
/-- statistics are complete -/
abbrev StatsComplete := @MatTotal.StatsComplete

/-- **no structural raise site** under the normal-form hypotheses -/
theorem generate_structural_excluded (rx : String → String → Bool) (env : Env) (st : Recipe.State)
    (qsvs : Option Qsvs) (H : Hyp rx env st qsvs) (U : Unshared env.model) (e : PyErr) :
    ¬ GenSite rx env st qsvs false e :=
  genSite_struct_absurd rx env st qsvs H U e

/-- **C08, materialisation stage (partial: up to the numeric sites)**: under the normal-form hypotheses
    `generate` returns, or it raises at a NUMERIC site -/
theorem generate_total_partial (rx : String → String → Bool) (env : Env) (st : Recipe.State) (qsvs : Option Qsvs)
    (H : Hyp rx env st qsvs) (U : Unshared env.model) :
    (∃ reqs, Mat.generate rx env st qsvs = .ok reqs) ∨
    ∃ e, Mat.generate rx env st qsvs = .error e ∧ GenSite rx env st qsvs true e := by
  cases hg : Mat.generate rx env st qsvs with
  | ok reqs => exact .inl ⟨reqs, rfl⟩
  | error e =>
    obtain ⟨num, hsite⟩ := generate_sited rx env st qsvs e hg
    cases num with
    | true => exact .inr ⟨e, rfl, hsite⟩
    | false => exact absurd hsite (genSite_struct_absurd rx env st qsvs H U e)

/-- **the numeric sites are real**: a numeric site makes the stage fail (with that error, or one raised
    earlier in program order) -- the classification of `generate_total_partial` is tight -/
theorem numeric_site_fails (rx : String → String → Bool) (env : Env) (st : Recipe.State) (qsvs : Option Qsvs)
    (e : PyErr) (h : GenSite rx env st qsvs true e) : ∃ e', Mat.generate rx env st qsvs = .error e' :=
  genSite_sound rx env st qsvs e h

/-- no numeric site holds (equivalently, by `numeric_site_fails` and `generate_total_partial`: the stage
    does not stop at one) -/
def NumericOK (rx : String → String → Bool) (env : Env) (st : Recipe.State) (qsvs : Option Qsvs) : Prop :=
  ∀ e, ¬ GenSite rx env st qsvs true e

theorem numericOK_of_ok (rx : String → String → Bool) (env : Env) (st : Recipe.State) (qsvs : Option Qsvs)
    (reqs : List CReq) (h : Mat.generate rx env st qsvs = .ok reqs) : NumericOK rx env st qsvs :=
  no_numeric_site_of_ok rx env st qsvs reqs h

theorem generate_total_of_numericOK (rx : String → String → Bool) (env : Env) (st : Recipe.State) (qsvs : Option Qsvs)
    (H : Hyp rx env st qsvs) (U : Unshared env.model) (hnum : NumericOK rx env st qsvs) :
    ∃ reqs, Mat.generate rx env st qsvs = .ok reqs :=
  generate_total rx env st qsvs H U hnum

/-- **"calibrated when it requires calibration"**: after `calibrate()` (C10) on at least one sample the
    statistics hypothesis `Hyp.stats` holds -- for a model with one subgraph, a recipe without
    `skip_checks`, and same-as-input operators whose tensors are runtime tensors -/
theorem stats_of_calibration (rx : String → String → Bool) (env : Env) (st : Recipe.State) (sg : Subgraph)
    (hone : env.model.subgraphs = [sg]) (hns : NoSkip st)
    (hpass : ∀ q ∈ Pipe.allOps sg, ∀ k scope ops fn, Selected rx env st sg q k scope ops fn →
      (kindOf (Recipe.resolve rx st k scope).1 fn).isPass = true →
      ∀ a ∈ q.1.inputs ++ q.1.outputs, a ≠ -1 → ∀ t, tensorAt sg a = .ok t → constData env t = none)
    (previous : Option Qsvs) (samples : List Calib.Contents) (hne : samples ≠ []) (qs : Qsvs)
    (hneed : Recipe.needCalibration st = true)
    (h : Calib.calibrate rx env st 0 previous samples = .ok qs) : StatsComplete rx env st qs :=
  MatTotal.stats_of_calibration rx env st sg hone hns hpass previous samples hne qs hneed h

/-! ## 3. what resolution can select -/

/-- under a recipe without `skip_checks` rules, whatever resolution selects for an operator is
    `no_quantize`, or an algorithm with a registered materialize function that the model's dispatch
    knows, with a config that is a legal runtime mode (`C13.modeOK` for min/max; float16 weight-only
    for float casting) -/
theorem resolved_registered (rx : String → String → Bool) (st : Recipe.State) (hns : NoSkip st) (k scope : String)
    (hne : (Recipe.resolve rx st k scope).1 ≠ Tables.algNoQuantize) :
    CfgGood (Recipe.resolve rx st k scope).1 k (Recipe.resolve rx st k scope).2 ∧
    ∃ ops fn, Py.dictGet? Tables.registry (Recipe.resolve rx st k scope).1 = some ops ∧ Py.dictGet? ops k = some fn ∧
      (kindOf (Recipe.resolve rx st k scope).1 fn).isUnknown = false :=
  resolve_selected rx st hns k scope hne

def noSkipB (st : Recipe.State) : Bool := st.all fun e => e.2.all fun r => !r.cfg.skipChecks

theorem noSkip_of_b (st : Recipe.State) (h : noSkipB st = true) : NoSkip st := by
  intro e he r hr
  unfold noSkipB at h
  rw [List.all_eq_true] at h
  have := h e he
  rw [List.all_eq_true] at this
  simpa using this r hr

/-- **every shipped recipe, every operator name of the coverage table**: the recipe loads, has no
    `skip_checks` rule, and what it selects for the operator (for a scope its regex matches) is
    `no_quantize` or a registered, modelled function with a legal min/max mode -/
theorem shipped_resolution :
    Tables.shippedRecipes.all (fun e =>
      match e.2 with
      | .arr l =>
        (match (load false l).1 with
         | .ok st => noSkipB st && Tables.opNames.all (fun k =>
             let r := Recipe.resolve (fun _ _ => true) st k ""
             r.1 == Tables.algNoQuantize ||
               (match (Py.dictGet? Tables.registry r.1).bind (fun ops => Py.dictGet? ops k) with
                | some fn => !(kindOf r.1 fn).isUnknown && r.1 == Tables.algMinMax && C13.modeOK k r.2
                | none => false))
         | .error _ => false)
      | _ => false) = true := by
  decide +kernel

/-- which operators of the coverage table each shipped recipe really quantizes (the others are
    silently left float: the `'*'` rule is filtered by the per-operator policy check) -/
theorem shipped_coverage :
    Tables.shippedRecipes.map (fun e =>
      (e.1, match e.2 with
        | .arr l => (match (load false l).1 with
          | .ok st => Tables.opNames.filter (fun k => (Recipe.resolve (fun _ _ => true) st k "").1 != Tables.algNoQuantize)
          | .error _ => [])
        | _ => [])) =
    [("file:default_a16w8_recipe.json",
        ["INPUT", "OUTPUT", "FULLY_CONNECTED", "BATCH_MATMUL", "DEPTHWISE_CONV_2D", "CONV_2D", "CONV_2D_TRANSPOSE",
         "AVERAGE_POOL_2D", "RESHAPE", "SOFTMAX", "TANH", "TRANSPOSE", "GELU", "ADD", "SUB", "MUL", "MEAN", "RSQRT",
         "CONCATENATION", "STRIDED_SLICE", "SPLIT", "LOGISTIC"]),
     ("file:default_a8w8_recipe.json",
        ["INPUT", "OUTPUT", "FULLY_CONNECTED", "BATCH_MATMUL", "DEPTHWISE_CONV_2D", "CONV_2D", "CONV_2D_TRANSPOSE",
         "AVERAGE_POOL_2D", "RESHAPE", "SOFTMAX", "TANH", "TRANSPOSE", "GELU", "ADD", "SUB", "MUL", "MEAN", "RSQRT",
         "CONCATENATION", "STRIDED_SLICE", "SPLIT", "LOGISTIC"]),
     ("file:default_af32w4float_recipe.json", ["FULLY_CONNECTED", "BATCH_MATMUL", "EMBEDDING_LOOKUP"]),
     ("file:default_af32w8float_recipe.json",
        ["FULLY_CONNECTED", "BATCH_MATMUL", "DEPTHWISE_CONV_2D", "CONV_2D", "CONV_2D_TRANSPOSE", "EMBEDDING_LOOKUP"]),
     ("file:dynamic_wi8_afp32_recipe.json",
        ["FULLY_CONNECTED", "BATCH_MATMUL", "DEPTHWISE_CONV_2D", "CONV_2D", "CONV_2D_TRANSPOSE", "EMBEDDING_LOOKUP"]),
     ("file:sample_advanced_usage_recipe.json",
        ["INPUT", "OUTPUT", "FULLY_CONNECTED", "BATCH_MATMUL", "DEPTHWISE_CONV_2D", "CONV_2D_TRANSPOSE", "AVERAGE_POOL_2D",
         "RESHAPE", "SOFTMAX", "TANH", "TRANSPOSE", "GELU", "ADD", "SUB", "MUL", "MEAN", "RSQRT", "CONCATENATION",
         "STRIDED_SLICE", "SPLIT", "LOGISTIC"]),
     ("func:dynamic_wi8_afp32",
        ["FULLY_CONNECTED", "BATCH_MATMUL", "DEPTHWISE_CONV_2D", "CONV_2D", "CONV_2D_TRANSPOSE", "EMBEDDING_LOOKUP"])] := by
  decide +kernel


/-! ## NON-VACUITY: FULLY_CONNECTED + TANH under the shipped static-range recipe `default_a8w8` -/

namespace Inst
open PipeNF Pipe GraphStep

def T (n : String) (sh : List Int) (b : Nat) : Tensor := { name := n, dtype := 0, shape := sh, buffer := b }
def opFC : Op := { code := 0, inputs := [0, 1], outputs := [2], orig := some 0 }
def opTanh : Op := { code := 1, inputs := [2], outputs := [3], orig := some 1 }
/-- `y := FULLY_CONNECTED(x, w)`, `z := TANH(y)`; `x` graph input, `w` constant, `z` graph output -/
def sg : Subgraph :=
  { tensors := [T "x" [1, 2] 0, T "w" [2, 2] 1, T "y" [1, 2] 0, T "z" [1, 2] 0], ops := [opFC, opTanh],
    inputs := [0], outputs := [3] }
def m : Model := { subgraphs := [sg], buffers := [none, some (.inl 0)], opcodes := [9, 28], sigs := [] }
def env : Env := { model := m, consts := [(1, [1, 2, 3, 4])], adjY := [] }
def f32 (l : List Rat) : Arith.FArr := ⟨⟨[1, 1], l⟩, .f32⟩
/-- calibrated statistics of the three runtime tensors -/
def qs : Qsvs := [("x", some (f32 [-1], f32 [1])), ("y", some (f32 [-2], f32 [2])), ("z", some (f32 [-1], f32 [1]))]
def rxAll : String → String → Bool := fun _ _ => true

def cfgA8W8 : OpCfg :=
  { act := some { bits := 8, symmetric := false }, weight := some { bits := 8, symmetric := true, gran := .channelwise },
    cp := .integer }
/-- the loaded state of `recipes/default_a8w8_recipe.json` … -/
def st : Recipe.State := [(".*", [⟨".*", "*", Tables.algMinMax, cfgA8W8⟩])]

/-- … is what loading the shipped file, unchanged, yields -/
theorem st_shipped :
    (match Py.dictGet? Tables.shippedRecipes "file:default_a8w8_recipe.json" with
     | some (.arr l) => (match (load false l).1 with | .ok s => decide (s = st) | .error _ => false)
     | _ => false) = true := by
  decide +kernel

/-! ### the four entries of the operator list and what resolution selects for them -/

def qFC : Op × Option String × Int := (opFC, none, ((0 : Nat) : Int))
def qTanh : Op × Option String × Int := (opTanh, none, ((1 : Nat) : Int))

theorem sgs (sg' : Subgraph) (h : sg' ∈ env.model.subgraphs) : sg' = sg := by
  simpa [env, m] using h

theorem entries (q : Op × Option String × Int) (h : q ∈ allOps sg) :
    q = qFC ∨ q = qTanh ∨ q = inEntry sg ∨ q = outEntry sg := by
  rcases mem_allOps sg q h with ⟨j, op, hop, rfl⟩ | h | h
  · rcases j with _ | _ | j
    · left; simp only [sg, List.getElem?_cons_zero, Option.some.injEq] at hop; subst hop; rfl
    · right; left; simp only [sg, List.getElem?_cons_succ, List.getElem?_cons_zero, Option.some.injEq] at hop; subst hop; rfl
    · simp [sg] at hop
  · exact .inr (.inr (.inl h))
  · exact .inr (.inr (.inr h))

theorem pin {rx : String → String → Bool} {env : Env} {st : Recipe.State} {sg : Subgraph} {q : Op × Option String × Int}
    {k scope fn : String} {ops : List (String × String)} (S : Selected rx env st sg q k scope ops fn)
    (k0 scope0 fn0 : String) (ops0 : List (String × String)) (hk : keyOf env q = .ok (some k0))
    (hs : opScope sg q.1 = .ok scope0)
    (ho : Py.dictGet? Tables.registry (Recipe.resolve rx st k0 scope0).1 = some ops0)
    (hf : Py.dictGet? ops0 k0 = some fn0) : k = k0 ∧ scope = scope0 ∧ ops = ops0 ∧ fn = fn0 := by
  obtain ⟨h1, h2, _, h4, h5⟩ := S
  rw [hk] at h1
  simp only [Except.ok.injEq, Option.some.injEq] at h1
  subst h1
  rw [hs] at h2
  simp only [Except.ok.injEq] at h2
  subst h2
  rw [ho] at h4
  simp only [Option.some.injEq] at h4
  subst h4
  rw [hf] at h5
  simp only [Option.some.injEq] at h5
  exact ⟨rfl, rfl, rfl, h5.symm⟩

def mmOps : List (String × String) := (Py.dictGet? Tables.registry Tables.algMinMax).getD []

theorem res_eq (k scope : String) (h : Policy.accepts Tables.algMinMax k cfgA8W8 = true) :
    Recipe.resolve rxAll st k scope = (Tables.algMinMax, cfgA8W8) := by
  have h2 : (Tables.algMinMax != Tables.algNoQuantize) = true := by decide
  simp only [Recipe.resolve, st, rxAll, List.foldl_cons, List.foldl_nil, if_true, Tables.allOpsKey, bne_self_eq_false,
    Bool.false_and, Bool.false_eq_true, if_false, h, h2, Bool.not_true, Bool.and_false]

theorem acc_FC : Policy.accepts Tables.algMinMax "FULLY_CONNECTED" cfgA8W8 = true := by decide +kernel
theorem acc_TANH : Policy.accepts Tables.algMinMax "TANH" cfgA8W8 = true := by decide +kernel
theorem acc_IN : Policy.accepts Tables.algMinMax "INPUT" cfgA8W8 = true := by decide +kernel
theorem acc_OUT : Policy.accepts Tables.algMinMax "OUTPUT" cfgA8W8 = true := by decide +kernel

theorem ops_mm : Py.dictGet? Tables.registry Tables.algMinMax = some mmOps := by decide +kernel

theorem selFC {k scope fn : String} {ops : List (String × String)} (S : Selected rxAll env st sg qFC k scope ops fn) :
    k = "FULLY_CONNECTED" ∧ scope = "y;" ∧ ops = mmOps ∧ fn = "materialize_fc_conv" :=
  pin S _ _ _ _ (by decide) (by decide) (by rw [res_eq _ _ acc_FC]; exact ops_mm) (by decide +kernel)

theorem selTanh {k scope fn : String} {ops : List (String × String)} (S : Selected rxAll env st sg qTanh k scope ops fn) :
    k = "TANH" ∧ scope = "z;" ∧ ops = mmOps ∧ fn = "materialize_tanh" :=
  pin S _ _ _ _ (by decide) (by decide) (by rw [res_eq _ _ acc_TANH]; exact ops_mm) (by decide +kernel)

theorem selIn {k scope fn : String} {ops : List (String × String)} (S : Selected rxAll env st sg (inEntry sg) k scope ops fn) :
    k = "INPUT" ∧ scope = "x;" ∧ ops = mmOps ∧ fn = "materialize_input" :=
  pin S _ _ _ _ (by decide) (by decide) (by rw [res_eq _ _ acc_IN]; exact ops_mm) (by decide +kernel)

theorem selOut {k scope fn : String} {ops : List (String × String)} (S : Selected rxAll env st sg (outEntry sg) k scope ops fn) :
    k = "OUTPUT" ∧ scope = "" ∧ ops = mmOps ∧ fn = "materialize_output" :=
  pin S _ _ _ _ (by decide) (by decide) (by rw [res_eq _ _ acc_OUT]; exact ops_mm) (by decide +kernel)


/-! ### the hypotheses hold -/

theorem named (op : Op) (hop : op ∈ sg.ops) (k : String) (h : OpNamed env.model op k) :
    (op = opFC ∧ k = "FULLY_CONNECTED") ∨ (op = opTanh ∧ k = "TANH") := by
  have : op = opFC ∨ op = opTanh := by simpa [sg] using hop
  obtain ⟨code, hc, hn⟩ := h
  rcases this with rfl | rfl
  · left
    have : env.model.opcodes[opFC.code]? = some 9 := by decide
    rw [this] at hc; cases hc
    have : opNameOfCode 9 = some "FULLY_CONNECTED" := by decide
    rw [this] at hn; cases hn
    exact ⟨rfl, rfl⟩
  · right
    have : env.model.opcodes[opTanh.code]? = some 28 := by decide
    rw [this] at hc; cases hc
    have : opNameOfCode 28 = some "TANH" := by decide
    rw [this] at hn; cases hn
    exact ⟨rfl, rfl⟩

theorem slotsFC (i : Nat) (a : Int) (h : opFC.inputs[i]? = some a) : (i = 0 ∧ a = 0) ∨ (i = 1 ∧ a = 1) := by
  rcases i with _ | _ | i <;> simp [opFC] at h <;> simp [h]

theorem slotsTanh (i : Nat) (a : Int) (h : opTanh.inputs[i]? = some a) : i = 0 ∧ a = 2 := by
  rcases i with _ | i <;> simp [opTanh] at h <;> simp [h]

theorem nf : PipelineWF.NF env st := by
  refine ⟨by decide, by decide, ?_, ?_, ?_, ?_, ?_⟩
  · intro e he r hr w hw
    have : e = (".*", [⟨".*", "*", Tables.algMinMax, cfgA8W8⟩]) := by simpa [st] using he
    subst this
    have : r = ⟨".*", "*", Tables.algMinMax, cfgA8W8⟩ := by simpa using hr
    subst this
    have : w = { bits := 8, symmetric := true, gran := .channelwise } := by
      simp [cfgA8W8] at hw; exact hw.symm
    subst this
    decide
  · intro sg' hsg t ht
    rw [sgs sg' hsg] at ht ⊢
    have : t = 0 := by simpa [sg] using ht
    subst this
    decide
  · intro sg' hsg op hop k hk i j a hi hj hne
    rw [sgs sg' hsg] at hop
    rcases named op hop k hk with ⟨rfl, rfl⟩ | ⟨rfl, rfl⟩
    · rcases slotsFC i a hi with ⟨rfl, rfl⟩ | ⟨rfl, rfl⟩ <;>
        rcases slotsFC j _ hj with ⟨rfl, h⟩ | ⟨rfl, h⟩ <;> first | rfl | cases h
    · obtain ⟨rfl, rfl⟩ := slotsTanh i a hi
      obtain ⟨rfl, _⟩ := slotsTanh j _ hj
      rfl
  · intro sg' hsg op hop k hk b a hb h1 h0 hne
    rw [sgs sg' hsg] at hop
    rcases named op hop k hk with ⟨rfl, rfl⟩ | ⟨rfl, rfl⟩
    · have hd : dataSlot "FULLY_CONNECTED" = 0 := by decide
      rw [hd] at h0
      rcases slotsFC 1 a h1 with ⟨h, _⟩ | ⟨_, rfl⟩
      · cases h
      · rcases slotsFC 0 _ h0 with ⟨_, h⟩ | ⟨h, _⟩ <;> cases h
    · have : biasSlot "TANH" = none := by decide
      rw [this] at hb; cases hb
  · intro sg' hsg op hop k hk b hb
    rw [sgs sg' hsg] at hop
    rcases named op hop k hk with ⟨rfl, rfl⟩ | ⟨rfl, rfl⟩
    · have : biasSlot "FULLY_CONNECTED" = some 2 := by decide
      rw [this] at hb; cases hb
      refine ⟨?_, by decide⟩
      intro i hi
      rcases i with _ | _ | i
      · decide
      · decide
      · omega
    · have : biasSlot "TANH" = none := by decide
      rw [this] at hb; cases hb

theorem tensors_cases (t : Tensor) (h : t ∈ sg.tensors) :
    t = T "x" [1, 2] 0 ∨ t = T "w" [2, 2] 1 ∨ t = T "y" [1, 2] 0 ∨ t = T "z" [1, 2] 0 := by
  simpa [sg] using h

theorem present_x : Present qs "x" := ⟨_, rfl⟩
theorem present_y : Present qs "y" := ⟨_, rfl⟩
theorem present_z : Present qs "z" := ⟨_, rfl⟩

theorem kind_FC : kindOf Tables.algMinMax "materialize_fc_conv" = .conv := by decide
theorem kind_Tanh : kindOf Tables.algMinMax "materialize_tanh" = .fixed false := by decide
theorem kind_In : kindOf Tables.algMinMax "materialize_input" = .std .none [] := by decide
theorem kind_Out : kindOf Tables.algMinMax "materialize_output" = .std .none [] := by decide

/-- the value of `tensorAt` on the four slots -/
theorem at0 : tensorAt sg 0 = .ok (T "x" [1, 2] 0) := by decide
theorem at1 : tensorAt sg 1 = .ok (T "w" [2, 2] 1) := by decide
theorem at2 : tensorAt sg 2 = .ok (T "y" [1, 2] 0) := by decide
theorem at3 : tensorAt sg 3 = .ok (T "z" [1, 2] 0) := by decide

theorem stats_of_present (qs : Qsvs) (present_x : Present qs "x") (present_y : Present qs "y") (present_z : Present qs "z") :
    StatsComplete rxAll env st qs := by
  intro sg' hsg q hq k scope ops fn S hact a ha hne t hat hf hc
  rw [sgs sg' hsg] at hq S hat
  rcases entries q hq with rfl | rfl | rfl | rfl
  · obtain ⟨rfl, rfl, rfl, rfl⟩ := selFC S
    have : a = 0 ∨ a = 1 ∨ a = 2 := by simpa [qFC, opFC] using ha
    rcases this with rfl | rfl | rfl
    · rw [at0] at hat; cases hat; exact present_x
    · rw [at1] at hat; cases hat
      rw [res_eq _ _ acc_FC, kind_FC] at hc
      rcases hc with hc | hc
      · have : constData env (T "w" [2, 2] 1) ≠ none := by decide
        exact absurd hc this
      · cases hc
    · rw [at2] at hat; cases hat; exact present_y
  · obtain ⟨rfl, rfl, rfl, rfl⟩ := selTanh S
    have : a = 2 ∨ a = 3 := by simpa [qTanh, opTanh] using ha
    rcases this with rfl | rfl
    · rw [at2] at hat; cases hat; exact present_y
    · rw [at3] at hat; cases hat; exact present_z
  · have : a = 0 := by simpa [inEntry, sg] using ha
    subst this
    rw [at0] at hat; cases hat; exact present_x
  · have : a = 3 := by simpa [outEntry, sg] using ha
    subst this
    rw [at3] at hat; cases hat; exact present_z

theorem hyp_of_present (qs : Qsvs) (hx : Present qs "x") (hy : Present qs "y") (hz : Present qs "z") :
    Hyp rxAll env st (some qs) := by
  refine { nf := nf, float := by decide, names := by unfold GenInstsOK.namesUnique; decide, statsGiven := fun _ => rfl,
           noSkip := noSkip_of_b st (by decide), inputsNodup := ?_, tensorsNE := ?_, constNE := ?_,
           stats := stats_of_present qs hx hy hz, shape := ?_ }
  · intro sg' hsg; rw [sgs sg' hsg]; decide
  · intro sg' hsg; rw [sgs sg' hsg]; decide
  · intro sg' hsg t ht d hd
    rw [sgs sg' hsg] at ht
    rcases tensors_cases t ht with rfl | rfl | rfl | rfl
    · have : constData env (T "x" [1, 2] 0) = none := by decide
      rw [this] at hd; cases hd
    · have : constData env (T "w" [2, 2] 1) = some ⟨[2, 2], [1, 2, 3, 4]⟩ := by decide +kernel
      rw [this] at hd; cases hd
      exact fun h => by cases h
    · have : constData env (T "y" [1, 2] 0) = none := by decide
      rw [this] at hd; cases hd
    · have : constData env (T "z" [1, 2] 0) = none := by decide
      rw [this] at hd; cases hd
  · intro sg' hsg j op hop k scope ops fn S
    rw [sgs sg' hsg] at hop S ⊢
    have hq := entries (op, none, (j : Int)) (by
      rw [allOps_eq]; exact List.mem_append_left _ (List.mem_map.2 ⟨(op, j), List.mem_zipIdx_iff_getElem?.2 (by simpa using hop), rfl⟩))
    rcases hq with h | h | h | h
    · have hop' : op = opFC := congrArg (·.1) h
      have hj : (j : Int) = ((0 : Nat) : Int) := congrArg (·.2.2) h
      subst hop'
      rw [hj] at S
      obtain ⟨rfl, rfl, rfl, rfl⟩ := selFC S
      rw [res_eq _ _ acc_FC, kind_FC]
      refine ⟨?_, ?_, ?_⟩
      · intro i hi
        rcases i with _ | _ | i
        · exact ⟨0, rfl, by decide⟩
        · exact ⟨1, rfl, by decide⟩
        · omega
      · intro i a t hi hia hat
        rcases slotsFC i a hia with ⟨_, rfl⟩ | ⟨_, rfl⟩
        · rw [at0] at hat; cases hat; rfl
        · rw [at1] at hat; cases hat; rfl
      · intro _ a bt hia
        cases hia
    · have hop' : op = opTanh := congrArg (·.1) h
      have hj : (j : Int) = ((1 : Nat) : Int) := congrArg (·.2.2) h
      subst hop'
      rw [hj] at S
      obtain ⟨rfl, rfl, rfl, rfl⟩ := selTanh S
      rw [res_eq _ _ acc_TANH, kind_Tanh]
      refine ⟨rfl, ?_⟩
      intro a t ha _ hat
      have : a = 3 := by simpa [opTanh] using ha
      subst this
      rw [at3] at hat; cases hat; rfl
    · cases congrArg (·.2.1) h
    · cases congrArg (·.2.1) h

theorem hyp : Hyp rxAll env st (some qs) := hyp_of_present qs present_x present_y present_z

theorem unshared : Unshared env.model := by
  have hb2t : bufferToTensors env.model = [(0, ["y", "x", "z", "y"]), (1, ["w"])] := by decide
  refine ⟨?_, ?_, ?_⟩
  · intro e he hd
    rw [hb2t] at he
    simp only [List.mem_cons, List.mem_nil_iff, or_false] at he
    rcases he with rfl | rfl
    · obtain ⟨c, hc⟩ := hd
      cases hc
    · decide
  · intro b c hb
    have : b = 1 := by
      rcases b with _ | _ | b
      · cases hb
      · rfl
      · simp [env, m] at hb
    subst this
    decide
  · intro sg' hsg i hc o o' h1 h2
    rw [sgs sg' hsg] at hc h1 h2
    have hi : i = 1 := by
      rcases i with _ | _ | _ | _ | i
      · revert hc; decide
      · rfl
      · revert hc; decide
      · revert hc; decide
      · exfalso
        have hnone : sg.tensors[(((i + 1 + 1 + 1 + 1 : Nat) : Int)).toNat]? = none := by
          rw [Int.toNat_natCast, List.getElem?_eq_none]
          simp [sg]
        unfold isConst at hc
        rw [if_neg (by omega), hnone] at hc
        cases hc
    subst hi
    have key : ∀ o, ConsumedAt sg 1 o → o = 0 := by
      intro o h
      rcases h with ⟨h0, op, hop, hm⟩ | ⟨_, hm⟩
      · have : o.toNat = 0 ∨ o.toNat = 1 := by
          have := (List.getElem?_eq_some_iff.1 hop).1
          simp only [sg, List.length_cons, List.length_nil] at this
          omega
        rcases this with h | h
        · omega
        · rw [h] at hop
          simp only [sg, List.getElem?_cons_succ, List.getElem?_cons_zero, Option.some.injEq] at hop
          subst hop
          exact absurd hm (by decide)
      · exact absurd hm (by decide)
    rw [key o h1, key o' h2]

/-- on the instance the stage returns (kernel evaluation) … -/
theorem generate_runs : (match Mat.generate rxAll env st (some qs) with | .ok r => r.length | .error _ => 0) = 4 := by
  decide +kernel

/-- … as `generate_total_partial` says: all its hypotheses hold, and it is the first disjunct that is realised -/
example : (∃ reqs, Mat.generate rxAll env st (some qs) = .ok reqs) ∨
    ∃ e, Mat.generate rxAll env st (some qs) = .error e ∧ GenSite rxAll env st (some qs) true e :=
  generate_total_partial rxAll env st (some qs) hyp unshared

/-- `NumericOK` holds on the instance: ALL hypotheses of `generate_total_of_numericOK` are satisfied -/
theorem numericOK : NumericOK rxAll env st (some qs) := by
  cases hg : Mat.generate rxAll env st (some qs) with
  | ok reqs => exact numericOK_of_ok _ _ _ _ reqs hg
  | error e =>
    have := generate_runs
    rw [hg] at this
    cases this

example : ∃ reqs, Mat.generate rxAll env st (some qs) = .ok reqs :=
  generate_total_of_numericOK rxAll env st (some qs) hyp unshared numericOK

end Inst

/-! ## end to end -/

/-- **C08, `quantize()` (partial: up to the numeric sites of the materialisation stage)**: under the
    normal-form hypotheses and for a non-empty recipe, `quantize()` returns a well-formed model, or it
    raises at a NUMERIC site of the materialisation stage -- the graph stage cannot raise
    (`C08.modify_total`, whose request-level hypotheses `ReqOK`, `ReqParamsKnown`, `NoMixed` are derived
    here for the generated requests) -/
theorem quantize_total_partial (rx : String → String → Bool) (env : Env) (st : Recipe.State) (qsvs : Option Qsvs)
    (H : Hyp rx env st qsvs) (U : Unshared env.model) (hrec : (Recipe.getRecipe st).isEmpty = false) :
    (∃ m' tbl, Pipeline.quantizePure rx env st qsvs = .ok (m', tbl) ∧ WF.modelOK m' = true) ∨
    ∃ e, Pipeline.quantizePure rx env st qsvs = .error e ∧ GenSite rx env st qsvs true e := by
  rcases generate_total_partial rx env st qsvs H U with ⟨reqs, hgen⟩ | ⟨e, hgen, hsite⟩
  · obtain ⟨m', hq, hwf⟩ := quantize_of_generate rx env st qsvs H U hrec reqs hgen
    exact .inl ⟨m', _, hq, hwf⟩
  · refine .inr ⟨e, ?_, hsite⟩
    unfold Pipeline.quantizePure
    rw [hrec]
    simp only [Bool.false_eq_true, if_false, hgen, bind, Except.bind]

theorem quantize_total_of_numericOK (rx : String → String → Bool) (env : Env) (st : Recipe.State) (qsvs : Option Qsvs)
    (H : Hyp rx env st qsvs) (U : Unshared env.model) (hrec : (Recipe.getRecipe st).isEmpty = false)
    (hnum : NumericOK rx env st qsvs) :
    ∃ m' tbl, Pipeline.quantizePure rx env st qsvs = .ok (m', tbl) ∧ WF.modelOK m' = true := by
  obtain ⟨reqs, hgen⟩ := generate_total_of_numericOK rx env st qsvs H U hnum
  obtain ⟨m', hq, hwf⟩ := quantize_of_generate rx env st qsvs H U hrec reqs hgen
  exact ⟨m', _, hq, hwf⟩

namespace Inst

/-- the whole `quantize()` runs on the instance (kernel evaluation): a fully integer model -- the `'*'`
    rule also covers the INPUT / OUTPUT pseudo-operators, so the four tensors (graph input and output
    included) become int8, the weight buffer is rewritten, and no QUANTIZE / DEQUANTIZE is inserted -/
theorem quantize_runs :
    (match Pipeline.quantizePure rxAll env st (some qs) with
     | .ok r => r.1.subgraphs.map (fun (s : Subgraph) => s.tensors.map (fun (t : Tensor) => (t.name, t.dtype, t.quant))) ==
           [[("x", 9, some 0), ("w", 9, some 1), ("y", 9, some 2), ("z", 9, some 3)]] &&
         r.1.subgraphs.map (fun (s : Subgraph) => s.ops.map (fun (o : Op) => o.code)) == [[0, 1]] &&
         r.1.opcodes == [9, 28] && r.1.buffers == [none, some (.inr 1)] && WF.modelOK r.1
     | .error _ => false) = true := by
  decide +kernel

example : (∃ m' tbl, Pipeline.quantizePure rxAll env st (some qs) = .ok (m', tbl) ∧ WF.modelOK m' = true) ∨
    ∃ e, Pipeline.quantizePure rxAll env st (some qs) = .error e ∧ GenSite rxAll env st (some qs) true e :=
  quantize_total_partial rxAll env st (some qs) hyp unshared (by decide)

/-! ### the numeric sites are real, and each structural hypothesis is needed -/

def errIs {α} (x : PyM α) (e : PyErr) : Bool := match x with | .error e' => e' == e | .ok _ => false

/-- **a numeric site**: statistics whose range overflows float32.  All hypotheses of
    `generate_total_partial` hold; the stage stops with `nonfinite` (IEEE would produce `inf`), at a
    numeric site -- the second disjunct of the theorem is realised, `NumericOK` cannot be dropped -/
def qsBig : Qsvs :=
  [("x", some (f32 [-(2 : Rat) ^ 127], f32 [(2 : Rat) ^ 127])), ("y", some (f32 [-2], f32 [2])), ("z", some (f32 [-1], f32 [1]))]

theorem big_error : errIs (Mat.generate rxAll env st (some qsBig)) .nonfinite = true := by decide +kernel

theorem big_numeric_site : ∃ e, Mat.generate rxAll env st (some qsBig) = .error e ∧ GenSite rxAll env st (some qsBig) true e := by
  rcases generate_total_partial rxAll env st (some qsBig) (hyp_of_present qsBig ⟨_, rfl⟩ ⟨_, rfl⟩ ⟨_, rfl⟩) unshared with
    ⟨reqs, h⟩ | h
  · have := big_error
    rw [h] at this
    cases this
  · exact h

/-- `statsGiven`: a static-range recipe without statistics -- RuntimeError -/
example : errIs (Mat.generate rxAll env st none) .runtimeError = true := by decide +kernel

/-- `stats`: no entry for the runtime tensor `z` -- ValueError -/
example : errIs (Mat.generate rxAll env st (some [("x", some (f32 [-1], f32 [1])), ("y", some (f32 [-2], f32 [2]))]))
    .valueError = true := by decide +kernel

/-- `stats`, the same-as-input clause: RESHAPE of a CONSTANT (`PipelineWFExample.envB`) with statistics for the
    result only.  The constant's parameters come from its data, but the result's statistics entry is copied
    from the operand's -- KeyError (with the entry that `calibrate()` initialises for constants it returns) -/
example : errIs (Mat.generate rxAll PipelineWFExample.envB st (some [("y", some (f32 [1], f32 [4]))])) .keyError = true ∧
    errIs (Mat.generate rxAll PipelineWFExample.envB st (some PipelineWFExample.qsB)) .keyError = false := by
  decide +kernel

/-- `inputsNodup`: a graph input listed twice (the model is still well-formed in the sense of `WF.modelOK`):
    the INPUT pseudo-operator makes two producer requests for it -- RuntimeError of
    `_update_model_quant_results` -/
def envDup : Env := { env with model := { m with subgraphs := [{ sg with inputs := [0, 0] }] } }
example : WF.modelOK envDup.model = true ∧ errIs (Mat.generate rxAll envDup st (some qs)) .runtimeError = true := by
  decide +kernel

/-- `constNE`: the weight has no data -- ValueError ("min and max must be provided") -/
example : errIs (Mat.generate rxAll { env with consts := [] } st (some qs)) .valueError = true := by decide +kernel

/-- `Unshared.oneReader`: the weight is also a graph output; the OUTPUT pseudo-operator (selected by the
    `'*'` rule) asks for activation parameters, FULLY_CONNECTED for weight parameters -- RuntimeError of
    `_check_buffer_sharing` -/
def envOut : Env := { env with model := { m with subgraphs := [{ sg with outputs := [3, 1] }] } }
example : WF.modelOK envOut.model = true ∧ errIs (Mat.generate rxAll envOut st (some qs)) .runtimeError = true := by
  decide +kernel

/-- `shape` (fixed-range operators have one result): a TANH with two results -- ValueError -/
def env2 : Env :=
  { env with model := { m with subgraphs :=
      [{ tensors := sg.tensors ++ [T "z2" [1, 2] 0], ops := [opFC, { opTanh with outputs := [3, 4] }], inputs := [0], outputs := [3] }] } }
example : WF.modelOK env2.model = true ∧
    errIs (Mat.generate rxAll env2 st (some (qs ++ [("z2", some (f32 [-1], f32 [1]))]))) .valueError = true := by
  decide +kernel

/-- `shape` (`ConvShape.biasConst`): a runtime bias under static-range quantization is outside the model
    (`unsupported`; the Python code would read `None.astype`) -/
def envB : Env :=
  { env with model := { m with subgraphs :=
      [{ tensors := sg.tensors ++ [T "b" [2] 0], ops := [{ opFC with inputs := [0, 1, 4] }, opTanh], inputs := [0, 4], outputs := [3] }] } }
example : WF.modelOK envB.model = true ∧
    errIs (Mat.generate rxAll envB st (some (qs ++ [("b", some (f32 [-1], f32 [1]))]))) .unsupported = true := by
  decide +kernel

/-- `noSkip`: a `skip_checks` rule with a CHANNELWISE activation config (refused by the policy otherwise):
    the quantized dimension of an activation is looked up in the weight table -- KeyError -/
def stSkip : Recipe.State :=
  [(".*", [⟨".*", "*", Tables.algMinMax, { cfgA8W8 with act := some { bits := 8, gran := .channelwise }, skipChecks := true }⟩])]
example : errIs (Mat.generate rxAll env stSkip (some qs)) .keyError = true := by decide +kernel

end Inst

end C08
