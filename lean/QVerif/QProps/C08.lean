import QModel.Pipeline
import QProps.C12
/-!
# C08 — shipped default recipes never reject a supported-op graph (table part)
-/
open Graph Mat Cfg Recipe

namespace C08

/-- the function names the model's materialisation dispatch understands -/
def knownFn (alg fn : String) : Bool :=
  if alg == Tables.algFloatCasting then
    ["materialize_fc_conv", "materialize_embedding_lookup", "materialize_conv2d_transpose"].contains fn
  else if alg == Tables.algMinMax then
    ["materialize_input", "materialize_output", "materialize_add", "materialize_sub", "materialize_mul",
     "materialize_batch_matmul", "materialize_gelu", "materialize_rsqrt", "materialize_embedding_lookup",
     "materialize_mean", "materialize_reshape", "materialize_transpose", "materialize_average_pool_2d",
     "materialize_strided_slice", "materialize_split", "materialize_concatenation", "materialize_fc_conv",
     "materialize_conv2d_transpose", "materialize_softmax_and_logistic", "materialize_tanh"].contains fn
  else false

/-- every (algorithm, operator, materialize function) of the live registry is modelled: the
    dispatch of `Mat.materializeOp` never ends in its `unsupported` fall-through for a registered op -/
theorem dispatch_total :
    Tables.registry.all (fun e => e.2.all (fun p => knownFn e.1 p.2)) = true := by
  decide +kernel

/-- the shipped recipes load (repaired code) -/
theorem shipped_load_ok :
    Tables.shippedRecipes.all (fun e =>
      match e.2 with
      | .arr l => (match (load false l).1 with | .ok _ => true | .error _ => false)
      | _ => false) = true := C12.shipped_load

/-- the default recipes (everything shipped but the advanced-usage sample) consist of a single
    `'.*'` / `'*'` rule -/
theorem shipped_star_only :
    (Tables.shippedRecipes.filter (fun e => e.1 != "file:sample_advanced_usage_recipe.json")).all (fun e =>
      match e.2 with
      | .arr l => (match (load false l).1 with
                   | .ok st => st.length == 1 && st.all (fun sc => sc.1 == ".*" && sc.2.length == 1 &&
                                  sc.2.all (fun r => r.operation == Tables.allOpsKey && r.alg == Tables.algMinMax))
                   | .error _ => false)
      | _ => false) = true := by
  decide +kernel

/-- each default recipe's config is accepted by the policy for at least one operator (it is not a
    recipe that silently quantizes nothing) -/
theorem shipped_configs_accepted_somewhere :
    (Tables.shippedRecipes.filter (fun e => e.1 != "file:sample_advanced_usage_recipe.json")).all (fun e =>
      match e.2 with
      | .arr l => (match (load false l).1 with
                   | .ok st => st.all (fun sc => sc.2.all (fun r =>
                       Tables.opNames.any (fun op => Policy.accepts r.alg op r.cfg)))
                   | .error _ => false)
      | _ => false) = true := by
  decide +kernel

end C08
