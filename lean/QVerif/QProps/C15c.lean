import QProofs.SharingE2E
import QProofs.SharingData
import QProps.C03c
import QProps.C15b
/-!
# C15c — shared constant buffers through the whole performer, and end to end

In the graph model a buffer's content is abstract: `some (.inl k)` = the `k`-th original constant,
`some (.inr p)` = the packed quantized data of parameter object `p`.  "A tensor agrees with the
stored bytes" therefore means: the buffer is `.inl k` and the tensor has its original record, or the
buffer is `.inr p` and the tensor is `TypedBy p` (dtype `dtypeOf (pinfo p)`, `quant = some p` for
uniform parameters).

## 1. Graph stage (`transformGraph`)

* `performer_buffer_weak` — needs only `ConstData` (a retyping instruction on a constant carries packed
  data): a data buffer is UNTOUCHED, and then no retyping instruction exists on any tensor referencing
  it and every such tensor of the output keeps its record; or it holds `.inr p` for a
  QUANTIZE_TENSOR / ADD_DEQUANTIZE instruction with parameter `p` on one of its tensors.
* `performer_buffer_agrees` — with `SharersAgree m tis` (on every data buffer all retyping instructions
  carry ONE parameter, and all of its tensors are retyped or none is): in the second case EVERY tensor
  of the output model referencing the buffer is an original referent, has a retyping instruction with
  that same `p` and is `TypedBy p`.  The buffer is written with one parameter only ("quantized once").
  Neither `TensorsDisjoint` nor `OneRetype` (C03c) is needed.
* `all_needed`, `same_needed`, `constData_needed`: closed counterexamples (two tensors on one buffer)
  showing that each hypothesis is necessary: a float tensor over integer bytes, a tensor carrying
  parameters other than those of the stored bytes, an int8 tensor over float bytes.

## 2. Request stage (`sharersAgree_of_check`, `constData_of_generate`)

The requests that pass `Mat.checkBufferSharing` AND `Mat.checkUnreadOwn` (repair D35) and go through
`absReqs` / `InstGen.genInsts` yield instructions satisfying `SharersAgree`; `ConstData` holds for every
run of `Mat.generate`.  `unreadOwn_sound` is the soundness lemma of the second check.

## 3. End to end (`quantize_shared_consistent`)

For `quantizePure … = .ok (m', tbl)` under `PipelineWF.NF` alone: `SharedConsistent`.  No residual
hypothesis is left.  `Defect` keeps the former counterexample (a constant that is only a graph output,
quantized through the OUTPUT pseudo-operator, next to a float reader of the same buffer) as a
regression: the first check alone accepts it and the graph stage would return a float32 tensor over
packed int8 bytes (`Defect.pinned`), the second check refuses it and `quantizePure` now raises
(`Defect.refused_now`).

Not covered here: the VALUES a consumer observes ("within one quantization step", C06/C07) and the
operator-level reading ("a float consumer never reads integer bytes") beyond the tensor-level
statement: a tensor's dtype/parameters always describe the bytes of its buffer.
-/
open Graph Perform

namespace C15

abbrev Referent := @SharingE2E.Referent
abbrev Retyped := @SharingE2E.Retyped
abbrev TypedBy := @SharingE2E.TypedBy
abbrev SameOn := @SharingE2E.SameOn
abbrev ConstData := @SharingE2E.ConstData
abbrev SharersAgree := @SharingE2E.SharersAgree

/-- the original constant buffer `b` is untouched, no retyping instruction exists on a tensor that
    references it, and every tensor of `m'` referencing it is an original tensor with its original
    record -/
def Untouched (m m' : Model) (tis : List TInsts) (b k : Nat) : Prop :=
  m'.buffers[b]? = some (some (.inl k)) ∧
  (∀ s i p, Referent m b s i → ¬ Retyped tis s i p) ∧
  ∀ (s : Nat) (sg' : Subgraph) (i : Nat) (tn' : Tensor), m'.subgraphs[s]? = some sg' →
    sg'.tensors[i]? = some tn' → tn'.buffer = b →
    ∃ sg, m.subgraphs[s]? = some sg ∧ sg.tensors[i]? = some tn'

/-- the buffer holds the packed data of a retyping instruction on one of its tensors -/
def Rewritten (pt : PTable) (m m' : Model) (tis : List TInsts) (b : Nat) : Prop :=
  ∃ s i p pi, Referent m b s i ∧ Retyped tis s i p ∧ pinfo pt p = some pi ∧ pi.hasData = true ∧
    m'.buffers[b]? = some (some (.inr p))

/-- the buffer holds the packed data of ONE parameter `p`, and every tensor of `m'` that references
    it is an original referent, retyped with `p`, and typed by `p` -/
def RewrittenAgree (pt : PTable) (m m' : Model) (tis : List TInsts) (b : Nat) : Prop :=
  ∃ p pi, pinfo pt p = some pi ∧ pi.hasData = true ∧ m'.buffers[b]? = some (some (.inr p)) ∧
    (∃ s i, Referent m b s i ∧ Retyped tis s i p) ∧
    ∀ (s : Nat) (sg' : Subgraph) (i : Nat) (tn' : Tensor), m'.subgraphs[s]? = some sg' →
      sg'.tensors[i]? = some tn' → tn'.buffer = b →
      Referent m b s i ∧ Retyped tis s i p ∧ TypedBy pt p tn'

/-- **graph stage, weak form** -/
theorem performer_buffer_weak (pt : PTable) (m m' : Model) (tis : List TInsts)
    (hwf : WF.modelOK m = true) (htag : Skeleton.origTagged m = true)
    (hok : ∀ ti ∈ tis, GraphInv.TInstsOK pt m ti) (hcd : ConstData pt m tis)
    (h : transformGraph pt m tis = .ok m')
    (b k : Nat) (hb : m.buffers[b]? = some (some (.inl k))) :
    Untouched m m' tis b k ∨ Rewritten pt m m' tis b :=
  SharingE2E.buffer_weak pt m m' tis hwf htag hok hcd h b k hb

/-- **graph stage, strong form** (`C15.performer_buffer_agrees`) -/
theorem performer_buffer_agrees (pt : PTable) (m m' : Model) (tis : List TInsts)
    (hwf : WF.modelOK m = true) (htag : Skeleton.origTagged m = true)
    (hok : ∀ ti ∈ tis, GraphInv.TInstsOK pt m ti) (hcd : ConstData pt m tis)
    (hsa : SharersAgree m tis) (h : transformGraph pt m tis = .ok m')
    (b k : Nat) (hb : m.buffers[b]? = some (some (.inl k))) :
    Untouched m m' tis b k ∨ RewrittenAgree pt m m' tis b :=
  SharingE2E.buffer_agrees pt m m' tis hwf htag hok hcd hsa h b k hb

/-- consequence: any two tensors of the output that reference one original constant buffer have
    equal `dtype`, and equal `quant` when the stored parameters are uniform (or the buffer is
    untouched and the input tensors were float, `quant = none`) -/
theorem performer_sharers_equal (pt : PTable) (m m' : Model) (tis : List TInsts)
    (hwf : WF.modelOK m = true) (htag : Skeleton.origTagged m = true)
    (hok : ∀ ti ∈ tis, GraphInv.TInstsOK pt m ti) (hcd : ConstData pt m tis)
    (hsa : SharersAgree m tis) (h : transformGraph pt m tis = .ok m')
    (b k : Nat) (hb : m.buffers[b]? = some (some (.inl k)))
    (s₁ s₂ : Nat) (sg₁ sg₂ : Subgraph) (i₁ i₂ : Nat) (t₁ t₂ : Tensor)
    (h₁ : m'.subgraphs[s₁]? = some sg₁) (g₁ : sg₁.tensors[i₁]? = some t₁) (b₁ : t₁.buffer = b)
    (h₂ : m'.subgraphs[s₂]? = some sg₂) (g₂ : sg₂.tensors[i₂]? = some t₂) (b₂ : t₂.buffer = b) :
    (m'.buffers[b]? = some (some (.inl k)) ∧ t₁ ∈ (m.subgraphs.flatMap (·.tensors)) ∧
      t₂ ∈ (m.subgraphs.flatMap (·.tensors))) ∨
    (∃ p pi, pinfo pt p = some pi ∧ m'.buffers[b]? = some (some (.inr p)) ∧ t₁.dtype = t₂.dtype ∧
      (pi.uniform = true → t₁.quant = some p ∧ t₂.quant = some p)) := by
  rcases performer_buffer_agrees pt m m' tis hwf htag hok hcd hsa h b k hb with
    ⟨u1, -, u3⟩ | ⟨p, pi, r1, -, r3, -, r5⟩
  · obtain ⟨sga, ha1, ha2⟩ := u3 s₁ sg₁ i₁ t₁ h₁ g₁ b₁
    obtain ⟨sgb, hb1, hb2⟩ := u3 s₂ sg₂ i₂ t₂ h₂ g₂ b₂
    exact .inl ⟨u1, List.mem_flatMap.2 ⟨sga, List.mem_of_getElem? ha1, List.mem_of_getElem? ha2⟩,
      List.mem_flatMap.2 ⟨sgb, List.mem_of_getElem? hb1, List.mem_of_getElem? hb2⟩⟩
  · obtain ⟨-, -, pi1, ty1, a1, a2, a3, a4⟩ := r5 s₁ sg₁ i₁ t₁ h₁ g₁ b₁
    obtain ⟨-, -, pi2, ty2, c1, c2, c3, c4⟩ := r5 s₂ sg₂ i₂ t₂ h₂ g₂ b₂
    rw [r1] at a1 c1; cases a1; cases c1
    rw [a2] at c2; cases c2
    exact .inr ⟨p, pi, r1, r3, by rw [a3, c3], fun hu => ⟨a4 hu, c4 hu⟩⟩

/-! ## NON-VACUITY and NECESSITY: two tensors `w1`, `w2` on one constant buffer

`y := OP(x, w1, w2)`; `w1` and `w2` both reference buffer 1 (weight tying). -/
namespace Tied

def tn (n : String) (b : Nat) : Tensor := { name := n, dtype := 0, shape := [2], buffer := b }

def sg : Subgraph :=
  { tensors := [tn "x" 0, tn "w1" 1, tn "w2" 1, tn "y" 0],
    ops := [{ code := 0, inputs := [0, 1, 2], outputs := [3], orig := some 0 }],
    inputs := [0], outputs := [3] }

def m : Model := { subgraphs := [sg], buffers := [none, some (.inl 0)], opcodes := [0], sigs := [] }

/-- parameters 0 and 1: int8 with packed data; parameter 2: int8 WITHOUT data -/
def pt : PTable := [(0, ⟨true, 8, true⟩), (1, ⟨true, 8, true⟩), (2, ⟨true, 8, false⟩)]

/-- one instruction on constant tensor `t` for operator 0 -/
def on (xf : Xf) (t : Int) (p : PId) : Inst := ⟨xf, t, -1, [0], some p⟩
def ent (n : String) (xf : Xf) (t : Int) (p : PId) : TInsts := ⟨n, 0, [on xf t p]⟩

theorem hwf : WF.modelOK m = true := by decide
theorem htag : Skeleton.origTagged m = true := by decide

theorem on_ok (xf : Xf) (hx : xf ≠ .emulated) (t : Int) (ht : t = 1 ∨ t = 2) (p : PId) :
    GraphInv.InstOK pt m sg (on xf t p) := by
  rcases ht with rfl | rfl
  · exact C03.instOK_of pt m sg _ hx (show WF.validT sg 1 = true by decide)
      (show (-1 : Int) ≤ -1 ∧ (-1 : Int) < sg.ops.length by decide)
      (show WF.avail m sg ((-1 : Int) + 1).toNat 1 = true by decide)
      (show ∀ c ∈ ([0] : List Int), c < 0 ∨ ((-1 : Int) < c ∧ c < sg.ops.length) by decide)
      (.inl (show isConst m sg 1 = true by decide))
  · exact C03.instOK_of pt m sg _ hx (show WF.validT sg 2 = true by decide)
      (show (-1 : Int) ≤ -1 ∧ (-1 : Int) < sg.ops.length by decide)
      (show WF.avail m sg ((-1 : Int) + 1).toNat 2 = true by decide)
      (show ∀ c ∈ ([0] : List Int), c < 0 ∨ ((-1 : Int) < c ∧ c < sg.ops.length) by decide)
      (.inl (show isConst m sg 2 = true by decide))

theorem ent_ok (n : String) (xf : Xf) (hx : xf ≠ .emulated) (t : Int) (ht : t = 1 ∨ t = 2) (p : PId) :
    GraphInv.TInstsOK pt m (ent n xf t p) := by
  refine C03.tinstsOK_of pt m _ 0 sg _ rfl (fun ins hins => ?_) (.inl (Nat.le_refl 1))
  rw [List.mem_singleton.1 hins]
  exact on_ok xf hx t ht p

/-! ### the agreeing case: QUANTIZE_TENSOR on `w1`, ADD_DEQUANTIZE on `w2`, same parameter 0 -/

def tisOK : List TInsts := [ent "w1" .quantTensor 1 0, ent "w2" .addDequant 2 0]

def mOK : Model :=
  { subgraphs :=
      [{ tensors := [tn "x" 0, { tn "w1" 1 with dtype := 9, quant := some 0 },
                     { tn "w2" 1 with dtype := 9, quant := some 0 }, tn "y" 0, tn "w2_dequant" 0],
         ops := [{ code := 1, inputs := [2], outputs := [4] },
                 { code := 0, inputs := [0, 1, 4], outputs := [3], orig := some 0 }],
         inputs := [0], outputs := [3] }],
    buffers := [none, some (.inr 0)], opcodes := [0, 6], sigs := [] }

theorem runOK : transformGraph pt m tisOK = .ok mOK := by decide

theorem okOK : ∀ ti ∈ tisOK, GraphInv.TInstsOK pt m ti := by
  intro ti hti
  simp only [tisOK, List.mem_cons, List.mem_nil_iff, or_false] at hti
  rcases hti with rfl | rfl
  · exact ent_ok _ _ (by decide) _ (.inl rfl) _
  · exact ent_ok _ _ (by decide) _ (.inr rfl) _

theorem cdOK : ConstData pt m tisOK :=
  SharingE2E.constData_of_b pt m tisOK (by decide) (by decide)

theorem saOK : SharersAgree m tisOK := SharingE2E.sharersAgree_of_b m tisOK (by decide) (by decide)

/-- all hypotheses of `performer_buffer_agrees` hold on the instance; the theorem applies … -/
theorem agrees_instance : Untouched m mOK tisOK 1 0 ∨ RewrittenAgree pt m mOK tisOK 1 :=
  performer_buffer_agrees pt m mOK tisOK hwf htag okOK cdOK saOK runOK 1 0 rfl

/-- … and it is the second alternative that holds: buffer 1 holds the packed data of parameter 0 and
    both `w1` and `w2` are int8 tensors carrying parameter 0 -/
example : mOK.buffers[1]? = some (some (.inr 0)) ∧
    (mOK.subgraphs[0]'(by decide)).tensors[1]? = some { tn "w1" 1 with dtype := 9, quant := some 0 } ∧
    (mOK.subgraphs[0]'(by decide)).tensors[2]? = some { tn "w2" 1 with dtype := 9, quant := some 0 } :=
  ⟨rfl, rfl, rfl⟩

/-! ### the untouched case: ADD_QUANTIZE on `w1` (a float reader `w2` next to a quantizing reader that
reads the FLOAT constant through an inserted QUANTIZE): the buffer stays float -/

def tisF : List TInsts := [ent "w1" .addQuant 1 2]

def mF : Model :=
  { subgraphs :=
      [{ tensors := [tn "x" 0, tn "w1" 1, tn "w2" 1, tn "y" 0,
                     { tn "w1_quantized" 0 with dtype := 9, quant := some 2 }],
         ops := [{ code := 1, inputs := [1], outputs := [4] },
                 { code := 0, inputs := [0, 4, 2], outputs := [3], orig := some 0 }],
         inputs := [0], outputs := [3] }],
    buffers := [none, some (.inl 0)], opcodes := [0, 114], sigs := [] }

theorem runF : transformGraph pt m tisF = .ok mF := by decide

theorem okF : ∀ ti ∈ tisF, GraphInv.TInstsOK pt m ti := by
  intro ti hti
  rw [List.mem_singleton.1 hti]
  exact ent_ok _ _ (by decide) _ (.inl rfl) _

theorem untouched_instance : Untouched m mF tisF 1 0 ∨ RewrittenAgree pt m mF tisF 1 :=
  performer_buffer_agrees pt m mF tisF hwf htag okF
    (SharingE2E.constData_of_b pt m tisF (by decide) (by decide))
    (SharingE2E.sharersAgree_of_b m tisF (by decide) (by decide)) runF 1 0 rfl

example : mF.buffers[1]? = some (some (.inl 0)) := rfl

/-! ### `SharersAgree.all` is necessary: only `w1` is retyped -/

def tisOne : List TInsts := [ent "w1" .quantTensor 1 0]

def sgOne : Subgraph :=
  { sg with tensors := [tn "x" 0, { tn "w1" 1 with dtype := 9, quant := some 0 }, tn "w2" 1, tn "y" 0] }

def mOne : Model := { m with subgraphs := [sgOne], buffers := [none, some (.inr 0)] }

theorem runOne : transformGraph pt m tisOne = .ok mOne := by decide

theorem okOne : ∀ ti ∈ tisOne, GraphInv.TInstsOK pt m ti := by
  intro ti hti
  rw [List.mem_singleton.1 hti]
  exact ent_ok _ _ (by decide) _ (.inl rfl) _

/-- every hypothesis except `SharersAgree.all` holds (well-formedness, consistent instructions,
    `ConstData`, one parameter per buffer), the run succeeds, and the FLOAT tensor `w2` is left over
    the INTEGER bytes of parameter 0: neither alternative of `performer_buffer_agrees` holds -/
theorem all_needed :
    (∀ ti ∈ tisOne, GraphInv.TInstsOK pt m ti) ∧ ConstData pt m tisOne ∧
    (∀ b c, m.buffers[b]? = some (some c) → SameOn m tisOne b) ∧
    transformGraph pt m tisOne = .ok mOne ∧
    ¬ (Untouched m mOne tisOne 1 0 ∨ RewrittenAgree pt m mOne tisOne 1) := by
  refine ⟨okOne, SharingE2E.constData_of_b pt m tisOne (by decide) (by decide), ?_, runOne, ?_⟩
  · intro b c hb s i p s' i' p' _ _ ⟨ti, hti, ins, hins, _, _, _, e4⟩ ⟨ti', hti', ins', hins', _, _, _, e4'⟩
    rw [List.mem_singleton.1 hti] at hins
    rw [List.mem_singleton.1 hti'] at hins'
    rw [List.mem_singleton.1 hins] at e4
    rw [List.mem_singleton.1 hins'] at e4'
    cases e4; cases e4'; rfl
  · rintro (⟨h1, -⟩ | ⟨p, pi, r1, -, r3, -, r5⟩)
    · cases h1
    · have hp : p = 0 := by
        have : mOne.buffers[1]? = some (some (.inr 0)) := rfl
        rw [this] at r3; cases r3; rfl
      subst hp
      obtain ⟨-, -, pi', ty, a1, a2, a3, -⟩ := r5 0 _ 2 (tn "w2" 1) rfl rfl rfl
      have : pinfo pt 0 = some ⟨true, 8, true⟩ := by decide
      rw [this] at a1; cases a1
      cases a2
      cases a3

/-- the offending state: `w2` is a float32 tensor without parameters whose buffer holds packed int8 data -/
example : (mOne.subgraphs[0]'(by decide)).tensors[2]? = some (tn "w2" 1) ∧
    (tn "w2" 1).dtype = Tables.ttFloat32 ∧ (tn "w2" 1).quant = none ∧
    mOne.buffers[(tn "w2" 1).buffer]? = some (some (.inr 0)) := ⟨rfl, rfl, rfl, rfl⟩

/-! ### `SharersAgree.same` is necessary: `w1` with parameter 0, `w2` with parameter 1 -/

def tisTwo : List TInsts := [ent "w1" .quantTensor 1 0, ent "w2" .quantTensor 2 1]

def sgTwo : Subgraph :=
  { sg with tensors := [tn "x" 0, { tn "w1" 1 with dtype := 9, quant := some 0 },
                        { tn "w2" 1 with dtype := 9, quant := some 1 }, tn "y" 0] }

def mTwo : Model := { m with subgraphs := [sgTwo], buffers := [none, some (.inr 1)] }

theorem runTwo : transformGraph pt m tisTwo = .ok mTwo := by decide

theorem okTwo : ∀ ti ∈ tisTwo, GraphInv.TInstsOK pt m ti := by
  intro ti hti
  simp only [tisTwo, List.mem_cons, List.mem_nil_iff, or_false] at hti
  rcases hti with rfl | rfl
  · exact ent_ok _ _ (by decide) _ (.inl rfl) _
  · exact ent_ok _ _ (by decide) _ (.inr rfl) _

/-- every hypothesis except `SharersAgree.same` holds (in particular all tensors of the buffer are
    retyped), and `w1` carries parameter 0 over the bytes of parameter 1 (the buffer was written twice) -/
theorem same_needed :
    (∀ ti ∈ tisTwo, GraphInv.TInstsOK pt m ti) ∧ ConstData pt m tisTwo ∧
    SharingE2E.allB m tisTwo = true ∧ transformGraph pt m tisTwo = .ok mTwo ∧
    ¬ (Untouched m mTwo tisTwo 1 0 ∨ RewrittenAgree pt m mTwo tisTwo 1) := by
  refine ⟨okTwo, SharingE2E.constData_of_b pt m tisTwo (by decide) (by decide), by decide, runTwo, ?_⟩
  rintro (⟨h1, -⟩ | ⟨p, pi, r1, -, r3, -, r5⟩)
  · cases h1
  · have hp : p = 1 := by
      have : mTwo.buffers[1]? = some (some (.inr 1)) := rfl
      rw [this] at r3; cases r3; rfl
    subst hp
    obtain ⟨-, -, pi', ty, a1, -, -, a4⟩ := r5 0 _ 1 { tn "w1" 1 with dtype := 9, quant := some 0 } rfl rfl rfl
    have : pinfo pt 1 = some ⟨true, 8, true⟩ := by decide
    rw [this] at a1; cases a1
    cases a4 rfl

/-! ### `ConstData` is necessary: a constant retyped with a parameter that has no packed data -/

def tisND : List TInsts := [ent "w1" .quantTensor 1 2, ent "w2" .quantTensor 2 2]

def sgND : Subgraph :=
  { sg with tensors := [tn "x" 0, { tn "w1" 1 with dtype := 9, quant := some 2 },
                        { tn "w2" 1 with dtype := 9, quant := some 2 }, tn "y" 0] }

def mND : Model := { m with subgraphs := [sgND] }

theorem runND : transformGraph pt m tisND = .ok mND := by decide

theorem okND : ∀ ti ∈ tisND, GraphInv.TInstsOK pt m ti := by
  intro ti hti
  simp only [tisND, List.mem_cons, List.mem_nil_iff, or_false] at hti
  rcases hti with rfl | rfl
  · exact ent_ok _ _ (by decide) _ (.inl rfl) _
  · exact ent_ok _ _ (by decide) _ (.inr rfl) _

/-- every hypothesis except `ConstData` holds and two int8 tensors are left over FLOAT bytes: not even
    the weak conclusion holds -/
theorem constData_needed :
    (∀ ti ∈ tisND, GraphInv.TInstsOK pt m ti) ∧ SharersAgree m tisND ∧
    transformGraph pt m tisND = .ok mND ∧
    ¬ (Untouched m mND tisND 1 0 ∨ Rewritten pt m mND tisND 1) := by
  refine ⟨okND, SharingE2E.sharersAgree_of_b m tisND (by decide) (by decide), runND, ?_⟩
  rintro (⟨-, h2, -⟩ | ⟨s, i, p, pi, -, -, -, -, r5⟩)
  · exact h2 0 1 2 ⟨sg, _, rfl, rfl, rfl⟩ ⟨_, List.mem_cons_self, _, List.mem_cons_self, rfl, rfl, rfl, rfl⟩
  · cases r5

end Tied

/-! ## Request / instruction-generation stage (`C15.sharersAgree_of_check`)

`Ctx m res` collects what `Mat.generate` guarantees about its result dictionary `res` (well-formed
model with unique tensor names, graph inputs not constant, every entry has the closed shape
`Pipe.EntryOK`, keys distinct); `SharingData.generate_res` proves it for every successful run. -/

abbrev Ctx := @SharingGen.Ctx

/-- **soundness of `Mat.checkUnreadOwn`** (in the style of `sharing_unread`): a constant that no
    operator reads and whose OWN request rewrites its buffer (a consumer whose first transformation
    is QUANTIZE_TENSOR / ADD_DEQUANTIZE) is the only tensor of the model that references that buffer -/
theorem unreadOwn_sound (m : Model) (res : List (String × Mat.CReq)) (h : Mat.checkUnreadOwn m res = .ok ())
    (sg : Subgraph) (hsg : sg ∈ m.subgraphs) (t : Tensor) (ht : t ∈ sg.tensors)
    (hun : t.name ∉ (Mat.bufferToTensors m).flatMap (·.2))
    (hdata : ∃ c, m.buffers[t.buffer]? = some (some c))
    (own : Mat.CReq) (hown : Py.dictGet? res t.name = some own)
    (hrw : ∃ c ∈ own.consumers.getD [], ∃ x, c.xfs.head? = some x ∧ (x = .quantTensor ∨ x = .addDequant)) :
    (m.subgraphs.flatMap (·.tensors)).countP (fun u => u.buffer == t.buffer) ≤ 1 :=
  SharingGen.unreadOwn_sound m res h sg hsg t ht hun hdata own hown hrw

/-- **soundness of the two sharing checks w.r.t. the generated instructions**: the requests that pass
    `Mat.checkBufferSharing` and `Mat.checkUnreadOwn` and go through `absReqs` / `InstGen.genInsts` yield
    instructions satisfying `SharersAgree`.  Covered: QUANTIZE_TENSOR next to ADD_DEQUANTIZE with
    `==`-equal parameters (both retyped with ONE id, because `Param.eqv` is an equivalence and ids are
    `==`-classes), float readers (NO_QUANTIZE / ADD_QUANTIZE) among themselves (buffer untouched),
    several consumers of one tensor, tensors in different subgraphs, unread sharers of a rewritten
    operand (`sharing_unread`), and an unread constant that is itself rewritten (`unreadOwn_sound`: it
    is then the only referent, and all its requests come from the OUTPUT pseudo-operator, which makes
    one request per tensor). -/
theorem sharersAgree_of_check {m : Model} {res : List (String × Mat.CReq)} (C : Ctx m res)
    (hchk : Mat.checkBufferSharing m res = .ok ()) (hown : Mat.checkUnreadOwn m res = .ok ())
    (tis : List TInsts)
    (hgen : InstGen.genInsts m (Pipeline.absReqs (res.map (·.2))).2 = .ok tis) : SharersAgree m tis :=
  SharingGen.sharersAgree_of_check C hchk hown tis hgen

/-- `ConstData` holds for the instructions generated from the requests of `Mat.generate`: a rewriting
    request on a constant always carries the packed data (`SharingData.ResCD`, proved for every
    materialisation function) -/
theorem constData_of_generate {m : Model} {res : List (String × Mat.CReq)} (C : Ctx m res)
    (hcd : SharingData.ResCD res) (tis : List TInsts)
    (hgen : InstGen.genInsts m (Pipeline.absReqs (res.map (·.2))).2 = .ok tis) :
    ConstData (Pipeline.ptableOf (Pipeline.absReqs (res.map (·.2))).1) m tis :=
  SharingData.constData_of_cd C hcd tis hgen

/-! ## End to end (`C15.quantize_shared_consistent`) -/

/-- the conclusion, in terms of the input model, the output model and the parameter table only:
    every original constant buffer `b` is
    * untouched, and then every tensor of the output that references `b` is an original tensor with its
      original record (a float tensor over float bytes); or
    * rewritten with the packed data of ONE parameter object `p`, and then every tensor of the output
      that references `b` is an original referent of `b` typed by `p` (dtype `dtypeOf (pinfo p)`,
      `quant = some p` if `p` is uniform): an integer tensor over integer bytes with matching parameters -/
def SharedConsistent (env : Mat.Env) (m' : Model) (tbl : List Mat.Param) : Prop :=
  ∀ b k, env.model.buffers[b]? = some (some (.inl k)) →
    (m'.buffers[b]? = some (some (.inl k)) ∧
      ∀ (s : Nat) (sg' : Subgraph) (i : Nat) (tn' : Tensor), m'.subgraphs[s]? = some sg' →
        sg'.tensors[i]? = some tn' → tn'.buffer = b →
        ∃ sg, env.model.subgraphs[s]? = some sg ∧ sg.tensors[i]? = some tn') ∨
    (∃ p pi, pinfo (Pipeline.ptableOf tbl) p = some pi ∧ pi.hasData = true ∧
      m'.buffers[b]? = some (some (.inr p)) ∧
      ∀ (s : Nat) (sg' : Subgraph) (i : Nat) (tn' : Tensor), m'.subgraphs[s]? = some sg' →
        sg'.tensors[i]? = some tn' → tn'.buffer = b →
        Referent env.model b s i ∧ TypedBy (Pipeline.ptableOf tbl) p tn')

/-- **end to end** (`C15.quantize_shared_consistent`): for every model in normal form, every recipe
    state, regex semantics and statistics, `quantize()` raises or returns a model in which every
    original constant buffer and all tensors that reference it are consistent.  Nothing else is
    assumed: `ConstData`, `SharersAgree`, `TInstsOK` are all derived from the run. -/
theorem quantize_shared_consistent (rx : String → String → Bool) (env : Mat.Env)
    (st : Recipe.State) (qsvs : Option Mat.Qsvs) (m' : Model) (tbl : List Mat.Param)
    (hnf : PipelineWF.NF env st)
    (h : Pipeline.quantizePure rx env st qsvs = .ok (m', tbl)) : SharedConsistent env m' tbl := by
  obtain ⟨tis, -, hall⟩ := SharingData.quantize_shared rx env st qsvs m' tbl hnf h
  intro b k hb
  rcases hall b k hb with ⟨u1, -, u3⟩ | ⟨p, pi, r1, r2, r3, -, r5⟩
  · exact .inl ⟨u1, u3⟩
  · exact .inr ⟨p, pi, r1, r2, r3, fun s sg' i tn' h1 h2 h3 =>
      ⟨(r5 s sg' i tn' h1 h2 h3).1, (r5 s sg' i tn' h1 h2 h3).2.2⟩⟩

/-- the full statement as one closed proposition (it was FALSE before the repair D35) -/
def QuantizeSharedConsistent : Prop :=
  ∀ (rx : String → String → Bool) (env : Mat.Env) (st : Recipe.State) (qsvs : Option Mat.Qsvs)
    (m' : Model) (tbl : List Mat.Param), PipelineWF.NF env st →
    Pipeline.quantizePure rx env st qsvs = .ok (m', tbl) → SharedConsistent env m' tbl

theorem quantizeSharedConsistent : QuantizeSharedConsistent :=
  fun rx env st qsvs m' tbl hnf h => quantize_shared_consistent rx env st qsvs m' tbl hnf h

/-- the same with the generated instructions `tis` made explicit: they satisfy `SharersAgree` (one
    parameter per constant buffer, all of its tensors retyped or none: "quantized exactly once") and
    the graph-stage alternatives `Untouched` / `RewrittenAgree` hold w.r.t. them -/
theorem quantize_shared_insts (rx : String → String → Bool) (env : Mat.Env)
    (st : Recipe.State) (qsvs : Option Mat.Qsvs) (m' : Model) (tbl : List Mat.Param)
    (hnf : PipelineWF.NF env st)
    (h : Pipeline.quantizePure rx env st qsvs = .ok (m', tbl)) :
    ∃ tis : List TInsts, SharersAgree env.model tis ∧
      ∀ b k, env.model.buffers[b]? = some (some (.inl k)) →
        Untouched env.model m' tis b k ∨ RewrittenAgree (Pipeline.ptableOf tbl) env.model m' tis b :=
  SharingData.quantize_shared rx env st qsvs m' tbl hnf h

/-- consequence in the form "any two tensors of the output that reference one original constant
    buffer have equal `dtype`, and (uniform parameters) both carry the parameter `p` of the stored
    bytes; or the buffer and both tensors are untouched" -/
theorem quantize_sharers_equal (rx : String → String → Bool) (env : Mat.Env)
    (st : Recipe.State) (qsvs : Option Mat.Qsvs) (m' : Model) (tbl : List Mat.Param)
    (hnf : PipelineWF.NF env st)
    (h : Pipeline.quantizePure rx env st qsvs = .ok (m', tbl))
    (b k : Nat) (hb : env.model.buffers[b]? = some (some (.inl k)))
    (s₁ s₂ : Nat) (sg₁ sg₂ : Subgraph) (i₁ i₂ : Nat) (t₁ t₂ : Tensor)
    (h₁ : m'.subgraphs[s₁]? = some sg₁) (g₁ : sg₁.tensors[i₁]? = some t₁) (b₁ : t₁.buffer = b)
    (h₂ : m'.subgraphs[s₂]? = some sg₂) (g₂ : sg₂.tensors[i₂]? = some t₂) (b₂ : t₂.buffer = b) :
    (m'.buffers[b]? = some (some (.inl k)) ∧ t₁ ∈ (env.model.subgraphs.flatMap (·.tensors)) ∧
      t₂ ∈ (env.model.subgraphs.flatMap (·.tensors))) ∨
    (∃ p pi, pinfo (Pipeline.ptableOf tbl) p = some pi ∧ m'.buffers[b]? = some (some (.inr p)) ∧
      t₁.dtype = t₂.dtype ∧ (pi.uniform = true → t₁.quant = some p ∧ t₂.quant = some p)) := by
  have hall := quantize_shared_consistent rx env st qsvs m' tbl hnf h
  rcases hall b k hb with ⟨u1, u3⟩ | ⟨p, pi, r1, -, r3, r5⟩
  · obtain ⟨sga, ha1, ha2⟩ := u3 s₁ sg₁ i₁ t₁ h₁ g₁ b₁
    obtain ⟨sgb, hb1, hb2⟩ := u3 s₂ sg₂ i₂ t₂ h₂ g₂ b₂
    exact .inl ⟨u1, List.mem_flatMap.2 ⟨sga, List.mem_of_getElem? ha1, List.mem_of_getElem? ha2⟩,
      List.mem_flatMap.2 ⟨sgb, List.mem_of_getElem? hb1, List.mem_of_getElem? hb2⟩⟩
  · obtain ⟨-, pi1, ty1, a1, a2, a3, a4⟩ := r5 s₁ sg₁ i₁ t₁ h₁ g₁ b₁
    obtain ⟨-, pi2, ty2, c1, c2, c3, c4⟩ := r5 s₂ sg₂ i₂ t₂ h₂ g₂ b₂
    rw [r1] at a1 c1; cases a1; cases c1
    rw [a2] at c2; cases c2
    exact .inr ⟨p, pi, r1, r3, by rw [a3, c3], fun hu => ⟨a4 hu, c4 hu⟩⟩

/-! ### NON-VACUITY: tied FULLY_CONNECTED weights under weight-only quantization

`h := FC(x, w1)`, `y := FC(h, w2)`; `w1` and `w2` reference buffer 1.  The whole `quantizePure` is
evaluated by the kernel (`decide +kernel`: no compiler, no extra axiom). -/
namespace E2E

def T (n : String) (sh : List Int) (b : Nat) : Tensor := { name := n, dtype := 0, shape := sh, buffer := b }

def mT : Model :=
  { subgraphs := [{ tensors := [T "x" [1,2] 0, T "w1" [2,2] 1, T "h" [1,2] 0, T "w2" [2,2] 1, T "y" [1,2] 0],
                    ops := [{ code := 0, inputs := [0,1,-1], outputs := [2], orig := some 0 },
                            { code := 0, inputs := [2,3,-1], outputs := [4], orig := some 1 }],
                    inputs := [0], outputs := [4] }],
    buffers := [none, some (.inl 0)], opcodes := [9], sigs := [] }

def envT : Mat.Env := { model := mT, consts := [(1, [1,2,3,4])], adjY := [] }

def cfgWO : Cfg.OpCfg :=
  { act := none, weight := some { bits := 8, symmetric := true, gran := .channelwise }, cp := .integer,
    skipChecks := true }
def stWO : Recipe.State := [(".*", [⟨".*", "*", Tables.algMinMax, cfgWO⟩])]
def rxAll : String → String → Bool := fun _ _ => true

def mT' : Model :=
  { subgraphs := [{ tensors := [T "x" [1,2] 0, { T "w1" [2,2] 1 with dtype := 9, quant := some 0 },
                                T "h" [1,2] 0, { T "w2" [2,2] 1 with dtype := 9, quant := some 0 },
                                T "y" [1,2] 0],
                    ops := [{ code := 0, inputs := [0,1,-1], outputs := [2], orig := some 0 },
                            { code := 0, inputs := [2,3,-1], outputs := [4], orig := some 1 }],
                    inputs := [0], outputs := [4] }],
    buffers := [none, some (.inr 0)], opcodes := [9], sigs := [] }

theorem nfT : PipelineWF.NF envT stWO :=
  SharingData.nf_of_fcOnly envT stWO (by decide) (by decide) (by decide) (by decide) (by decide)

/-- the run succeeds with the result `mT'` -/
theorem runT : ∃ tbl, Pipeline.quantizePure rxAll envT stWO none = .ok (mT', tbl) ∧
    Pipeline.ptableOf tbl = [(0, ⟨true, 8, true⟩)] := by
  have h : (match Pipeline.quantizePure rxAll envT stWO none with
      | .ok r => decide (r.1 = mT' ∧ Pipeline.ptableOf r.2 = [(0, ⟨true, 8, true⟩)])
      | .error _ => false) = true := by decide +kernel
  cases hq : Pipeline.quantizePure rxAll envT stWO none with
  | error e => rw [hq] at h; cases h
  | ok r =>
    rw [hq] at h
    simp only [decide_eq_true_eq] at h
    exact ⟨r.2, by rw [← h.1], h.2⟩

/-- all hypotheses of `quantize_shared_consistent` hold on the instance, the theorem applies … -/
theorem consistent_instance : ∃ tbl, SharedConsistent envT mT' tbl := by
  obtain ⟨tbl, hrun, -⟩ := runT
  exact ⟨tbl, quantize_shared_consistent rxAll envT stWO none mT' tbl nfT hrun⟩

/-- … and what it says here: buffer 1 holds the packed data of parameter 0, and `w1`, `w2` are both
    int8 tensors carrying parameter 0 -/
example : mT'.buffers[1]? = some (some (.inr 0)) ∧
    (mT'.subgraphs[0]'(by decide)).tensors[1]? = some { T "w1" [2,2] 1 with dtype := 9, quant := some 0 } ∧
    (mT'.subgraphs[0]'(by decide)).tensors[3]? = some { T "w2" [2,2] 1 with dtype := 9, quant := some 0 } :=
  ⟨rfl, rfl, rfl⟩

end E2E

/-! ### Regression (repair D35): a constant that is only a graph output, next to a float reader

`y := FC(x, w)`; the graph outputs are `y` and the constant `g`, which shares buffer 1 with `w` and is
read by no operator.  Recipe: static-range int8 for everything (`*`), FULLY_CONNECTED left float.
The OUTPUT pseudo-operator requests QUANTIZE_TENSOR for `g`; `w` is requested NO_QUANTIZE.
`checkBufferSharing` looks at the requests of the OPERAND tensors of a buffer among themselves, and at
an unread tensor only to reject when an operand that shares its buffer is rewritten -- it never looks
at the unread tensor's OWN request, so it accepts (`pinned`), and the graph stage then returns a model
in which the FLOAT32 tensor `w` (read by the float FULLY_CONNECTED) references a buffer holding the
packed INT8 data of `g`.  `checkUnreadOwn` refuses the requests, `quantizePure` raises
(`refused_now`).  The model is in normal form (`nfG`).  (Before the repair the Python library
returned a flatbuffer that the TFLite interpreter rejects: "Tensor 1 is invalidly specified".) -/
namespace Defect
open E2E

def mG : Model :=
  { subgraphs := [{ tensors := [T "x" [1,2] 0, T "w" [2,2] 1, T "y" [1,2] 0, T "g" [2,2] 1],
                    ops := [{ code := 0, inputs := [0,1,-1], outputs := [2], orig := some 0 }],
                    inputs := [0], outputs := [2,3] }],
    buffers := [none, some (.inl 0)], opcodes := [9], sigs := [] }

def envG : Mat.Env := { model := mG, consts := [(1, [1,2,3,4])], adjY := [] }

def f32 (sh : List Nat) (l : List Rat) : Arith.FArr := ⟨⟨sh, l⟩, .f32⟩
def qsG : Mat.Qsvs := [("x", some (f32 [1,1] [1], f32 [1,1] [2])), ("y", some (f32 [1,1] [1], f32 [1,1] [4]))]

def cfgSRQ : Cfg.OpCfg :=
  { act := some { bits := 8, symmetric := false },
    weight := some { bits := 8, symmetric := true, gran := .tensorwise }, cp := .integer, skipChecks := true }
/-- `*` ↦ static-range int8, then FULLY_CONNECTED ↦ not quantized -/
def stG : Recipe.State :=
  [(".*", [⟨".*", "*", Tables.algMinMax, cfgSRQ⟩, ⟨".*", "FULLY_CONNECTED", Tables.algNoQuantize, {}⟩])]

/-- what the graph stage makes of the requests the first check accepts -/
def mG' : Model :=
  { subgraphs := [{ tensors := [{ T "x" [1,2] 0 with dtype := 9, quant := some 0 }, T "w" [2,2] 1, T "y" [1,2] 0,
                                { T "g" [2,2] 1 with dtype := 9, quant := some 2 }, T "x_dequant" [1,2] 0,
                                { T "y_quantized" [1,2] 0 with dtype := 9, quant := some 1 }],
                    ops := [{ code := 1, inputs := [0], outputs := [4] },
                            { code := 0, inputs := [4,1,-1], outputs := [2], orig := some 0 },
                            { code := 2, inputs := [2], outputs := [5] }],
                    inputs := [0], outputs := [5,3] }],
    buffers := [none, some (.inr 2)], opcodes := [9, 6, 114], sigs := [] }

theorem nfG : PipelineWF.NF envG stG :=
  SharingData.nf_of_fcOnly envG stG (by decide) (by decide) (by decide) (by decide) (by decide)

/-- **regression**: `quantize()` now raises on the former counterexample -/
theorem refused_now : ∃ e, Pipeline.quantizePure rxAll envG stG (some qsG) = .error e ∧ e = .runtimeError := by
  have h : (match Pipeline.quantizePure rxAll envG stG (some qsG) with
      | .ok _ => false
      | .error e => decide (e = .runtimeError)) = true := by decide +kernel
  cases hq : Pipeline.quantizePure rxAll envG stG (some qsG) with
  | ok r => rw [hq] at h; cases h
  | error e =>
    rw [hq] at h
    simp only [decide_eq_true_eq] at h
    exact ⟨e, rfl, h⟩

/-- **pinned behaviour of the two checks**: on the result dictionary `res` of the materialisation
    loop, `checkBufferSharing` ALONE accepts, `checkUnreadOwn` refuses; and the graph stage applied to
    these requests would return `mG'` -/
theorem pinned : ∃ qs res,
    mG.subgraphs.zipIdx.foldlM (Pipe.sgStep rxAll envG stG) (qsG, []) = .ok (qs, res) ∧
    Mat.checkBufferSharing mG res = .ok () ∧ Mat.checkUnreadOwn mG res = .error .runtimeError ∧
    Perform.modify (Pipeline.ptableOf (Pipeline.absReqs (res.map (·.2))).1) mG
      (Pipeline.absReqs (res.map (·.2))).2 = .ok mG' := by
  have h : (match mG.subgraphs.zipIdx.foldlM (Pipe.sgStep rxAll envG stG) (qsG, []) with
      | .ok s => decide (Mat.checkBufferSharing mG s.2 = .ok () ∧
          Mat.checkUnreadOwn mG s.2 = .error .runtimeError ∧
          Perform.modify (Pipeline.ptableOf (Pipeline.absReqs (s.2.map (·.2))).1) mG
            (Pipeline.absReqs (s.2.map (·.2))).2 = .ok mG')
      | .error _ => false) = true := by decide +kernel
  cases hq : mG.subgraphs.zipIdx.foldlM (Pipe.sgStep rxAll envG stG) (qsG, []) with
  | error e => rw [hq] at h; cases h
  | ok s =>
    rw [hq] at h
    simp only [decide_eq_true_eq] at h
    exact ⟨s.1, s.2, rfl, h⟩

/-- the inconsistent state the second check prevents: the float32 tensor `w`, read by the float
    operator, would reference a buffer that holds packed int8 data -/
example : (mG'.subgraphs[0]'(by decide)).tensors[1]? = some (T "w" [2,2] 1) ∧
    (T "w" [2,2] 1).dtype = Tables.ttFloat32 ∧ (T "w" [2,2] 1).quant = none ∧
    mG'.buffers[(T "w" [2,2] 1).buffer]? = some (some (.inr 2)) ∧
    ((mG'.subgraphs[0]'(by decide)).ops[1]'(by decide)).inputs = [4, 1, -1] := ⟨rfl, rfl, rfl, rfl, rfl⟩

/-! #### the accepted neighbour: the same model with `g` over its OWN buffer

The unread constant `g` is rewritten through the OUTPUT pseudo-operator, it is the only referent of
buffer 2 (`unreadOwn_sound`), `w` stays float over the untouched buffer 1. -/

def mU : Model :=
  { mG with subgraphs := [{ tensors := [T "x" [1,2] 0, T "w" [2,2] 1, T "y" [1,2] 0, T "g" [2,2] 2],
                            ops := [{ code := 0, inputs := [0,1,-1], outputs := [2], orig := some 0 }],
                            inputs := [0], outputs := [2,3] }],
            buffers := [none, some (.inl 0), some (.inl 1)] }

def envU : Mat.Env := { model := mU, consts := [(1, [1,2,3,4]), (2, [1,2,3,4])], adjY := [] }

def mU' : Model :=
  { subgraphs := [{ tensors := [{ T "x" [1,2] 0 with dtype := 9, quant := some 0 }, T "w" [2,2] 1, T "y" [1,2] 0,
                                { T "g" [2,2] 2 with dtype := 9, quant := some 2 }, T "x_dequant" [1,2] 0,
                                { T "y_quantized" [1,2] 0 with dtype := 9, quant := some 1 }],
                    ops := [{ code := 1, inputs := [0], outputs := [4] },
                            { code := 0, inputs := [4,1,-1], outputs := [2], orig := some 0 },
                            { code := 2, inputs := [2], outputs := [5] }],
                    inputs := [0], outputs := [5,3] }],
    buffers := [none, some (.inl 0), some (.inr 2)], opcodes := [9, 6, 114], sigs := [] }

theorem nfU : PipelineWF.NF envU stG :=
  SharingData.nf_of_fcOnly envU stG (by decide) (by decide) (by decide) (by decide) (by decide)

theorem runU : ∃ tbl, Pipeline.quantizePure rxAll envU stG (some qsG) = .ok (mU', tbl) := by
  have h : (match Pipeline.quantizePure rxAll envU stG (some qsG) with
      | .ok r => decide (r.1 = mU')
      | .error _ => false) = true := by decide +kernel
  cases hq : Pipeline.quantizePure rxAll envU stG (some qsG) with
  | error e => rw [hq] at h; cases h
  | ok r =>
    rw [hq] at h
    simp only [decide_eq_true_eq] at h
    exact ⟨r.2, by rw [← h]⟩

/-- `quantize_shared_consistent` applies; here buffer 1 is untouched (float `w`) and buffer 2 is
    rewritten for its only referent `g` -/
theorem accepted_instance : ∃ tbl, SharedConsistent envU mU' tbl := by
  obtain ⟨tbl, hrun⟩ := runU
  exact ⟨tbl, quantize_shared_consistent rxAll envU stG (some qsG) mU' tbl nfU hrun⟩

end Defect

end C15
