import QProofs.GraphTotal
/-!
# C08b — the graph stage cannot raise (totality)

`C01.performer_wf` / `C01.modify_wf` are PARTIAL correctness statements: *if* the graph stage returns,
the result is well-formed.  Here the dual: under the same hypotheses plus

* `ParamsKnown`  -- every quantizing instruction carries a parameter that the parameter table and the
                    type table know (excludes AttributeError on `None.quantized_data`, the model's
                    `unsupported` for an unknown parameter object, ValueError of
                    `quant_params_to_tflite_type`);
* `HasConsumers` -- an instruction that inserts an operator has at least one consumer (excludes
                    ValueError of `min([])` in `insert_quant` / `insert_dequant`);

the performer returns (`performer_total`), and under `ReqOK` plus the request-level `ReqParamsKnown`
and `NoMixed` (excludes ValueError of `_check_tensor_transformation_instructions_valid`) so does
instruction generation followed by the performer (`modify_total`; `HasConsumers` is *derived* there).

Every other raise site is excluded by the hypotheses C01 already had:
* `applySingle`: instruction index (loop range), `origMap` / `addedMap` / subgraph lookups
  (`Inv.nom`, `Inv.nam`, `Inv.nsg`), producer / consumer translation through the op-id map
  (`InstOK.prodRange`, `InstOK.consAfter`, `SgInv.len`), `noQuant → KeyError` (never dispatched:
  `isInsertion`), `emulated → unsupported` (`InstOK.notEmulated`, also for the check after the loop);
* `quantizeTensor`: tensor index (`InstOK.tvalid`, `SgInv.tlen`), buffer index (`WF.sgOK`: every
  tensor's buffer is in range; buffer 0 exists);
* `rewire`: consumer positions (`InpOK.consAfter` through the op-id map);
* `tensorInsts`: unknown tensor name (`ReqOK.known`).

The added hypotheses are necessary: `Counter` below gives, for each of them, an input that satisfies
all the other hypotheses and on which the stage evaluates to `.error _`.
-/
open Graph Perform InstGen

namespace C08

/-- `GraphTotal.ParamOK pt param`: `param = some p`, `pinfo pt p = some pi`, `dtypeOf pi = .ok _` -/
abbrev ParamOK := @GraphTotal.ParamOK
/-- every instruction the performer executes (`isInsertion`) has a usable parameter -/
abbrev ParamsKnown := @GraphTotal.ParamsKnown
/-- every op-adding instruction (`addQuant` / `addDequant`) has at least one consumer -/
abbrev HasConsumers := @GraphTotal.HasConsumers
/-- request-level `ParamsKnown`: an operator entry asking for a quantizing transformation has a
    usable parameter -/
abbrev ReqParamsKnown := @GraphTotal.ReqParamsKnown
/-- a `NO_QUANTIZE` entry (producer or consumer) never meets a consumer entry `QUANTIZE_TENSOR` /
    `ADD_DEQUANTIZE` -/
abbrev NoMixed := @GraphTotal.NoMixed

/-- **the performer cannot raise** on consistent, chain-free instruction lists over a well-formed model -/
theorem performer_total (pt : PTable) (m : Model) (tis : List TInsts)
    (hwf : WF.modelOK m = true) (hok : ∀ ti ∈ tis, GraphInv.TInstsOK pt m ti)
    (hpar : ParamsKnown pt tis) (hcons : HasConsumers tis) :
    ∃ m', transformGraph pt m tis = .ok m' :=
  GraphTotal.transformGraph_total pt m tis hwf hok hpar hcons

/-- … and, with `C01.performer_wf`, the result is well-formed -/
theorem performer_total_wf (pt : PTable) (m : Model) (tis : List TInsts)
    (hwf : WF.modelOK m = true) (hok : ∀ ti ∈ tis, GraphInv.TInstsOK pt m ti)
    (hpar : ParamsKnown pt tis) (hcons : HasConsumers tis) :
    ∃ m', transformGraph pt m tis = .ok m' ∧ WF.modelOK m' = true := by
  obtain ⟨m', h⟩ := performer_total pt m tis hwf hok hpar hcons
  exact ⟨m', h, GraphInv.transformGraph_ok pt m m' tis hwf hok h⟩

/-- **instruction generation followed by the performer cannot raise** on requests of the closed shape -/
theorem modify_total (pt : PTable) (m : Model) (reqs : List TReq)
    (hwf : WF.modelOK m = true) (hnames : GenInstsOK.namesUnique m)
    (hreq : ∀ r ∈ reqs, GenInstsOK.ReqOK pt m r)
    (hpar : ∀ r ∈ reqs, ReqParamsKnown pt r) (hmix : ∀ r ∈ reqs, NoMixed r) :
    ∃ m', Perform.modify pt m reqs = .ok m' :=
  GraphTotal.modify_total pt m reqs hwf hnames hreq hpar hmix

theorem modify_total_wf (pt : PTable) (m : Model) (reqs : List TReq)
    (hwf : WF.modelOK m = true) (hnames : GenInstsOK.namesUnique m)
    (hreq : ∀ r ∈ reqs, GenInstsOK.ReqOK pt m r)
    (hpar : ∀ r ∈ reqs, ReqParamsKnown pt r) (hmix : ∀ r ∈ reqs, NoMixed r) :
    ∃ m', Perform.modify pt m reqs = .ok m' ∧ WF.modelOK m' = true := by
  obtain ⟨m', h⟩ := modify_total pt m reqs hwf hnames hreq hpar hmix
  exact ⟨m', h, GenInstsOK.modify_ok pt m m' reqs hwf hnames hreq h⟩

/-- instruction generation alone: it returns, and what it returns satisfies ALL hypotheses of
    `performer_total` (`HasConsumers` is a consequence of the closed request shape) -/
theorem genInsts_total (pt : PTable) (m : Model) (reqs : List TReq)
    (hwf : WF.modelOK m = true) (hnames : GenInstsOK.namesUnique m)
    (hreq : ∀ r ∈ reqs, GenInstsOK.ReqOK pt m r)
    (hpar : ∀ r ∈ reqs, ReqParamsKnown pt r) (hmix : ∀ r ∈ reqs, NoMixed r) :
    ∃ tis, genInsts m reqs = .ok tis ∧ (∀ ti ∈ tis, GraphInv.TInstsOK pt m ti) ∧
      ParamsKnown pt tis ∧ HasConsumers tis := by
  obtain ⟨tis, h, h1, h2⟩ := GraphTotal.genInsts_total pt m reqs hreq hpar hmix
  exact ⟨tis, h, GenInstsOK.genInsts_ok pt m reqs tis hwf hnames hreq h, h1, h2⟩

/-! ## decidable forms of the hypotheses (for concrete inputs) -/

/-- Boolean form of `ParamOK` -/
def paramOKb (pt : PTable) (param : Option PId) : Bool :=
  match param with
  | none => false
  | some p =>
    match pinfo pt p with
    | none => false
    | some pi => match dtypeOf pi with | .ok _ => true | .error _ => false

theorem paramOK_of_b (pt : PTable) (param : Option PId) (h : paramOKb pt param = true) : ParamOK pt param := by
  unfold paramOKb at h
  cases param with
  | none => cases h
  | some p =>
    simp only at h
    cases hp : pinfo pt p with
    | none => rw [hp] at h; cases h
    | some pi =>
      rw [hp] at h
      simp only at h
      cases hd : dtypeOf pi with
      | error e => rw [hd] at h; cases h
      | ok ty => exact ⟨p, pi, ty, rfl, hp, hd⟩

theorem paramsKnown_of (pt : PTable) (tis : List TInsts)
    (h : ∀ ti ∈ tis, ∀ ins ∈ ti.insts, isInsertion ins.xf = true → paramOKb pt ins.param = true) :
    ParamsKnown pt tis :=
  fun ti hti ins hins hx => paramOK_of_b pt _ (h ti hti ins hins hx)

theorem hasConsumers_of (tis : List TInsts)
    (h : ∀ ti ∈ tis, ∀ ins ∈ ti.insts, (ins.xf = .addQuant ∨ ins.xf = .addDequant) → ins.consumers ≠ []) :
    HasConsumers tis := h

theorem mem_getD_of (r : TReq) (cs : List O2T) (c : O2T) (h : r.consumers = some cs) (hc : c ∈ cs) :
    c ∈ r.consumers.getD [] := by
  rw [h]; exact hc

theorem mem_toList_of (r : TReq) (p : O2T) (h : r.producer = some p) : p ∈ r.producer.toList := by
  rw [h]; simp

theorem mem_entries_of (r : TReq) (o : O2T)
    (h : r.producer = some o ∨ ∃ cs, r.consumers = some cs ∧ o ∈ cs) :
    o ∈ r.producer.toList ++ r.consumers.getD [] := by
  rcases h with h | ⟨cs, h1, h2⟩
  · exact List.mem_append_left _ (mem_toList_of r o h)
  · exact List.mem_append_right _ (mem_getD_of r cs o h1 h2)

theorem reqParamsKnown_of (pt : PTable) (r : TReq)
    (h : ∀ o ∈ r.producer.toList ++ r.consumers.getD [], o.xfs.any isInsertion = true →
      paramOKb pt o.param = true) : ReqParamsKnown pt r := by
  intro o ho hx
  refine paramOK_of_b pt _ (h o (mem_entries_of r o ho) ?_)
  obtain ⟨x, hx1, hx2⟩ := hx
  exact List.any_eq_true.2 ⟨x, hx1, hx2⟩

theorem noMixed_of (r : TReq)
    (h : ((∃ p ∈ r.producer.toList, p.xfs = [.noQuant]) ∨ ∃ c ∈ r.consumers.getD [], c.xfs = [.noQuant]) →
      ∀ c ∈ r.consumers.getD [], c.xfs ≠ [.quantTensor] ∧ c.xfs ≠ [.addDequant]) : NoMixed r := by
  intro cs hcs htrig c hc
  refine h ?_ c (mem_getD_of r cs c hcs hc)
  rcases htrig with ⟨p, hp, hx⟩ | ⟨c', hc', hx⟩
  · exact .inl ⟨p, mem_toList_of r p hp, hx⟩
  · exact .inr ⟨c', mem_getD_of r cs c' hcs hc', hx⟩

/-- `ReqOK` from its decidable content, once the name-map entry of the request is known -/
theorem reqOK_of (pt : PTable) (m : Model) (r : TReq) (info : TInfo) (sg : Subgraph)
    (hinfo : Py.dictGet? (nameMap m) r.name = some info) (hsg : m.subgraphs[info.sg]? = some sg)
    (href : 0 ≤ info.producer ∨ info.consumers ≠ [] ∨ (info.tensorId : Int) ∈ sg.inputs)
    (hprod : ∀ p ∈ r.producer.toList, p.xfs = [.noQuant] ∨ p.xfs = [.addDequant])
    (hshape : ∀ c ∈ r.consumers.getD [], c.xfs.length = 1 ∧ Xf.emulated ∉ c.xfs)
    (hreal : ∀ c ∈ r.consumers.getD [], c.opId ∈ info.consumers)
    (hsame : ∀ c ∈ r.consumers.getD [], ∀ c' ∈ r.consumers.getD [], c.opId = c'.opId →
      c.xfs = c'.xfs ∧ c.param = c'.param)
    (hpc : ∀ p ∈ r.producer.toList, p.xfs = [.addDequant] →
      ∀ c ∈ r.consumers.getD [], c.xfs = [.addQuant] ∨ c.xfs = [.noQuant])
    (hdata : ∀ o ∈ r.producer.toList ++ r.consumers.getD [], ∀ p ∈ o.param.toList,
      ∀ pi ∈ (pinfo pt p).toList, pi.hasData = true → isConst m sg info.tensorId = true) :
    GenInstsOK.ReqOK pt m r := by
  refine ⟨⟨info, hinfo⟩, ?_, ?_, ?_, ?_, ?_, ?_, ?_⟩
  · intro info' h
    rw [hinfo] at h; cases h
    rcases href with h | h | h
    · exact .inl h
    · exact .inr (.inl h)
    · exact .inr (.inr ⟨sg, hsg, h⟩)
  · intro p hp
    exact hprod p (mem_toList_of r p hp)
  · intro cs c hcs hc
    obtain ⟨h1, h2⟩ := hshape c (mem_getD_of r cs c hcs hc)
    obtain ⟨x, hx⟩ := List.length_eq_one_iff.1 h1
    refine ⟨x, hx, ?_⟩
    rintro rfl
    exact h2 (by rw [hx]; exact List.mem_singleton.2 rfl)
  · intro cs c info' hcs hc h
    rw [hinfo] at h; cases h
    exact hreal c (mem_getD_of r cs c hcs hc)
  · intro cs c c' hcs hc hc'
    exact hsame c (mem_getD_of r cs c hcs hc) c' (mem_getD_of r cs c' hcs hc')
  · intro p cs c hp hx hcs hc
    exact hpc p (mem_toList_of r p hp) hx c (mem_getD_of r cs c hcs hc)
  · intro info' sg' o p pi h hsg' ho hop hpi hd
    rw [hinfo] at h; cases h
    rw [hsg] at hsg'; cases hsg'
    exact hdata o (mem_entries_of r o ho) p (by rw [hop]; simp) pi (by rw [hpi]; simp) hd

/-! ## NON-VACUITY: a model, a parameter table and requests satisfying every hypothesis -/

namespace Witness

def t (n : String) (b : Nat) : Tensor := { name := n, dtype := 0, shape := [2], buffer := b }

/-- `y := OP9(x, w)`, `x` graph input, `w` constant (buffer 1), `y` graph output -/
def sg : Subgraph :=
  { tensors := [t "x" 0, t "w" 1, t "y" 0],
    ops := [{ code := 0, inputs := [0, 1], outputs := [2], orig := some 0 }],
    inputs := [0], outputs := [2] }

def m : Model :=
  { subgraphs := [sg], buffers := [none, some (.inl 0)], opcodes := [9],
    sigs := [{ key := "a", sg := 0, inputs := [("x", 0)], outputs := [("y", 2)] }] }

/-- parameter 0: int8 activations; parameter 1: int8 weights with packed data;
    parameter 2: a 128-bit "uniform" parameter the type table rejects -/
def pt : PTable :=
  [(0, { uniform := true, bits := 8, hasData := false }), (1, { uniform := true, bits := 8, hasData := true }),
   (2, { uniform := true, bits := 128, hasData := false })]

/-- static-range style requests: `x` float at the graph input and quantized for operator 0
    (QUANTIZE inserted), `w` quantized in place, `y` produced quantized and dequantized for the graph
    output (DEQUANTIZE inserted) -/
def rx : TReq := ⟨"x", some ⟨-1, [.noQuant], none⟩, some [⟨0, [.addQuant], some 0⟩]⟩
def rw : TReq := ⟨"w", none, some [⟨0, [.quantTensor], some 1⟩]⟩
def ry : TReq := ⟨"y", some ⟨0, [.addDequant], some 0⟩, some [⟨-1, [.noQuant], none⟩]⟩
def reqs : List TReq := [rx, rw, ry]

theorem wf : WF.modelOK m = true := by decide
theorem names : GenInstsOK.namesUnique m := by unfold GenInstsOK.namesUnique; decide

theorem info_x : Py.dictGet? (nameMap m) "x" = some ⟨0, 0, -1, [0]⟩ := by decide
theorem info_w : Py.dictGet? (nameMap m) "w" = some ⟨1, 0, -1, [0]⟩ := by decide
theorem info_y : Py.dictGet? (nameMap m) "y" = some ⟨2, 0, 0, [-1]⟩ := by decide

theorem reqOK_x : GenInstsOK.ReqOK pt m rx :=
  reqOK_of pt m rx _ sg info_x rfl (by decide) (by decide) (by decide) (by decide) (by decide) (by decide)
    (by decide)
theorem reqOK_w : GenInstsOK.ReqOK pt m rw :=
  reqOK_of pt m rw _ sg info_w rfl (by decide) (by decide) (by decide) (by decide) (by decide) (by decide)
    (by decide)
theorem reqOK_y : GenInstsOK.ReqOK pt m ry :=
  reqOK_of pt m ry _ sg info_y rfl (by decide) (by decide) (by decide) (by decide) (by decide) (by decide)
    (by decide)

theorem forall_reqs (P : TReq → Prop) (hx : P rx) (hw : P rw) (hy : P ry) : ∀ r ∈ reqs, P r := by
  intro r hr
  simp only [reqs, List.mem_cons, List.mem_nil_iff, or_false] at hr
  rcases hr with rfl | rfl | rfl <;> assumption

theorem reqOK : ∀ r ∈ reqs, GenInstsOK.ReqOK pt m r := forall_reqs _ reqOK_x reqOK_w reqOK_y

theorem params : ∀ r ∈ reqs, ReqParamsKnown pt r :=
  forall_reqs _ (reqParamsKnown_of pt rx (by decide)) (reqParamsKnown_of pt rw (by decide))
    (reqParamsKnown_of pt ry (by decide))

theorem noMixed : ∀ r ∈ reqs, NoMixed r :=
  forall_reqs _ (noMixed_of rx (by decide)) (noMixed_of rw (by decide)) (noMixed_of ry (by decide))

/-- the generated instructions … -/
def tis : List TInsts :=
  [⟨"x", 0, [⟨.noQuant, 0, -1, [0], none⟩, ⟨.addQuant, 0, -1, [0], some 0⟩]⟩,
   ⟨"w", 0, [⟨.quantTensor, 1, -1, [0], some 1⟩]⟩,
   ⟨"y", 0, [⟨.addDequant, 2, 0, [-1], some 0⟩]⟩]

theorem gen_run : genInsts m reqs = .ok tis := by decide

/-- … and the result: QUANTIZE before and DEQUANTIZE after the operator -/
def m' : Model :=
  { subgraphs :=
      [{ tensors := [t "x" 0, { name := "w", dtype := 9, shape := [2], buffer := 1, quant := some 1 },
                     { name := "y", dtype := 9, shape := [2], buffer := 0, quant := some 0 },
                     { name := "x_quantized", dtype := 9, shape := [2], buffer := 0, quant := some 0 },
                     t "y_dequant" 0],
         ops := [{ code := 1, inputs := [0], outputs := [3] },
                 { code := 0, inputs := [3, 1], outputs := [2], orig := some 0 },
                 { code := 2, inputs := [2], outputs := [4] }],
         inputs := [0], outputs := [4] }]
    buffers := [none, some (.inr 1)]
    opcodes := [9, 114, 6]
    sigs := [{ key := "a", sg := 0, inputs := [("x", 0)], outputs := [("y", 4)] }] }

theorem run : Perform.modify pt m reqs = .ok m' := by decide

end Witness

/-- NON-VACUITY of `modify_total`: all five hypotheses hold on `Witness` … -/
example : WF.modelOK Witness.m = true ∧ GenInstsOK.namesUnique Witness.m ∧
    (∀ r ∈ Witness.reqs, GenInstsOK.ReqOK Witness.pt Witness.m r) ∧
    (∀ r ∈ Witness.reqs, ReqParamsKnown Witness.pt r) ∧ (∀ r ∈ Witness.reqs, NoMixed r) :=
  ⟨Witness.wf, Witness.names, Witness.reqOK, Witness.params, Witness.noMixed⟩

/-- … so the theorem applies; the run inserts one QUANTIZE and one DEQUANTIZE and quantizes `w` in place -/
example : ∃ m', Perform.modify Witness.pt Witness.m Witness.reqs = .ok m' :=
  modify_total Witness.pt Witness.m Witness.reqs Witness.wf Witness.names Witness.reqOK Witness.params
    Witness.noMixed

example : Perform.modify Witness.pt Witness.m Witness.reqs = .ok Witness.m' := Witness.run

/-- NON-VACUITY of `performer_total`: its four hypotheses hold on the generated instructions -/
example : (∀ ti ∈ Witness.tis, GraphInv.TInstsOK Witness.pt Witness.m ti) ∧
    ParamsKnown Witness.pt Witness.tis ∧ HasConsumers Witness.tis := by
  obtain ⟨tis, h, h1, h2, h3⟩ := genInsts_total Witness.pt Witness.m Witness.reqs Witness.wf Witness.names
    Witness.reqOK Witness.params Witness.noMixed
  rw [Witness.gen_run] at h
  cases h
  exact ⟨h1, h2, h3⟩

/-! ## the added hypotheses are necessary -/

namespace Counter
open Witness

/-- one instruction on the graph input `x` of `Witness.m` -/
def tiOf (xf : Xf) (cons : List Int) (param : Option PId) : TInsts := ⟨"x", 0, [⟨xf, 0, -1, cons, param⟩]⟩

/-- … which is consistent (`TInstsOK`) whatever its kind, parameter and (existing) consumers are -/
theorem tiOK (xf : Xf) (hx : xf ≠ .emulated) (cons : List Int) (hc : ∀ c ∈ cons, c < 0 ∨ c = 0)
    (param : Option PId) (hp : ∀ p pi, param = some p → pinfo pt p = some pi → pi.hasData = false) :
    ∀ ti ∈ [tiOf xf cons param], GraphInv.TInstsOK pt m ti := by
  intro ti hti
  rw [List.mem_singleton.1 hti]
  refine ⟨⟨sg, rfl, ?_⟩, ?_⟩
  · intro ins hins
    rw [show ins = ⟨xf, 0, -1, cons, param⟩ from List.mem_singleton.1 hins]
    refine ⟨hx, ?_, ?_, ?_, ?_, ?_⟩
    · show WF.validT sg 0 = true
      decide
    · show (-1 : Int) ≤ -1 ∧ (-1 : Int) < sg.ops.length
      decide
    · show WF.avail m sg ((-1 : Int) + 1).toNat 0 = true
      decide
    · intro c hc'
      rcases hc c hc' with h | h
      · exact .inl h
      · right
        subst h
        show (-1 : Int) < 0 ∧ (0 : Int) < sg.ops.length
        decide
    · intro p pi h1 h2 h3
      rw [hp p pi h1 h2] at h3; cases h3
  · intro i j a b hij ha hb
    have := (List.getElem?_eq_some_iff.1 hb).1
    simp only [tiOf, List.length_singleton] at this
    omega

theorem noData (q : PId) (pi0 : PInfo) (hq : pinfo pt q = some pi0) (hd : pi0.hasData = false) :
    ∀ p pi, (some q : Option PId) = some p → pinfo pt p = some pi → pi.hasData = false := by
  intro p pi h hpi
  cases h
  rw [hq] at hpi
  cases hpi
  exact hd

/-- **`HasConsumers` is necessary** (`min([])`): a QUANTIZE insertion without consumers on the graph
    input.  Well-formed model, consistent chain-free instruction, known parameter -- ValueError. -/
example : transformGraph pt m [tiOf .addQuant [] (some 0)] = .error .valueError := by decide

theorem hasConsumers_needed :
    ¬ ∀ (pt : PTable) (m : Model) (tis : List TInsts), WF.modelOK m = true →
        (∀ ti ∈ tis, GraphInv.TInstsOK pt m ti) → ParamsKnown pt tis →
        ∃ m', transformGraph pt m tis = .ok m' := by
  intro H
  obtain ⟨m', h⟩ := H pt m [tiOf .addQuant [] (some 0)] wf
    (tiOK _ (by decide) _ (by decide) _ (noData 0 ⟨true, 8, false⟩ (by decide) rfl))
    (paramsKnown_of _ _ (by decide))
  have e : transformGraph pt m [tiOf .addQuant [] (some 0)] = .error .valueError := by decide
  rw [e] at h
  cases h

/-- **`ParamsKnown` is necessary**, all three parts: no parameter (AttributeError), a parameter the
    table does not know (out of model: `unsupported`), a bit width the type table rejects (ValueError).
    Each instruction is consistent, chain-free and has a consumer. -/
example : transformGraph pt m [tiOf .quantTensor [0] none] = .error .attributeError := by decide
example : transformGraph pt m [tiOf .quantTensor [0] (some 7)] = .error .unsupported := by decide
example : transformGraph pt m [tiOf .quantTensor [0] (some 2)] = .error .valueError := by decide

theorem paramsKnown_needed :
    ¬ ∀ (pt : PTable) (m : Model) (tis : List TInsts), WF.modelOK m = true →
        (∀ ti ∈ tis, GraphInv.TInstsOK pt m ti) → HasConsumers tis →
        ∃ m', transformGraph pt m tis = .ok m' := by
  intro H
  obtain ⟨m', h⟩ := H pt m [tiOf .quantTensor [0] (some 2)] wf
    (tiOK _ (by decide) _ (by decide) _ (noData 2 ⟨true, 128, false⟩ (by decide) rfl))
    (hasConsumers_of _ (by decide))
  have e : transformGraph pt m [tiOf .quantTensor [0] (some 2)] = .error .valueError := by decide
  rw [e] at h
  cases h

/-- **`NoMixed` is necessary** (`_check_tensor_transformation_instructions_valid`): the graph input `x`
    stays float on the producer side while operator 0 asks for it to be quantized in place.  The request
    has the closed shape `ReqOK` and known parameters -- ValueError. -/
def rBad : TReq := ⟨"x", some ⟨-1, [.noQuant], none⟩, some [⟨0, [.quantTensor], some 0⟩]⟩

theorem reqOK_bad : GenInstsOK.ReqOK pt m rBad :=
  reqOK_of pt m rBad _ sg info_x rfl (by decide) (by decide) (by decide) (by decide) (by decide) (by decide)
    (by decide)

example : genInsts m [rBad] = .error .valueError := by decide
example : Perform.modify pt m [rBad] = .error .valueError := by decide

theorem noMixed_needed :
    ¬ ∀ (pt : PTable) (m : Model) (reqs : List TReq), WF.modelOK m = true → GenInstsOK.namesUnique m →
        (∀ r ∈ reqs, GenInstsOK.ReqOK pt m r) → (∀ r ∈ reqs, ReqParamsKnown pt r) →
        ∃ m', Perform.modify pt m reqs = .ok m' := by
  intro H
  obtain ⟨m', h⟩ := H pt m [rBad] wf names
    (fun r hr => by rw [List.mem_singleton.1 hr]; exact reqOK_bad)
    (fun r hr => by rw [List.mem_singleton.1 hr]; exact reqParamsKnown_of pt rBad (by decide))
  have e : Perform.modify pt m [rBad] = .error .valueError := by decide
  rw [e] at h
  cases h

/-- request-level `ParamsKnown` is necessary as well: the consumer entry of `Witness.rw` without its
    parameter -- AttributeError in the performer -/
def rNoParam : TReq := ⟨"w", none, some [⟨0, [.quantTensor], none⟩]⟩

theorem reqOK_noParam : GenInstsOK.ReqOK pt m rNoParam :=
  reqOK_of pt m rNoParam _ sg info_w rfl (by decide) (by decide) (by decide) (by decide) (by decide)
    (by decide) (by decide)

example : Perform.modify pt m [rNoParam] = .error .attributeError := by decide

theorem reqParamsKnown_needed :
    ¬ ∀ (pt : PTable) (m : Model) (reqs : List TReq), WF.modelOK m = true → GenInstsOK.namesUnique m →
        (∀ r ∈ reqs, GenInstsOK.ReqOK pt m r) → (∀ r ∈ reqs, NoMixed r) →
        ∃ m', Perform.modify pt m reqs = .ok m' := by
  intro H
  obtain ⟨m', h⟩ := H pt m [rNoParam] wf names
    (fun r hr => by rw [List.mem_singleton.1 hr]; exact reqOK_noParam)
    (fun r hr => by rw [List.mem_singleton.1 hr]; exact noMixed_of rNoParam (by decide))
  have e : Perform.modify pt m [rNoParam] = .error .attributeError := by decide
  rw [e] at h
  cases h

end Counter

end C08
