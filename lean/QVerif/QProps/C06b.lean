import QProofs.KernelSpec
import QProps.C06
/-!
# C06b — dynamic-range operators: the analytically computed bound of the runtime's 8-bit activation quantization

Property C06 says that a dynamic-range model agrees with the float model run on the DEQUANTIZED constants
"within the analytically computed bound of the runtime's dynamic 8-bit activation quantization".  The
kernels are outside `QModel/**`; this file states what that bound IS, for the hybrid fully-connected kernel
as the TFLite specification describes it (`QProofs/KernelSpec.lean`, over exact `Rat`):

* activations of one batch row `x`, `sx = max|x| / 127` (`drqScale`), codes
  `qx_i = clip(r(x_i / sx), -127, 127)` (`drqCode`), weights `qw` symmetric with scale `sw` (zero point 0:
  `C17.sym_zp_zero`), float bias `b`:  `y = sx·sw·Σ qx_i·qw_i + b` (`hybridRow`; `b` when `max|x| = 0`);
* reference `y_ref = Σ x_i·(sw·qw_i) + b` (`refRow`): exactly the reference of C06.

`r` is ANY rounding to a nearest integer (`IsRounding r : ∀ t, |r t − t| ≤ 1/2`): numpy's half-to-even
(`Num.rhe`) and `std::round`'s half-away-from-zero (`KernelSpec.rha`, what `TfLiteRound` does) are both
instances, and no statement depends on tie-breaking.

Results: `drq_row_bound` (`|y − y_ref| ≤ (sx/2)·sw·Σ|qw_i|`), `drq_row_bound_rel`
(`≤ (max|x|/254)·Σ|sw·qw_i|`), `drq_row_bound_attained` (EQUALITY on a closed witness, for every rounding
rule: the constant cannot be improved), `drq_fc_bound` / `drq_fc_bound_per_tensor` / `drq_fc_batch_bound`
(every output channel with its own weight scale, every batch row with its own activation scale).

## Relation to the tolerance of the C06 check (`harness/fam_numeric.py: compare_float_modes`)

The check does NOT use this bound.  Its tolerance for outputs depending on a dynamic-range operator is
`0.08 · mag · max(1, #ops) + 1e-3`, `mag = max(max|y_ref|, amag)`, where `amag` is the reference run on
`|inputs|` with `|constants|`; for one fully-connected row `amag = Σ|x_i|·|sw·qw_i| + |b|` (`absRow`).
The analytic bound is relative to `max|x| · Σ|sw·qw_i|` with constant `1/254 ≈ 0.0039`:

* `drq_within_check_tolerance`: whenever `max|x|·Σ|sw·qw_i| ≤ 20.32·mag` (`508/25 = 254·0.08`) the
  analytic bound is below the check's `0.08·mag`; for activations spread over `[-M, M]`
  (`Σ|x_i||w_i| ≈ (M/2)·Σ|w_i|`) the check's tolerance is about ten times LOOSER than the bound.
* `check_tolerance_not_analytic`: the two are not comparable in general.  On the witness of
  `drq_row_bound_attained` (`x = [127, 1/2]`, `qw = [0, 1]`, `sw = 1`, `b = 0`) a kernel that follows the
  specification exactly is off by `1/2`, while the check's tolerance is `0.08·(1/2) + 0.001 = 0.041`:
  one large activation makes the step `sx` large while `amag` only sees the small activations that
  actually meet non-zero weights.  So the check's constant is a heuristic for random inputs, not a sound
  tolerance for all inputs: a mismatch between the property's wording and the check.
-/
open KernelSpec Num

set_option autoImplicit false

namespace C06

/-- **C06, dynamic-range row**: the hybrid kernel is within `(sx/2)·sw·Σ|qw_i|` of the float operator on the
    dequantized weights, `sx = max|x|/127` -- for every rounding rule, all activations, weight codes, bias -/
theorem drq_row_bound (r : Rat → Int) (hr : IsRounding r) (x : List Rat) (qw : List Int) (sw b : Rat)
    (hsw : 0 ≤ sw) :
    |hybridRow r x qw sw b - refRow x qw sw b| ≤ drqScale x / 2 * sw * l1 qw :=
  KernelSpec.drq_row_bound r hr x qw sw b hsw

/-- relative form: `(max|x| / 254)·Σ|sw·qw_i|` (no hypothesis on the sign of `sw`) -/
theorem drq_row_bound_rel (r : Rat → Int) (hr : IsRounding r) (x : List Rat) (qw : List Int) (sw b : Rat) :
    |hybridRow r x qw sw b - refRow x qw sw b| ≤ maxAbs x / 254 * absSum (deqW sw qw) :=
  KernelSpec.drq_row_bound_rel r hr x qw sw b

/-- the bound is attained WITH EQUALITY (so certainly "up to a factor"): activations `[127, 1/2]` (`sx = 1`,
    the second one a tie), weight codes `[0, 1]`, any weight scale, any bias, any rounding rule -/
theorem drq_row_bound_attained (r : Rat → Int) (hr : IsRounding r) (sw b : Rat) (hsw : 0 ≤ sw) :
    |hybridRow r [127, 1/2] [0, 1] sw b - refRow [127, 1/2] [0, 1] sw b|
      = drqScale [127, 1/2] / 2 * sw * l1 [0, 1] :=
  KernelSpec.drq_row_bound_attained r hr sw b hsw

/-- whole operator, per-channel weight scales: output channel `j` of the batch row `x` obeys the bound with
    ITS weight scale and the batch row's activation scale -/
theorem drq_fc_bound (r : Rat → Int) (hr : IsRounding r) (x : List Rat) (rows : List Row)
    (hsw : ∀ ρ ∈ rows, 0 ≤ ρ.sw) (j : Nat) (hj : j < rows.length) :
    |(hybridFC r x rows)[j]'(by rw [hybridFC_length]; exact hj)
        - (refFC x rows)[j]'(by rw [refFC_length]; exact hj)|
      ≤ drqScale x / 2 * rows[j].sw * l1 rows[j].qw :=
  KernelSpec.drq_fc_bound r hr x rows hsw j hj

/-- per-tensor weight scale: the same `sw` in every channel -/
theorem drq_fc_bound_per_tensor (r : Rat → Int) (hr : IsRounding r) (x : List Rat) (rows : List Row)
    (sw : Rat) (hsw : 0 ≤ sw) (hall : ∀ ρ ∈ rows, ρ.sw = sw) (j : Nat) (hj : j < rows.length) :
    |(hybridFC r x rows)[j]'(by rw [hybridFC_length]; exact hj)
        - (refFC x rows)[j]'(by rw [refFC_length]; exact hj)|
      ≤ drqScale x / 2 * sw * l1 rows[j].qw := by
  have := KernelSpec.drq_fc_bound r hr x rows (fun ρ h => by rw [hall ρ h]; exact hsw) j hj
  rwa [hall _ (List.getElem_mem hj)] at this

/-- a batch: row `i` of the activations has its own scale `drqScale xs[i]` -/
theorem drq_fc_batch_bound (r : Rat → Int) (hr : IsRounding r) (xs : List (List Rat)) (rows : List Row)
    (hsw : ∀ ρ ∈ rows, 0 ≤ ρ.sw) (i : Nat) (hi : i < xs.length) (j : Nat) (hj : j < rows.length) :
    |((hybridFCBatch r xs rows)[i]'(by simp [hybridFCBatch]; exact hi))[j]'(by
          simp [hybridFCBatch, hybridFC]; exact hj)
        - ((refFCBatch xs rows)[i]'(by simp [refFCBatch]; exact hi))[j]'(by
          simp [refFCBatch, refFC]; exact hj)|
      ≤ drqScale xs[i] / 2 * rows[j].sw * l1 rows[j].qw :=
  KernelSpec.drq_fc_batch_bound r hr xs rows hsw i hi j hj

/-! ## the tolerance of the check -/

/-- when the check's magnitude `mag` is at least `max|x|·Σ|sw·qw_i| / 20.32`, the analytic bound is below the
    check's relative tolerance `0.08·mag` -/
theorem drq_within_check_tolerance (r : Rat → Int) (hr : IsRounding r) (x : List Rat) (qw : List Int)
    (sw b mag : Rat) (hmag : maxAbs x * absSum (deqW sw qw) ≤ 508 / 25 * mag) :
    |hybridRow r x qw sw b - refRow x qw sw b| ≤ 2 / 25 * mag := by
  have := KernelSpec.drq_row_bound_rel r hr x qw sw b
  linarith

/-- the check's tolerance `0.08·max(|y_ref|, amag)·1 + 0.001` is NOT implied by the specification: on this
    input every kernel that follows the specification is off by exactly `1/2`, more than ten times the
    tolerance `0.041` -/
theorem check_tolerance_not_analytic (r : Rat → Int) (hr : IsRounding r) :
    |hybridRow r [127, 1/2] [0, 1] 1 0 - refRow [127, 1/2] [0, 1] 1 0| = 1 / 2 ∧
    2 / 25 * max |refRow [127, 1/2] [0, 1] 1 0| (absRow [127, 1/2] [0, 1] 1 0) * 1 + 1 / 1000 = 41 / 1000 := by
  constructor
  · rw [KernelSpec.drq_row_bound_attained r hr 1 0 (by norm_num)]
    unfold drqScale; rw [maxAbs_witness]; norm_num [l1]
  · norm_num [refRow, absRow, deqW, C07.dot]

/-! ## non-vacuity: closed instances -/

/-- a run of the specified kernel with numpy's rounding: `sx = 2/127`, codes `[64, -127, 32]` (the first is a
    tie, rounded to even), result `0.8531…` against the reference `0.85`; error `0.0031 ≤ 0.0047` -/
example : hybridRow rhe [1, -2, 1/2] [3, -1, 2] (1/10) (1/4) = 2167 / 2540 ∧
    refRow [1, -2, 1/2] [3, -1, 2] (1/10) (1/4) = 17 / 20 ∧
    drqScale [1, -2, 1/2] / 2 * (1/10) * l1 [3, -1, 2] = 3 / 635 := by
  decide +kernel

/-- the same with `std::round`: the tie `63.5` goes to `64` as well here -/
example : hybridRow rha [1, -2, 1/2] [3, -1, 2] (1/10) (1/4) = 2167 / 2540 := by decide +kernel

/-- all-zero activations: the kernel returns the bias, the bound is 0 -/
example : hybridRow rhe [0, 0] [5, -7] (1/3) (9/4) = 9 / 4 ∧ drqScale [0, 0] = 0 := by decide +kernel

/-- a 2-channel operator with per-channel scales -/
example : hybridFC rhe [1, -2, 1/2] [⟨[3, -1, 2], 1/10, 1/4⟩, ⟨[0, 4, -4], 1/5, 0⟩]
    = [2167 / 2540, -1272 / 635] := by decide +kernel

end C06
