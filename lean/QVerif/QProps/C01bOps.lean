import QProps.C01b
/-!
# C01b, exploration of mixed neighbours beyond FULLY_CONNECTED (kernel-checked)

`C01.mixed_ops_table`: two adjacent operators out of {FULLY_CONNECTED, ADD with a constant second operand,
RESHAPE, SOFTMAX}, each in every mode it supports ({none, weight-only, dynamic range, static int8, static
int16, float16} for FULLY_CONNECTED; {none, static int8, static int16} for the others): 225 runs of
`quantizePure`, every one evaluated by the kernel.  No output violates the table of `KernelSig.accepts`.
(A wider, non-kernel-checked sweep with `#eval` -- 26 operator templates in two-operator chains under all mode
pairs, about 23,000 runs; 4 templates with fan-out, the intermediate tensor optionally a graph output, and
INPUT / OUTPUT rules, about 60,000 runs -- found violations ONLY for a CONSTANT data operand of FULLY_CONNECTED /
BATCH_MATMUL under dynamic range or static int16, and for a RUNTIME filter of CONV_2D / DEPTHWISE_CONV_2D /
CONV_2D_TRANSPOSE under static int16: the hypotheses `DataRuntime` / `WeightConst16` and the witnesses of
`QProps/C01b.lean`.  No pair of adjacent modes violates the table.)
-/
open Graph Mat Cfg Pipeline KernelSig

set_option autoImplicit false

namespace C01

namespace E2E

/-! ### heterogeneous neighbours: FULLY_CONNECTED, ADD (constant second operand), RESHAPE, SOFTMAX -/

structure Tmpl where
  opName : String
  code : Nat
  /-- operands, from: data tensor, weight, shape, constant -/
  ins : Int → Int → Int → Int → List Int
  modes : List Mode

def tFC : Tmpl := ⟨"FULLY_CONNECTED", 9, fun t w _ _ => [t, w, -1], Mode.all⟩
def tADD : Tmpl := ⟨"ADD", 0, fun t _ _ c => [t, c], [.none, .srq8, .srq16]⟩
def tRESHAPE : Tmpl := ⟨"RESHAPE", 22, fun t _ s _ => [t, s], [.none, .srq8, .srq16]⟩
def tSOFTMAX : Tmpl := ⟨"SOFTMAX", 25, fun t _ _ _ => [t], [.none, .srq8, .srq16]⟩
def tmpls : List Tmpl := [tFC, tADD, tRESHAPE, tSOFTMAX]

def codes : List Nat := [9, 0, 22, 25]
def ci (c : Nat) : Nat := (codes.findIdx? (· == c)).getD 0

/-- `h := op1(x, …)`, `y := op2(h, …)`; tensors: 0 `x`, 1 `w1`, 2 `h`, 3 `w2`, 4 `y`, 5 / 7 shapes (int32
    constants), 6 / 8 float32 constants -/
def mChain (a b : Tmpl) : Model :=
  { subgraphs := [{ tensors := [T "x" [1,2] 0, T "w1" [2,2] 1, T "h" [1,2] 0, T "w2" [2,2] 2, T "y" [1,2] 0,
                      T "s1" [2] 3 2, T "c1" [1,2] 4, T "s2" [2] 5 2, T "c2" [1,2] 6],
                    ops := [{ code := ci a.code, inputs := a.ins 0 1 5 6, outputs := [2], orig := some 0 },
                            { code := ci b.code, inputs := b.ins 2 3 7 8, outputs := [4], orig := some 1 }],
                    inputs := [0], outputs := [4] }],
    buffers := [none, some (.inl 0), some (.inl 1), some (.inl 2), some (.inl 3), some (.inl 4), some (.inl 5)],
    opcodes := codes, sigs := [] }
def envChain (a b : Tmpl) : Env :=
  { model := mChain a b, consts := [(1, [1,2,3,4]), (2, [1,-2,3,5]), (4, [1,2]), (6, [2,5])], adjY := [] }

/-- all verdicts for the operator pair (a, b) -/
def pairVerdicts (a b : Tmpl) : List (Option Bool) :=
  a.modes.flatMap fun ma => b.modes.map fun mb =>
    verdict (envChain a b) (stOf "h;" a.opName ma "y;" b.opName mb)

/-- (runs whose output is accepted, runs whose output VIOLATES the table, refused runs) -/
def summary (l : List (Option Bool)) : Nat × Nat × Nat :=
  (l.countP (· == some true), l.countP (· == some false), l.countP (· == none))

/-- the input models are float models of the table -/
theorem chain_inputs_float :
    (tmpls.all fun a => tmpls.all fun b => KernelSig.modelOK (mChain a b)) = true := by decide +kernel

/-- **C01.mixed_ops_table** (kernel-checked): 16 operator pairs × all their mode pairs (225 runs):
    (accepted, VIOLATING, refused) -- no output violates the table; the only refused runs are the empty
    recipes (none, none) -/
theorem mixed_ops_table :
    (tmpls.map fun a => tmpls.map fun b => summary (pairVerdicts a b)) =
      [[(35, 0, 1), (17, 0, 1), (17, 0, 1), (17, 0, 1)],
       [(17, 0, 1), (8, 0, 1), (8, 0, 1), (8, 0, 1)],
       [(17, 0, 1), (8, 0, 1), (8, 0, 1), (8, 0, 1)],
       [(17, 0, 1), (8, 0, 1), (8, 0, 1), (8, 0, 1)]] := by decide +kernel

end E2E

end C01
