import QProofs.SerializeProofs
/-!
# C16b — large-model serialization: GLOBAL statements (model side)

`C16.layout` speaks about one external constant and its successor.  Here the adjacent statement is
lifted, by induction over the distance, to every pair of external constants, and the final
flatbuffer is shown to be a prefix of the output (so nothing the reader parses is overwritten by the
appended constants).  No `sorry`, no axioms beyond Lean's standard ones, no `native_decide`.
-/
open Ser SerializeProofs

namespace C16b

/-- a list of `(offset,size)` fields in which each entry ends before its successor begins has every
    entry ending before EVERY later one begins (induction over the distance) -/
theorem chain_le (offs : List (Nat × Nat))
    (hadj : ∀ (k off size off' size' : Nat), offs[k]? = some (off, size) → offs[k+1]? = some (off', size') →
      off + size ≤ off') :
    ∀ (d j oj sj ok sk : Nat), offs[j]? = some (oj, sj) → offs[j + d + 1]? = some (ok, sk) →
      oj + sj ≤ ok := by
  intro d
  induction d with
  | zero => intro j oj sj ok sk hj hk; exact hadj j oj sj ok sk hj hk
  | succ d ih =>
    intro j oj sj ok sk hj hk
    have hm : j + d + 1 < offs.length := by
      have := (List.getElem?_eq_some_iff.mp hk).1
      omega
    obtain ⟨⟨om, sm⟩, hmm⟩ : ∃ p, offs[j + d + 1]? = some p :=
      ⟨offs[j + d + 1], List.getElem?_eq_getElem hm⟩
    have h1 := ih j oj sj om sm hj hmm
    have h2 := hadj (j + d + 1) om sm ok sk hmm
      (by rw [show j + d + 1 + 1 = j + (d + 1) + 1 by omega]; exact hk)
    omega

/-- **pairwise disjointness**: the byte ranges recorded for any two different external constants do
    not overlap — the earlier one ends at or before the start of the later one — and both lie inside
    the output -/
theorem pairwise_disjoint (fb : List (Option (Nat × Nat)) → List Nat) (hfb : LenInvariant fb)
    (bufs : List (Option (List Nat))) :
    let ext := external bufs
    let dummyLen := (fb (fields bufs (ext.map fun _ => (1, 1)))).length
    let offs := offsets dummyLen (ext.map (·.length))
    let out := serializeLarge fb bufs
    ∀ (j k oj sj ok sk : Nat), j < k → offs[j]? = some (oj, sj) → offs[k]? = some (ok, sk) →
      oj + sj ≤ ok ∧ ok + sk ≤ out.length := by
  intro ext dummyLen offs out j k oj sj ok sk hjk hj hk
  obtain ⟨hlen, hlay⟩ := SerializeProofs.layout fb hfb bufs
  have hext : ∀ (m : Nat) (p : Nat × Nat), offs[m]? = some p → ∃ c, ext[m]? = some c := by
    intro m p hp
    have hm : m < offs.length := (List.getElem?_eq_some_iff.mp hp).1
    have hm' : m < ext.length := by
      have hlen' : offs.length = ext.length := hlen
      omega
    exact ⟨ext[m], List.getElem?_eq_getElem hm'⟩
  have hadj : ∀ (m off size off' size' : Nat), offs[m]? = some (off, size) →
      offs[m+1]? = some (off', size') → off + size ≤ off' := by
    intro m off size off' size' h h'
    obtain ⟨c, hc⟩ := hext m _ h
    exact (hlay m c off size hc h).2.2.2.2.2 off' size' h'
  refine ⟨?_, ?_⟩
  · have hk' : offs[j + (k - j - 1) + 1]? = some (ok, sk) := by
      rw [show j + (k - j - 1) + 1 = k by omega]; exact hk
    exact chain_le offs hadj (k - j - 1) j oj sj ok sk hj hk'
  · obtain ⟨c, hc⟩ := hext k _ hk
    exact (hlay k c ok sk hc hk).2.2.2.1

/-- the output begins with the final flatbuffer, byte for byte: appending the constants (and the
    padding) changes nothing the flatbuffer reader parses -/
theorem flatbuffer_prefix (fb : List (Option (Nat × Nat)) → List Nat)
    (bufs : List (Option (List Nat))) :
    let ext := external bufs
    let dummyLen := (fb (fields bufs (ext.map fun _ => (1, 1)))).length
    let offs := offsets dummyLen (ext.map (·.length))
    ∃ rest, serializeLarge fb bufs = fb (fields bufs offs) ++ rest := by
  intro ext dummyLen offs
  obtain ⟨r, hr⟩ := appendConsts_prefix ext (pad16 (fb (fields bufs offs)))
  refine ⟨List.replicate ((16 - (fb (fields bufs offs)).length % 16) % 16) 0 ++ r, ?_⟩
  show appendConsts (pad16 (fb (fields bufs offs))) ext = _
  rw [hr]
  simp [pad16]

/-- a model without external constants is written as the (padded) flatbuffer alone -/
theorem no_external (fb : List (Option (Nat × Nat)) → List Nat)
    (bufs : List (Option (List Nat))) (h : external bufs = []) :
    serializeLarge fb bufs = pad16 (fb (fields bufs [])) := by
  simp [serializeLarge, h, appendConsts, offsets]

theorem appendConsts_aligned : ∀ (cs : List (List Nat)) (b : List Nat), b.length % 16 = 0 →
    (appendConsts b cs).length % 16 = 0
  | [], b, hb => by simpa [appendConsts] using hb
  | c :: cs, b, _ => by
    rw [appendConsts_cons]
    exact appendConsts_aligned cs _ (by rw [pad16_length]; exact pad_mod _)

/-- the file ends on a 16-byte boundary whatever the writer and the constants are (so a further
    constant appended by the same rule would again start aligned) -/
theorem output_aligned (fb : List (Option (Nat × Nat)) → List Nat)
    (bufs : List (Option (List Nat))) : (serializeLarge fb bufs).length % 16 = 0 := by
  unfold serializeLarge
  exact appendConsts_aligned _ _ (by rw [pad16_length]; exact pad_mod _)

/-! ### non-vacuity: a writer satisfying `LenInvariant`, three constants, all ranges disjoint -/

/-- toy writer: 1 byte for a buffer without external data, 3 bytes (tag, offset, size) otherwise -/
def toyFb (fs : List (Option (Nat × Nat))) : List Nat :=
  fs.flatMap fun o => match o with
    | none => [0]
    | some (a, b) => [1, a, b]

theorem toyFb_len : ∀ fs : List (Option (Nat × Nat)),
    (toyFb fs).length = (fs.map fun o => if o.isSome then 3 else 1).sum
  | [] => rfl
  | none :: fs => by
    have := toyFb_len fs
    simp only [toyFb, List.flatMap_cons, List.length_append] at this ⊢
    simp [this]
  | some (a, b) :: fs => by
    have := toyFb_len fs
    simp only [toyFb, List.flatMap_cons, List.length_append] at this ⊢
    simp [this]

theorem toyFb_lenInvariant : LenInvariant toyFb := by
  intro f g h
  rw [toyFb_len, toyFb_len]
  have : ∀ l : List (Option (Nat × Nat)),
      (l.map fun o => if o.isSome then 3 else 1) = (l.map Option.isSome).map fun b => if b then 3 else 1 := by
    intro l; simp [List.map_map, Function.comp_def]
  rw [this f, this g, h]

example :
    let bufs : List (Option (List Nat)) := [some [], some [7, 8, 9], none, some [5], some (List.replicate 20 3)]
    offsets (toyFb (fields bufs ((external bufs).map fun _ => (1, 1)))).length
        ((external bufs).map (·.length)) = [(16, 3), (32, 1), (48, 20)] ∧
      (serializeLarge toyFb bufs).length = 80 ∧
      slice (serializeLarge toyFb bufs) 48 20 = List.replicate 20 3 := by
  decide

end C16b
