import QProps.C10
import QProps.C09c
/-!
# C10c — statistics are never missing after ANY sequence of calibration sessions

`C10.stats_complete` speaks about one `calibrate()` call.  Combined with `C09c.resume_many` it holds
for every way of calibrating in sessions: as soon as one sample was seen in some session, every
non-constant operand/result of every selected operator has recorded statistics in the final result
(so `quantize()` with that result cannot fail for missing statistics, `C10.calibrated_lookup_never_missing`).
-/
open Graph Arith Num Nd Mat Calib

namespace C10c

theorem stats_complete_after_sessions (rx : String → String → Bool) (env : Env) (st : Recipe.State)
    (sgi : Nat) (sg : Subgraph) (hsg : env.model.subgraphs[sgi]? = some sg)
    (D0 : List Contents) (Ds : List (List Contents)) (q0 r : Qsvs)
    (h0 : calibrate rx env st sgi none D0 = .ok q0) (hc : C09c.Chain rx env st sgi q0 Ds r)
    (hne : D0 ++ Ds.flatten ≠ [])
    (hneed : Recipe.needCalibration st = true)
    (op : Op) (k scope : String) (hop : CalibProofs.IsOp env sg op k) (hscope : opScope sg op = .ok scope)
    (hsel : (Recipe.resolve rx st k scope).1 = Tables.algMinMax)
    (i : Int) (hi : i ∈ op.inputs ++ op.outputs) (hi1 : i ≠ -1) (t : Tensor) (ht : tensorAt sg i = .ok t)
    (hnc : constAny env t = none) :
    ∃ mn mx, Py.dictGet? r t.name = some (some (mn, mx)) :=
  C10.stats_complete rx env st sgi sg hsg none (D0 ++ Ds.flatten) hne r hneed
    (C09c.resume_many rx env st sgi Ds D0 q0 r h0 hc) op k scope hop hscope hsel i hi hi1 t ht hnc

end C10c
