import QProofs.ValidateE2E
/-!
# C18b — validate() reports the true per-tensor error, once per tensor: the WHOLE `compare`

What `Validate.compare` (model of `model_validator.compare_model` +
`ComparisonResult.add_new_signature_results`) does, as found from the model:

* **which names**: a tensor name `n` is reported iff in SOME sample it names a tensor of the
  reference side and a tensor of the target side (`present`).  A sample in which `n` is missing on
  either side is *skipped* for `n` — no error — so the reported value is the mean over the samples in
  which `n` occurs on both sides (`perSample_length`), not over all test inputs.
* **which value**: `meanR` of the per-sample values `metric m (values target) (values ref)`, in
  sample order, each of them `.ok` (`pairVal`: the reference tensor is read first, then the target).
* **which group** (`classify`): `inputs` if `n ∈ ins`, else `outputs` if `n ∈ outs`, else `constants`
  if `n ∈ cs`, else `intermediates`; a name that is both an input and an output is an input.
* **errors**: the error of the first failing comparison (unreadable tensor, or `ValueError` when the
  two flattened tensors differ in length — only the number of elements matters, not the shape); then
  `KeyError` iff the input names are not pairwise distinct or some input name was never compared.
  A name of `outs`/`cs` that was never compared is silently ignored.
-/
open Validate ValidateE2E

namespace C18

/-! ## 1. the specification of `compare` -/

/-- **per tensor name, per sample** (distinct tensor names on the reference side of each sample, as
    in the Python dict `ref_tensor_name_to_details`): every per-sample comparison of `n` succeeded;
    `n` is reported iff it is `present`; it is then filed in exactly the group `classify ins outs cs n`
    with exactly the value `meanR xs`, where `xs` are the per-sample values in sample order -/
theorem compare_spec (m : Metric) (samples : List Sample) (ins outs cs : List String) (g : Groups)
    (hnd : ∀ s ∈ samples, (s.ref.map (·.1)).Nodup)
    (h : compare m samples ins outs cs = .ok g) (n : String) :
    ∃ xs : List Rat, perSample m samples n = xs.map .ok ∧ (xs ≠ [] ↔ present samples n) ∧
      ∀ (t : Tag) (v : Rat), (n, v) ∈ get g t ↔
        present samples n ∧ t = classify ins outs cs n ∧ v = meanR xs :=
  ValidateE2E.compare_spec m samples ins outs cs g hnd h n

/-- the same without any assumption on the samples: `trace m samples n` lists the results of all
    comparisons of `n` in evaluation order (a reference side with a repeated name contributes one
    value per occurrence) -/
theorem compare_spec_general (m : Metric) (samples : List Sample) (ins outs cs : List String) (g : Groups)
    (h : compare m samples ins outs cs = .ok g) (n : String) :
    ∃ xs : List Rat, trace m samples n = xs.map .ok ∧
      ∀ (t : Tag) (v : Rat), (n, v) ∈ get g t ↔
        xs ≠ [] ∧ t = classify ins outs cs n ∧ v = meanR xs :=
  ValidateE2E.compare_spec_general m samples ins outs cs g h n

theorem trace_ne_nil_iff (m : Metric) (samples : List Sample) (n : String) :
    trace m samples n ≠ [] ↔ present samples n := ValidateE2E.trace_ne_nil_iff m samples n

/-- what one per-sample value is -/
theorem pairVal_ok_iff (m : Metric) (td rd : TData) (v : Rat) :
    pairVal m td rd = .ok v ↔
      ∃ t r, values td = .ok t ∧ values rd = .ok r ∧ metric m t r = .ok v :=
  ValidateE2E.pairVal_ok_iff m td rd v

/-- the mean is taken over the samples in which the tensor occurs on both sides -/
theorem perSample_length (m : Metric) (samples : List Sample) (n : String) :
    (perSample m samples n).length =
      (samples.filter fun s => (Py.dictGet? s.ref n).isSome && (Py.dictGet? s.target n).isSome).length :=
  ValidateE2E.perSample_length m samples n

/-- no tensor name is reported twice, across all four groups (no assumption on the samples) -/
theorem compare_nodup (m : Metric) (samples : List Sample) (ins outs cs : List String) (g : Groups)
    (h : compare m samples ins outs cs = .ok g) :
    ((g.inputs ++ g.outputs ++ g.constants ++ g.intermediates).map (·.1)).Nodup :=
  ValidateE2E.compare_nodup m samples ins outs cs g h

/-! ## 2. comparing a model with itself -/

/-- every reported value is 0 (both metrics) and every tensor of the model is reported, in its group -/
theorem self_compare (m : Metric) (samples : List Sample) (ins outs cs : List String) (g : Groups)
    (hself : ∀ s ∈ samples, s.target = s.ref) (hnd : ∀ s ∈ samples, (s.ref.map (·.1)).Nodup)
    (h : compare m samples ins outs cs = .ok g) :
    (∀ t, ∀ e ∈ get g t, e.2 = 0) ∧
    (∀ s ∈ samples, ∀ n ∈ s.ref.map (·.1), (n, 0) ∈ get g (classify ins outs cs n)) :=
  ValidateE2E.self_compare m samples ins outs cs g hself hnd h

/-- … and the self-comparison succeeds iff every tensor can be read (dequantized) and the input
    names are distinct tensors of the model -/
theorem self_compare_ok_iff (m : Metric) (samples : List Sample) (ins outs cs : List String)
    (hself : ∀ s ∈ samples, s.target = s.ref) (hnd : ∀ s ∈ samples, (s.ref.map (·.1)).Nodup) :
    (∃ g, compare m samples ins outs cs = .ok g) ↔
      (∀ s ∈ samples, ∀ e ∈ s.ref, ∃ t, values e.2 = .ok t) ∧
      ins.Nodup ∧ ∀ n ∈ ins, ∃ s ∈ samples, n ∈ s.ref.map (·.1) :=
  ValidateE2E.self_compare_ok_iff m samples ins outs cs hself hnd

/-! ## 3. non-negativity, symmetry of MSE -/

theorem compare_nonneg (m : Metric) (samples : List Sample) (ins outs cs : List String) (g : Groups)
    (h : compare m samples ins outs cs = .ok g) (t : Tag) (e : String × Rat) (he : e ∈ get g t) :
    0 ≤ e.2 := ValidateE2E.compare_nonneg m samples ins outs cs g h t e he

/-- same (distinct) tensor names in the same order on both sides of every sample: exchanging
    reference and target gives exactly the same groups -/
theorem compare_mse_symmetric (samples : List Sample) (ins outs cs : List String) (g : Groups)
    (hnames : ∀ s ∈ samples, s.ref.map (·.1) = s.target.map (·.1))
    (hnd : ∀ s ∈ samples, (s.ref.map (·.1)).Nodup) :
    compare .mse (samples.map swap) ins outs cs = .ok g ↔ compare .mse samples ins outs cs = .ok g :=
  ValidateE2E.compare_mse_symmetric samples ins outs cs g hnames hnd

/-- distinct names on each side only (the two sides may have different names, in different orders):
    the swapped run succeeds iff the original does, and the groups have the same entries -/
theorem compare_mse_symmetric_mem (samples : List Sample) (ins outs cs : List String)
    (hR : ∀ s ∈ samples, (s.ref.map (·.1)).Nodup) (hT : ∀ s ∈ samples, (s.target.map (·.1)).Nodup) :
    ((∃ g', compare .mse (samples.map swap) ins outs cs = .ok g') ↔
      (∃ g, compare .mse samples ins outs cs = .ok g)) ∧
    ∀ g g', compare .mse (samples.map swap) ins outs cs = .ok g' → compare .mse samples ins outs cs = .ok g →
      ∀ t e, e ∈ get g' t ↔ e ∈ get g t :=
  ValidateE2E.compare_mse_symmetric_mem samples ins outs cs hR hT

/-! ## 4. success and errors -/

/-- the comparisons of a run -/
theorem mem_allPairs (samples : List Sample) (p : String × TData × TData) :
    p ∈ allPairs samples ↔
      ∃ s ∈ samples, ∃ e ∈ s.ref, Py.dictGet? s.target e.1 = some p.2.1 ∧ p.1 = e.1 ∧ p.2.2 = e.2 :=
  ValidateE2E.mem_allPairs samples p

theorem compare_ok_iff (m : Metric) (samples : List Sample) (ins outs cs : List String) :
    (∃ g, compare m samples ins outs cs = .ok g) ↔
      (∀ p ∈ allPairs samples, ∃ v, pairVal m p.2.1 p.2.2 = .ok v) ∧
      ins.Nodup ∧ ∀ n ∈ ins, present samples n :=
  ValidateE2E.compare_ok_iff m samples ins outs cs

theorem pairVal_ok_exists (m : Metric) (td rd : TData) :
    (∃ v, pairVal m td rd = .ok v) ↔
      ∃ t r, values td = .ok t ∧ values rd = .ok r ∧ t.length = r.length :=
  ValidateE2E.pairVal_ok_exists m td rd

theorem pairVal_error_iff (m : Metric) (td rd : TData) (e : PyErr) :
    pairVal m td rd = .error e ↔
      values rd = .error e ∨
      (∃ r, values rd = .ok r ∧ values td = .error e) ∨
      (∃ r t, values rd = .ok r ∧ values td = .ok t ∧ t.length ≠ r.length ∧ e = .valueError) :=
  ValidateE2E.pairVal_error_iff m td rd e

theorem compare_error_iff (m : Metric) (samples : List Sample) (ins outs cs : List String) (e : PyErr) :
    compare m samples ins outs cs = .error e ↔
      (∃ l1 p l2, allPairs samples = l1 ++ p :: l2 ∧
          (∀ q ∈ l1, ∃ v, pairVal m q.2.1 q.2.2 = .ok v) ∧ pairVal m p.2.1 p.2.2 = .error e) ∨
      ((∀ p ∈ allPairs samples, ∃ v, pairVal m p.2.1 p.2.2 = .ok v) ∧ e = .keyError ∧
          ¬ (ins.Nodup ∧ ∀ n ∈ ins, present samples n)) :=
  ValidateE2E.compare_error_iff m samples ins outs cs e

/-! ## closed instances (non-vacuity) -/
section instances
open Arith Nd Num

deriving instance DecidableEq for Validate.Groups

/-- int8 data with scale 1/2 and zero point 1: dequantizes to `[1/2, -1]` -/
def qp : QParams :=
  { bits := 8, qdim := none, scale := ⟨⟨[1], [1/2]⟩, .f32⟩, zp := ⟨⟨[1], [1]⟩, 8⟩, symmetric := false }
def wq : TData := .quant ⟨⟨[2], [2, -1]⟩, 8⟩ qp
/-- scale and zero point of different shapes: `ValueError` in `uniform_dequantize` -/
def badZp : QParams := { qp with zp := ⟨⟨[2], [1, 1]⟩, 8⟩ }
/-- rank-2 parameters for a rank-1 tensor: outside the model (`unsupported`) -/
def badRank : QParams := { qp with scale := ⟨⟨[1, 1], [1/2]⟩, .f32⟩, zp := ⟨⟨[1, 1], [1]⟩, 8⟩ }

example : values wq = .ok [1/2, -1] := by decide +kernel

/-- two samples, four tensors: `x` input (also listed as an output), `w` constant (float in the
    reference, int8 with parameters in the target), `h` intermediate (missing on the target side of
    the second sample), `y` output; `r` exists only on the reference side -/
def sA : Sample :=
  { ref := [("x", .float [1, 2]), ("w", .float [3/4, -1]), ("h", .float [1, 1]), ("y", .float [3, 0]),
            ("r", .float [7])],
    target := [("x", .float [1, 2]), ("w", wq), ("h", .float [1, 3]), ("y", .float [2, 0])] }
def sB : Sample :=
  { ref := [("x", .float [0, 4]), ("w", .float [3/4, -1]), ("h", .float [5, 5]), ("y", .float [1, 1]),
            ("r", .float [7])],
    target := [("x", .float [0, 4]), ("w", wq), ("y", .float [1, 3])] }

def gA : Groups :=
  { inputs := [("x", 0)], outputs := [("y", 5/4)], constants := [("w", 1/32)], intermediates := [("h", 2)] }

theorem inst_ok : compare .mse [sA, sB] ["x"] ["y", "x"] ["w"] = .ok gA := by decide +kernel
theorem inst_nodup : ∀ s ∈ [sA, sB], (s.ref.map (·.1)).Nodup := by decide +kernel

/-- `compare_spec` at the instance: `y` (two samples: 1/2 and 2), `h` (only the first sample: 2),
    `w` (quantized target: 1/32 twice), `r` (never compared: not reported) -/
example : perSample .mse [sA, sB] "y" = [(1/2 : Rat), 2].map .ok ∧ meanR [(1/2 : Rat), 2] = 5/4 := by
  decide +kernel
example : perSample .mse [sA, sB] "h" = [(2 : Rat)].map .ok := by decide +kernel
example : perSample .mse [sA, sB] "w" = [(1/32 : Rat), 1/32].map .ok := by decide +kernel
example : perSample .mse [sA, sB] "r" = [] := by decide +kernel
example : classify ["x"] ["y", "x"] ["w"] "x" = .inputs ∧ classify ["x"] ["y", "x"] ["w"] "y" = .outputs ∧
    classify ["x"] ["y", "x"] ["w"] "w" = .constants ∧ classify ["x"] ["y", "x"] ["w"] "h" = .intermediates := by
  decide

/-- the theorem applied to the instance: `h` is an intermediate with the value of the single sample
    in which it occurs on both sides -/
example : ("h", 2) ∈ get gA .intermediates ∧ present [sA, sB] "h" ∧ ¬ present [sA, sB] "r" := by
  obtain ⟨xs, h1, h2, h3⟩ := compare_spec .mse [sA, sB] ["x"] ["y", "x"] ["w"] gA inst_nodup inst_ok "h"
  obtain ⟨ys, k1, k2, _⟩ := compare_spec .mse [sA, sB] ["x"] ["y", "x"] ["w"] gA inst_nodup inst_ok "r"
  have hx : xs = [2] := map_ok_injective (by rw [← h1]; decide +kernel)
  have hy : ys = [] := map_ok_injective (by rw [← k1]; decide +kernel)
  subst hx; subst hy
  refine ⟨by decide +kernel, h2.1 (by simp), fun hp => (k2.2 hp) rfl⟩

/-- the other metric on the same instance -/
example : compare .mdr [sA, sB] ["x"] ["y", "x"] ["w"] =
    .ok { inputs := [("x", 0)], outputs := [("y", 1750000750000/3000004000001)],
          constants := [("w", 125000/750001)], intermediates := [("h", 1000000/1000001)] } := by
  decide +kernel

/-- self-comparison of the quantized side: all 0, every tensor reported -/
def tA : Sample := { ref := sA.target, target := sA.target }
def tB : Sample := { ref := sB.target, target := sB.target }
theorem inst_self : compare .mse [tA, tB] ["x"] ["y", "x"] ["w"] =
    .ok { inputs := [("x", 0)], outputs := [("y", 0)], constants := [("w", 0)], intermediates := [("h", 0)] } := by
  decide +kernel
example : (∀ s ∈ [tA, tB], s.target = s.ref) ∧ ∀ s ∈ [tA, tB], (s.ref.map (·.1)).Nodup :=
  ⟨by intro s hs; simp only [List.mem_cons, List.not_mem_nil, or_false] at hs; rcases hs with rfl | rfl <;> rfl,
   by decide +kernel⟩
example : compare .mdr [tA, tB] ["x"] ["y", "x"] ["w"] =
    .ok { inputs := [("x", 0)], outputs := [("y", 0)], constants := [("w", 0)], intermediates := [("h", 0)] } := by
  decide +kernel

/-- symmetry: an instance with the same names on both sides (first four tensors of `sA`, and `sB`
    with `h` restored on the target side) -/
def uA : Sample := { ref := sA.ref.take 4, target := sA.target }
def uB : Sample := { ref := sB.ref.take 4, target := sA.target }
example : (∀ s ∈ [uA, uB], s.ref.map (·.1) = s.target.map (·.1)) ∧ ∀ s ∈ [uA, uB], (s.ref.map (·.1)).Nodup := by
  decide +kernel
example : compare .mse ([uA, uB].map swap) ["x"] ["y", "x"] ["w"] = compare .mse [uA, uB] ["x"] ["y", "x"] ["w"] ∧
    compare .mse [uA, uB] ["x"] ["y", "x"] ["w"] =
      .ok { inputs := [("x", 5/4)], outputs := [("y", 3/4)], constants := [("w", 1/32)],
            intermediates := [("h", 6)] } := by
  decide +kernel
/-- … and the weaker hypotheses of `compare_mse_symmetric_mem` at `[sA, sB]` (different names on the
    two sides); the groups agree (here even as lists) -/
example : (∀ s ∈ [sA, sB], (s.target.map (·.1)).Nodup) ∧
    compare .mse ([sA, sB].map swap) ["x"] ["y", "x"] ["w"] = .ok gA := by decide +kernel

/-! ### error behaviour, and why the hypotheses are needed -/

/-- different numbers of elements: `ValueError` (only the flattened length matters) -/
example : compare .mse [{ ref := [("x", .float [1, 2])], target := [("x", .float [1, 2, 3])] }] ["x"] [] [] =
    .error .valueError := by decide +kernel
/-- an input name that is never compared (missing on the target side): `KeyError` -/
example : compare .mse [{ ref := [("x", .float [1]), ("y", .float [1])], target := [("y", .float [1])] }] ["x"] ["y"] [] =
    .error .keyError := by decide +kernel
/-- a repeated input name: `KeyError` (the second `result.pop`) -/
example : compare .mse [{ ref := [("x", .float [1])], target := [("x", .float [1])] }] ["x", "x"] [] [] =
    .error .keyError := by decide +kernel
/-- an output / constant name that is never compared is silently ignored -/
example : compare .mse [{ ref := [("x", .float [1])], target := [("x", .float [1])] }] ["x"] ["y"] ["c"] =
    .ok { inputs := [("x", 0)], outputs := [], constants := [], intermediates := [] } := by decide +kernel
/-- a target tensor whose parameters cannot be applied (scale and zero point of different shapes):
    the error of the dequantization -/
example : compare .mse [{ ref := [("w", .float [1, 2])], target := [("w", .quant ⟨⟨[2], [2, -1]⟩, 8⟩ badZp)] }]
    [] [] ["w"] = .error .valueError := by decide +kernel

/-- the hypothesis "distinct names on the reference side" of `self_compare` is needed *in the model*
    (a Python dict cannot repeat a key): with a repeated name the later occurrence is compared with
    the first target tensor of that name -/
example : compare .mse [{ ref := [("a", .float [1]), ("a", .float [2])],
                          target := [("a", .float [1]), ("a", .float [2])] }] [] [] [] =
    .ok { inputs := [], outputs := [], constants := [], intermediates := [("a", 1/2)] } := by decide +kernel

/-- `compare_mse_symmetric` is about successful runs: on failing runs the reported error depends on
    the side, because the reference tensor is read first -/
example :
    let bad1 : TData := .quant ⟨⟨[2], [2, -1]⟩, 8⟩ badZp
    let bad2 : TData := .quant ⟨⟨[2], [2, -1]⟩, 8⟩ badRank
    let s : Sample := { ref := [("w", bad1)], target := [("w", bad2)] }
    compare .mse [s] [] [] [] = .error .valueError ∧ compare .mse [swap s] [] [] [] = .error .unsupported := by
  decide +kernel

end instances

end C18
