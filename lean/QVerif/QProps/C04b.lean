import QProofs.MatParams
import QProps.C04
import QProps.C17
import QProps.C17b
/-!
# C04 (continued) — the parameters requested for a tensor ARE the TFLite-spec reference formula
applied to that tensor's statistics

`QProps/C04.lean` holds the op-level rules on the parameter objects; `QProps/C17*.lean` the scalar
laws of the min/max formula.  This file links them to the materialisation model: what
`Mat.wrapper` / `Mat.standardOp` request for a tensor is `MatParams.refParams` (the array form of
`tensor_zp_scale_from_min_max`) applied to the tensor's statistics.
-/
open Graph Mat Arith Cfg Num Nd MatParams

set_option autoImplicit false

namespace C04

/-! ## 3. the reference parameters are well formed (composition with the C17 laws) -/

/-- one channel: positive finite scale, zero point in range, zero point 0 when symmetric.
    Side conditions of the C17 laws: float32 / float64 / ideal arithmetic (never float16), bit widths
    2..16, ordered statistics `mn ≤ mx` -/
theorem channel_wellformed (pr : Prec) (hpr : pr ≠ .f16) (bits : Nat) (hb2 : 2 ≤ bits) (hb16 : bits ≤ 16)
    (sym : Bool) (mn mx : Rat) (hmm : mn ≤ mx) (zp : Int) (s : Rat)
    (h : zpScale1 pr bits sym mn mx = .ok (zp, s)) :
    0 < s ∧ pr.isFin s = true ∧ (qmin bits ≤ zp ∧ zp ≤ qmax bits) ∧ (sym = true → zp = 0) := by
  refine ⟨C17.scale_pos pr hpr bits hb2 hb16 sym mn mx zp s h, zpScale1_fin pr bits sym mn mx zp s h, ?_, ?_⟩
  · cases sym with
    | true =>
      have h0 := C17.sym_zp_zero pr bits mn mx zp s h
      subst h0
      have hp : (0:Int) < 2 ^ (bits - 1) := by positivity
      unfold qmin qmax
      constructor <;> omega
    | false =>
      cases pr with
      | f16 => exact absurd rfl hpr
      | f32 => exact C17.zp_in_range .f32 (.inl rfl) bits hb2 hb16 mn mx hmm zp s h
      | f64 => exact C17.zp_in_range .f64 (.inr rfl) bits hb2 hb16 mn mx hmm zp s h
      | exact =>
        have := C17.cover_ideal bits hb2 hb16 mn mx zp s h
        exact ⟨this.1, this.2.1⟩
  · intro hs
    subst hs
    exact C17.sym_zp_zero pr bits mn mx zp s h

/-- **the reference parameters of ordered statistics are well formed**: finite positive scales,
    zero points within `[-2^(bits-1), 2^(bits-1)-1]`, scale and zero-point arrays of equal shape and
    length (one entry per cell of the statistics), zero point 0 when symmetric -/
theorem ref_params_wellformed (bits : Nat) (sym : Bool) (qdim : Option Nat) (mn mx : FArr) (qp : QParams)
    (hb2 : 2 ≤ bits) (hb16 : bits ≤ 16) (hpr : mn.pr.join mx.pr ≠ .f16) (hord : StatsOrdered mn mx)
    (h : refParams bits sym qdim mn mx = .ok qp) :
    WellFormed bits sym qp ∧ qp.qdim = qdim ∧ qp.scale.arr.shape = mn.arr.shape ∧
      qp.scale.pr = mn.pr.join mx.pr ∧ qp.zp.w = storageBits bits := by
  unfold refParams at h
  cases hz : zpScale bits sym mn mx with
  | error e => rw [hz] at h; cases h
  | ok zs =>
    obtain ⟨zp, scale⟩ := zs
    rw [hz] at h
    simp only [Except.ok.injEq] at h
    subst h
    obtain ⟨hw, hp, _⟩ := zpScale_elems bits sym mn mx zp scale hz
    obtain ⟨s1, s2, l1, l2, hel⟩ := zpScale_elems_same bits sym mn mx zp scale hord.1 hz
    have chan : ∀ (i : Nat) z s, zp.arr.data[i]? = some z → scale.arr.data[i]? = some s →
        0 < s ∧ (mn.pr.join mx.pr).isFin s = true ∧ (qmin bits ≤ z ∧ z ≤ qmax bits) ∧ (sym = true → z = 0) := by
      intro i z s hz' hs'
      obtain ⟨k, hk⟩ := hel i z s hz' hs'
      exact channel_wellformed _ hpr bits hb2 hb16 sym _ _ (by rw [default_rat]; exact hord.2 k) z s hk
    have hlen : scale.arr.data.length = zp.arr.data.length := by rw [l1, l2]
    have ofScale : ∀ s ∈ scale.arr.data, ∃ (i : Nat) (z : Int), zp.arr.data[i]? = some z ∧ scale.arr.data[i]? = some s := by
      intro s hs
      obtain ⟨i, hi⟩ := List.mem_iff_getElem?.1 hs
      have hlt : i < zp.arr.data.length := by rw [← hlen]; exact (List.getElem?_eq_some_iff.1 hi).1
      exact ⟨i, zp.arr.data[i], List.getElem?_eq_getElem hlt, hi⟩
    have ofZp : ∀ z ∈ zp.arr.data, ∃ (i : Nat) (s : Rat), zp.arr.data[i]? = some z ∧ scale.arr.data[i]? = some s := by
      intro z hz'
      obtain ⟨i, hi⟩ := List.mem_iff_getElem?.1 hz'
      have hlt : i < scale.arr.data.length := by rw [hlen]; exact (List.getElem?_eq_some_iff.1 hi).1
      exact ⟨i, scale.arr.data[i], hi, List.getElem?_eq_getElem hlt⟩
    refine ⟨⟨rfl, rfl, by rw [s1, s2], hlen, by simp only; rw [l2, s2], ?_, ?_, ?_, ?_⟩, rfl, s2, hp, hw⟩
    · intro s hs
      obtain ⟨i, z, h1, h2⟩ := ofScale s hs
      exact (chan i z s h1 h2).1
    · intro s hs
      obtain ⟨i, z, h1, h2⟩ := ofScale s hs
      simp only [hp]
      exact (chan i z s h1 h2).2.1
    · intro z hz'
      obtain ⟨i, s, h1, h2⟩ := ofZp z hz'
      exact (chan i z s h1 h2).2.2.1
    · intro hs z hz'
      obtain ⟨i, s, h1, h2⟩ := ofZp z hz'
      exact (chan i z s h1 h2).2.2.2 hs

/-- **every parameter object produced by `_get_tensor_quant_params`** (it is always a uniform one) is
    the reference computation on the statistics it was given, and — for ordered float32/float64
    statistics and 2..16 bits — well formed -/
theorem tensorQuantParams_wellformed (env : Env) (oi : OpInfo) (mn mx : FArr) (tc : TCfg)
    (content : Option (Arr Rat)) (p : Param)
    (hb2 : 2 ≤ tc.bits.toNat) (hb16 : tc.bits.toNat ≤ 16) (hpr : mn.pr.join mx.pr ≠ .f16)
    (hord : StatsOrdered mn mx)
    (h : tensorQuantParams env oi (some (mn, mx)) tc content = .ok p) :
    ∃ qdim qp dat, p = .uniform qp dat ∧ refQDim env oi tc content = .ok qdim ∧
      refParams tc.bits.toNat tc.symmetric qdim mn mx = .ok qp ∧ refData tc content qp = .ok dat ∧
      WellFormed tc.bits.toNat tc.symmetric qp ∧ qp.qdim = qdim := by
  rw [tensorQuantParams_eq] at h
  obtain ⟨qdim, qp, dat, h1, h2, h3, rfl⟩ := (refTensorParams_ok_iff _ _ _ _ _ _ _).1 h
  obtain ⟨hwf, hqd, _⟩ := ref_params_wellformed _ _ _ mn mx qp hb2 hb16 hpr hord h2
  exact ⟨qdim, qp, dat, rfl, h1, h2, h3, hwf, hqd⟩

/-! ## 1. activations: the calibrated statistics under the activation config -/

/-- **a runtime (non-constant) float tensor of a static-range op** is requested with exactly the
    reference parameters of its calibrated statistics `qsvs[t.name] = {min, max}` under the activation
    config's bit width and symmetry, per-tensor (no quantized dimension), no quantized values;
    ADD_QUANTIZE as an operand, ADD_DEQUANTIZE as a result.  (`↔`: the request exists exactly when the
    statistics are present and the formula stays finite.) -/
theorem act_params_reference (env : Env) (qsvs : Qsvs) (oi : OpInfo) (t : Tensor) (inbound : Bool) (tc : TCfg)
    (r : CReq) (hnc : constData env t = none) (hsrq : isSRQ oi.cfg = true) (hact : oi.cfg.act = some tc)
    (hg : tc.gran ≠ Gran.channelwise) :
    wrapper env qsvs oi t inbound none = .ok r ↔
      ∃ mn mx qp, Py.dictGet? qsvs t.name = some (some (mn, mx)) ∧
        refParams tc.bits.toNat tc.symmetric none mn mx = .ok qp ∧
        r = srqReq t.name oi.opId inbound false (some (.uniform qp none)) := by
  have hq : refQDim env oi tc none = .ok none := by
    unfold refQDim
    rw [if_neg (by simpa using hg)]
  rw [wrapper_act_eq env qsvs oi t inbound tc hnc hact]
  constructor
  · intro h
    split at h
    · rename_i s hs
      cases hp : refTensorParams env oi tc none s.1 s.2 with
      | error e => rw [hp] at h; cases h
      | ok p =>
        simp only [hp, mkReq_srq _ _ _ _ _ hsrq, Except.ok.injEq] at h
        obtain ⟨qdim, qp, dat, h1, h2, h3, rfl⟩ := (refTensorParams_ok_iff _ _ _ _ _ _ _).1 hp
        rw [hq] at h1
        cases h1
        cases h3
        exact ⟨s.1, s.2, qp, hs, h2, h.symm⟩
    · cases h
  · rintro ⟨mn, mx, qp, hs, h2, rfl⟩
    rw [hs]
    simp only []
    rw [(refTensorParams_ok_iff _ _ _ _ _ _ _).2 ⟨none, qp, none, hq, h2, rfl, rfl⟩]
    exact mkReq_srq _ _ _ _ _ hsrq

/-- any granularity of the activation config: the attached quantized dimension is `refQDim` -/
theorem act_params_reference_any_gran (env : Env) (qsvs : Qsvs) (oi : OpInfo) (t : Tensor) (inbound : Bool)
    (tc : TCfg) (r : CReq) (hnc : constData env t = none) (hsrq : isSRQ oi.cfg = true)
    (hact : oi.cfg.act = some tc) :
    wrapper env qsvs oi t inbound none = .ok r ↔
      ∃ mn mx qdim qp, Py.dictGet? qsvs t.name = some (some (mn, mx)) ∧
        refQDim env oi tc none = .ok qdim ∧
        refParams tc.bits.toNat tc.symmetric qdim mn mx = .ok qp ∧
        r = srqReq t.name oi.opId inbound false (some (.uniform qp none)) := by
  rw [wrapper_act_eq env qsvs oi t inbound tc hnc hact]
  constructor
  · intro h
    split at h
    · rename_i s hs
      cases hp : refTensorParams env oi tc none s.1 s.2 with
      | error e => rw [hp] at h; cases h
      | ok p =>
        simp only [hp, mkReq_srq _ _ _ _ _ hsrq, Except.ok.injEq] at h
        obtain ⟨qdim, qp, dat, h1, h2, h3, rfl⟩ := (refTensorParams_ok_iff _ _ _ _ _ _ _).1 hp
        cases h3
        exact ⟨s.1, s.2, qdim, qp, hs, h1, h2, h.symm⟩
    · cases h
  · rintro ⟨mn, mx, qdim, qp, hs, h1, h2, rfl⟩
    rw [hs]
    simp only []
    rw [(refTensorParams_ok_iff _ _ _ _ _ _ _).2 ⟨qdim, qp, none, h1, h2, rfl, rfl⟩]
    exact mkReq_srq _ _ _ _ _ hsrq

/-- missing (`KeyError`-free `not in`) or empty (`{}`) statistics of a runtime tensor: `ValueError` -/
theorem act_params_missing (env : Env) (qsvs : Qsvs) (oi : OpInfo) (t : Tensor) (inbound : Bool) (tc : TCfg)
    (hnc : constData env t = none) (hact : oi.cfg.act = some tc)
    (hmiss : Py.dictGet? qsvs t.name = none ∨ Py.dictGet? qsvs t.name = some none) :
    wrapper env qsvs oi t inbound none = .error .valueError := by
  rw [wrapper_act_eq env qsvs oi t inbound tc hnc hact]
  rcases hmiss with h | h <;> rw [h]

/-- the parameters of an activation are well formed (C17 laws), given ordered float32/float64
    statistics and a bit width in 2..16 -/
theorem act_params_wellformed (env : Env) (qsvs : Qsvs) (oi : OpInfo) (t : Tensor) (inbound : Bool) (tc : TCfg)
    (r : CReq) (mn mx : FArr) (hnc : constData env t = none) (hsrq : isSRQ oi.cfg = true)
    (hact : oi.cfg.act = some tc) (hg : tc.gran ≠ Gran.channelwise)
    (hstat : Py.dictGet? qsvs t.name = some (some (mn, mx)))
    (hb2 : 2 ≤ tc.bits.toNat) (hb16 : tc.bits.toNat ≤ 16) (hpr : mn.pr.join mx.pr ≠ .f16)
    (hord : StatsOrdered mn mx)
    (h : wrapper env qsvs oi t inbound none = .ok r) :
    ∃ qp, r = srqReq t.name oi.opId inbound false (some (.uniform qp none)) ∧
      refParams tc.bits.toNat tc.symmetric none mn mx = .ok qp ∧
      WellFormed tc.bits.toNat tc.symmetric qp ∧ qp.qdim = none ∧
      qp.scale.arr.data.length = numel mn.arr.shape ∧ qp.zp.arr.data.length = numel mn.arr.shape := by
  obtain ⟨mn', mx', qp, hs, hp, hr⟩ := (act_params_reference env qsvs oi t inbound tc r hnc hsrq hact hg).1 h
  rw [hstat] at hs
  cases hs
  obtain ⟨hwf, hqd, hsh, _, _⟩ := ref_params_wellformed _ _ _ mn mx qp hb2 hb16 hpr hord hp
  refine ⟨qp, hr, hp, hwf, hqd, ?_, ?_⟩
  · rw [hwf.wf, hsh]
  · rw [← hwf.len, hwf.wf, hsh]

/-- which tensor config applies: the weight config for a constant operand of BATCH_MATMUL, CONV_2D,
    CONV_2D_TRANSPOSE, DEPTHWISE_CONV_2D, EMBEDDING_LOOKUP, FULLY_CONNECTED; the activation config for
    every other tensor (runtime tensors, and constants of the other ops) -/
theorem config_choice (env : Env) (oi : OpInfo) (t : Tensor) :
    tcfgOf env oi t =
      if (constData env t).isSome = true ∧ oi.opName ∈ ["BATCH_MATMUL", "CONV_2D", "CONV_2D_TRANSPOSE",
          "DEPTHWISE_CONV_2D", "EMBEDDING_LOOKUP", "FULLY_CONNECTED"]
      then oi.cfg.weight else oi.cfg.act := by
  unfold tcfgOf
  have : (Tables.woOps.contains oi.opName || Tables.drqOps.contains oi.opName) =
      decide (oi.opName ∈ ["BATCH_MATMUL", "CONV_2D", "CONV_2D_TRANSPOSE", "DEPTHWISE_CONV_2D",
        "EMBEDDING_LOOKUP", "FULLY_CONNECTED"]) := by
    simp only [Tables.woOps, Tables.drqOps, Bool.or_self, List.contains_eq_mem]
  rw [this]
  by_cases h1 : (constData env t).isSome = true <;> by_cases h2 : oi.opName ∈ ["BATCH_MATMUL", "CONV_2D",
      "CONV_2D_TRANSPOSE", "DEPTHWISE_CONV_2D", "EMBEDDING_LOOKUP", "FULLY_CONNECTED"] <;> simp [h1, h2]

/-! ## 2. constants: the true min/max under the tensor config, with the quantized values -/

/-- **a constant tensor** (data `d`, tensor config `tc`: the weight config for the constant operands of
    the weight-only / dynamic-range ops, the activation config otherwise) is requested — **whatever the
    statistics dictionary holds** (repair D36) — with exactly the reference parameters of its true
    min/max `initMinMax env oi t d` under the current op config, with the kernel's quantized dimension
    `refQDim` attached, and with the quantized values `uniform_quantize(d, qp)` -/
theorem weight_params_reference (env : Env) (qsvs : Qsvs) (oi : OpInfo) (t : Tensor) (inbound : Bool) (tc : TCfg)
    (d : Arr Rat) (r : CReq) (hd : constData env t = some d) (htc : tcfgOf env oi t = some tc) :
    wrapper env qsvs oi t inbound none = .ok r ↔
      ∃ mn mx qdim qp q, initMinMax env oi t d = .ok (mn, mx) ∧
        refQDim env oi tc (some d) = .ok qdim ∧
        refParams tc.bits.toNat tc.symmetric qdim mn mx = .ok qp ∧
        tc.gran ≠ Gran.blockwise ∧ uniformQuantize ⟨d, .f32⟩ qp = .ok q ∧
        mkReq t.name oi inbound (some (.uniform qp (some q))) true = .ok r := by
  rw [wrapper_none_ok_iff, htc, hd]
  constructor
  · rintro (⟨h, _⟩ | ⟨tc', mn, mx, qdim, qp, dat, h0, h1, h2, h3, h4, h5⟩)
    · cases h
    · cases h0
      obtain ⟨hb, q, hq, rfl⟩ := (refData_some _ _ _ _).1 h4
      exact ⟨mn, mx, qdim, qp, q, (statsOf_const env qsvs oi t d mn mx hd).1 h1, h2, h3, hb, hq, h5⟩
  · rintro ⟨mn, mx, qdim, qp, q, h1, h2, h3, hb, hq, h5⟩
    exact .inr ⟨tc, mn, mx, qdim, qp, some q, rfl, (statsOf_const env qsvs oi t d mn mx hd).2 h1, h2, h3,
      (refData_some _ _ _ _).2 ⟨hb, q, hq, rfl⟩, h5⟩

/-- the request of a constant does not depend on the statistics dictionary at all -/
theorem weight_request_ignores_stats (env : Env) (qsvs qsvs' : Qsvs) (oi : OpInfo) (t : Tensor) (inbound : Bool)
    (d : Arr Rat) (hd : constData env t = some d) :
    wrapper env qsvs oi t inbound none = wrapper env qsvs' oi t inbound none := by
  rw [wrapper_none_eq, wrapper_none_eq]
  simp only [statsOf, hd]

/-- remark: what calibration (`init_tensor_min_max` under the same op) records for a float32 constant
    is what materialisation recomputes -/
theorem calibrated_stats_recomputed (env : Env) (oi : OpInfo) (t : Tensor) (d : Arr Rat)
    (mm : FArr × FArr) (hd : constData env t = some d) (hf32 : t.dtype = Tables.ttFloat32)
    (hcal : Calib.initTensor env oi t = .ok (some mm)) : initMinMax env oi t d = .ok mm :=
  initTensor_faithful env oi t d mm hd hf32 hcal

/-- **the statistics of a constant are its true per-tensor / per-channel min and max**: float32
    arrays of one shape with one cell per channel (one cell when `statQDim` is none, `shape[k]` cells
    along the quantized dimension `k`); every non-empty cell of `min` is an element of its channel
    and `≤` all elements of the channel, symmetrically for `max`; so `min ≤ max` everywhere.
    `chan i` is the cell that element `i` of the (row-major) data belongs to. -/
theorem weight_stats_true_minmax (env : Env) (oi : OpInfo) (t : Tensor) (d : Arr Rat) (mn mx : FArr)
    (hd : constData env t = some d) (h : initMinMax env oi t d = .ok (mn, mx)) :
    let qdim := statQDim env oi d.shape.length
    let cells := channels d.shape qdim
    let chan := fun i => bindex d.shape (keepShape d.shape (reduceDims qdim d.shape.length)) i
    mn.pr = .f32 ∧ mx.pr = .f32 ∧ StatsOrdered mn mx ∧
    mn.arr.shape = keepShape d.shape (reduceDims qdim d.shape.length) ∧
    numel mn.arr.shape = cells ∧ mn.arr.data.length = cells ∧ mx.arr.data.length = cells ∧
    (∀ j < cells,
      ((∀ i < d.size, chan i ≠ j) ∧ mn.arr.data.getD j 0 = 0 ∧ mx.arr.data.getD j 0 = 0) ∨
      ((∃ i < d.size, chan i = j ∧ mn.arr.data.getD j 0 = d.data.getD i 0) ∧
       (∃ i < d.size, chan i = j ∧ mx.arr.data.getD j 0 = d.data.getD i 0) ∧
       ∀ i < d.size, chan i = j → mn.arr.data.getD j 0 ≤ d.data.getD i 0 ∧ d.data.getD i 0 ≤ mx.arr.data.getD j 0)) ∧
    (d.data.length = numel d.shape → ∀ i < d.size, chan i < cells ∧
      mn.arr.data.getD (chan i) 0 ≤ d.data.getD i 0 ∧ d.data.getD i 0 ≤ mx.arr.data.getD (chan i) 0) := by
  intro qdim cells chan
  obtain ⟨_, _, p1, p2, r1, r2, hs, hn, l1, l2, hle⟩ :=
    initMinMax_spec env oi t d mn mx (constData_shape env t d hd).2 h
  obtain ⟨_, s1, _, c1⟩ := reduceKeep_spec _ _ sel_min d _ _ r1
  obtain ⟨_, s2, n2, c2⟩ := reduceKeep_spec _ _ sel_max d _ _ r2
  have hcells : numel (keepShape d.shape (reduceDims qdim d.shape.length)) = cells := by rw [← s1]; exact hn
  have hcell : ∀ j < cells,
      ((∀ i < d.size, chan i ≠ j) ∧ mn.arr.data.getD j 0 = 0 ∧ mx.arr.data.getD j 0 = 0) ∨
      ((∃ i < d.size, chan i = j ∧ mn.arr.data.getD j 0 = d.data.getD i 0) ∧
       (∃ i < d.size, chan i = j ∧ mx.arr.data.getD j 0 = d.data.getD i 0) ∧
       ∀ i < d.size, chan i = j → mn.arr.data.getD j 0 ≤ d.data.getD i 0 ∧ d.data.getD i 0 ≤ mx.arr.data.getD j 0) := ?_
  · refine ⟨p1, p2, ⟨hs, hle⟩, s1, hn, l1, l2, hcell, ?_⟩
    intro hwf i hi
    have hlt : chan i < cells := by
      rw [← hcells]
      exact bindex_keep_lt d.shape _ i (by rw [← hwf]; exact hi)
    refine ⟨hlt, ?_⟩
    rcases hcell (chan i) hlt with ⟨hn', _⟩ | ⟨_, _, hall⟩
    · exact absurd rfl (hn' i hi)
    · exact hall i hi rfl
  intro j hj
  rw [← hcells] at hj
  rcases c1 j hj with ⟨n1, z1⟩ | ⟨e1, a1⟩
  · rcases c2 j hj with ⟨_, z2⟩ | ⟨⟨i, hi, hij, _⟩, _⟩
    · exact .inl ⟨n1, z1, z2⟩
    · exact absurd hij (n1 i hi)
  · rcases c2 j hj with ⟨n2', _⟩ | ⟨e2, a2⟩
    · obtain ⟨i, hi, hij, _⟩ := e1
      exact absurd hij (n2' i hi)
    · exact .inr ⟨e1, e2, fun i hi hij => ⟨a1 i hi hij, a2 i hi hij⟩⟩

/-- **per-channel parameters appear only under a CHANNELWISE weight config, on a constant operand of a
    weight-only / dynamic-range op, and only on the dimension the runtime kernel expects** (table
    `weightQDim`: FULLY_CONNECTED 0, CONV_2D 0, DEPTHWISE_CONV_2D 3, EMBEDDING_LOOKUP 0,
    CONV_2D_TRANSPOSE 0; BATCH_MATMUL: last dimension, last but one under `adj_y`), provided the
    activation config is per-tensor -/
theorem per_channel_only_weight_config (env : Env) (oi : OpInfo) (t : Tensor) (tc : TCfg) (k : Nat)
    (htc : tcfgOf env oi t = some tc) (hact : ActPerTensor oi.cfg)
    (h : refQDim env oi tc (constData env t) = .ok (some k)) :
    (constData env t).isSome = true ∧ Tables.woOps.contains oi.opName = true ∧
      oi.cfg.weight = some tc ∧ tc.gran = Gran.channelwise ∧
      ((oi.opName = "BATCH_MATMUL" ∧ ∃ d, constData env t = some d ∧ k = bmmQDim d.shape.length (opAdjY env oi)) ∨
       (oi.opName ≠ "BATCH_MATMUL" ∧ Py.dictGet? Tables.weightQDim oi.opName = some k)) := by
  obtain ⟨hg, hk⟩ := refQDim_some env oi tc _ k h
  unfold tcfgOf at htc
  by_cases hc : ((constData env t).isSome && (Tables.woOps.contains oi.opName || Tables.drqOps.contains oi.opName)) = true
  · rw [if_pos hc] at htc
    simp only [Bool.and_eq_true, Bool.or_eq_true] at hc
    refine ⟨hc.1, ?_, htc, hg, hk⟩
    rcases hc.2 with h' | h'
    · exact h'
    · exact h'
  · rw [if_neg hc] at htc
    exact absurd hg (hact tc htc)

/-- **shape of the parameters of a constant**: well formed (C17 laws; the side conditions on the
    statistics hold by construction, only the bit width 2..16 is assumed), the quantized dimension is
    the one the statistics were kept along, and there is one scale / zero point per channel: one, or
    `shape[k]` along the quantized dimension `k` -/
theorem weight_params_shape (env : Env) (oi : OpInfo) (t : Tensor) (tc : TCfg) (d : Arr Rat) (mn mx : FArr)
    (qdim : Option Nat) (qp : QParams)
    (hd : constData env t = some d) (htc : tcfgOf env oi t = some tc) (hact : ActPerTensor oi.cfg)
    (hb2 : 2 ≤ tc.bits.toNat) (hb16 : tc.bits.toNat ≤ 16)
    (hi : initMinMax env oi t d = .ok (mn, mx)) (hq : refQDim env oi tc (some d) = .ok qdim)
    (hp : refParams tc.bits.toNat tc.symmetric qdim mn mx = .ok qp) :
    WellFormed tc.bits.toNat tc.symmetric qp ∧ qp.qdim = qdim ∧ statQDim env oi d.shape.length = qdim ∧
      qp.scale.pr = .f32 ∧ qp.zp.w = storageBits tc.bits.toNat ∧
      qp.scale.arr.data.length = channels d.shape qdim ∧ qp.zp.arr.data.length = channels d.shape qdim := by
  obtain ⟨_, _, p1, p2, _, _, hs, hn, _, _, hle⟩ :=
    initMinMax_spec env oi t d mn mx (constData_shape env t d hd).2 hi
  have hpr : mn.pr.join mx.pr = .f32 := by rw [p1, p2]; rfl
  obtain ⟨hwf, hqd, hsh, hspr, hzw⟩ :=
    ref_params_wellformed _ _ _ mn mx qp hb2 hb16 (by rw [hpr]; decide) ⟨hs, hle⟩ hp
  have hstat := refQDim_stat env oi t d tc qdim hd htc hact hq
  rw [hstat] at hn
  refine ⟨hwf, hqd, hstat, by rw [hspr, hpr], hzw, ?_, ?_⟩
  · rw [hwf.wf, hsh, hn]; rfl
  · rw [← hwf.len, hwf.wf, hsh, hn]; rfl

/-! ## 4. op-level sharing rules -/

open Pipe in
theorem stripData_none (p : Option Param) (h : stripData p = none) : p = none := by
  cases p with
  | none => rfl
  | some q =>
    cases q with
    | nonlinear b d => cases h
    | uniform qp d => cases d <;> cases h

open Pipe in
/-- a runtime tensor handed `g`: it carries exactly `g` when `g` is a parameter object, and its own
    reference parameters when there is nothing to hand over -/
theorem handed_params (env : Env) (qsvs : Qsvs) (oi : OpInfo) (t : Tensor) (inbound : Bool) (g : Option Param)
    (r : CReq) (hnc : constData env t = none) (h : wrapper env qsvs oi t inbound g = .ok r) :
    (∃ p xfs, g = some p ∧ tensorXfs oi.cfg inbound false = .ok xfs ∧
      r = (if inbound then ⟨t.name, none, some [⟨oi.opId, xfs, some p⟩]⟩ else ⟨t.name, some ⟨oi.opId, xfs, some p⟩, none⟩)) ∨
    (g = none ∧ wrapper env qsvs oi t inbound none = .ok r) := by
  cases g with
  | none => exact .inr ⟨rfl, h⟩
  | some p =>
    obtain ⟨xfs, hx, hr⟩ := shared_params_kept env qsvs oi t inbound p r hnc h
    exact .inl ⟨p, xfs, rfl, hx, hr⟩

open Pipe in
/-- **same-as-input ops**: the request list is operands then results, in slot order; every result
    that is quantized at all (float32, not an index position) is requested with the parameter object
    of the request `ir` of the one quantized operand (`ir` is in the list, at the operand's position);
    a runtime result carries exactly that object. -/
theorem same_as_input (env : Env) (sg : Subgraph) (qsvs : Qsvs) (oi : OpInfo) (gIn gOut : List Nat)
    (rs : List CReq) (qs' : Qsvs)
    (h : standardOp env sg qsvs oi .sameAsInput gIn gOut = .ok (rs, qs')) :
    ∃ rin rout, rs = rin ++ rout ∧ rin.length = (cslots oi.op.inputs).length ∧
      rout.length = (cslots oi.op.outputs).length ∧
      ∀ (i : Nat) (b : Int) (posO : Nat) (o : Tensor) (r : CReq),
        (cslots oi.op.outputs)[i]? = some (b, posO) → rout[i]? = some r → tensorAt sg b = .ok o →
        o.dtype = Tables.ttFloat32 → posO ∉ gOut →
        ∃ (j : Nat) (a : Int) (pos : Nat) (t : Tensor) (ir : CReq) (p0 : Option Param),
          (cslots oi.op.inputs)[j]? = some (a, pos) ∧ rin[j]? = some ir ∧ tensorAt sg a = .ok t ∧
          t.dtype = Tables.ttFloat32 ∧ pos ∉ gIn ∧
          (∀ q' ∈ cslots oi.op.inputs, (∃ t', tensorAt sg q'.1 = .ok t' ∧ t'.dtype = Tables.ttFloat32 ∧ q'.2 ∉ gIn) →
            q' = (a, pos)) ∧
          wrapper env qsvs oi t true none = .ok ir ∧ reqParam0 ir = .ok p0 ∧
          wrapper env qsvs oi o false (stripData p0) = .ok r ∧
          (constData env o = none →
            (∃ p xfs, stripData p0 = some p ∧ tensorXfs oi.cfg false false = .ok xfs ∧
              r = ⟨o.name, some ⟨oi.opId, xfs, some p⟩, none⟩) ∨
            (p0 = none ∧ wrapper env qsvs oi o false none = .ok r)) := by
  obtain ⟨inIgn, outIgn, rin, rout, gO, hII, hIO, hrs, hPin, hPout, hcase⟩ :=
    standardOp_sameAsInput env sg qsvs oi gIn gOut rs qs' h
  refine ⟨rin, rout, hrs, hPin.1.symm, hPout.1.symm, ?_⟩
  intro i b posO o r hi hr hto hdt hpos
  have hmem : ((b, posO) : Int × Nat) ∈ cslots oi.op.outputs := List.mem_of_getElem? hi
  have hslot := ((mem_cslots _ _).1 hmem).1
  have hnotign : outIgn.contains posO = false := by
    cases hc : outIgn.contains posO with
    | false => rfl
    | true =>
      rcases (hIO posO b o hslot hto).1 hc with h' | h'
      · exact absurd hdt h'
      · exact absurd h' hpos
  obtain ⟨o', hto', hreq⟩ := hPout.2 i _ _ hi hr
  rw [hto] at hto'
  cases hto'
  simp only [hnotign, Bool.false_eq_true, if_false] at hreq
  rcases hcase with ⟨_, hall⟩ | ⟨q, hq, t, ir, p0, hqc, huniq, htq, hw, hp0, hgO⟩
  · rw [hall _ hmem] at hnotign
    cases hnotign
  · obtain ⟨j, hj⟩ := List.mem_iff_getElem?.1 hq
    have hjlt : j < rin.length := by rw [← hPin.1]; exact (List.getElem?_eq_some_iff.1 hj).1
    obtain ⟨t', htq', hreqin⟩ := hPin.2 j _ _ hj (List.getElem?_eq_getElem hjlt)
    rw [htq] at htq'
    cases htq'
    simp only [hqc, Bool.false_eq_true, if_false] at hreqin
    rw [hw] at hreqin
    simp only [Except.ok.injEq] at hreqin
    have hqslot := ((mem_cslots _ _).1 hq).1
    have hqspec := (hII q.2 q.1 t hqslot htq)
    have hdtq : t.dtype = Tables.ttFloat32 ∧ q.2 ∉ gIn := by
      constructor
      · by_contra hne
        have := hqspec.2 (.inl hne)
        rw [hqc] at this; cases this
      · intro hin
        have := hqspec.2 (.inr hin)
        rw [hqc] at this; cases this
    subst hgO
    refine ⟨j, q.1, q.2, t, ir, p0, hj, by rw [List.getElem?_eq_getElem hjlt, ← hreqin], htq, hdtq.1, hdtq.2, ?_,
      hw, hp0, hreq, ?_⟩
    · rintro q' hq' ⟨t', ht', hd', hg'⟩
      refine huniq q' hq' ?_
      cases hc : inIgn.contains q'.2 with
      | false => rfl
      | true =>
        rcases (hII q'.2 q'.1 t' ((mem_cslots _ _).1 hq').1 ht').1 hc with h' | h'
        · exact absurd hd' h'
        · exact absurd h' hg'
    · intro hnc
      rcases handed_params env qsvs oi o false _ r hnc hreq with ⟨p, xfs, hg, hx, hr'⟩ | ⟨hg, hw'⟩
      · exact .inl ⟨p, xfs, hg, hx, by simpa using hr'⟩
      · exact .inr ⟨stripData_none _ hg, hw'⟩

open Pipe in
/-- **same-as-output ops** (concatenation): every operand that is quantized at all is requested
    with the parameter object of the request `orq` of the one quantized result (`orq` is in the list);
    a runtime operand carries exactly that object. -/
theorem concat_same_as_output (env : Env) (sg : Subgraph) (qsvs : Qsvs) (oi : OpInfo) (gIn gOut : List Nat)
    (rs : List CReq) (qs' : Qsvs)
    (h : standardOp env sg qsvs oi .sameAsOutput gIn gOut = .ok (rs, qs')) :
    ∃ rin rout, rs = rin ++ rout ∧ rin.length = (cslots oi.op.inputs).length ∧
      rout.length = (cslots oi.op.outputs).length ∧
      ∀ (i : Nat) (a : Int) (pos : Nat) (t : Tensor) (r : CReq),
        (cslots oi.op.inputs)[i]? = some (a, pos) → rin[i]? = some r → tensorAt sg a = .ok t →
        t.dtype = Tables.ttFloat32 → pos ∉ gIn →
        ∃ (j : Nat) (b : Int) (posO : Nat) (o : Tensor) (orq : CReq) (xfs : List Xf) (g : Option Param),
          (cslots oi.op.outputs)[j]? = some (b, posO) ∧ rout[j]? = some orq ∧ tensorAt sg b = .ok o ∧
          o.dtype = Tables.ttFloat32 ∧ posO ∉ gOut ∧
          (∀ q' ∈ cslots oi.op.outputs, (∃ t', tensorAt sg q'.1 = .ok t' ∧ t'.dtype = Tables.ttFloat32 ∧ q'.2 ∉ gOut) →
            q' = (b, posO)) ∧
          wrapper env qsvs oi o false none = .ok orq ∧ orq = ⟨o.name, some ⟨oi.opId, xfs, g⟩, none⟩ ∧
          wrapper env qsvs oi t true g = .ok r ∧
          (constData env t = none →
            (∃ p xfs', g = some p ∧ tensorXfs oi.cfg true false = .ok xfs' ∧
              r = ⟨t.name, none, some [⟨oi.opId, xfs', some p⟩]⟩) ∨
            (g = none ∧ wrapper env qsvs oi t true none = .ok r)) := by
  obtain ⟨inIgn, outIgn, rin, rout, g, hII, hIO, hrs, hPin, hPout, hcase⟩ :=
    standardOp_sameAsOutput env sg qsvs oi gIn gOut rs qs' h
  refine ⟨rin, rout, hrs, hPin.1.symm, hPout.1.symm, ?_⟩
  intro i a pos t r hi hr hta hdt hpos
  have hmem : ((a, pos) : Int × Nat) ∈ cslots oi.op.inputs := List.mem_of_getElem? hi
  have hslot := ((mem_cslots _ _).1 hmem).1
  have hnotign : inIgn.contains pos = false := by
    cases hc : inIgn.contains pos with
    | false => rfl
    | true =>
      rcases (hII pos a t hslot hta).1 hc with h' | h'
      · exact absurd hdt h'
      · exact absurd h' hpos
  obtain ⟨t', hta', hreq⟩ := hPin.2 i _ _ hi hr
  rw [hta] at hta'
  cases hta'
  simp only [hnotign, Bool.false_eq_true, if_false] at hreq
  rcases hcase with ⟨hall, _⟩ | ⟨q, hq, o, orq, hqc, huniq, hto, hw, hg⟩
  · rw [hall _ hmem] at hnotign
    cases hnotign
  · obtain ⟨j, hj⟩ := List.mem_iff_getElem?.1 hq
    have hjlt : j < rout.length := by rw [← hPout.1]; exact (List.getElem?_eq_some_iff.1 hj).1
    obtain ⟨o', hto', hreqout⟩ := hPout.2 j _ _ hj (List.getElem?_eq_getElem hjlt)
    rw [hto] at hto'
    cases hto'
    simp only [hqc, Bool.false_eq_true, if_false] at hreqout
    rw [hw] at hreqout
    simp only [Except.ok.injEq] at hreqout
    have hqslot := ((mem_cslots _ _).1 hq).1
    have hqspec := (hIO q.2 q.1 o hqslot hto)
    have hdtq : o.dtype = Tables.ttFloat32 ∧ q.2 ∉ gOut := by
      constructor
      · by_contra hne
        have := hqspec.2 (.inl hne)
        rw [hqc] at this; cases this
      · intro hin
        have := hqspec.2 (.inr hin)
        rw [hqc] at this; cases this
    obtain ⟨xfs, p, _, horq, _⟩ := wrapper_spec env qsvs oi o false none orq hw (fun _ hp => by cases hp)
    simp only [Bool.false_eq_true, if_false] at horq
    have hgp : g = p := by rw [hg, horq]
    subst hgp
    refine ⟨j, q.1, q.2, o, orq, xfs, g, hj, by rw [List.getElem?_eq_getElem hjlt, ← hreqout], hto, hdtq.1, hdtq.2, ?_,
      hw, horq, hreq, ?_⟩
    · rintro q' hq' ⟨t', ht', hd', hg'⟩
      refine huniq q' hq' ?_
      cases hc : outIgn.contains q'.2 with
      | false => rfl
      | true =>
        rcases (hIO q'.2 q'.1 t' ((mem_cslots _ _).1 hq').1 ht').1 hc with h' | h'
        · exact absurd hd' h'
        · exact absurd h' hg'
    · intro hnc
      rcases handed_params env qsvs oi t true _ r hnc hreq with ⟨p, xfs', hg', hx, hr'⟩ | ⟨hg', hw'⟩
      · exact .inl ⟨p, xfs', hg', hx, by simpa using hr'⟩
      · exact .inr ⟨hg', hw'⟩

open Pipe in
/-- **end to end, static-range**: the runtime results of a same-as-input op (reshape, transpose, split,
    strided-slice, average-pool) carry the reference parameters of the *operand's* calibrated
    statistics — the very object requested for the operand -/
theorem same_as_input_srq (env : Env) (sg : Subgraph) (qsvs : Qsvs) (oi : OpInfo) (gIn gOut : List Nat)
    (rs : List CReq) (qs' : Qsvs) (tc : TCfg)
    (hsrq : isSRQ oi.cfg = true) (hact : oi.cfg.act = some tc) (hg : tc.gran ≠ Gran.channelwise)
    (h : standardOp env sg qsvs oi .sameAsInput gIn gOut = .ok (rs, qs')) :
    ∃ rin rout, rs = rin ++ rout ∧
      ∀ (i : Nat) (b : Int) (posO : Nat) (o : Tensor) (r : CReq),
        (cslots oi.op.outputs)[i]? = some (b, posO) → rout[i]? = some r → tensorAt sg b = .ok o →
        o.dtype = Tables.ttFloat32 → posO ∉ gOut → constData env o = none →
        ∃ (j : Nat) (a : Int) (pos : Nat) (t : Tensor),
          (cslots oi.op.inputs)[j]? = some (a, pos) ∧ tensorAt sg a = .ok t ∧
          t.dtype = Tables.ttFloat32 ∧ pos ∉ gIn ∧
          (constData env t = none →
            ∃ mn mx qp, Py.dictGet? qsvs t.name = some (some (mn, mx)) ∧
              refParams tc.bits.toNat tc.symmetric none mn mx = .ok qp ∧
              rin[j]? = some (srqReq t.name oi.opId true false (some (.uniform qp none))) ∧
              r = srqReq o.name oi.opId false false (some (.uniform qp none))) := by
  obtain ⟨rin, rout, hrs, _, _, hall⟩ := same_as_input env sg qsvs oi gIn gOut rs qs' h
  refine ⟨rin, rout, hrs, ?_⟩
  intro i b posO o r hi hr hto hdt hpos hnco
  obtain ⟨j, a, pos, t, ir, p0, hj, hrj, hta, hdtt, hposin, _, hw, hp0, _, hout⟩ :=
    hall i b posO o r hi hr hto hdt hpos
  refine ⟨j, a, pos, t, hj, hta, hdtt, hposin, ?_⟩
  intro hnct
  obtain ⟨mn, mx, qp, hs, hp, hir⟩ := (act_params_reference env qsvs oi t true tc ir hnct hsrq hact hg).1 hw
  subst hir
  have : p0 = some (.uniform qp none) := by
    simp only [srqReq, if_true, reqParam0, Except.ok.injEq] at hp0
    exact hp0.symm
  subst this
  refine ⟨mn, mx, qp, hs, hp, hrj, ?_⟩
  rcases hout hnco with ⟨p, xfs, hsd, hx, hr'⟩ | ⟨hnone, _⟩
  · simp only [Pipe.stripData, Option.some.injEq] at hsd
    subst hsd
    have hx' := mkReq_srq o.name oi false (some (.uniform qp none)) false hsrq
    unfold mkReq at hx'
    rw [hx] at hx'
    simp only [bind, Except.bind, pure, Except.pure, Bool.false_eq_true, if_false, Except.ok.injEq] at hx'
    rw [hr', hx']
  · cases hnone

/-! ### bias and fixed ranges, on the request list -/

/-- **bias of FULLY_CONNECTED / CONV_2D / DEPTHWISE_CONV_2D / CONV_2D_TRANSPOSE under a static-range
    config**: the request at the bias position carries parameters with zero points 0, symmetric, 32
    bits (64 for 16-bit activations), whose scale array is the element-wise float product of the
    scale arrays of the requests at the data and weight positions (input scale × weight scale, per
    channel), together with the bias values quantized by them -/
theorem bias_request (env : Env) (sg : Subgraph) (oi : OpInfo) (reqs rs : List CReq) (iIn iW iB : Nat) (bslot : Int)
    (hsrq : isSRQ oi.cfg = true) (hb : oi.op.inputs[iB]? = some bslot) (hne : bslot ≠ -1)
    (h : biasFor env sg oi reqs iIn iW iB = .ok rs) :
    ∃ bt bd rin rw qi di qw dw qp q prod, tensorAt sg bslot = .ok bt ∧ constData env bt = some bd ∧
      reqs[iIn]? = some rin ∧ reqs[iW]? = some rw ∧
      reqParam0 rin = .ok (some (.uniform qi di)) ∧ reqParam0 rw = .ok (some (.uniform qw dw)) ∧
      rs = reqs.set iB (srqReq bt.name oi.opId true true (some (.uniform qp (some q)))) ∧
      uniformQuantize ⟨bd, .f32⟩ qp = .ok q ∧
      qp.symmetric = true ∧ qp.bits = (if qi.bits = 16 then 64 else 32) ∧ (∀ z ∈ qp.zp.arr.data, z = 0) ∧
      zipB (fun a b => (qi.scale.pr.join qw.scale.pr).chk (a * b)) qi.scale.arr qw.scale.arr = .ok prod ∧
      qp.scale = ⟨squeeze1 prod, qi.scale.pr.join qw.scale.pr⟩ := by
  obtain ⟨bt, bd, rin, rw, qi, di, qw, dw, qp, q, h1, h2, h3, h4, h5, h6, h7, _, h9⟩ :=
    biasFor_srq env sg oi reqs rs iIn iW iB bslot hsrq hb hne h
  obtain ⟨b1, b2, _, b4, prod, b5, b6⟩ := bias_params _ _ _ _ _ h7
  refine ⟨bt, bd, rin, rw, qi, di, qw, dw, qp, q, prod, h1, h2, h3, h4, h5, h6, h9, ?_, b1, b2, b4, b5, b6⟩
  unfold quantizeBias at h7
  simp only [bind, Except.bind, pure, Except.pure, b5] at h7
  split at h7
  · cases h7
  · rename_i q' hq'
    simp only [Except.ok.injEq, Prod.mk.injEq] at h7
    obtain ⟨rfl, rfl⟩ := h7
    exact hq'

/-- **SOFTMAX / LOGISTIC (`softmaxLike = true`) and TANH (`false`)**: when the result (last request) is
    quantized it carries the range fixed by the runtime kernel (`C04.fixed_ranges`: 1/256 with zero
    point -128, resp. 1/128 with zero point 0, for 8 bits; 1/32768 symmetric for 16 bits) and no
    calibrated parameters -/
theorem fixed_range_output (env : Env) (sg : Subgraph) (qsvs : Qsvs) (oi : OpInfo) (softmaxLike : Bool)
    (rs : List CReq) (qs' : Qsvs) (a : TCfg) (last : CReq) (pr : CO2T)
    (h : fixedRangeOp env sg qsvs oi softmaxLike = .ok (rs, qs')) (ha : oi.cfg.act = some a)
    (hl : rs.getLast? = some last) (hpr : last.producer = some pr) :
    ∃ fp, fixedParams softmaxLike a.bits.toNat = some fp ∧ pr.param = some (.uniform fp none) := by
  obtain ⟨_, reqs, qs, _, hcase⟩ := fixedRangeOp_spec env sg qsvs oi softmaxLike rs qs' h
  rcases hcase with ⟨rfl, _, hno⟩ | ⟨last0, a', pr0, fp, mm, _, ha', _, hfp, _, hrs, _⟩
  · rcases hno with h1 | h1 | ⟨l, h1, h2⟩
    · rw [h1] at hl; cases hl
    · rw [h1] at ha; cases ha
    · rw [h1] at hl; cases hl
      rw [h2] at hpr; cases hpr
  · rw [ha] at ha'
    cases ha'
    rw [hrs, List.getLast?_append, List.getLast?_singleton] at hl
    simp only [Option.some_or, Option.some.injEq] at hl
    subst hl
    simp only [Option.some.injEq] at hpr
    subst hpr
    exact ⟨fp, hfp, rfl⟩

/-! ### which op gets which rule: the registry against the dispatch of `materializeOp` -/

/-- RESHAPE, TRANSPOSE, SPLIT, STRIDED_SLICE, AVERAGE_POOL_2D are same-as-input ops (with their index
    operands ignored); CONCATENATION is the same-as-output op; SOFTMAX, LOGISTIC (range `[0, 1)`-like,
    scale 1/256 resp. 1/32768) and TANH (scale 1/128 resp. 1/32768) are the fixed-range ops -/
theorem dispatch_table :
    (Py.dictGet? Tables.registry Tables.algMinMax).bind (Py.dictGet? · "RESHAPE") = some "materialize_reshape" ∧
    (Py.dictGet? Tables.registry Tables.algMinMax).bind (Py.dictGet? · "TRANSPOSE") = some "materialize_transpose" ∧
    (Py.dictGet? Tables.registry Tables.algMinMax).bind (Py.dictGet? · "SPLIT") = some "materialize_split" ∧
    (Py.dictGet? Tables.registry Tables.algMinMax).bind (Py.dictGet? · "STRIDED_SLICE") = some "materialize_strided_slice" ∧
    (Py.dictGet? Tables.registry Tables.algMinMax).bind (Py.dictGet? · "AVERAGE_POOL_2D") = some "materialize_average_pool_2d" ∧
    (Py.dictGet? Tables.registry Tables.algMinMax).bind (Py.dictGet? · "CONCATENATION") = some "materialize_concatenation" ∧
    (Py.dictGet? Tables.registry Tables.algMinMax).bind (Py.dictGet? · "SOFTMAX") = some "materialize_softmax_and_logistic" ∧
    (Py.dictGet? Tables.registry Tables.algMinMax).bind (Py.dictGet? · "LOGISTIC") = some "materialize_softmax_and_logistic" ∧
    (Py.dictGet? Tables.registry Tables.algMinMax).bind (Py.dictGet? · "TANH") = some "materialize_tanh" := by
  decide

theorem dispatch_rules (env : Env) (sg : Subgraph) (qsvs : Qsvs) (oi : OpInfo) :
    materializeOp env sg qsvs oi Tables.algMinMax "materialize_reshape" = standardOp env sg qsvs oi .sameAsInput [1] [] ∧
    materializeOp env sg qsvs oi Tables.algMinMax "materialize_transpose" = standardOp env sg qsvs oi .sameAsInput [1] [] ∧
    materializeOp env sg qsvs oi Tables.algMinMax "materialize_split" = standardOp env sg qsvs oi .sameAsInput [0] [] ∧
    materializeOp env sg qsvs oi Tables.algMinMax "materialize_strided_slice" = standardOp env sg qsvs oi .sameAsInput [1, 2, 3] [] ∧
    materializeOp env sg qsvs oi Tables.algMinMax "materialize_average_pool_2d" = standardOp env sg qsvs oi .sameAsInput [] [] ∧
    materializeOp env sg qsvs oi Tables.algMinMax "materialize_concatenation" = standardOp env sg qsvs oi .sameAsOutput [] [] ∧
    materializeOp env sg qsvs oi Tables.algMinMax "materialize_softmax_and_logistic" = fixedRangeOp env sg qsvs oi true ∧
    materializeOp env sg qsvs oi Tables.algMinMax "materialize_tanh" = fixedRangeOp env sg qsvs oi false :=
  ⟨materializeOp_reshape .., materializeOp_transpose .., materializeOp_split .., materializeOp_strided_slice ..,
   materializeOp_average_pool .., materializeOp_concatenation .., materializeOp_softmax_logistic ..,
   materializeOp_tanh ..⟩

/-- the ops with a bias: FULLY_CONNECTED, CONV_2D, DEPTHWISE_CONV_2D (data 0, weight 1, bias 2) and
    CONV_2D_TRANSPOSE (data 2, weight 1, bias 3) -/
theorem dispatch_bias (env : Env) (sg : Subgraph) (qsvs : Qsvs) (oi : OpInfo) :
    (Py.dictGet? Tables.registry Tables.algMinMax).bind (Py.dictGet? · "FULLY_CONNECTED") = some "materialize_fc_conv" ∧
    (Py.dictGet? Tables.registry Tables.algMinMax).bind (Py.dictGet? · "CONV_2D") = some "materialize_fc_conv" ∧
    (Py.dictGet? Tables.registry Tables.algMinMax).bind (Py.dictGet? · "DEPTHWISE_CONV_2D") = some "materialize_fc_conv" ∧
    (Py.dictGet? Tables.registry Tables.algMinMax).bind (Py.dictGet? · "CONV_2D_TRANSPOSE") = some "materialize_conv2d_transpose" ∧
    materializeOp env sg qsvs oi Tables.algMinMax "materialize_fc_conv" =
      (standardOp env sg qsvs oi .none [2] [] >>= fun rq =>
        biasFor env sg oi rq.1 0 1 2 >>= fun r' => pure (r', rq.2)) ∧
    materializeOp env sg qsvs oi Tables.algMinMax "materialize_conv2d_transpose" =
      (do let (r, q) ← standardOp env sg qsvs oi .none [0, 3] []
          if r.length < 2 then throw PyErr.valueError
          let r' ← biasFor env sg oi r 2 1 3
          pure (r', q)) :=
  ⟨by decide, by decide, by decide, by decide, materializeOp_fc_conv .., materializeOp_conv2d_transpose ..⟩

/-! ## closed instances: the hypotheses are satisfiable, and two statements that are FALSE

A two-input FULLY_CONNECTED `y = fc(x, w)` (no bias) and a RESHAPE `y = reshape(x, s)` over the tensors
`x : [1,2]` (runtime), `w : [2,2] = [[1,-2],[3,4]]` (constant), `s` (int32 constant), `c : [1,2] = [1,-3]`
(constant); 8-bit asymmetric per-tensor activations, 8-bit symmetric CHANNELWISE weights, integer
compute; calibrated statistics `x ∈ [-1, 3]`, `y ∈ [-2, 2]`.  All evaluations are by kernel
computation (`decide +kernel`: exact rational arithmetic with the model's float32 rounding). -/
namespace Ex

def tx : Tensor := { name := "x", dtype := 0, shape := [1, 2], buffer := 0 }
def tw : Tensor := { name := "w", dtype := 0, shape := [2, 2], buffer := 1 }
def ty : Tensor := { name := "y", dtype := 0, shape := [1, 2], buffer := 2 }
def ts : Tensor := { name := "s", dtype := 2, shape := [2], buffer := 3 }
def tc : Tensor := { name := "c", dtype := 0, shape := [1, 2], buffer := 4 }
def opFC : Op := { code := 0, inputs := [0, 1, -1], outputs := [2] }
def opFCc : Op := { code := 0, inputs := [4, 1, -1], outputs := [2] }
def opRS : Op := { code := 1, inputs := [0, 3], outputs := [2] }
def sg : Subgraph := { tensors := [tx, tw, ty, ts, tc], ops := [opFC], inputs := [0], outputs := [2] }
def env : Env :=
  { model := { subgraphs := [sg], buffers := [none, some (.inl 0), none, some (.inl 1), some (.inl 2)],
               opcodes := [9, 22], sigs := [] },
    consts := [(1, [1, -2, 3, 4]), (4, [1, -3])], adjY := [] }
def dW : Arr Rat := ⟨[2, 2], [1, -2, 3, 4]⟩
def tcA : TCfg := { bits := 8, symmetric := false, gran := .tensorwise }
def tcW : TCfg := { bits := 8, symmetric := true, gran := .channelwise }
def tcWT : TCfg := { bits := 8, symmetric := true, gran := .tensorwise }
def tcAC : TCfg := { bits := 8, symmetric := false, gran := .channelwise }
/-- static-range, per-channel weights -/
def cfg : OpCfg := { act := some tcA, weight := some tcW, cp := .integer }
/-- dynamic-range / weight-only, per-tensor weights -/
def cfgT : OpCfg := { act := none, weight := some tcWT, cp := .integer }
/-- static-range with a CHANNELWISE *activation* config (not in the shipped policy) -/
def cfgAC : OpCfg := { act := some tcAC, weight := some tcW, cp := .integer }
def oiFC : OpInfo := { sgIdx := 0, op := opFC, opName := "FULLY_CONNECTED", opId := 0, cfg := cfg }
def oiFCc : OpInfo := { sgIdx := 0, op := opFCc, opName := "FULLY_CONNECTED", opId := 0, cfg := cfg }
def oiT : OpInfo := { sgIdx := 0, op := opFC, opName := "FULLY_CONNECTED", opId := 0, cfg := cfgT }
def oiAC : OpInfo := { sgIdx := 0, op := opFC, opName := "FULLY_CONNECTED", opId := 0, cfg := cfgAC }
def oiRS : OpInfo := { sgIdx := 0, op := opRS, opName := "RESHAPE", opId := 0, cfg := cfg }
def f32 (s : List Nat) (l : List Rat) : FArr := ⟨⟨s, l⟩, .f32⟩
def qsvs : Qsvs := [("x", some (f32 [1, 1] [-1], f32 [1, 1] [3])), ("y", some (f32 [1, 1] [-2], f32 [1, 1] [2]))]

/-- reference parameters of `x ∈ [-1, 3]`, 8 bits asymmetric: scale `fl32(4/255)`, zero point `-64` -/
def qpX : QParams :=
  { bits := 8, qdim := none, scale := f32 [1, 1] [8421505 / 536870912], zp := ⟨⟨[1, 1], [-64]⟩, 8⟩, symmetric := false }
/-- reference parameters of `w`, 8 bits symmetric, per channel along dimension 0:
    scales `fl32(2/127)`, `fl32(4/127)`, zero points 0 -/
def qpW : QParams :=
  { bits := 8, qdim := some 0, scale := f32 [2, 1] [2113665 / 134217728, 2113665 / 67108864],
    zp := ⟨⟨[2, 1], [0, 0]⟩, 8⟩, symmetric := true }
def qW : IArr := ⟨⟨[2, 2], [64, -127, 95, 127]⟩, 8⟩

/-! ### 1. activation -/

theorem x_ref : refParams 8 false none (f32 [1, 1] [-1]) (f32 [1, 1] [3]) = .ok qpX := by decide +kernel

theorem x_request : wrapper env qsvs oiFC tx true none = .ok (srqReq "x" 0 true false (some (.uniform qpX none))) := by
  decide +kernel

/-- the hypotheses of `act_params_reference` hold here, and its right-hand side is the computed request -/
example : wrapper env qsvs oiFC tx true none = .ok (srqReq "x" 0 true false (some (.uniform qpX none))) :=
  (act_params_reference env qsvs oiFC tx true tcA _ (by decide) (by decide) rfl (by decide)).2
    ⟨_, _, qpX, by decide, x_ref, rfl⟩

theorem x_ordered : StatsOrdered (f32 [1, 1] [-1]) (f32 [1, 1] [3]) :=
  ⟨rfl, fun k => by
    cases k with
    | zero => decide
    | succ n => exact le_refl _⟩

/-- … and those of `act_params_wellformed` -/
example : WellFormed 8 false qpX := by
  obtain ⟨qp, hr, hp, hwf, _⟩ := act_params_wellformed env qsvs oiFC tx true tcA _ (f32 [1, 1] [-1]) (f32 [1, 1] [3])
    (by decide) (by decide) rfl (by decide) (by decide) (by decide) (by decide) (by decide) x_ordered x_request
  have : qp = qpX := (Except.ok.inj (x_ref.symm.trans hp)).symm
  exact this ▸ hwf

/-- missing statistics: `ValueError` -/
example : wrapper env [] oiFC tx true none = .error .valueError :=
  act_params_missing env [] oiFC tx true tcA (by decide) rfl (.inl (by decide))

/-! ### 2. weight -/

theorem w_stats : initMinMax env oiFC tw dW = .ok (f32 [2, 1] [-2, 3], f32 [2, 1] [1, 4]) := by decide +kernel

theorem w_ref : refParams 8 true (some 0) (f32 [2, 1] [-2, 3]) (f32 [2, 1] [1, 4]) = .ok qpW := by decide +kernel

theorem w_quantized : uniformQuantize ⟨dW, .f32⟩ qpW = .ok qW := by decide +kernel

theorem w_request :
    wrapper env qsvs oiFC tw true none = .ok (srqReq "w" 0 true true (some (.uniform qpW (some qW)))) := by
  decide +kernel

/-- the hypotheses of `weight_params_reference` hold here, and its right-hand side is the computed request -/
example : wrapper env qsvs oiFC tw true none = .ok (srqReq "w" 0 true true (some (.uniform qpW (some qW)))) :=
  (weight_params_reference env qsvs oiFC tw true tcW dW _ (by decide) (by decide)).2
    ⟨_, _, some 0, qpW, qW, w_stats, by decide, w_ref, by decide, w_quantized, mkReq_srq _ _ _ _ _ (by decide)⟩

/-- … and those of `weight_params_shape`: two channels along dimension 0 -/
example : WellFormed 8 true qpW ∧ qpW.scale.arr.data.length = 2 ∧ channels dW.shape (some 0) = 2 := by
  obtain ⟨hwf, _, _, _, _, hl, _⟩ := weight_params_shape env oiFC tw tcW dW _ _ (some 0) qpW (by decide) (by decide)
    (by intro a h; cases h; decide) (by decide) (by decide) w_stats (by decide) w_ref
  exact ⟨hwf, by decide, by decide⟩

/-- what calibration records for `w` under this op is what materialisation recomputes -/
example : initMinMax env oiFC tw dW = .ok (f32 [2, 1] [-2, 3], f32 [2, 1] [1, 4]) :=
  calibrated_stats_recomputed env oiFC tw dW _ (by decide) (by decide) (by decide +kernel)

/-! ### 4. same-as-input: RESHAPE shares the operand's parameter object -/

theorem reshape_requests :
    standardOp env sg qsvs oiRS .sameAsInput [1] [] =
      .ok ([srqReq "x" 0 true false (some (.uniform qpX none)), noQuantReq "s" 0 true,
            srqReq "y" 0 false false (some (.uniform qpX none))],
           [("x", some (f32 [1, 1] [-1], f32 [1, 1] [3])), ("y", some (f32 [1, 1] [-1], f32 [1, 1] [3]))]) := by
  decide +kernel

/-! ### regression for defect D36: stale weight statistics no longer override the configured granularity

The statistics dictionary holds the per-channel min/max of `w` (as calibration under a CHANNELWISE
recipe records them), the op is then materialised under a TENSORWISE weight config.  Before the
repair the request had no quantized dimension but *two* scales (on the Python library:
`single_depthwise_conv2d_bias.tflite` calibrated under CHANNELWISE and quantized under TENSORWISE
weights got 3 scales with `quantized_dimension = 0`, which the runtime rejects).  Now the entry is
ignored: one scale `fl32(4/127)`, no quantized dimension — the same request as with an empty
dictionary. -/

def qsvsStale : Qsvs := [("w", some (f32 [2, 1] [-2, 3], f32 [2, 1] [1, 4]))]

/-- reference parameters of `w`, 8 bits symmetric, per tensor: `max |w| = 4` -/
def qpWT : QParams :=
  { bits := 8, qdim := none, scale := f32 [1, 1] [2113665 / 67108864], zp := ⟨⟨[1, 1], [0]⟩, 8⟩, symmetric := true }
def qWT : IArr := ⟨⟨[2, 2], [32, -64, 95, 127]⟩, 8⟩

theorem stale_stats_ignored :
    tcfgOf env oiT tw = some tcWT ∧ tcWT.gran = .tensorwise ∧
    wrapper env qsvsStale oiT tw true none =
      .ok ⟨"w", none, some [⟨0, [.quantTensor], some (.uniform qpWT (some qWT))⟩]⟩ ∧
    qpWT.qdim = none ∧ qpWT.scale.arr.data.length = 1 ∧ channels dW.shape qpWT.qdim = 1 ∧
    wrapper env qsvsStale oiT tw true none = wrapper env [] oiT tw true none :=
  ⟨by decide, rfl, by decide +kernel, rfl, rfl, rfl,
   weight_request_ignores_stats env qsvsStale [] oiT tw true dW (by decide)⟩

/-- the instance of `weight_params_reference` for the stale dictionary: per-tensor statistics
    `[-2, 4]` recomputed from the data -/
example : ∃ mn mx qp q, initMinMax env oiT tw dW = .ok (mn, mx) ∧ mn.arr.data = [-2] ∧ mx.arr.data = [4] ∧
    refParams 8 true none mn mx = .ok qp ∧ uniformQuantize ⟨dW, .f32⟩ qp = .ok q := by
  obtain ⟨mn, mx, qdim, qp, q, h1, h2, h3, _, h5, _⟩ :=
    (weight_params_reference env qsvsStale oiT tw true tcWT dW _ (by decide) (by decide)).1 stale_stats_ignored.2.2.1
  have e : initMinMax env oiT tw dW = .ok (f32 [1, 1] [-2], f32 [1, 1] [4]) := by decide +kernel
  rw [e] at h1
  cases h1
  have : qdim = none := by
    have : refQDim env oiT tcWT (some dW) = .ok none := by decide
    rw [this] at h2; cases h2; rfl
  subst this
  exact ⟨_, _, qp, q, e, rfl, rfl, h3, h5⟩

/-! ### FALSE: "per-channel parameters appear only on a weight operand"

`wrapper` chooses the weight config for *every* constant operand of a weight-only / dynamic-range op:
a FULLY_CONNECTED whose data operand is the constant `c` gets per-channel parameters (quantized
dimension 0) on its data operand too. -/
theorem const_data_operand_per_channel :
    ∃ rs qs' r qp dat, materializeOp env sg qsvs oiFCc Tables.algMinMax "materialize_fc_conv" = .ok (rs, qs') ∧
      rs[0]? = some r ∧ r.name = "c" ∧ reqParam0 r = .ok (some (.uniform qp dat)) ∧ qp.qdim = some 0 := by
  refine ⟨[srqReq "c" 0 true true (some (.uniform
      { bits := 8, qdim := some 0, scale := f32 [1, 1] [6340995 / 268435456], zp := ⟨⟨[1, 1], [0]⟩, 8⟩, symmetric := true }
      (some ⟨⟨[1, 2], [42, -127]⟩, 8⟩))),
    srqReq "w" 0 true true (some (.uniform qpW (some qW))),
    srqReq "y" 0 false false (some (.uniform
      { bits := 8, qdim := none, scale := f32 [1, 1] [8421505 / 536870912], zp := ⟨⟨[1, 1], [-1]⟩, 8⟩, symmetric := false } none))],
    qsvs, _, _, _, by decide +kernel, rfl, rfl, rfl, rfl⟩

/-! ### why `ActPerTensor` is assumed: a CHANNELWISE activation config puts a quantized dimension on a
runtime tensor (with per-tensor statistics: one scale) -/
theorem channelwise_activation_witness :
    wrapper env qsvs oiAC tx true none = .ok (srqReq "x" 0 true false (some (.uniform { qpX with qdim := some 0 } none))) := by
  decide +kernel

end Ex

end C04
